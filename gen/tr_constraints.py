"""tdda/constraints constants -> Coq: MAX_CATEGORIES, SIGNS, PRECISIONS, STANDARD_FIELD_CONSTRAINTS, EPSILON_DEFAULT."""
import ast


def _find_assign(tree, name, Fail):
    hits = [n for n in tree.body if isinstance(n, ast.Assign) and len(n.targets) == 1
            and isinstance(n.targets[0], ast.Name) and n.targets[0].id == name]
    if len(hits) != 1:
        raise Fail('%s: expected exactly one module-level assignment, found %d' % (name, len(hits)))
    return hits[0].value


def _str_tuple(node, name, Fail):
    if not (isinstance(node, (ast.Tuple, ast.List)) and all(isinstance(e, ast.Constant)
            and isinstance(e.value, str) for e in node.elts)):
        raise Fail('%s is not a tuple of string literals' % name)
    return [e.value for e in node.elts]


def generate(parse, coq_str, Fail):
    bc = parse('tdda/constraints/baseconstraints.py')
    mc = _find_assign(bc, 'MAX_CATEGORIES', Fail)
    if not (isinstance(mc, ast.Constant) and isinstance(mc.value, int)):
        raise Fail('MAX_CATEGORIES is not an integer literal')
    base = parse('tdda/constraints/base.py')
    signs = _str_tuple(_find_assign(base, 'SIGNS', Fail), 'SIGNS', Fail)
    precs = _str_tuple(_find_assign(base, 'PRECISIONS', Fail), 'PRECISIONS', Fail)
    sfc = _find_assign(base, 'STANDARD_FIELD_CONSTRAINTS', Fail)
    if ast.unparse(sfc) != 'tuple(CONSTRAINT_SUFFIX_MAP.keys())':
        raise Fail('STANDARD_FIELD_CONSTRAINTS is no longer tuple(CONSTRAINT_SUFFIX_MAP.keys())')
    csm = _find_assign(base, 'CONSTRAINT_SUFFIX_MAP', Fail)
    if not (isinstance(csm, ast.Call) and ast.unparse(csm.func) == 'OrderedDict' and len(csm.args) == 1
            and isinstance(csm.args[0], (ast.Tuple, ast.List))):
        raise Fail('CONSTRAINT_SUFFIX_MAP is not OrderedDict((...))')
    std = []
    for e in csm.args[0].elts:
        if not (isinstance(e, ast.Tuple) and isinstance(e.elts[0], ast.Constant)):
            raise Fail('CONSTRAINT_SUFFIX_MAP entry is not a literal pair')
        std.append(e.elts[0].value)
    eps = _find_assign(base, 'EPSILON_DEFAULT', Fail)
    if not (isinstance(eps, ast.Constant) and isinstance(eps.value, (int, float))):
        raise Fail('EPSILON_DEFAULT is not a numeric literal')
    out = ['(* tdda/constraints *)',
           'Definition gen_max_categories : Z := %d%%Z.' % mc.value,
           'Definition gen_signs : list (list Z) := [%s].' % '; '.join(coq_str(s) for s in signs),
           'Definition gen_precisions : list (list Z) := [%s].' % '; '.join(coq_str(s) for s in precs),
           'Definition gen_standard_field_constraints : list (list Z) := [%s].' % '; '.join(coq_str(s) for s in std),
           'Definition gen_epsilon_default_hex : list Z := %s.' % coq_str(float(eps.value).hex())]
    return '\n'.join(out) + '\n'
