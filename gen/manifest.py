"""Writes MANIFEST.json from the table below (keeps it valid and current)."""
import json
import os

VERIF = os.path.dirname(os.path.dirname(os.path.abspath(__file__)))

MODELLED = ('Trusted: Coq 8.16.1 kernel (no axioms: every theorem in coq/Props/%s.v prints "Closed under the '
            'global context"), extraction with ExtrOcamlBasic only, ocaml/driver.ml, gen/extract_consts.py, '
            'the Python harness abstraction/canonicalisation. ')

CHECKS = {
    'C17': dict(
        text='Theorems over the model of the flag -> keyword translation (each contradictory pair of discover / verify / detect options <-> exit 1, the documented '
             'defaults for per-constraint flags and output fields, pass-through of the rest); the model is compared with '
             'the real verify_flags/detect_flags on every flag combination (exhaustive). End to end, tdda discover / '
             'verify / detect are run as subprocesses on generated CSV and parquet files (incl. stdin) and compared with '
             'the library on the frame loaded from the same file; error invocations must exit non-zero and leave nothing.',
        note='partial: agreement of the two code paths on real files (pandas/pyarrow loading and saving, argparse, '
             'process exit) is differential testing, not a theorem.',
        technique='Coq proof (flag table by case analysis) + exhaustive correspondence with flags.py + subprocess '
                  'differential runs',
        design='7 C17'),
    'C08': dict(
        text='Theorems: closure of the shared discovery/verification logic (as C01), the SQL string-literal quoting '
             'round trip for every expression text, and for each perturbation class (beyond min/max, wrong sign, '
             'shorter/longer string, extra null, duplicate) that one added violating row falsifies the verifier. Real '
             'SQLite tables (quotes, backslashes, unicode, all-null, empty) are discovered and verified, then every '
             'single-row perturbation is applied and must be reported for its constraint.',
        note='SQLite\'s evaluation of the generated SQL and the type-name mapping are not modelled; the new-category and '
             'unmatched-string perturbations are covered by the run-time oracle only.',
        technique='Coq proof (closure, sql_literal_roundtrip, perturbation corollaries of the C02 iff-theorems) + '
                  'perturbation oracle on real SQLite tables',
        design='7 C08'),
    'C09': dict(
        text='Theorems at the dictionary level for any value type (write-load-write idempotent, unknown kinds and # keys '
             'inert, written form depends only on the surviving kind->value map; kind list regenerated from the source) and '
             'at the level of the TEXT: Constraints/Json.v models json.dumps(indent=4, ensure_ascii=False), strip_lines and '
             'the strict json.loads scanner, and it is proved - for every JSON value of any depth, every string over any '
             'code points, every number token - that loads(to_json(v)) = v, that no line of the text ends in whitespace, '
             'and that a loaded constraint set written and re-read serialises to the identical text. The model printer is '
             'compared with to_json on every written dictionary and on random values, the model parser with json.loads on '
             'those texts and on damaged / hand-written variants; 1-3 real write/load cycles; verdicts via dict / path / '
             're-serialised text on generated data.',
        note='the VALUE of a number token (int()/float()/float.__repr__) and the text of dates (str(datetime), get_date) are '
             'CPython\'s / tdda\'s: exercised by the round-trip oracle, not modelled; known finding: date-only bounds are '
             're-written with a time.',
        technique='Coq proof (JSON printer/parser round trip by induction on values; dump/load key algebra) + print/parse '
                  'correspondence with CPython json on every written text + round-trip oracle',
        design='7 C09'),
    'C06': dict(
        text='Theorems over the model of the detection pass: a flag column exists exactly for the constraints that plain '
             'verification fails; per kind the flag is false exactly on the violating records (min/max, type -> all, '
             'max_nulls -> the nulls, no_duplicates -> every member of a duplicated group; nulls flagged false only by '
             'type/null-count rules); each record count equals its number of false flags; passing + failing = rows; an '
             'output file exists afterwards iff something failed; at dataset level no flag column is produced iff '
             'verification of the same fields counts no failure. detect_df on generated pairs (flags, n_failures, '
             'counts, output frame and CSV/parquet file, in_place, stale files) is compared with the extracted model '
             'and with a per-record statement of each constraint.',
        note='pandas vector comparisons and file writing are not modelled; known finding: default repair=True '
             'rewrites the caller\'s column dtype.',
        technique='Coq proof (flag_false_iff per kind, nfail/partition invariants) + extracted-model correspondence '
                  'with detect_df',
        design='7 C06'),
    'C01': dict(
        text='Theorem closure: for every well-typed abstract column (any length, null pattern, values incl. +-inf), '
             'strict or sloppy, any epsilon, every constraint produced by the discovery rules verifies on that column '
             '(rex relative to C03); dataset level, for any number of fields and records: verification counts no failure '
             'and detection produces no flag column, flags no record and writes no file (C01_dataset_no_failures, '
             'C01_detect_no_failing_records). The model is tied to tdda by the C02/C07 correspondence layers and here by '
             'end-to-end runs discover_df -> {dict, .tdda file} -> verify_df/detect_df x repair on/off on generated frames.',
        note='pandas aggregation/dtype inference, .tdda file I/O and rexpy are modelled or oracles; dtype classes that '
             'tdda does not classify as a recognised type under pandas 3 are recorded findings.',
        technique='Coq proof (closure_proof over discovery rules and verifiers) + end-to-end differential runs',
        design='7 C01'),
    'C02': dict(
        text='One theorem per constraint kind equating the operational verifier (aggregate, then compare) with the '
             'documented meaning quantified over all non-null values (min/max for closed/open/fuzzy precision, sign, '
             'string lengths, max_nulls, no_duplicates, allowed_values, type strict/sloppy, rex over an oracle), plus missing-field, '
             'null-value, totals and independence theorems; verify_df on boundary-directed generated (frame, constraint '
             'set) pairs is compared verdict-by-verdict with the extracted model and with an independent statement of '
             'the documented meaning, including totals, to_frame() and str().',
        note='IEEE multiplication b*(1+-eps) and re.match are oracle values; pandas aggregates are validated by the '
             'correspondence, not proved; allowed_values (verdict = every non-null value is allowed; the fast path is exact by '
             'pigeonhole: C02_verify_allowed_values_spec) is stated for string columns.',
        technique='Coq proof (verify_*_spec iff-theorems over exact-integer reals) + extracted-model correspondence '
                  'with verify_df',
        design='7 C02'),
    'C07': dict(
        text='Theorems that each discovery rule reports the exact statistic: min/max are members and bounds of the '
             'data, lengths are attained extremes, the sign class holds and no stronger one does, max_nulls is the null '
             'count iff 0 or 1, no_duplicates iff a string/int field has >1 non-null values all distinct, allowed_values is '
             'exactly the set of distinct strings (1..MAX_CATEGORIES of them), nothing but '
             'the type for empty data; MAX_CATEGORIES is regenerated from the source and pinned. discover_df and '
             'discover_db_table (SQLite) are compared with the extracted model and a direct statement of the property.',
        note='pandas / SQLite aggregation is not modelled (validated by correspondence on generated frames and tables); '
             'allowed_values tightness (C07_disc_allowed_values_tight) is stated for string columns.',
        technique='Coq proof (tightness of each discovery rule) + translator-pinned threshold + differential runs',
        design='7 C07'),
    'C10': dict(
        text='Theorems over a state machine (regeneration table, file system, assertions, argv parsing) that hold '
             'in every state of every history: only a regenerating step writes, and only its own reference; '
             'assertions never change the table; after argv parsing exactly the named kinds regenerate; a '
             'regenerated string/text/binary reference passes its own assertion (via the C04 theorems). Histories '
             'of real assertions on a sandbox directory are compared step by step with the extracted model, and a '
             'step oracle checks the property itself (including DataFrame/parquet assertions, relative reference names with per-object, '
             'per-kind and class-default data locations, and the pytest front end: --write KINDS / --write-all through the ref fixture).',
        note='DataFrame assertions (parquet round trip) are outside the model: oracle only. File-system and '
             'encoding behaviour is observed, not modelled.',
        technique='Coq proof (invariants over step, regen_then_passes via C04 refl/splitlines lemmas) + '
                  'history-level extracted-model correspondence',
        design='7 C10'),
    'C15': dict(
        text='Theorems over the model of check_binary_file (reported offset = first differing byte, lengths exact, '
             'for all byte strings) and of add_failures (a pass writes and names nothing; every named file is given '
             'or written; the post-processed pair exists when exclusions were in force), and of the reconstruction: for every '
             'option set, pattern oracle and texts with equally many kept lines, the two post-processed texts have the same '
             'number of lines and differ, in order, exactly at the unexcused differences '
             '(C15_postprocessed_pair_differs_exactly; for any masks and ignore lists: C15_reconstruct_differs_exactly). The '
             'reconstruction model is compared byte-for-byte with the files the real assertions write; an oracle checks the '
             'same statement on the files.',
        note='partial: for different numbers of kept lines the statement is refuted on the model (C15_different_line_counts_refuted = known finding '
             'c15-postprocessed-pair-different-line-counts) and that path is otherwise covered by correspondence and oracle only; '
             'file-system behaviour is observed (tmp dir listing, watched data dir), not modelled.',
        technique='Coq proof (binary_offset_exact, artefact-set theorems, post-processed pair differs exactly at the unexcused differences) + extracted-model correspondence on '
                  'written files + property oracle',
        design='7 C15'),
    'C04': dict(
        text='Theorems over an executable Gallina model of check_strings/wrong_content/wrong_number/can_ignore/'
             'check_patterns and the string/file entry points: verdict = Pass <-> the declarative rule of the '
             'property (for all option records, pattern oracles and line lists), identical content always passes, '
             'length mismatch and unexcused differences fail, universal-newline reading preserves the line list. '
             'The extracted model is compared with FilesComparison.check_strings and the three assertion entry '
             'points (real files) on generated near-miss pairs; an independent restatement of the rule is the oracle.',
        note='re.match on user ignore_patterns is an oracle table (computed with CPython re for every reachable '
             'substring); str.isspace/splitlines boundary tables are regenerated from the running interpreter; file '
             'I/O and encodings are modelled, validated by the entry-point layer. Known finding: pattern recursion '
             'can be unbounded (RecursionError).',
        technique='Coq proof (check_strings_spec iff, refl_passes, plain_sensitive, splitlines_univ_nl) + '
                  'extracted-model correspondence incl. reconstructions',
        design='7 C04'),
    'C16': dict(
        text='Theorem over the executable model of the CSVW date-format translation (all field lists of any length, all documented separators), with the replacement chain regenerated from the source by the translator on every run; exact-string correspondence of the extracted model with csvw_date_format_to_md_date_format; an end-to-end oracle writes typed tables with CSVW metadata and reloads them with csv2pandas.',
        note='pandas read_csv / strptime semantics of the produced format and the metadata plumbing (CSVWMetadata, to_pandas_read_csv_args) are not modelled: covered by the round-trip oracle only (partial).',
        technique='Coq proof (translate_correct by induction over the field list + blocked-replace lemma) + translator-pinned constants + differential and round-trip testing',
        design='7 C16'),
    'C19': dict(
        text='Theorems over an executable Gallina model of the argv scanner and of tag-based loading '
             '(all argv lists, all modules); the model is tied to /repo on every run by the constant '
             'translator and by differential runs of _set_flags_from_argv (in-process) and of generated '
             'test modules (subprocesses) against the extracted model; an independent oracle restating '
             'the property classifies failures.',
        note='unittest/argparse treatment of the remaining command line and Python attribute lookup '
             '(inheritance of _tagged) are modelled, not verified; validated by the subprocess layer.',
        technique='Coq proof (strip_spec, tagged_run_exact over all argv/modules) + extracted-model '
                  'correspondence with real subprocess runs',
        design='7 C19'),
    'C18': dict(
        text='Theorems over the model of rex_coverage / matrices2incremental_coverage for every table of examples, '
             'frequencies and match bits: each coverage figure is the (repeat-counting or distinct) number of examples '
             'the expression matches; the greedy incremental listing is non-increasing, lists no expression twice, '
             'credits each example to exactly the first listed expression matching it, and sums to the number of '
             'examples when every example is matched; n_examples is the sum of frequencies / number of distinct '
             'examples. The extracted model is fed the real re.match table of each generated run and compared with '
             'Extractor.coverage / incremental_coverage / full_incremental_coverage / n_examples; an independent '
             'recount with re is the oracle.',
        note='re.match on the returned expressions is an oracle table; extraction itself (which expressions are '
             'returned) belongs to C03/C13.',
        technique='Coq proof (accounting/credit invariants of the greedy loop by induction on fuel) + '
                  'extracted-model correspondence fed with the real match table',
        design='7 C18'),
    'C03': dict(
        text='Theorems over an executable Gallina model of the whole Extractor (clean, categories, coarse classification, '
             'run-length encoding, VRLEs, fragment refinement, rendering, sample / extract / check / extend loop), for every '
             'character table, option record and oracle tables. (1) One batch extraction covers its own working examples: '
             'every working example is matched, at the level of what each fragment denotes, by one of the refined patterns '
             '(C03_batch_covers; its core C03_refine_covers holds for ANY split into groups that respects the coarse '
             'fragments, so it does not depend on how re resolves ambiguous splits). (2) Whenever a run ends with a check that '
             'reported no failure, every example clean keeps is matched by a returned expression; clean discards exactly '
             'nulls, zero counts and (on request) empties; the check is complete. (3) The extend loop always ends (each unsampled '
             'pass that does not stop adds a stored string the working examples lacked: C03_loop_terminates) and when it ends '
             'every string the last check found unmatched is a working example (C03_last_failures_are_working_examples). (4) At the '
             'level of the TEXT: Rexpy/Regex.v models the regular-expression syntax rexpy writes (parser to quantified character '
             'sets incl. the (a|b) alternations of extra letters, matcher proved sound and complete); for every set of extra '
             'letters and every renderable pattern the rendered text - escaped or not, padded, with capture groups - parses '
             'and the model\'s reading accepts every string the pattern matches fragment by fragment '
             '(C03_rendered_text_matches; and only those: C03_rendered_text_exact), so each working example is matched by one of the batch\'s expressions as text '
             '(C03_batch_text_covers); the model\'s reading is compared with CPython re on every evaluated (expression, string) '
             'pair. The extracted model replays every real run '
             'from its recorded oracle tables (group splits, re.match results, random.sample choices) and must return exactly '
             'the same expressions and working examples; the oracle hypotheses of (1) are evaluated by the extracted model on '
             'every recorded split; character-level semantics, regex texts and classifications are swept against CPython re; '
             'the property itself is checked on every run.',
        note='partial: that CPython re reads the text as Regex.v does is validated by correspondence on every evaluated pair, '
             'not proved; the text theorem is about the internal (perl) rendering that the loop checks - the portable/grep '
             're-rendering is outside it (known finding on non-ASCII digits); '
             're.match, the group split and random.sample are oracle tables; pruning options and the portable/grep re-rendering '
             'are outside the loop theorem. Known finding: non-ASCII decimal digits under portable/grep.',
        technique='Coq proof (batch/refine coverage by invariants over the accumulators and (V)RLE widening; loop/check/clean '
                  'theorems) + extracted-model replay of recorded oracle tables with executable hypothesis checks + code-point '
                  'sweeps + coverage oracle',
        design='7 C03'),
    'C13': dict(
        text='Theorems over the Extractor model: every returned expression is ^...$, there are never more expressions than '
             'stored distinct working examples, nothing is returned when clean keeps nothing, the fragments chosen do not '
             'depend on the tag option and a tagged fragment is the untagged one inside one capturing group; each refined pattern '
             'matches one of the working examples fragment by fragment (C13_each_matches_some) and as TEXT, for every set of '
             'extra letters: every expression of a batch parses in the modelled syntax (Rexpy/Regex.v) and the model\'s '
             'reading of it accepts one of the working examples (C13_text_each_matches_some); the tagged and untagged texts '
             'of a pattern accept the same strings (C13_tag_same_language). For the max_patterns / min_strings_per_pattern '
             'settings: pruning only removes, every kept expression counts at least min_strings_per_pattern strings (exactly those '
             'when max_patterns is unset) and at most max_patterns remain (C13_pruning_*); every such run is also compared with the '
             'same run without the settings. The extracted '
             'model replays every real run (exact expressions); each returned expression is compiled, checked for anchoring, '
             'for matching an example, for duplicates and count; every run is repeated with tagging flipped and both '
             'results are compared on the examples and near-miss probes.',
        note='partial: "no expression twice" is decided by the run-time oracle and the replay, not by a theorem; that CPython re reads the text as Regex.v does is validated by '
             'correspondence on every evaluated pair, not proved.',
        technique='Coq proof (shape/count/tagging/matches-an-example theorems over the Extractor and regex-text models) + extracted-model replay + regex-model correspondence with CPython re + expression oracle',
        design='7 C13'),
    'C14': dict(
        text='Theorems over the executable model of the whole Extractor: (1) for every character table, option set, oracle '
             'tables and sample selections, when the distinct strings do not exceed do_all_exceptions (4000 by default, so '
             'nothing is sampled) any reordering of the input items gives the same list of expressions '
             '(C14_run_order_independent); repeating an example any number of times changes nothing, and a list gives what any '
             'frequency dictionary with the same non-zero keys gives (C14_run_repeat_independent, C14_run_list_or_dict; no '
             'pruning option). These rest on: clean is a counter (C14_clean_order_independent), the coarse patterns are a '
             'function of the set of encodings (canonical sort), expand_or_falsify commutes and each per-fragment accumulator '
             'is seen by the refinement only through an order-independent view (C14_batch_order_independent; needs '
             'max_strings_in_group >= 1, with a counterexample for 0). (2) Generator protocol, for any generator: with a seed '
             'the global state after the call equals the state before it and the states samples are drawn from depend on the '
             'seed only. The model predicts the exact getstate/seed/sample/setstate call sequence of every real run and '
             'replays every run; reordering, list-vs-dictionary, repeated calls, repeated examples, seeded reproducibility '
             '(forced sampling and >4000-string inputs) and the generator state are also checked directly, as are the other ways in: '
             'encoded examples (extract(..., encoding=)), rexpy_streams on the caller\'s own list, Series, and calls that share one '
             'caller-owned Size object.',
        note='partial: under sampling (more distinct strings than do_all_exceptions, or small Size settings) the sample '
             'drawn depends on the stored order, so only seeded reproducibility and the generator protocol are claimed there; '
             'the regex memo is not modelled (repeat-call checks are run-time); random is CPython\'s.',
        technique='Coq proof (whole-run order / multiplicity / list-vs-dict independence without sampling; generator protocol) '
                  '+ extracted-model replay + call-trace correspondence + reordering/reproducibility oracle',
        design='7 C14'),
    'C05': dict(
        text='Theorems over a model of PandasComparison.check_dataframe for all frames, option records (None/False/list per '
             'check) and type-matching levels: whenever every selected column is a reference column the comparison returns a '
             'verdict (never an internal error), and the verdict is "same" exactly when the type-checked columns exist with '
             'matching types, no checked extra column exists, the relative order of the order-checked columns agrees, the row '
             'counts agree and every value-checked column agrees cell by cell, nulls equal to nulls; a copy always passes; a '
             'missing/renamed, retyped, extra or moved column, a different row count or one differing checked value always '
             'fails. check_dataframe on generated reference/mutant pairs x option shapes x level x precision is compared '
             'component by component with the extracted model, types_match on all pairs of dtype names, and an independent '
             'statement of the property decides every case incl. the assert* entry points with sortby / condition / parquet.',
        note='partial: cell equality is relative to an oracle (pandas round() and eq decide the tokens the model compares); '
             'sort_values, the condition filter and parquet/CSV loading are applied by pandas before abstraction. Known finding: '
             'object columns holding pd.NA make pandas raise inside Series.eq.',
        technique='Coq proof (check_dataframe_spec iff, copy_passes, difference_fails) + extracted-model correspondence + '
                  'verdict oracle over mutation kinds and entry points',
        design='7 C05'),
    'C11': dict(
        text='Theorems over models of the logic core of gentest: the date detector gives an exact verdict for every number '
             'triple (no ValueError path), quote_raw writes every $-terminated pattern as a raw literal that the Python lexer '
             'reads back as that pattern, no two generated tests share a name or take a fixed test\'s name, every generated '
             'check passes when the command behaves as it did (for every derived ignore-substring set, via the C04 theorems), '
             'and generation deletes only files inside the reference directory and the old script. The real tdda gentest is run '
             'on generated deterministic commands in sandbox directories: generation must succeed, the script must compile and '
             'pass straight afterwards, and every pre-existing file must survive unchanged; the model layers are compared with '
             'is_date_like, quote_raw (+ CPython\'s literal evaluation) and TestGenerator.test_name.',
        note='partial: process execution, chardet file typing, ctime snapshots and the file system are observed by the harness, '
             'not modelled; the repr() fallback of quote_raw and the host/user/date substring discovery are exercised, not proved.',
        technique='Coq proof (date detector spec, raw-literal round trip, distinct test names, unchanged-passes via C04) + '
                  'model/implementation correspondence on the unit layers + sandboxed end-to-end gentest runs',
        design='7 C11'),
    'C12': dict(
        text='Theorems over the model of the generated test (exit status, stdout, stderr and one text/binary check per output '
             'file, with the exclusions generated for a repeatable command): a different exit status, an unexcused change of a '
             'stream or text file (different line count, or a line differing from a reference line that holds no generated '
             'ignore-substring), any different byte of a binary file and a missing file each fail the check of exactly that '
             'aspect, and all checks whose inputs did not change still pass. After real gentest runs the command is rewritten to '
             'change one aspect at a time and the generated script is re-run: the failing tests must be exactly the test of that '
             'aspect; the extracted model, given the substrings found in the script, predicts every test outcome.',
        note='partial: as C11 (process execution, file typing and unittest are observed, not modelled).',
        technique='Coq proof (changed_* theorems via the C04 unexcused/length theorems, unaffected checks pass) + extracted-model '
                  'prediction of every generated test outcome + sandboxed end-to-end mutation runs',
        design='7 C12'),
}

NOT_YET = {}


def main():
    props = [json.loads(l) for l in open(os.path.join(VERIF, 'properties.jsonl'))]
    checks = []
    na = []
    for p in props:
        pid = p['id']
        if pid in CHECKS:
            c = CHECKS[pid]
            checks.append({
                'property_id': pid,
                'quick_cmd': 'bin/check %s quick' % pid,
                'thorough_cmd': 'bin/check %s thorough' % pid,
                'evidence_file': 'evidence/%s.json' % pid,
                'replay_cmd_template': 'bin/check %s --replay {path}' % pid,
                'engine': 'coq-model',
                'level_claimed': {'category': 'proof', 'text': c['text'], 'design_ref': c['design']},
                'level_note': (MODELLED % pid) + c['note'],
                'technique': c['technique'],
            })
        else:
            na.append({'property_id': pid,
                       'reason': NOT_YET.get(pid, 'not claimed yet: model, theorems and correspondence '
                                                  'harness for this property are still being built '
                                                  '(see DESIGN.md section 7); no check is registered')})
    man = {
        'version': 1,
        'setup_cmd': 'bin/setup',
        'hooks': {'guard': 'TDDA_VERIF', 'enable': 'no hooks are needed: checks observe tdda from outside '
                  '(bin/check exports TDDA_VERIF=1 for uniformity)',
                  'baseline_off_cmd': 'cd /repo && /venv/bin/python -m pytest -ra -q -p no:cacheprovider '
                                      '--timeout=900 --continue-on-collection-errors',
                  'source_commits': [], 'add_only': True},
        'engines': [{'name': 'coq-model', 'path': 'coq/', 'serves_properties': sorted(CHECKS),
                     'kind_free_text': 'Coq 8.16.1 development (models, proofs, Props/Cxx.v theorem files), '
                                       'extracted to OCaml and run against tdda by harness/'}],
        'checks': checks,
        'notes': 'bin/check <id> quick|thorough rebuilds (translator, make, extraction) from the current '
                 '/repo tree, re-checks coq/Props/<id>.v and runs the correspondence + oracle harness. '
                 'VERIF_SEED seeds the single PRNG. known_findings.json lists recorded defects and fixes.',
        'not_applicable': na,
    }
    with open(os.path.join(VERIF, 'MANIFEST.json'), 'w') as f:
        json.dump(man, f, indent=1)
        f.write('\n')


if __name__ == '__main__':
    main()
