"""Character-class tables of the running interpreter (str.isspace etc.) -> Coq ranges."""
import sys


def ranges(pred):
    out = []
    start = None
    for cp in range(0x110000):
        if pred(chr(cp)):
            if start is None:
                start = cp
        elif start is not None:
            out.append((start, cp - 1))
            start = None
    if start is not None:
        out.append((start, 0x10FFFF))
    return out


def coq_ranges(name, rs):
    return 'Definition %s : list (Z * Z) := [%s]%%Z.' % (
        name, '; '.join('(%d, %d)' % r for r in rs))


def generate(parse, coq_str, Fail):
    out = ['(* character classes of the running CPython (%s) *)' % sys.version.split()[0]]
    out.append(coq_ranges('py_isspace_ranges', ranges(str.isspace)))
    out.append(coq_ranges('py_isalnum_ranges', ranges(str.isalnum)))
    out.append(coq_ranges('py_isdecimal_ranges', ranges(str.isdecimal)))
    out.append(coq_ranges('py_isdigit_ranges', ranges(str.isdigit)))
    # line boundaries of str.splitlines
    lb = [cp for cp in range(0x110000) if len(('a' + chr(cp) + 'b').splitlines()) == 2]
    out.append('Definition py_linebreaks : list Z := [%s]%%Z.' % '; '.join(str(c) for c in lb))
    return '\n'.join(out) + '\n'
