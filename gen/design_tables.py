#!/usr/bin/env python3
"""Regenerates the generated parts of DESIGN.md section 10 (findings, fixed list, seed table) from
known_findings.json and seeded/*/meta.json.  Text between the BEGIN/END markers is replaced."""
import glob
import json
import os
import re

ROOT = os.path.dirname(os.path.dirname(os.path.abspath(__file__)))


def cut(s, n):
    s = ' '.join(str(s).split())
    return s if len(s) <= n else s[:n - 3] + '...'


def findings_block():
    d = json.load(open(os.path.join(ROOT, 'known_findings.json')))
    out = ['Recorded, not repaired (`known_findings.json`, printed as KNOWN-FINDING while they still reproduce):', '']
    for f in d['findings']:
        out.append('* `%s` (%s): %s' % (f.get('id'), f.get('property'), cut(f.get('what') or f.get('description') or '', 330)))
    out += ['', 'Repaired with one unguarded `fix:` commit each in /repo (the suite\'s stable tests still pass; several previously',
            'failing tests now pass).  `known_findings.json` lists them as `fixed:`; a fixed entry suppresses nothing:', '']
    for line in d['fixed']:
        out.append('* ' + cut(line.replace('fixed: ', '', 1), 420))
    return '\n'.join(out)


def seeds_block():
    rows = ['| seed | change | caught by |', '|------|--------|-----------|']

    def key(p):
        m = re.match(r'C(\d+)-m(\d+)', os.path.basename(os.path.dirname(p)))
        return (int(m.group(1)), int(m.group(2)))
    for p in sorted(glob.glob(os.path.join(ROOT, 'seeded', '*', 'meta.json')), key=key):
        m = json.load(open(p))
        name = os.path.basename(os.path.dirname(p))
        rows.append('| %s | %s | %s |' % (name, cut(m.get('summary', ''), 230).replace('|', '/'),
                                           cut(m.get('detected_by', ''), 330).replace('|', '/')))
    return '\n'.join(rows)


def main():
    p = os.path.join(ROOT, 'DESIGN.md')
    s = open(p).read()
    for tag, block in (('FINDINGS', findings_block()), ('SEEDS', seeds_block())):
        a, b = '<!-- BEGIN %s -->' % tag, '<!-- END %s -->' % tag
        i, j = s.index(a) + len(a), s.index(b)
        s = s[:i] + '\n' + block + '\n' + s[j:]
    open(p, 'w').write(s)


if __name__ == '__main__':
    main()
