"""Constants of referencetestcase._set_flags_from_argv -> Coq."""
import ast


def generate(parse, coq_str, Fail):
    tree = parse('tdda/referencetest/referencetestcase.py')
    fn = [n for n in ast.walk(tree) if isinstance(n, ast.FunctionDef)
          and n.name == '_set_flags_from_argv']
    if len(fn) != 1:
        raise Fail('_set_flags_from_argv not found exactly once')
    fn = fn[0]
    loops = [n for n in fn.body if isinstance(n, ast.For)]
    if len(loops) != 5:
        raise Fail('_set_flags_from_argv: expected 5 top-level for loops, found %d' % len(loops))
    # loop 0: single-dash flag characters
    chars = {}
    for n in ast.walk(loops[0]):
        if isinstance(n, ast.If) and isinstance(n.test, ast.Compare) \
                and isinstance(n.test.left, ast.Name) and n.test.left.id == 'flag':
            c = n.test.comparators[0]
            if not (isinstance(c, ast.Constant) and isinstance(c.value, str) and len(c.value) == 1):
                raise Fail('flag comparison is not a one-character literal')
            tgt = [s for s in n.body if isinstance(s, ast.Assign) and isinstance(s.value, ast.Constant)
                   and s.value.value is True]
            if len(tgt) != 1 or not isinstance(tgt[0].targets[0], ast.Name):
                raise Fail('flag branch does not set exactly one boolean')
            chars[tgt[0].targets[0].id] = c.value
    if sorted(chars) != ['check', 'regenerate', 'tagged']:
        raise Fail('single-dash flags: expected regenerate/tagged/check, got %r' % chars)
    tuples = []
    for lp in loops[1:]:
        if not (isinstance(lp.iter, ast.Tuple) and all(isinstance(e, ast.Constant) and
                isinstance(e.value, str) for e in lp.iter.elts)):
            raise Fail('flag loop does not iterate over a tuple of string literals')
        tuples.append([e.value for e in lp.iter.elts])
    names = ['quiet_flags', 'writeall_flags', 'write_flags', 'tag_flags']
    out = ['(* tdda/referencetest/referencetestcase.py:_set_flags_from_argv *)']
    out.append('Definition argv_char_regen : Z := %d%%Z.' % ord(chars['regenerate']))
    out.append('Definition argv_char_tagged : Z := %d%%Z.' % ord(chars['tagged']))
    out.append('Definition argv_char_check : Z := %d%%Z.' % ord(chars['check']))
    for nm, t in zip(names, tuples):
        out.append('Definition argv_%s : list (list Z) := [%s].' % (nm, '; '.join(coq_str(s) for s in t)))
    # the option that means "check" inside the tag loop
    checks = []
    for n in ast.walk(loops[4]):
        if isinstance(n, ast.Compare) and isinstance(n.ops[0], ast.In) and \
                isinstance(n.left, ast.Name) and n.left.id == 'option' \
                and isinstance(n.comparators[0], ast.Tuple):
            checks = [e.value for e in n.comparators[0].elts]
    if not checks:
        raise Fail('tag loop: "option in (...)" test not found')
    out.append('Definition argv_check_options : list (list Z) := [%s].' % '; '.join(coq_str(s) for s in checks))
    return '\n'.join(out) + '\n'
