"""tdda/rexpy/rexpy.py constants -> Coq: UNESCAPES, MAX_GROUPS, MAX_VRLE_RANGE, N_ALIGNMENT_LEVELS,
Size defaults, the Category table (name, code, literal regex or format string) and the
IncreasinglyGeneralAlphanumerics order (with and without extra letters)."""
import ast


def _assign(tree, name, Fail):
    hits = [n for n in tree.body if isinstance(n, ast.Assign) and len(n.targets) == 1
            and isinstance(n.targets[0], ast.Name) and n.targets[0].id == name]
    if not hits:
        raise Fail('rexpy.%s: no module-level assignment' % name)
    return hits[-1].value     # the last assignment wins (VERBOSITY, DIALECTS are assigned twice)


def _lit(node, types, what, Fail):
    if isinstance(node, ast.UnaryOp) and isinstance(node.op, ast.USub):
        return -_lit(node.operand, types, what, Fail)
    if not (isinstance(node, ast.Constant) and (node.value is None or isinstance(node.value, types))):
        raise Fail('%s is not a literal' % what)
    return node.value


def generate(parse, coq_str, Fail):
    tree = parse('tdda/rexpy/rexpy.py')
    out = ['(* tdda/rexpy/rexpy.py *)']
    out.append('Definition gen_rexpy_unescapes : list Z := %s.' % coq_str(_lit(_assign(tree, 'UNESCAPES', Fail), str, 'UNESCAPES', Fail)))
    for name in ('MAX_GROUPS', 'MAX_VRLE_RANGE', 'N_ALIGNMENT_LEVELS'):
        v = _lit(_assign(tree, name, Fail), int, name, Fail)
        if v is None:
            raise Fail('%s is None' % name)
        out.append('Definition gen_rexpy_%s : Z := %d%%Z.' % (name.lower(), v))
    unichrs = _lit(_assign(tree, 'UNICHRS', Fail), bool, 'UNICHRS', Fail)
    if unichrs is not True:
        raise Fail('UNICHRS is not True: the model assumes the unicode letter classes')
    unic = _lit(_assign(tree, 'UNIC', Fail), str, 'UNIC', Fail)
    out.append('Definition gen_rexpy_unic : Z := %d%%Z.' % ord(unic))
    # CODE class
    code_cls = [n for n in tree.body if isinstance(n, ast.ClassDef) and n.name == 'CODE']
    if len(code_cls) != 1:
        raise Fail('class CODE not found')
    codes = {}
    for st in code_cls[0].body:
        if isinstance(st, ast.Assign):
            codes[st.targets[0].id] = _lit(st.value, str, 'CODE.' + st.targets[0].id, Fail)
    if set(codes) != {'ANY', 'PUNC'}:
        raise Fail('CODE has unexpected members %r' % sorted(codes))
    out.append('Definition gen_rexpy_code_any : Z := %d%%Z.' % ord(codes['ANY']))
    out.append('Definition gen_rexpy_code_punc : Z := %d%%Z.' % ord(codes['PUNC']))
    # Size defaults
    size = [n for n in tree.body if isinstance(n, ast.ClassDef) and n.name == 'Size'][0]
    init = [n for n in size.body if isinstance(n, ast.FunctionDef) and n.name == '__init__'][0]
    want = ['do_all_exceptions', 'n_per_length', 'max_sampled_attempts', 'max_punc_in_group', 'max_strings_in_group']
    got = {}
    for st in ast.walk(init):
        if isinstance(st, ast.Assign) and isinstance(st.targets[0], ast.Attribute) and \
                isinstance(st.targets[0].value, ast.Name) and st.targets[0].value.id == 'self' and \
                st.targets[0].attr in want:
            got[st.targets[0].attr] = _lit(st.value, int, 'Size.' + st.targets[0].attr, Fail)
    if set(got) != set(want):
        raise Fail('Size defaults not all literal: %r' % sorted(got))
    for k in want:
        out.append('Definition gen_rexpy_size_%s : Z := %d%%Z.' % (k, got[k]))
    # do_all defaults: 100 when sampling, DO_ALL_SIZE otherwise
    out.append('Definition gen_rexpy_do_all_size : Z := %d%%Z.' % _lit(_assign(tree, 'DO_ALL_SIZE', Fail), int, 'DO_ALL_SIZE', Fail))
    src = ast.unparse(init)
    if 'do_all = 100' not in src:
        raise Fail('Size: sampled do_all default is no longer the literal 100')
    out.append('Definition gen_rexpy_size_do_all_sampling : Z := 100%Z.')
    # Category table
    cats_cls = [n for n in tree.body if isinstance(n, ast.ClassDef) and n.name == 'Categories'][0]
    cinit = [n for n in cats_cls.body if isinstance(n, ast.FunctionDef) and n.name == '__init__'][0]
    table = []   # (attr, code, kind, text)
    for st in ast.walk(cinit):
        if isinstance(st, ast.Assign) and isinstance(st.value, ast.Call) and \
                isinstance(st.value.func, ast.Name) and st.value.func.id == 'Category':
            a = st.value.args
            if len(a) != 3 or not isinstance(st.targets[0], ast.Attribute):
                raise Fail('Category(...) call of unexpected shape')
            attr = st.targets[0].attr
            name = _lit(a[0], str, 'Category name', Fail)
            if name != attr:
                raise Fail('Category %s stored as attribute %s' % (name, attr))
            if isinstance(a[1], ast.Constant):
                code = a[1].value
            elif ast.unparse(a[1]) == 'CODE.PUNC':
                code = codes['PUNC']
            elif ast.unparse(a[1]) == 'CODE.ANY':
                code = codes['ANY']
            else:
                raise Fail('Category %s: code is not a literal' % name)
            if isinstance(a[2], ast.Constant):
                kind, text = 'lit', a[2].value
            elif isinstance(a[2], ast.BinOp) and isinstance(a[2].op, ast.Mod) and isinstance(a[2].left, ast.Constant) \
                    and ast.unparse(a[2].right) == 'el_re':
                kind, text = 'fmt_el', a[2].left.value
            elif isinstance(a[2], ast.Name) and a[2].id == 'p':
                kind, text = 'ualnum_nodigits', ''
            elif isinstance(a[2], ast.Call) and ast.unparse(a[2].func) == 'u_alpha_numeric_re':
                kind, text = 'ualnum', ast.unparse(a[2]).replace(' ', '')
            elif isinstance(a[2], ast.Call) and ast.unparse(a[2].func) == 'escaped_bracket':
                kind, text = 'punct_bracket', ast.unparse(a[2]).replace(' ', '')
            else:
                raise Fail('Category %s: regex of unexpected shape: %s' % (name, ast.unparse(a[2])))
            table.append((name, code, kind, text))
    if len(table) < 20:
        raise Fail('fewer Category definitions than expected: %d' % len(table))
    out.append('(* (name, code, kind, text): every Category(...) in Categories.__init__, in source order *)')
    out.append('Definition gen_rexpy_categories : list (list Z * Z * list Z * list Z) := [%s].' % ';\n  '.join(
        '(%s, %d%%Z, %s, %s)' % (coq_str(n), ord(c), coq_str(k), coq_str(t)) for (n, c, k, t) in table))
    # IncreasinglyGeneralAlphanumerics (UNICHRS is True)
    iga = None
    for st in ast.walk(cinit):
        if isinstance(st, ast.Assign) and isinstance(st.targets[0], ast.Attribute) and \
                st.targets[0].attr == 'IncreasinglyGeneralAlphanumerics':
            iga = st.value
    if iga is None:
        raise Fail('IncreasinglyGeneralAlphanumerics not found')
    code_of = {n: c for (n, c, k, t) in table}

    def ev(node, extras):
        env = {'UNICHRS': True,
               'ExtraLetterGroups': ['LETTER_', 'letter_', 'Letter_', 'ULetter_'] if extras else []}
        return eval(compile(ast.Expression(node), '<iga>', 'eval'), {'__builtins__': {}}, env)
    elg = [st for st in ast.walk(cinit) if isinstance(st, ast.Assign) and isinstance(st.targets[0], ast.Name)
           and st.targets[0].id == 'ExtraLetterGroups']
    if sorted(ast.unparse(e.value).replace(' ', '') for e in elg) != sorted(
            ["['LETTER_','letter_','Letter_']+(['ULetter_']ifUNICHRSelse[])", '[]']):
        raise Fail('ExtraLetterGroups assignments changed: %r' % [ast.unparse(e.value) for e in elg])
    for extras in (False, True):
        names = ev(iga, extras)
        out.append('Definition gen_rexpy_general_order_%s : list Z := [%s]%%Z.' % (
            'extras' if extras else 'plain', '; '.join(str(ord(code_of[n])) for n in names)))
    # the characters re.escape escapes in the running interpreter
    import re
    sp = sorted(re._special_chars_map)
    out.append('Definition gen_re_special_chars : list Z := [%s]%%Z.' % '; '.join(str(c) for c in sp))
    return '\n'.join(out) + '\n'
