"""tdda/serial: the .replace chain of csvw_date_format_to_md_date_format, RE_ISO8601,
CSVW_TYPE_TO_MTYPE-style tables, MTYPE_TO_PANDAS_DTYPE -> Coq."""
import ast


def _str_dict(node, Fail, what):
    if not isinstance(node, ast.Dict):
        raise Fail('%s is not a dict literal' % what)
    out = []
    for k, v in zip(node.keys, node.values):
        if not (isinstance(k, ast.Constant) and isinstance(k.value, str)
                and isinstance(v, ast.Constant) and isinstance(v.value, str)):
            raise Fail('%s has a non-literal entry' % what)
        out.append((k.value, v.value))
    return out


def generate(parse, coq_str, Fail):
    tree = parse('tdda/serial/csvw.py')
    fn = [n for n in ast.walk(tree) if isinstance(n, ast.FunctionDef)
          and n.name == 'csvw_date_format_to_md_date_format']
    if len(fn) != 1:
        raise Fail('csvw_date_format_to_md_date_format not found')
    fn = fn[0]
    body = [s for s in fn.body if not isinstance(s, ast.Expr)]
    if len(body) != 4:
        raise Fail('csvw_date_format_to_md_date_format: expected 4 statements, got %d' % len(body))
    if ast.unparse(body[0]) != "if '%' in fmt:\n    return fmt":
        raise Fail('first statement is not the "%% in fmt" guard: ' + ast.unparse(body[0]))
    asg = body[1]
    if not (isinstance(asg, ast.Assign) and ast.unparse(asg.targets[0]) == 'outfmt'):
        raise Fail('second statement is not outfmt = ...')
    chain = []
    node = asg.value
    while isinstance(node, ast.Call):
        if not (isinstance(node.func, ast.Attribute) and node.func.attr == 'replace'
                and len(node.args) == 2 and not node.keywords
                and all(isinstance(a, ast.Constant) and isinstance(a.value, str) for a in node.args)):
            raise Fail('outfmt is not a chain of .replace(lit, lit)')
        chain.append((node.args[0].value, node.args[1].value))
        node = node.func.value
    if not (isinstance(node, ast.Name) and node.id == 'fmt'):
        raise Fail('replace chain does not start from fmt')
    chain.reverse()
    if any(o == '' for o, _ in chain):
        raise Fail('empty pattern in replace chain')
    if ast.unparse(body[2]) != ("if extensions:\n    outfmt = outfmt.replace('+ZZ:zz', '%:z')"
                                ".replace('+ZZzz', '%z')"):
        raise Fail('extensions branch changed: ' + ast.unparse(body[2]))
    if ast.unparse(body[3]) != "return 'ISO8601' if re.match(RE_ISO8601, outfmt) or fmt == '' else outfmt":
        raise Fail('return statement changed: ' + ast.unparse(body[3]))
    base = parse('tdda/serial/base.py')
    iso = [n for n in base.body if isinstance(n, ast.Assign) and ast.unparse(n.targets[0]) == 'RE_ISO8601']
    if len(iso) != 1 or not isinstance(iso[0].value, ast.Constant):
        raise Fail('RE_ISO8601 literal not found')
    pio = parse('tdda/serial/pandasio.py')
    m2p = [n for n in pio.body if isinstance(n, ast.Assign)
           and ast.unparse(n.targets[0]) == 'MTYPE_TO_PANDAS_DTYPE']
    if len(m2p) != 1:
        raise Fail('MTYPE_TO_PANDAS_DTYPE not found')
    m2p = _str_dict(m2p[0].value, Fail, 'MTYPE_TO_PANDAS_DTYPE')
    out = ['(* tdda/serial/csvw.py:csvw_date_format_to_md_date_format *)']
    out.append('Definition csvw_replace_chain : list (list Z * list Z) := [%s].' %
               ';\n  '.join('(%s, %s)' % (coq_str(o), coq_str(n)) for o, n in chain))
    out.append('Definition re_iso8601_source : list Z := %s.' % coq_str(iso[0].value.value))
    out.append('Definition mtype_to_pandas_dtype : list (list Z * list Z) := [%s].' %
               ';\n  '.join('(%s, %s)' % (coq_str(k), coq_str(v)) for k, v in m2p))
    return '\n'.join(out) + '\n'
