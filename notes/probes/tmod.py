import sys, os
from tdda.referencetest import ReferenceTestCase, tag
LOG = os.environ.get('TLOG', '/tmp/probe/tlog.txt')
def log(s):
    with open(LOG, 'a') as f: f.write(s + '\n')
class A(ReferenceTestCase):
    @tag
    def test_a1(self): log('A.test_a1')
    def test_a2(self): log('A.test_a2')
@tag
class B(ReferenceTestCase):
    def test_b1(self): log('B.test_b1')
    def test_b2(self): log('B.test_b2')
class C(ReferenceTestCase):
    def test_c1(self): log('C.test_c1')
class D(A):
    def test_d1(self): log('D.test_d1')
if __name__ == '__main__':
    ReferenceTestCase.main()
