import datetime, math
from tdda.constraints.baseconstraints import BaseConstraintVerifier, BaseConstraintDiscoverer
from tdda.constraints.base import DatasetConstraints, Verification
class ListCalc:
    def __init__(self, cols): self.cols = cols   # name -> (type, [values or None])
    def is_null(self, v): return v is None or (isinstance(v, float) and math.isnan(v))
    def to_datetime(self, v): return v
    def column_exists(self, c): return c in self.cols
    def get_column_names(self): return list(self.cols)
    def get_nrecords(self): return len(next(iter(self.cols.values()))[1]) if self.cols else 0
    def types_compatible(self, x, y, colname=None):
        k = lambda v: 'number' if isinstance(v,(bool,int,float)) else 'string' if isinstance(v,str) else 'date'
        return k(x)==k(y)
    def nn(self, c): return [v for v in self.cols[c][1] if v is not None]
    def calc_tdda_type(self, c): return self.cols[c][0]
    def calc_min(self, c): return min(self.nn(c), default=None)
    def calc_max(self, c): return max(self.nn(c), default=None)
    def calc_min_length(self, c): return min((len(v) for v in self.nn(c)), default=None)
    def calc_max_length(self, c): return max((len(v) for v in self.nn(c)), default=None)
    def calc_null_count(self, c): return len(self.cols[c][1]) - len(self.nn(c))
    def calc_non_null_count(self, c): return len(self.nn(c))
    def calc_nunique(self, c): return len(set(self.nn(c)))
    def calc_unique_values(self, c, include_nulls=True): return sorted(set(self.nn(c)))
    def calc_non_integer_values_count(self, c): return sum(1 for v in self.nn(c) if v != int(v))
    def calc_all_non_nulls_boolean(self, c): return all(type(v) is bool for v in self.nn(c))
    def allowed_values_exclusions(self): return [None]
    def find_rexes(self, c, values=None, seed=None):
        from tdda import rexpy; return rexpy.extract(values if values is not None else self.nn(c))
    def calc_rex_constraint(self, c, constraint, detect=False):
        import re
        return any(not any(re.match(r, s, re.U|re.S) for r in constraint.value) for s in set(self.nn(c))) or None
class V(ListCalc, BaseConstraintVerifier):
    def __init__(self, cols, **kw): ListCalc.__init__(self, cols); BaseConstraintVerifier.__init__(self, **kw)
    def write_detected_records(self, **kw): return None
class D(ListCalc, BaseConstraintDiscoverer):
    def __init__(self, cols, **kw): ListCalc.__init__(self, cols); BaseConstraintDiscoverer.__init__(self, **kw)
cols = {'a': ('int',[1,5,None,12]), 'b': ('string',['x','yy',None,'x']), 'r': ('real',[1.5,-2.0,None,None]), 'e': ('string',[None,None,None,None])}
cs = D(cols, inc_rex=True).discover()
print(cs.to_json())
v = V(cols).verify(cs)
print(v.passes, v.failures)
c2 = DatasetConstraints(); c2.initialize_from_dict({'fields': {'a': {'min': {'value': 2, 'precision':'open'}, 'max': 12, 'sign':'positive','type':['int','real']}, 'zz': {'type':'int'}}})
v = V(cols, epsilon=0.01, type_checking='strict').verify(c2); print(dict(v.fields['a']), dict(v.fields['zz']), v.passes, v.failures)
