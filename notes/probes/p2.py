import warnings; warnings.filterwarnings('ignore')
import pandas as pd, numpy as np, datetime, traceback, json
from tdda.constraints import discover_df, verify_df, detect_df
def g(df, rex=False):
    c = discover_df(df, inc_rex=rex)
    d = c.to_dict()
    v = verify_df(df, d)
    print({k: dict(x) for k,x in d['fields'].items()})
    print(str(v))
g(pd.DataFrame({'a':pd.array(['a',None,'bcd'],dtype='string')}), rex=True)
try:
    g(pd.DataFrame({'a':pd.to_datetime(['2020-01-01 10:00:00.123456789','2021-05-05'])}))
except Exception: traceback.print_exc()
g(pd.DataFrame({'d': pd.to_datetime(['2020-01-01 10:00','2021-05-05 11:00']).tz_localize('UTC')}))
for unit in ['s','ms','us','ns']:
    try:
        g(pd.DataFrame({'a':pd.to_datetime(['2020-01-01 10:00:00','2021-05-05 01:02:03']).astype(f'datetime64[{unit}]')}))
    except Exception as e: print(unit, 'RAISED', type(e).__name__, str(e)[:100])
