import warnings; warnings.filterwarnings('ignore')
import os, io, contextlib, sqlite3, datetime
from tdda.constraints import discover_db_table, verify_db_table
from tdda.constraints.db.drivers import DBConnector, database_connection_sqlite
def mk(ddl, rows):
    if os.path.exists('t.db'): os.remove('t.db')
    conn = database_connection_sqlite(None,None,'t.db',None,None)
    conn.execute(ddl); conn.executemany('INSERT INTO t VALUES (?)', [(r,) for r in rows]); conn.commit()
    return DBConnector(conn, None, database='t.db')
cases = [
 ('int', 'CREATE TABLE t (c INTEGER)', [3,-1,7,7,None]),
 ('int_allnull', 'CREATE TABLE t (c INTEGER)', [None,None]),
 ('int_empty', 'CREATE TABLE t (c INTEGER)', []),
 ('real', 'CREATE TABLE t (c REAL)', [1.5,-2.25,None]),
 ('real_whole', 'CREATE TABLE t (c REAL)', [1.0,2.0]),
 ('real_zero', 'CREATE TABLE t (c REAL)', [0.0,0.0]),
 ('text', 'CREATE TABLE t (c TEXT)', ['a','bb',None,'a']),
 ('text_uni', 'CREATE TABLE t (c TEXT)', ['é','日本','😀x','']),
 ('text_quote', 'CREATE TABLE t (c TEXT)', ["it's","x'y"]),
 ('text_dq', 'CREATE TABLE t (c TEXT)', ['a"b','c"d']),
 ('text_nl', 'CREATE TABLE t (c TEXT)', ['a\nb','c\nd']),
 ('text_digits', 'CREATE TABLE t (c TEXT)', ['12','7']),
 ('varchar', 'CREATE TABLE t (c VARCHAR)', ['a','bb']),
 ('varchar20', 'CREATE TABLE t (c VARCHAR(20))', ['a','bb']),
 ('boolean', 'CREATE TABLE t (c BOOLEAN)', [True,False,None]),
 ('boolean_true', 'CREATE TABLE t (c BOOLEAN)', [True,True]),
 ('datetime', 'CREATE TABLE t (c DATETIME)', ['2020-01-01 10:00:00','2021-05-05 01:02:03',None]),
 ('datetime_frac', 'CREATE TABLE t (c DATETIME)', ['2020-01-01 10:00:00.5']),
 ('date', 'CREATE TABLE t (c DATE)', ['2020-01-01','2021-05-05']),
 ('colname space', 'CREATE TABLE t ("my col" TEXT)', ['a','b']),
 ('colname quote', 'CREATE TABLE t ("my""col" TEXT)', ['a','b']),
]
for name, ddl, rows in cases:
    for rex in (False, True):
        try:
            with contextlib.redirect_stdout(io.StringIO()), contextlib.redirect_stderr(io.StringIO()):
                d = mk(ddl, rows)
                c = discover_db_table('sqlite', d, 't', inc_rex=rex)
            if c is None: print(f'{name:14} rex={int(rex)} NONE'); continue
            f = {k: dict(v) for k,v in c.to_dict()['fields'].items()}
            open('t.tdda','w').write(c.to_json())
            with contextlib.redirect_stdout(io.StringIO()), contextlib.redirect_stderr(io.StringIO()):
                v = verify_db_table('sqlite', d, 't', 't.tdda', testing=True)
            fails = {fld: [k for k,ok in r.items() if not ok] for fld,r in v.fields.items()}
            print(f'{name:14} rex={int(rex)} {str(f)[:150]:150} {"ok" if not any(fails.values()) else "FAIL "+str(fails)}')
        except Exception as e:
            print(f'{name:14} rex={int(rex)} RAISED {type(e).__name__}: {str(e)[:90]}')
        if 'text' not in name and 'varchar' not in name and 'colname' not in name: break
