import random, re, sys, warnings
warnings.filterwarnings('ignore')
from tdda.rexpy.rexpy import Extractor, extract, Size
F = re.U|re.S
rng = random.Random(int(sys.argv[1]))
POOLS = ["abcxyz", "ABCXYZ", "0123456789", "abcdef0123", "éßñЖλ", "_.-", " \t", "!#/:@", "☃€\x7f\x00", "٣४", "²¹"]
def rs():
    out = []
    for _ in range(rng.choice([1,1,2,2,3,4,6,40])):
        pool = rng.choice(POOLS)
        out.append(''.join(rng.choice(pool) for _ in range(rng.choice([1,1,2,3,5]))))
    return ''.join(out)
from collections import Counter
cnt = Counter(); shown=0
def classify(ex, kw, rx, un):
    cls = set(); dial = kw.get('dialect','portable')
    for s in un:
        if any(c.isdigit() and not re.match(r'\d', c) for c in s): cls.add('digitlike')
        if dial != 'perl' and any(re.match(r'\d', c) and not ('0' <= c <= '9') for c in s): cls.add('portable-digit')
    if any('[^-]' in r for r in rx): cls.add('caret')
    return cls or {'OTHER'}
for it in range(int(sys.argv[2])):
    base = [rs() for _ in range(rng.randint(1,4))]
    ex = []
    for b in base:   # variants sharing structure
        ex.append(b)
        for _ in range(rng.randint(0,3)):
            ex.append(''.join((rng.choice("abcz") if c.islower() and rng.random()<.5 else rng.choice("0189") if c.isdigit() and c<'a' and rng.random()<.5 else c) for c in b) + (rng.choice(['', 'a', '1', '-']) if rng.random()<.3 else ''))
    kw = {}
    if rng.random()<0.3: kw['extra_letters'] = rng.choice(['_','.','-','_.','.-','_-','_.-'])
    if rng.random()<0.2: kw['strip']=True
    if rng.random()<0.3: kw['variableLengthFrags']=True
    if rng.random()<0.3: kw['dialect']=rng.choice(['perl','grep','portable'])
    if rng.random()<0.3: kw['size']=Size(do_all=rng.randint(1,4), do_all_exceptions=rng.randint(1,3), n_per_length=2, max_sampled_attempts=rng.randint(1,2)); kw['seed']=rng.randint(0,5)
    try:
        rx = extract(ex, **kw); rxt = extract(ex, tag=True, **kw)
    except Exception as e:
        cnt['RAISED '+type(e).__name__]+=1
        if shown<8: shown+=1; print('RAISED', repr(ex), {k:v for k,v in kw.items() if k!='size'}, type(e).__name__, str(e)[:100])
        continue
    clean = [s.strip() if kw.get('strip') else s for s in ex]
    cs = [re.compile(r, F) for r in rx]
    un = [s for s in clean if not any(c.match(s) for c in cs)]
    if un:
        c = classify(ex, kw, rx, un)
        if 'size' in kw and c=={'OTHER'}: c={'sampling'}
        for k in c: cnt[k]+=1
        if 'OTHER' in c and shown < 10:
            shown += 1; print('OTHER', repr(ex), kw, rx, 'UN', repr(un))
    p = ex[:]; rng.shuffle(p)
    if 'size' not in kw and extract(p, **kw) != rx:
        cnt['PERM']+=1
        if shown<10: shown+=1; print('PERM', repr(ex), repr(p), kw, rx, extract(p, **kw))
    if len(set(rx))!=len(rx): cnt['DUP']+=1; print('DUP', ex, rx)
print(cnt)
