import random, re, itertools, sys
from tdda.rexpy import rexpy
from tdda.rexpy.rexpy import Extractor, extract, Size
F = re.U|re.S
ALPH = list("abAB019 _-.^]\\[!$é²٣\t\n*+?(){}|/ⅧＡ☃\x00") 
rng = random.Random(int(sys.argv[1]) if len(sys.argv)>1 else 0)
def rs():
    n = rng.choice([0,1,1,2,2,3,3,4,5,8])
    mode = rng.random()
    if mode < 0.5:
        return ''.join(rng.choice(ALPH) for _ in range(n))
    # structured
    parts = []
    for _ in range(rng.randint(1,3)):
        parts.append(''.join(rng.choice("abcAB012") for _ in range(rng.randint(1,3))))
        parts.append(rng.choice(['-', '.', ' ', '_', '/', '^', '-^', '']))
    return ''.join(parts)
# 1. merge identity
orig_merge = Extractor.merge_patterns
stats = dict(merge_calls=0, merge_nonid=0, multi=0)
def patched(self, patterns):
    out = orig_merge(self, patterns)
    stats['merge_calls'] += 1
    if len(patterns) > 1: stats['multi'] += 1
    exp = patterns if len(patterns)==1 else self.sort_by_length(patterns)
    if [list(p) for p in out] != [list(p) for p in exp]:
        stats['merge_nonid'] += 1
        if stats['merge_nonid'] < 4: print('NONID', patterns, '->', out)
    return out
Extractor.merge_patterns = patched
bad = dict(cover=0, perm=0, dup=0, count=0, compile=0, tag=0, incr=0, cov=0, raised=0)
N = int(sys.argv[2]) if len(sys.argv)>2 else 3000
for it in range(N):
    ex = [rs() for _ in range(rng.randint(1,6))]
    kw = {}
    if rng.random()<0.2: kw['extra_letters'] = rng.choice(['_','.','-','_.','.-','_-','_.-'])
    if rng.random()<0.2: kw['strip']=True
    if rng.random()<0.2: kw['variableLengthFrags']=True
    if rng.random()<0.3: kw['dialect']=rng.choice(['perl','grep','portable'])
    try:
        x = Extractor(ex, **kw)
        rx = x.results.rex if x.results else []
    except Exception as e:
        bad['raised'] += 1
        if bad['raised'] < 6: print('RAISED', repr(ex), kw, type(e).__name__, e)
        continue
    clean = [s.strip() if kw.get('strip') else s for s in ex]
    try:
        cs = [re.compile(r, F) for r in rx]
    except Exception as e:
        bad['compile'] += 1; print('COMPILE', ex, kw, rx, e); continue
    un = [s for s in clean if not any(c.match(s) for c in cs)]
    if un:
        bad['cover'] += 1
    if len(set(rx)) != len(rx): bad['dup'] += 1; print('DUP', ex, kw, rx)
    if len(rx) > len(set(clean)): bad['count'] += 1; print('COUNT', ex, rx)
    # permutation
    p = ex[:]; rng.shuffle(p)
    rx2 = extract(p, **kw)
    if rx2 != rx:
        bad['perm'] += 1
        if bad['perm'] < 6: print('PERM', repr(ex), repr(p), kw, rx, rx2)
    # tag
    rxt = extract(ex, tag=True, **kw)
    try:
        ct = [re.compile(r, F) for r in rxt]
        if len(ct)!=len(cs) or any(bool(a.match(s)) != bool(b.match(s)) for a,b in zip(cs,ct) for s in clean+['x','1 ']):
            bad['tag'] += 1; print('TAG', ex, kw, rx, rxt)
    except Exception as e:
        bad['tag'] += 1; print('TAGCOMPILE', ex, kw, rxt, e)
    # coverage
    if x.results and not un:
        cov = x.coverage(); 
        indep = [sum(x.examples.freqs[i] for i,s in enumerate(x.examples.strings) if c.match(s)) for c in cs]
        if cov != indep: bad['cov'] += 1; print('COV', ex, cov, indep)
        inc = x.incremental_coverage()
        vals = list(inc.values())
        if sum(vals) != x.n_examples() or any(vals[i] < vals[i+1] for i in range(len(vals)-1)):
            bad['incr'] += 1; print('INCR', ex, rx, inc, x.n_examples())
print(stats, bad)
