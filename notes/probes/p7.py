import os, sys
from tdda.referencetest.referencetest import ReferenceTest
msgs=[]
def afn(ok, msg):
    msgs.append((ok,msg))
ReferenceTest.set_defaults(verbose=False, tmp_dir='/tmp/probe/c15/tmp')
r = ReferenceTest(afn)
open('c15/ref/a.txt','w').write('line1\nDATE 2020\nopt x\nline4\n')
def ls(): return sorted(os.listdir('c15/tmp'))
r.assertStringCorrect('line1\nDATE 2021\nline4 changed\n', '/tmp/probe/c15/ref/a.txt', ignore_substrings=['DATE'], remove_lines=['opt'])
print(msgs[-1][0]); print(msgs[-1][1]); print(ls())
for f in ls(): print('==',f); print(repr(open('c15/tmp/'+f).read()))
# passing
for f in ls(): os.remove('c15/tmp/'+f)
r.assertStringCorrect('line1\nDATE 2021\nline4\n', '/tmp/probe/c15/ref/a.txt', ignore_substrings=['DATE'], remove_lines=['opt'])
print(msgs[-1][0], ls())
# recursion
try:
    r.assertStringCorrect('abc 12\n', '/tmp/probe/c15/ref/b.txt') 
except Exception as e: print('missing ref', type(e).__name__)
print(msgs[-1]); print(ls())
open('c15/ref/b.txt','w').write('abc 34\n')
for pat in [r'\d+', r'(\d+)$', r'x*', r'^abc \d+$']:
    try:
        r.assertStringCorrect('abc 12\n', '/tmp/probe/c15/ref/b.txt', ignore_patterns=[pat]); print(pat, msgs[-1][0])
    except RecursionError as e: print(pat, 'RecursionError')
