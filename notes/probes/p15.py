import warnings; warnings.filterwarnings('ignore')
import pandas as pd, numpy as np, datetime, io, contextlib, traceback
from tdda.constraints import discover_df, verify_df, detect_df
def cols():
    yield 'int64', pd.Series([3,-1,7,7], dtype='int64')
    yield 'int8', pd.Series([3,-1,7,7], dtype='int8')
    yield 'uint64big', pd.Series([3,2**63+5,7], dtype='uint64')
    yield 'Int64null', pd.array([3,None,7], dtype='Int64')
    yield 'float', pd.Series([1.5,-2.25,np.nan,1e308])
    yield 'floatinf', pd.Series([np.inf,-np.inf,0.0])
    yield 'floatwhole', pd.Series([1.0,2.0,np.nan])
    yield 'float32', pd.Series([1.5,2.5], dtype='float32')
    yield 'Float64null', pd.array([1.5,None], dtype='Float64')
    yield 'bool', pd.Series([True,False,True])
    yield 'boolobjnull', pd.Series([True,None,False], dtype=object)
    yield 'booleanExt', pd.array([True,None,False], dtype='boolean')
    yield 'objstr', pd.Series(['a','bb',None,'a'], dtype=object)
    yield 'objstr_unicode', pd.Series(['é','日本','😀x',''], dtype=object)
    yield 'objstr_allnull', pd.Series([None,None], dtype=object)
    yield 'str(default)', pd.Series(['a','bb',None])
    yield 'stringExt', pd.array(['a','bb',None], dtype='string')
    yield 'category', pd.Categorical(['a','b','a',None])
    yield 'cat25', pd.Series(pd.Categorical([f'c{i}' for i in range(25)]))
    yield 'obj21', pd.Series([f'c{i}' for i in range(21)], dtype=object)
    yield 'obj20', pd.Series([f'c{i}' for i in range(20)], dtype=object)
    for u in ['s','ms','us','ns']:
        yield f'dt[{u}]', pd.Series(pd.to_datetime(['2020-01-01 10:00:00','2021-05-05 01:02:03', None])).astype(f'datetime64[{u}]')
    yield 'dt_ns_frac', pd.Series(pd.to_datetime(['2020-01-01 10:00:00.123456789','2021-05-05 01:02:03.5']))
    yield 'dt_tz', pd.Series(pd.to_datetime(['2020-01-01 10:00','2021-05-05 11:00']).tz_localize('UTC'))
    yield 'dateobj', pd.Series([datetime.date(2020,1,1), datetime.date(2021,1,1), None], dtype=object)
    yield 'datetimeobj', pd.Series([datetime.datetime(2020,1,1,1,2,3), None], dtype=object)
    yield 'empty_int', pd.Series([], dtype='int64')
    yield 'empty_obj', pd.Series([], dtype=object)
    yield 'empty_float', pd.Series([], dtype='float64')
for name, s in cols():
    for rex in (False, True):
        df = pd.DataFrame({'c': s})
        res = []
        try:
            with contextlib.redirect_stdout(io.StringIO()), contextlib.redirect_stderr(io.StringIO()):
                c = discover_df(df.copy(), inc_rex=rex)
            if c is None: print(f'{name:16} rex={int(rex)} -> NO CONSTRAINTS (type other)'); break
            d = c.to_dict(); f = dict(d['fields'].get('c', {}))
            open('x.tdda','w').write(c.to_json())
            for how, arg in (('dict', d), ('file', 'x.tdda')):
                for rep in (True, False):
                    try:
                        with contextlib.redirect_stdout(io.StringIO()), contextlib.redirect_stderr(io.StringIO()):
                            v = verify_df(df.copy(), arg, repair=rep)
                            dd = detect_df(df.copy(), arg, repair=rep)
                        fails = [k for k,ok in v.fields['c'].items() if not ok] if 'c' in v.fields else ['nofield']
                        res.append(f'{how}/r{int(rep)}:' + ('ok' if not fails and dd.detected() is None else 'FAIL'+str(fails)))
                    except Exception as e:
                        res.append(f'{how}/r{int(rep)}:RAISED {type(e).__name__}')
            print(f'{name:16} rex={int(rex)} {str({k: (v if k not in ("allowed_values",) else "...") for k,v in f.items()})[:110]:110} {" ".join(res)}')
        except Exception as e:
            print(f'{name:16} rex={int(rex)} DISCOVER RAISED {type(e).__name__}: {str(e)[:80]}')
        if not str(s.dtype) in ('object','category','str','string'): break
