import random, re, sys
from tdda.referencetest.checkfiles import FilesComparison
from tdda.referencetest.basecomparison import Diffs
rng = random.Random(int(sys.argv[1]))
fc = FilesComparison(verbose=False, tmp_dir='/tmp/probe/c15/tmp')
WORDS = ['a','b','ab','x1','12',' a','a ','DATE','opt','3']
def line(): return ' '.join(rng.choice(WORDS) for _ in range(rng.randint(1,3)))
def norm(l, ls, rs): return l.strip() if ls and rs else l.lstrip() if ls else l.rstrip() if rs else l
bad=0; n=0; nrecon=0; shown=0
for it in range(int(sys.argv[2])):
    E=[line() for _ in range(rng.randint(1,6))]; A=E[:]
    for _ in range(rng.choice([1,1,2,3])):
        op=rng.random()
        if op<0.5 and A: A[rng.randrange(len(A))]=line()
        elif op<0.65: A.insert(rng.randint(0,len(A)), rng.choice(['opt z', line()]))
        elif op<0.8 and A: del A[rng.randrange(len(A))]
        else: E.insert(rng.randint(0,len(E)), 'opt y')
    ls,rs=rng.random()<.3, rng.random()<.3
    subs=rng.choice([[],['DATE'],['a ']]); rem=rng.choice([[],['opt'],['opt'],['x1']]); pats=rng.choice([[],[r'\d+']])
    m=Diffs()
    r=fc.check_strings(A[:],E[:],lstrip=ls,rstrip=rs,ignore_substrings=subs or None,ignore_patterns=pats or None,remove_lines=rem or None,create_temporaries=False,msgs=m)
    n+=1
    if not m.reconstructions: continue
    nrecon+=1
    rec=m.reconstructions[-1]; ra, re_ = rec.diff_actual, rec.diff_expected
    # expected: only for same-length-after-removal case
    A2=[l for l in A if not any(x in l for x in rem)]; E2=[l for l in E if not any(x in l for x in rem)]
    if len(A2)!=len(E2): continue
    cp=[re.compile('^(.*)(%s)(.*)$'%p) for p in pats]
    unexc=[]
    for a,e in zip(A2,E2):
        if norm(a,ls,rs)==norm(e,ls,rs): continue
        if any(s in e for s in subs): continue
        if fc.check_patterns(cp,a,e): continue
        unexc.append((norm(a,ls,rs),norm(e,ls,rs)))
    diffs=[(x,y) for x,y in zip(ra,re_) if x!=y] + ([('LEN',len(ra),len(re_))] if len(ra)!=len(re_) else [])
    if diffs != unexc:
        bad+=1
        if shown<6: shown+=1; print('MISMATCH A',A,'E',E,ls,rs,subs,rem,pats,'\n  recon', list(zip(ra,re_)) if len(ra)==len(re_) else (ra,re_),'\n  diffs',diffs,'unexc',unexc, 'verdict', r.failures)
print(n, nrecon, 'bad', bad)
