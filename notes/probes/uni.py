import re, sys, unicodedata
F = re.UNICODE|re.DOTALL
def ranges(pred):
    out=[]; start=None
    for c in range(0x110000):
        if pred(chr(c)):
            if start is None: start=c
        else:
            if start is not None: out.append((start,c-1)); start=None
    if start is not None: out.append((start,0x10ffff))
    return out
w = re.compile(r'\w', F); d = re.compile(r'\d', F); s = re.compile(r'\s', F)
R = {'w': ranges(lambda ch: w.match(ch) is not None), 'd': ranges(lambda ch: d.match(ch) is not None), 's': ranges(lambda ch: s.match(ch) is not None),
     'isdigit': ranges(str.isdigit), 'isalnum': ranges(str.isalnum), 'isspace': ranges(str.isspace), 'isdecimal': ranges(str.isdecimal)}
for k,v in R.items(): print(k, len(v))
print('w == alnum+_ :', R['w'] == ranges(lambda ch: ch.isalnum() or ch=='_'))
print('d == isdecimal:', R['d']==R['isdecimal'], ' s==isspace:', R['s']==R['isspace'])
print(unicodedata.unidata_version, sys.version)
# surrogates
print('surrogate alnum?', chr(0xd800).isalnum(), w.match(chr(0xd800)))
