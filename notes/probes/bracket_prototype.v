(* Scratch calibration for DESIGN.md section 9; not part of the development. *)
From Coq Require Import ZArith List Bool Lia.
Import ListNotations.
Open Scope Z_scope.
Definition str := list Z.
Definition RB := 93. Definition LB := 91. Definition BS := 92. Definition CARET := 94. Definition DASH := 45.

Inductive sitem := SLit (c : Z) | SRange (lo hi : Z) | SEsc (c : Z).
Record cset := { neg : bool; items : list sitem }.

(* one atom inside a set: returns item and rest *)
Definition set_atom (s : str) : option (sitem * str) :=
  match s with
  | [] => None
  | c :: r => if c =? BS then match r with e :: r' => Some (SEsc e, r') | [] => None end
              else Some (SLit c, r)
  end.

Definition item_code (i : sitem) : option Z :=
  match i with SLit c => Some c | SEsc c => if c =? BS then Some BS else None | SRange _ _ => None end.

Fixpoint parse_items (fuel : nat) (first : bool) (s : str) : option (list sitem * str) :=
  match fuel with O => None | S fuel' =>
  match s with
  | [] => None
  | c :: r =>
    if (c =? RB) && negb first then Some ([], r) else
    match set_atom s with
    | None => None
    | Some (a, rest) =>
      match rest with
      | d :: rest' =>
        if d =? DASH then
          match rest' with
          | [] => None
          | t :: rest'' =>
            if t =? RB then Some ([a; SLit DASH], rest'')
            else match set_atom rest' with
                 | None => None
                 | Some (b, rest3) =>
                   match item_code a, item_code b with
                   | Some lo, Some hi => if hi <? lo then None else
                        match parse_items fuel' false rest3 with
                        | Some (its, r') => Some (SRange lo hi :: its, r') | None => None end
                   | _, _ => None
                   end
                 end
          end
        else match parse_items fuel' false rest with
             | Some (its, r') => Some (a :: its, r') | None => None end
      | [] => None
      end
    end
  end end.

Definition parse_set (s : str) : option (cset * str) :=
  match s with
  | c :: r => if c =? CARET
              then match parse_items (S (length r)) true r with Some (its, r') => Some ({| neg := true; items := its |}, r') | None => None end
              else match parse_items (S (length s)) true s with Some (its, r') => Some ({| neg := false; items := its |}, r') | None => None end
  | [] => None
  end.

Definition memZ (c : Z) (l : str) := existsb (Z.eqb c) l.
Definition is_special (c : Z) := (c =? RB) || (c =? BS) || (c =? DASH) || (c =? CARET).
Definition mains (chars : str) := filter (fun c => negb (is_special c)) chars.
Definition prefix (chars : str) : str := if memZ RB chars then [RB] else [].
Definition suffix (chars : str) : str :=
  (if memZ BS chars then [BS; BS] else []) ++ (if memZ CARET chars then [CARET] else []) ++ (if memZ DASH chars then [DASH] else []).
Definition body (chars : str) := prefix chars ++ mains chars ++ suffix chars.
Definition escaped_bracket (chars : str) : str := [LB] ++ body chars ++ [RB].

Definition suffix_items (chars : str) : list sitem :=
  (if memZ BS chars then [SEsc BS] else []) ++ (if memZ CARET chars then [SLit CARET] else []) ++ (if memZ DASH chars then [SLit DASH] else []).
Definition expected_items (chars : str) : list sitem :=
  map SLit (prefix chars) ++ map SLit (mains chars) ++ suffix_items chars.

Definition guard (chars : str) : bool :=
  negb (match body chars with c :: _ => c =? CARET | [] => true end).

Eval vm_compute in parse_set (body [CARET; DASH] ++ [RB]).
Eval vm_compute in parse_set (body [33; RB; BS; CARET; DASH; LB] ++ [RB; 100]).

(* the suffix followed by ']' parses, when not first *)
Lemma parse_suffix : forall chars rest fuel,
  (fuel >= 8)%nat ->
  parse_items fuel false (suffix chars ++ RB :: rest) = Some (suffix_items chars, rest).
Proof.
  intros chars rest fuel Hf. unfold suffix, suffix_items.
  do 8 (destruct fuel as [|fuel]; [lia|]).
  destruct (memZ BS chars), (memZ CARET chars), (memZ DASH chars); vm_compute; reflexivity.
Qed.

Lemma mains_not_special : forall chars c, In c (mains chars) -> is_special c = false.
Proof. intros chars c H. unfold mains in H. apply filter_In in H. destruct H as [_ H]. now apply negb_true_iff in H. Qed.

Lemma suffix_head_cases : forall chars rest, exists d tl, suffix chars ++ RB :: rest = d :: tl /\
   (d = RB \/ d = BS \/ d = CARET \/ (d = DASH /\ exists tl', tl = RB :: tl')).
Proof.
  intros. unfold suffix.
  destruct (memZ BS chars), (memZ CARET chars), (memZ DASH chars); cbn; eexists; eexists; split; try reflexivity; auto 6.
  all: right; right; right; split; [reflexivity|eexists; reflexivity].
Qed.

Lemma parse_mains : forall ms chars rest fuel first,
  (forall c, In c ms -> is_special c = false) ->
  (fuel >= length ms + 8)%nat ->
  (ms = [] -> first = false) ->
  parse_items fuel first (ms ++ suffix chars ++ RB :: rest) = Some (map SLit ms ++ suffix_items chars, rest).
Proof.
  induction ms as [|c ms IH]; intros chars rest fuel first Hsp Hf Hfirst.
  - cbn [app map]. rewrite (Hfirst eq_refl). apply parse_suffix. cbn in Hf. lia.
  - destruct fuel as [|fuel]; [cbn in Hf; lia|].
    assert (Hc : is_special c = false) by (apply Hsp; now left).
    unfold is_special in Hc. apply orb_false_iff in Hc. destruct Hc as [Hc Hcar].
    apply orb_false_iff in Hc. destruct Hc as [Hc Hdash]. apply orb_false_iff in Hc. destruct Hc as [Hrb Hbs].
    cbn [app parse_items]. rewrite Hrb. cbn [andb]. unfold set_atom. rewrite Hbs.
    assert (IH' := IH chars rest fuel false (fun x Hx => Hsp x (or_intror Hx))).
    destruct ms as [|c2 ms'].
    + (* next is suffix head *)
      cbn [app] in *. destruct (suffix_head_cases chars rest) as (d & tl & Heq & Hd). rewrite Heq in *.
      destruct Hd as [-> | [-> | [-> | [-> (tl' & ->)]]]].
      * change (RB =? DASH) with false. rewrite IH'; [reflexivity| cbn in *; lia | reflexivity].
      * change (BS =? DASH) with false. rewrite IH'; [reflexivity| cbn in *; lia | reflexivity].
      * change (CARET =? DASH) with false. rewrite IH'; [reflexivity| cbn in *; lia | reflexivity].
      * (* dash then ] : suffix must be exactly [DASH] *)
        change (DASH =? DASH) with true. change (RB =? RB) with true. cbn [map app].
        (* need suffix_items chars = [SLit DASH] and rest = tl' *)
        unfold suffix in Heq. unfold suffix_items.
        destruct (memZ BS chars), (memZ CARET chars), (memZ DASH chars); cbn in Heq; try discriminate; inversion Heq; subst; reflexivity.
    + assert (Hc2 : is_special c2 = false) by (apply Hsp; right; now left).
      unfold is_special in Hc2. repeat (apply orb_false_iff in Hc2; destruct Hc2 as [Hc2 ?]).
      cbn [app] in *. replace (c2 =? DASH) with false by (symmetry; assumption).
      rewrite IH'; [reflexivity | cbn in *; lia | discriminate].
Qed.
Print Assumptions parse_mains.

