import re, random
from tdda.rexpy import extract, Extractor
from tdda.rexpy.rexpy import Size
F = re.UNICODE|re.DOTALL
def chk(ex, **kw):
    try:
        rx = extract(ex, **kw)
    except Exception as e:
        print(repr(ex), kw, 'RAISED', type(e).__name__, e); return
    bad = [s for s in (ex if not isinstance(ex, dict) else ex.keys()) if s is not None and not any(re.match(r, s, F) for r in rx)]
    print(repr(ex)[:80], kw, '->', rx, 'UNMATCHED' if bad else 'ok', bad[:3])
chk(['^-', '-^'])
chk(['^', '-'])
chk(['a^b', 'a-b'])
chk(['x²', 'y³'])
chk(['٣٤', '١٢'])           # arabic-indic digits
chk(['٣٤', '١٢'], dialect='perl')
chk(['a', 'bb', 'ccc', 'dddd', 'eeeee', 'f1', 'g22', '3'], size=Size(do_all=2, do_all_exceptions=2, max_sampled_attempts=1), seed=1)
chk(['ab\n', 'cd'])
chk(['a b', ' a', 'b '], strip=True)
chk(['', 'a'])
chk(['', 'a'], remove_empties=True)
chk(['a.b', 'c_d', 'e-f'], extra_letters='._-')
chk(['a\\b', 'c\\d'])
chk(['a]b', 'c]d', 'e[f'])
chk(['Ⅷ', 'Ⅸ'])
chk(['\x00', '\x01'])
chk(['é', 'ß1'])
chk(['a\tb', 'c\x0bd', 'e\x1cf', 'g\x85h', 'i j'])
chk(['ab'*60 + '1'])
chk(['a1'*60])
