import warnings; warnings.filterwarnings('ignore')
import pandas as pd, numpy as np
from tdda.constraints import verify_df, detect_df
df = pd.DataFrame({'a':[1,2,3]})
for cons in [{'fields':{'a':{'type':'string'}}}, {'fields':{'a':{'type':'string','min':None}}}, {'fields':{'a':{'type':'string','min':1}}}]:
    d = df.copy()
    v = verify_df(d, cons)
    print(cons, {k:dict(x) for k,x in v.fields.items()}, 'input dtype after:', d['a'].dtype, 'unchanged:', d.equals(df))
d = pd.DataFrame({'a':[1,0,3]}); b=d.copy()
v = detect_df(d, {'fields':{'a':{'type':'bool','max':0}}}, per_constraint=True)
print({k:dict(x) for k,x in v.fields.items()}, d.dtypes.to_dict(), d.equals(b)); print(v.detected())
