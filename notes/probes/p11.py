import itertools
from tdda.serial.csvw import csvw_date_format_to_md_date_format as tr
TOK = {'d':'%d','dd':'%d','M':'%m','MM':'%m','yy':'%y','yyyy':'%Y','HH':'%H','mm':'%M','ss':'%S','S':'%f','SS':'%f','SSS':'%f'}
SEPS = ['-','/','.',':',' ','T']
bad_sep = []; bad_nosep = []
n=0
for k in range(1,5):
    for toks in itertools.product(TOK, repeat=k):
        for seps in itertools.product(SEPS, repeat=k-1) if k<=3 else [tuple(['-']*(k-1)), tuple([':']*(k-1)), tuple(['T']*(k-1))]:
            n+=1
            src = toks[0] + ''.join(s+t for s,t in zip(seps, toks[1:]))
            exp = TOK[toks[0]] + ''.join(s+TOK[t] for s,t in zip(seps, toks[1:]))
            got = tr(src)
            if got == 'ISO8601':
                continue
            if got != exp: bad_sep.append((src, got, exp))
for k in range(2,4):
    for toks in itertools.product(TOK, repeat=k):
        src=''.join(toks); exp=''.join(TOK[t] for t in toks)
        got = tr(src)
        if got not in (exp,'ISO8601'): bad_nosep.append((toks, got, exp))
print(n, 'with-sep mismatches:', len(bad_sep), bad_sep[:10])
print('no-sep mismatches:', len(bad_nosep)); 
import collections
print(collections.Counter(t[0][:2] for t in bad_nosep if len(t[0])==2).most_common(40))
print(tr('yyyy-MM-dd'), tr('yyyy-MM-ddTHH:mm:ss'), tr('yyyy-MM-dd HH:mm:ss.SSS'), tr('dd/MM/yyyy'), tr(''))
