import random, re, sys, warnings
warnings.filterwarnings('ignore')
from tdda.rexpy.rexpy import Extractor, extract, Size
F = re.U|re.S
ALPH = list("abAB019 _-.^]\\[!$é²٣\t\n*+?(){}|/ⅧＡ☃\x00")
rng = random.Random(int(sys.argv[1]))
def rs():
    n = rng.choice([0,1,1,2,2,3,3,4,5,8])
    if rng.random() < 0.5:
        return ''.join(rng.choice(ALPH) for _ in range(n))
    parts = []
    for _ in range(rng.randint(1,3)):
        parts.append(''.join(rng.choice("abcAB012") for _ in range(rng.randint(1,3))))
        parts.append(rng.choice(['-', '.', ' ', '_', '/', '^', '-^', '']))
    return ''.join(parts)
def classify(ex, kw, rx, un):
    cls = set()
    dial = kw.get('dialect', 'portable')
    for s in un:
        if any(c.isdigit() and not re.match(r'\d', c) for c in s): cls.add('digitlike')
        if dial != 'perl' and any(re.match(r'\d', c) and not ('0' <= c <= '9') for c in s): cls.add('portable-digit')
    if any('[^-]' in r for r in rx): cls.add('caret')
    return cls or {'OTHER'}
from collections import Counter
cnt = Counter(); shown = 0
for it in range(int(sys.argv[2])):
    ex = [rs() for _ in range(rng.randint(1,6))]
    kw = {}
    if rng.random()<0.2: kw['extra_letters'] = rng.choice(['_','.','-','_.','.-','_-','_.-'])
    if rng.random()<0.2: kw['strip']=True
    if rng.random()<0.2: kw['variableLengthFrags']=True
    if rng.random()<0.3: kw['dialect']=rng.choice(['perl','grep','portable'])
    rx = extract(ex, **kw)
    clean = [s.strip() if kw.get('strip') else s for s in ex]
    cs = [re.compile(r, F) for r in rx]
    un = [s for s in clean if not any(c.match(s) for c in cs)]
    if un:
        c = classify(ex, kw, rx, un)
        for k in c: cnt[k]+=1
        if 'OTHER' in c and shown < 12:
            shown += 1; print('OTHER', repr(ex), kw, rx, 'UN', repr(un))
print(cnt)
