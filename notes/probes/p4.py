import warnings; warnings.filterwarnings('ignore')
import pandas as pd, numpy as np, os
from tdda.constraints import discover_df, verify_df, detect_df
df = pd.DataFrame({'a':[1,5,None,12], 'b':np.array(['x','yy',None,'x'],dtype=object), 'c':[True,False,True,True], 'd':[1,2,3,4]})
cons = {'fields': {'a': {'type':'real','min':2,'max':{'value':10,'precision':'closed'},'sign':'positive','max_nulls':0},
                   'b': {'type':'string','min_length':2,'max_length':1,'no_duplicates':True,'allowed_values':['x'],'rex':['^y+$'], 'max_nulls':0},
                   'c': {'type':'int'}, 'zz': {'type':'int'}, 'd': {'type': None, 'min': None}}}
v = verify_df(df, cons)
print(v); print(v.to_frame())
before = df.copy()
for kw in [dict(), dict(per_constraint=True), dict(per_constraint=True, write_all=True, output_fields=[]), dict(outpath='/tmp/probe/det.csv', per_constraint=True), dict(outpath='/tmp/probe/det.parquet', per_constraint=True, output_fields=['a'])]:
    try:
        d = detect_df(df, cons, **kw)
        print(kw, d.passes, d.failures, d.detection.n_passing_records, d.detection.n_failing_records)
        print(d.detected().to_string())
        print('input unchanged', df.equals(before), list(df))
        if 'outpath' in kw:
            print(open(kw['outpath']).read() if kw['outpath'].endswith('csv') else pd.read_parquet(kw['outpath']))
    except Exception as e:
        import traceback; traceback.print_exc()
