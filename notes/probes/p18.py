import itertools, copy
from tdda.referencetest import referencetestcase as R
from tdda.referencetest.referencetest import ReferenceTest
def model(argv):
    """pure model: returns (argv_out, tagged, check, regen_table_updates(list), verbose_off, raised)"""
    argv = list(argv); tagged = check = regenerate = False; kinds = []; quiet = False
    rest = argv[1:]
    for i, arg in enumerate(rest):
        if arg.startswith('-') and not arg.startswith('--'):
            for flag in arg[1:]:
                if flag == 'W': regenerate = True; arg = arg.replace('W','')
                elif flag == '1': tagged = True; arg = arg.replace('1','')
                elif flag == '0': check = True; arg = arg.replace('0','')
            argv[i] = '' if arg == '-' else arg
        else:
            break
    argv = [a for a in argv if a]
    for q in ('-wquiet','--wquiet'):
        if q in argv:
            idx = argv.index(q); quiet = True; argv = argv[:idx]+argv[idx+1:]
    for w in ('--W','--write-all'):
        if w in argv:
            idx = argv.index(w)
            if idx:
                regenerate = True; argv = argv[:idx]+argv[idx+1:]; break
    for w in ('-w','--w','--write'):
        if w in argv:
            idx = argv.index(w)
            if idx:
                if idx < len(argv)-1:
                    for r in argv[idx+1:]:
                        for k in r.split(','): kinds.append(k)
                else:
                    return ('RAISE',)
            argv = argv[:idx]; break
    for o in ('--tagged','--istagged'):
        if o in argv:
            idx = argv.index(o)
            if idx:
                argv = argv[:idx]+argv[idx+1:]
                if o in ('-0','--istagged'): check = True
                else: tagged = True
    if regenerate: kinds.append(None)
    return (argv, tagged, check, kinds, quiet)
def real(argv):
    ReferenceTest.regenerate.clear(); ReferenceTest.verbose = True; R.ReferenceTestCase.verbose = True
    a = list(argv)
    try:
        out, t, c = R._set_flags_from_argv(a)
    except Exception as e:
        return ('RAISE',)
    return (out, t, c, sorted(ReferenceTest.regenerate.items(), key=str), not R.ReferenceTestCase.verbose)
ALPH = ['-1','-0','-W','-v','-1v','-W1','--tagged','--istagged','--write-all','--write','-w','table','graph,t','A','--wquiet','-','--W','-wquiet']
n=bad=0
for k in range(0,4):
    for rest in itertools.product(ALPH, repeat=k):
        argv = ['prog']+list(rest)
        m = model(argv); r = real(argv); n+=1
        if m[0]!='RAISE':
            m = (m[0], m[1], m[2], sorted({kk: True for kk in m[3]}.items(), key=str), m[4])
        if m != r:
            bad+=1
            if bad<6: print(argv, 'MODEL', m, 'REAL', r)
print(n, 'mismatches', bad)
