import json
from tdda.constraints.base import DatasetConstraints, FieldConstraints, AllowedValuesConstraint, TypeConstraint
for ch in [' ', '\x85', '\x1c', '\x0c', ' ']:
    c = DatasetConstraints([FieldConstraints('f'+ch+'x', [TypeConstraint('string'), AllowedValuesConstraint(['a' + ch + 'b', 'c '+ch])])])
    j = c.to_json()
    try:
        d = json.loads(j)
        ok = d['fields'] == json.loads(json.dumps(c.to_dict()))['fields']
        print(repr(ch), 'loads ok; same:', ok)
    except Exception as e:
        print(repr(ch), 'INVALID JSON', e)
