import random, re, sys
from tdda.referencetest.checkfiles import FilesComparison
rng = random.Random(int(sys.argv[1]))
fc = FilesComparison(verbose=False, tmp_dir='/tmp/probe/c15/tmp')
WORDS = ['a','b','ab','x1','12','  ',' a','a ','DATE','opt','3','']
def line():
    return ' '.join(rng.choice(WORDS) for _ in range(rng.randint(0,3)))
def norm(l, ls, rs):
    return l.strip() if ls and rs else l.lstrip() if ls else l.rstrip() if rs else l
def excused(a, e, subs, pats, depth=0):
    if any(s in e for s in subs): return True
    return chk(a, e, pats, depth)
def chk(a, e, pats, depth):
    if a == e: return True
    if depth > 50: raise RecursionError
    for p in pats:
        me = p.match(e)
        if me:
            ma = p.match(a)
            if not ma: continue
            if p.groups in (1,2): return True
            if chk(ma.group(1), me.group(1), pats, depth+1) and chk(ma.group(p.groups), me.group(p.groups), pats, depth+1): return True
    return False
def spec(A, E, ls, rs, subs, pats, rem, mpc):
    if A and A[-1]=='': A=A[:-1]
    if E and E[-1]=='': E=E[:-1]
    A2=[l for l in A if not any(r in l for r in rem)]; E2=[l for l in E if not any(r in l for r in rem)]
    if len(A2)!=len(E2): return 1
    cp = [re.compile(('' if p.startswith('^') else '^(.*)')+('(%s)'%p)+('' if p.endswith('$') else '(.*)$')) for p in pats]
    U=[(a,e) for a,e in zip(A2,E2) if norm(a,ls,rs)!=norm(e,ls,rs) and not excused(a,e,subs,cp)]
    if not U: return 0
    if len(U)<=mpc and sorted(u[0] for u in U)==sorted(u[1] for u in U): return 0
    return 1
mism=0; n=0; stats={'pass':0,'fail':0}
for it in range(int(sys.argv[2])):
    E=[line() for _ in range(rng.randint(0,6))]
    A=E[:]
    for _ in range(rng.choice([0,0,1,1,2,3])):
        op=rng.random()
        if op<0.3 and A: A[rng.randrange(len(A))]=line()
        elif op<0.45: A.insert(rng.randint(0,len(A)), line())
        elif op<0.6 and A: del A[rng.randrange(len(A))]
        elif op<0.8 and len(A)>1:
            i,j=rng.sample(range(len(A)),2); A[i],A[j]=A[j],A[i]
        elif A: 
            i=rng.randrange(len(A)); A[i]=A[i].replace('1','7').replace('3','9') + rng.choice(['',' '])
    ls,rs=rng.random()<.3, rng.random()<.3
    subs=rng.choice([[],[],['DATE'],['a','opt']]); rem=rng.choice([[],[],['opt'],['x1','DATE']])
    pats=rng.choice([[],[],[r'\d+'],[r'\d+',r'^ab.*$'],[r'a\s'],[r'^x\d']]); mpc=rng.choice([0,0,1,2,5])
    try:
        want=spec(A[:],E[:],ls,rs,subs,pats,rem,mpc)
    except RecursionError: continue
    got=fc.check_strings(A[:],E[:],lstrip=ls,rstrip=rs,ignore_substrings=subs or None,ignore_patterns=pats or None,remove_lines=rem or None,max_permutation_cases=mpc,create_temporaries=False).failures
    n+=1; stats['pass' if got==0 else 'fail']+=1
    if want!=got:
        mism+=1
        if mism<6: print('MISMATCH', A,E,ls,rs,subs,pats,rem,mpc,'spec',want,'impl',got)
print(n, stats, 'mismatches', mism)
