import warnings; warnings.filterwarnings('ignore')
from tdda.rexpy.rexpy import Extractor
import re
for ex in [['☃é','☃☃é','☃éé'], ['☃é1','☃☃é2','☃éé3'], ['€a','€€b','€ab'], ['€ab', '€€cd', '€ééf']]:
    x = Extractor(ex)
    print(ex, x.results.rex, x.results.vrles, x.results.refined_vrles)
    # show groups
    for v in x.results.vrles:
        rx = x.vrle2re(v, tagged=True); print('   tagged', rx, [re.match(rx, s, re.U|re.S).groups() for s in ex if re.match(rx, s, re.U|re.S)])
