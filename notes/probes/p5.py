import warnings; warnings.filterwarnings('ignore')
import pandas as pd, numpy as np, os, sqlite3, random, traceback
from tdda.referencetest.checkpandas import PandasComparison
from tdda.constraints.base import DatasetConstraints
def t(name, f):
    try: print(name, '->', f())
    except Exception as e: print(name, 'RAISED', type(e).__name__, str(e)[:200])
pc = PandasComparison(verbose=False, tmp_dir='/tmp/probe/tmp'); os.makedirs('/tmp/probe/tmp', exist_ok=True)
for dt in [object, 'str', 'string', 'category']:
    a = pd.DataFrame({'s': pd.Series(['a','b'], dtype=dt)}); b = pd.DataFrame({'s': pd.Series(['a','c'], dtype=dt)})
    t(f'C05 {dt}', lambda: pc.check_dataframe(a, b)[0])
a = pd.DataFrame({'x':[1,2]}); b = pd.DataFrame({'y':[1,2]})
t('C05 renamed, check_types False', lambda: pc.check_dataframe(a, b, check_types=False)[0])
t('C05 renamed', lambda: pc.check_dataframe(a, b)[0])
# C09
def load(d):
    c = DatasetConstraints(); c.initialize_from_dict(d); return c.to_json()
t('C09 null min date', lambda: load({'fields': {'d': {'type':'date','min':None}}}))
t('C09 unknown + #', lambda: load({'fields': {'d': {'type':'int','#note':'x','weird':3, 'min': {'value': 3, 'precision': 'closed'}}}}))
# C08
from tdda.constraints import discover_db_table, verify_db_table
from tdda.constraints.db.drivers import DBConnector
def db(rows, ddl='CREATE TABLE t (s TEXT)'):
    if os.path.exists('t.db'): os.remove('t.db')
    from tdda.constraints.db.drivers import database_connection_sqlite
    conn = database_connection_sqlite(None,None,'t.db',None,None)
    conn.execute(ddl); conn.executemany('INSERT INTO t VALUES (?)', [(r,) for r in rows]); conn.commit()
    return DBConnector(conn, None, database='t.db')
def dv(rows, rex=True):
    d = db(rows)
    c = discover_db_table('sqlite', d, 't', inc_rex=rex)
    open('t.tdda','w').write(c.to_json())
    v = verify_db_table('sqlite', d, 't', 't.tdda', testing=True)
    return dict(c.to_dict()['fields']['s']), v.passes, v.failures
t("C08 quote", lambda: dv(["it's", "ab'c"]))
t("C08 allnull", lambda: dv([None, None]))
t("C08 plain", lambda: dv(['ab', 'cd', None, '']))
t("C08 empty", lambda: dv([]))
t("C08 backslash", lambda: dv(['a\\b', 'c\\d']))
# C11
from tdda.referencetest.gentest import is_date_like
t('C11 31/02/2020', lambda: is_date_like('31/02/2020'))
t('C11 version', lambda: is_date_like('version 1.2.0 build 15'))
# C14
from tdda.rexpy import extract
from tdda.rexpy.rexpy import Size
ex = ['a%d' % i for i in range(30)] + ['b-%d' % i for i in range(30)] + ['Cc']*3
def c14():
    out = []
    for i in range(3):
        random.seed(i)
        st = random.getstate()
        r = extract(ex, seed=7, size=Size(do_all=5, do_all_exceptions=3))
        out.append((r, random.getstate() == st))
    return out
t('C14', c14)
