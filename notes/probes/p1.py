import warnings; warnings.filterwarnings('ignore')
import pandas as pd, numpy as np, datetime, traceback, json
from tdda.constraints import discover_df, verify_df, detect_df
def tryit(name, f):
    try:
        r = f()
        print(name, 'OK ->', r)
    except Exception as e:
        print(name, 'RAISED', type(e).__name__, e)

# C01 zero-row + rex
df0 = pd.DataFrame({'s': pd.Series([], dtype=object)})
tryit('zero-row rex', lambda: discover_df(df0, inc_rex=True).to_dict()['fields'])
tryit('zero-row norex', lambda: discover_df(df0, inc_rex=False).to_dict()['fields'])
# tz-aware
dft = pd.DataFrame({'d': pd.to_datetime(['2020-01-01 10:00','2021-05-05 11:00']).tz_localize('UTC')})
def f():
    c = discover_df(dft)
    d = c.to_dict()
    v = verify_df(dft, d)
    return d['fields'], v.passes, v.failures
tryit('tz-aware', f)
def g(df, rex=False):
    c = discover_df(df, inc_rex=rex)
    d = c.to_dict()
    v = verify_df(df, d)
    j = c.to_json()
    open('t.tdda','w').write(j)
    v2 = verify_df(df, 't.tdda')
    return {k: dict(x) for k,x in d['fields'].items()}, (v.passes, v.failures), (v2.passes, v2.failures)
tryit('basic', lambda: g(pd.DataFrame({'a':[1,2,None], 'b':['x','yy',None], 'c':[True,False,True], 'd':[1.5,-np.inf,np.nan]})))
tryit('allnull float', lambda: g(pd.DataFrame({'a':[np.nan,np.nan]})))
tryit('allnull obj', lambda: g(pd.DataFrame({'a':[None,None]}), rex=True))
tryit('bool w nulls', lambda: g(pd.DataFrame({'a':[True,None,False]})))
tryit('dates ns', lambda: g(pd.DataFrame({'a':pd.to_datetime(['2020-01-01 10:00:00.123456789','2021-05-05'])})))
tryit('date objs', lambda: g(pd.DataFrame({'a':[datetime.date(2020,1,1), datetime.date(2021,1,1)]})))
tryit('uint', lambda: g(pd.DataFrame({'a':np.array([1,2**64-1],dtype='uint64')})))
tryit('Int64', lambda: g(pd.DataFrame({'a':pd.array([1,None,3],dtype='Int64')})))
tryit('string dtype', lambda: g(pd.DataFrame({'a':pd.array(['a',None,'bcd'],dtype='string')}), rex=True))
tryit('category', lambda: g(pd.DataFrame({'a':pd.Categorical(['a','b','a'])}), rex=True))
tryit('inf', lambda: g(pd.DataFrame({'a':[np.inf,-np.inf, 1e308]})))
tryit('str default', lambda: (pd.DataFrame({'a':['x','y']}).dtypes.to_dict()))
