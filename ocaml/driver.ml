(* Generic glue: reads "<entry-hex> <sexp>" lines, prints one sexp per line.
   Atoms are hexadecimal integers with optional leading '-'.  No logic here. *)
open Model
(* the model now defines Coq's [string]; keep OCaml's *)
type string = Stdlib.String.t

let rec pos_of_bits (bits : bool list) : positive =
  (* bits: most significant first, head is the leading 1 *)
  match bits with
  | [] -> XH
  | _ -> List.fold_left (fun acc b -> if b then XI acc else XO acc) XH (List.tl bits)

let z_of_hex (s : string) : z =
  let neg = String.length s > 0 && s.[0] = '-' in
  let start = if neg then 1 else 0 in
  let bits = ref [] in
  for i = String.length s - 1 downto start do
    let c = s.[i] in
    let v = if c >= '0' && c <= '9' then Char.code c - 48
            else if c >= 'a' && c <= 'f' then Char.code c - 87
            else failwith ("bad atom " ^ s) in
    bits := ((v land 8) <> 0) :: ((v land 4) <> 0) :: ((v land 2) <> 0) :: ((v land 1) <> 0) :: !bits
  done;
  let rec strip = function false :: r -> strip r | l -> l in
  match strip !bits with
  | [] -> Z0
  | l -> let p = pos_of_bits l in if neg then Zneg p else Zpos p

let hex_of_pos (p : positive) : string =
  (* collect bits least significant first *)
  let rec go p acc = match p with
    | XH -> true :: acc
    | XO q -> go q (false :: acc)
    | XI q -> go q (true :: acc) in
  let bits = go p [] in  (* most significant first *)
  let n = List.length bits in
  let pad = (4 - n mod 4) mod 4 in
  let bits = List.init pad (fun _ -> false) @ bits in
  let buf = Buffer.create 16 in
  let rec emit = function
    | a :: b :: c :: d :: r ->
      let v = (if a then 8 else 0) + (if b then 4 else 0) + (if c then 2 else 0) + (if d then 1 else 0) in
      Buffer.add_char buf "0123456789abcdef".[v]; emit r
    | _ -> () in
  emit bits; Buffer.contents buf

let hex_of_z = function
  | Z0 -> "0"
  | Zpos p -> hex_of_pos p
  | Zneg p -> "-" ^ hex_of_pos p

let parse (s : string) (pos : int ref) : sexp =
  let n = String.length s in
  let rec skip () = while !pos < n && (s.[!pos] = ' ' || s.[!pos] = '\t' || s.[!pos] = '\r') do incr pos done
  and item () =
    skip ();
    if !pos >= n then failwith "unexpected end";
    if s.[!pos] = '(' then begin
      incr pos;
      let items = ref [] in
      skip ();
      while !pos < n && s.[!pos] <> ')' do
        items := item () :: !items; skip ()
      done;
      if !pos >= n then failwith "missing )";
      incr pos;
      L (List.rev !items)
    end else begin
      let st = !pos in
      while !pos < n && s.[!pos] <> ' ' && s.[!pos] <> ')' && s.[!pos] <> '(' do incr pos done;
      A (z_of_hex (String.sub s st (!pos - st)))
    end in
  item ()

let rec print buf = function
  | A z -> Buffer.add_string buf (hex_of_z z)
  | L l ->
    Buffer.add_char buf '(';
    List.iteri (fun i x -> if i > 0 then Buffer.add_char buf ' '; print buf x) l;
    Buffer.add_char buf ')'

let () =
  try
    while true do
      let line = input_line stdin in
      if String.length line > 0 then begin
        let pos = ref 0 in
        let entry = parse line pos in
        let payload = parse line pos in
        let ez = match entry with A z -> z | L _ -> Z0 in
        let buf = Buffer.create 256 in
        (try print buf (dispatch ez payload)
         with Stack_overflow -> Buffer.add_string buf "!stack");
        Buffer.add_char buf '\n';
        print_string (Buffer.contents buf)
      end
    done
  with End_of_file -> ()
