(* C14 for the whole run: when the number of distinct strings does not exceed do_all_exceptions (so that nothing is
   ever sampled), the expressions returned by Extractor(...).extract() are the same for every order of the input
   items - list order, or the key order of a frequency dictionary. *)
From Coq Require Import ZArith List Bool Lia Permutation.
From Tdda Require Import Base.Sexp Base.Str Base.Sort Generated.Consts Rexpy.Chars Rexpy.Pipeline Rexpy.PipelineProofs
     Rexpy.LoopProofs Rexpy.PermProofs Rexpy.CleanProofs.
Import ListNotations.
Open Scope Z_scope.

(* ------------------------------------------------------------------ the check *)
Definition first_of (mt : match_table) (rexes : list str) (sf : str * Z) : option nat :=
  match first_matching mt rexes (fst sf) with Ok y => y | Err _ => None end.

Lemma mapM_combine {A B} (f : A -> res B) (d : B) l ys : mapM f l = Ok ys ->
  combine l ys = map (fun x => (x, match f x with Ok y => y | Err _ => d end)) l.
Proof.
  revert ys; induction l as [|x l IH]; intros ys H; cbn [mapM] in H.
  - injection H as <-. reflexivity.
  - destruct (f x) as [y|e1] eqn:Ef; cbn [bind] in H; [|discriminate].
    destruct (mapM f l) as [ys'|e2]; cbn [bind] in H; [|discriminate]. injection H as <-.
    cbn [combine map]. rewrite Ef, (IH ys' eq_refl). reflexivity.
Qed.

Definition fails_of (mt : match_table) (rexes : list str) (ps : list (str * Z)) : list (str * Z) :=
  map fst (filter (fun pf : str * Z * option nat => match snd pf with None => true | Some _ => false end)
                  (map (fun sf => (sf, first_of mt rexes sf)) ps)).
Definition freqs_of (mt : match_table) (rexes : list str) (ps : list (str * Z)) : list Z :=
  map (fun j => fold_right Z.add 0
                  (map (fun pf : str * Z * option nat => match snd pf with
                                   | Some k => if Nat.eqb k j then snd (fst pf) else 0
                                   | None => 0 end) (map (fun sf => (sf, first_of mt rexes sf)) ps)))
      (seq 0 (length rexes)).

Lemma find_non_matches_nf mt rexes all fails rf : rexes <> [] ->
  find_non_matches mt rexes all = Ok (fails, rf) ->
  fails = fails_of mt rexes (pairs all) /\ rf = freqs_of mt rexes (pairs all).
Proof.
  intros Hne. unfold find_non_matches. destruct rexes as [|r0 rs]; [congruence|].
  destruct (mapM _ _) as [firsts|e1] eqn:Em; cbn [bind]; [|discriminate]. intro H. injection H as <- <-.
  rewrite (mapM_combine _ None _ _ Em). split; reflexivity.
Qed.

Lemma find_non_matches_perm mt rexes all all' fails rf : rexes <> [] ->
  Permutation (pairs all) (pairs all') ->
  find_non_matches mt rexes all = Ok (fails, rf) ->
  exists fails', find_non_matches mt rexes all' = Ok (fails', rf) /\ Permutation fails fails'.
Proof.
  intros Hne Hp H. destruct (find_non_matches_nf _ _ _ _ _ Hne H) as [-> ->].
  unfold find_non_matches in *. destruct rexes as [|r0 rs]; [congruence|].
  destruct (mapM _ (combine (ex_strings all) (ex_freqs all))) as [firsts|e1] eqn:Em; cbn [bind] in H; [|discriminate].
  destruct (mapM_perm _ _ _ Hp firsts Em) as [firsts' [Em' _]]. unfold pairs in Em'. rewrite Em'. cbn [bind].
  rewrite (mapM_combine _ None _ _ Em'). eexists. split.
  - f_equal. f_equal. unfold freqs_of. apply map_ext. intro j. apply sum_perm, Permutation_map, Permutation_map.
    apply Permutation_sym. exact Hp.
  - unfold fails_of. apply Permutation_map, filter_perm, Permutation_map. exact Hp.
Qed.

(* nothing is sampled when the stored strings are few enough *)
Lemma sample_non_matches_all o mt samples rexes all maxN :
  Z.of_nat (length (pairs all)) <= z_do_all_exceptions o ->
  sample_non_matches o mt samples rexes all maxN =
  match find_non_matches mt rexes all with Ok (fails, rf) => Ok (fails, rf, samples) | Err err => Err err end.
Proof.
  intro Hn. unfold sample_non_matches. destruct (find_non_matches mt rexes all) as [[failures rf]|err] eqn:Ef; cbn [bind]; [|reflexivity].
  destruct maxN as [mx|]; [|reflexivity].
  pose proof (find_non_matches_failures_sub _ _ _ _ _ Ef) as Hsub.
  assert (Hlen : (length failures <= length (pairs all))%nat).
  { unfold find_non_matches in Ef. destruct rexes as [|r0 rs]; [injection Ef as <- _; unfold pairs; lia|].
    destruct (mapM _ _) as [firsts|e1] eqn:Em; cbn [bind] in Ef; [|discriminate]. injection Ef as <- _.
    rewrite map_length. etransitivity; [apply filter_length_le|]. rewrite combine_length. unfold pairs. lia. }
  replace (Z.ltb (z_do_all_exceptions o) (Z.of_nat (length failures))) with false by (symmetry; apply Z.ltb_ge; lia).
  rewrite andb_false_r. reflexivity.
Qed.

(* ------------------------------------------------------------------ cleaning the stored examples again *)
Lemma norm_stored ct o all sf : wf_all ct o all -> stored_final ct o all -> In sf (pairs all) ->
  norm ct o (Some (fst sf), snd sf) = Some (fst sf, snd sf, false).
Proof.
  intros [Hl Hk] Hf Hin. specialize (Hk sf Hin). unfold kept in Hk. cbn [fst snd] in Hk. unfold norm. cbn [fst snd].
  apply andb_true_iff in Hk as [H1 H2]. apply negb_true_iff in H1. rewrite H1.
  apply negb_true_iff in H2. unfold clean_form. cbv zeta.
  match goal with |- (if ?c then _ else _) = _ => replace c with false by (symmetry; exact H2) end.
  assert (Hs : clean_form ct o (fst sf) = fst sf) by (apply Hf; destruct sf; eapply in_combine_l; exact Hin).
  unfold clean_form in Hs. rewrite Hs, Nat.eqb_refl. reflexivity.
Qed.

Lemma omap_norm_stored ct o all l : wf_all ct o all -> stored_final ct o all -> incl l (pairs all) ->
  omap (norm ct o) (map (fun sf : str * Z => (Some (fst sf), snd sf)) l) = map (fun sf => (fst sf, snd sf, false)) l.
Proof.
  intros Hw Hf. induction l as [|sf l IH]; intro Hi; cbn [map omap]; [reflexivity|].
  rewrite (norm_stored ct o all sf Hw Hf (Hi sf (or_introl eq_refl))), IH; [reflexivity|].
  intros x Hx. apply Hi. right. exact Hx.
Qed.

(* the working examples made from all stored pairs contain every stored string *)
Lemma reclean_covers ct o all : wf_all ct o all -> stored_final ct o all ->
  incl (ex_strings all) (ex_strings (fst (clean ct o (map (fun sf : str * Z => (Some (fst sf), snd sf)) (pairs all))))).
Proof.
  intros Hw Hf t Ht. destruct (clean_counter ct o (map (fun sf : str * Z => (Some (fst sf), snd sf)) (pairs all))) as (_ & _ & Hk & _).
  apply Hk. rewrite (omap_norm_stored ct o all _ Hw Hf (incl_refl _)), map_map.
  rewrite (map_ext _ fst) by (intros []; reflexivity).
  destruct Hw as [Hl _]. unfold pairs. rewrite (map_fst_combine _ _ Hl). exact Ht.
Qed.

(* ------------------------------------------------------------------ one pass is enough when the working set has everything *)
Lemma loop_one_pass fuel ct o e stripped gt mt all samples ex attempt :
  stored_final ct o all -> incl (ex_strings all) (ex_strings ex) ->
  Z.of_nat (length (pairs all)) <= z_do_all_exceptions o ->
  extract_loop (S fuel) ct o e stripped gt mt all samples ex attempt =
  match batch_extract ct o e stripped gt ex with
  | Err err => Err err
  | Ok (merged, rex) =>
    match find_non_matches mt rex all with
    | Err err => Err err
    | Ok (fails, rf) =>
      Ok (merged, rex, rf, ex_strings (fst (clean ct o (map (fun sf : str * Z => (Some (fst sf), snd sf)) fails))), ex, samples, attempt)
    end
  end.
Proof.
  intros Hf Hin Hn. cbn [extract_loop].
  destruct (batch_extract ct o e stripped gt ex) as [[merged rex]|err]; cbn [bind]; [|reflexivity].
  rewrite (sample_non_matches_all o mt samples rex all _ Hn).
  destruct (find_non_matches mt rex all) as [[fails rf]|err] eqn:Ef; cbn [bind]; [|reflexivity].
  set (failex := fst (clean ct o (map (fun sf : str * Z => (Some (fst sf), snd sf)) fails))).
  pose proof (failex_sub ct o all fails Hf (find_non_matches_failures_sub _ _ _ _ _ Ef)) as Hfx. fold failex in Hfx.
  destruct (ex_strings failex) as [|fs0 fsr] eqn:Efs; [reflexivity|]. rewrite <- Efs in *.
  destruct (filter _ (combine (ex_strings failex) (ex_freqs failex))) as [|fr0 frr] eqn:Efresh; [reflexivity|].
  exfalso. assert (Hin0 : In fr0 (filter (fun sf : str * Z => negb (mem_str (fst sf) (ex_strings ex))) (combine (ex_strings failex) (ex_freqs failex))))
    by (rewrite Efresh; left; reflexivity).
  apply filter_In in Hin0 as [H1 H2]. apply negb_true_iff in H2.
  assert (In (fst fr0) (ex_strings ex)) by (apply Hin, Hfx; destruct fr0; eapply in_combine_l; exact H1).
  apply mem_str_In in H. congruence.
Qed.

Lemma thin_extras_perm e l l' : Permutation l l' -> thin_extras e l = thin_extras e l'.
Proof.
  intro Hp. unfold thin_extras. destruct e as [|a [|b e]]; try reflexivity.
  apply filter_ext. intro L. apply existsb_perm. exact Hp.
Qed.

(* ------------------------------------------------------------------ the run *)
Theorem run_extractor_perm ct o gt mt samples samples' items items' lo :
  Permutation items items' ->
  (forall it, In it items -> 0 <= snd it) ->
  1 <= z_max_strings_in_group o ->
  Z.of_nat (length (ex_strings (fst (clean ct o items)))) <= z_do_all_exceptions o ->
  run_extractor ct o gt mt samples items = Ok lo ->
  exists lo', run_extractor ct o gt mt samples' items' = Ok lo' /\ lo_rex lo' = lo_rex lo /\ lo_none lo' = lo_none lo /\
              lo_passes lo' = lo_passes lo.
Proof.
  intros Hp Hnn Hcap Hsmall. unfold run_extractor.
  assert (Hnn' : forall it, In it items' -> 0 <= snd it).
  { intros it Hin. apply Hnn. eapply Permutation_in; [apply Permutation_sym; exact Hp|exact Hin]. }
  destruct (clean_perm ct o items items' Hp) as (Hpairs & Hstr & Hstripped).
  pose proof (clean_wf ct o items Hnn) as Hw. pose proof (clean_wf ct o items' Hnn') as Hw'.
  pose proof (clean_stored_final ct o items) as Hf. pose proof (clean_stored_final ct o items') as Hf'.
  destruct (clean ct o items) as [all stripped]. destruct (clean ct o items') as [all' stripped'].
  cbn [fst snd] in *. subst stripped'.
  assert (Hlen : length (pairs all) = length (ex_strings all)).
  { unfold pairs. rewrite combine_length. destruct Hw as [Hl _]. lia. }
  assert (Hn : Z.of_nat (length (pairs all)) <= z_do_all_exceptions o) by lia.
  assert (Hn' : Z.of_nat (length (pairs all')) <= z_do_all_exceptions o) by (rewrite <- (Permutation_length Hpairs); exact Hn).
  rewrite (sample_non_matches_all o mt samples [] all _ Hn), (sample_non_matches_all o mt samples' [] all' _ Hn').
  cbn [find_non_matches bind]. fold (pairs all) (pairs all').
  set (ex := fst (clean ct o (map (fun sf : str * Z => (Some (fst sf), snd sf)) (pairs all)))).
  set (ex' := fst (clean ct o (map (fun sf : str * Z => (Some (fst sf), snd sf)) (pairs all')))).
  assert (Hex : Permutation (ex_strings ex) (ex_strings ex')).
  { apply (clean_perm ct o). apply Permutation_map. exact Hpairs. }
  rewrite <- (thin_extras_perm (o_extra o) _ _ Hex).
  set (e := norm_extras (thin_extras (o_extra o) (ex_strings ex))). clearbody e.
  destruct (ex_strings ex) as [|x0 xs] eqn:Eex.
  - apply Permutation_nil in Hex. rewrite Hex. intro H. injection H as <-. eexists. split; [reflexivity|]. cbn. repeat split.
  - destruct (ex_strings ex') as [|y0 ys] eqn:Eex'; [apply Permutation_sym, Permutation_nil in Hex; discriminate|].
    rewrite <- Eex, <- Eex' in Hex.
    rewrite !Nat.add_succ_r.
    rewrite (loop_one_pass _ ct o e stripped gt mt all samples ex 1 Hf (reclean_covers ct o all Hw Hf) Hn).
    rewrite (loop_one_pass _ ct o e stripped gt mt all' samples' ex' 1 Hf' (reclean_covers ct o all' Hw' Hf') Hn').
    destruct (batch_extract ct o e stripped gt ex) as [[merged rex]|err] eqn:Eb; cbn [bind]; [|discriminate].
    rewrite (batch_extract_perm ct o e stripped gt ex ex' _ Hcap Hex Eb).
    destruct (find_non_matches mt rex all) as [[fails rf]|err] eqn:Efn; cbn [bind]; [|discriminate].
    assert (Hfn' : exists fails', find_non_matches mt rex all' = Ok (fails', rf)).
    { destruct rex as [|r0 rs].
      - cbn [find_non_matches] in *. injection Efn as _ <-. eexists. reflexivity.
      - destruct (find_non_matches_perm mt (r0 :: rs) all all' fails rf ltac:(discriminate) Hpairs Efn) as [fails' [H1 _]].
        exists fails'. exact H1. }
    destruct Hfn' as [fails' ->]. cbn [bind].
    destruct (o_dialect_out o).
    + destruct (mapM _ _) as [final|err]; cbn [bind]; [|discriminate]. intro H. injection H as <-.
      eexists. split; [reflexivity|]. cbn. repeat split.
    + intro H. injection H as <-. eexists. split; [reflexivity|]. cbn. repeat split.
Qed.

(* ------------------------------------------------------------------ the frequencies do not matter without pruning *)
Lemma mapM_map {A B C} (f : B -> res C) (g : A -> B) l : mapM (fun x => f (g x)) l = mapM f (map g l).
Proof. induction l as [|x l IH]; cbn [mapM map]; [reflexivity|]. rewrite IH. reflexivity. Qed.

Lemma find_non_matches_ok_strings mt rexes all all' fails rf :
  length (ex_strings all) = length (ex_freqs all) -> length (ex_strings all') = length (ex_freqs all') ->
  Permutation (ex_strings all) (ex_strings all') ->
  find_non_matches mt rexes all = Ok (fails, rf) ->
  exists fails' rf', find_non_matches mt rexes all' = Ok (fails', rf').
Proof.
  intros Hl Hl' Hp. unfold find_non_matches. destruct rexes as [|r0 rs].
  - intro H. eexists _, _. reflexivity.
  - destruct (mapM _ (combine (ex_strings all) _)) as [firsts|e1] eqn:Em; cbn [bind]; [|discriminate]. intro H. injection H as _ <-.
    rewrite (mapM_map (first_matching mt (r0 :: rs)) fst), (map_fst_combine _ _ Hl) in Em.
    destruct (mapM_perm _ _ _ Hp firsts Em) as [firsts' [Em' _]].
    rewrite (mapM_map (first_matching mt (r0 :: rs)) fst), (map_fst_combine _ _ Hl'), Em'. cbn [bind].
    eexists _, _. reflexivity.
Qed.

(* Two inputs whose stored strings are the same set - whatever the order and the frequencies - give the same
   expressions, provided nothing is sampled and no pruning option (which is defined in terms of frequencies) is on *)
Theorem run_extractor_same_strings ct o gt mt samples samples' items items' lo :
  (forall it, In it items -> 0 <= snd it) -> (forall it, In it items' -> 0 <= snd it) ->
  Permutation (ex_strings (fst (clean ct o items))) (ex_strings (fst (clean ct o items'))) ->
  snd (clean ct o items) = snd (clean ct o items') ->
  no_pruning o -> 1 <= z_max_strings_in_group o ->
  Z.of_nat (length (ex_strings (fst (clean ct o items)))) <= z_do_all_exceptions o ->
  run_extractor ct o gt mt samples items = Ok lo ->
  exists lo', run_extractor ct o gt mt samples' items' = Ok lo' /\ lo_rex lo' = lo_rex lo /\ lo_none lo' = lo_none lo /\
              lo_passes lo' = lo_passes lo.
Proof.
  intros Hnn Hnn' Hstr Hstripped Hnp Hcap Hsmall. unfold run_extractor.
  pose proof (clean_wf ct o items Hnn) as Hw. pose proof (clean_wf ct o items' Hnn') as Hw'.
  pose proof (clean_stored_final ct o items) as Hf. pose proof (clean_stored_final ct o items') as Hf'.
  destruct (clean ct o items) as [all stripped]. destruct (clean ct o items') as [all' stripped'].
  cbn [fst snd] in *. subst stripped'.
  assert (Hlen : length (pairs all) = length (ex_strings all)).
  { unfold pairs. rewrite combine_length. destruct Hw as [Hl _]. lia. }
  assert (Hlen' : length (pairs all') = length (ex_strings all')).
  { unfold pairs. rewrite combine_length. destruct Hw' as [Hl _]. lia. }
  assert (Hn : Z.of_nat (length (pairs all)) <= z_do_all_exceptions o) by lia.
  assert (Hn' : Z.of_nat (length (pairs all')) <= z_do_all_exceptions o).
  { rewrite Hlen', <- (Permutation_length Hstr). lia. }
  rewrite (sample_non_matches_all o mt samples [] all _ Hn), (sample_non_matches_all o mt samples' [] all' _ Hn').
  cbn [find_non_matches bind]. fold (pairs all) (pairs all').
  set (ex := fst (clean ct o (map (fun sf : str * Z => (Some (fst sf), snd sf)) (pairs all)))).
  set (ex' := fst (clean ct o (map (fun sf : str * Z => (Some (fst sf), snd sf)) (pairs all')))).
  assert (Hkeys : forall a, wf_all ct o a -> stored_final ct o a ->
            forall t, In t (ex_strings (fst (clean ct o (map (fun sf : str * Z => (Some (fst sf), snd sf)) (pairs a))))) <-> In t (ex_strings a)).
  { intros a Ha Hfa t. destruct (clean_counter ct o (map (fun sf : str * Z => (Some (fst sf), snd sf)) (pairs a))) as (_ & _ & Hk & _).
    rewrite Hk, (omap_norm_stored ct o a _ Ha Hfa (incl_refl _)), map_map, (map_ext _ fst) by (intros []; reflexivity).
    destruct Ha as [Hl _]. unfold pairs. rewrite (map_fst_combine _ _ Hl). reflexivity. }
  assert (Hex : Permutation (ex_strings ex) (ex_strings ex')).
  { apply NoDup_Permutation.
    - apply (clean_counter ct o (map (fun sf : str * Z => (Some (fst sf), snd sf)) (pairs all))).
    - apply (clean_counter ct o (map (fun sf : str * Z => (Some (fst sf), snd sf)) (pairs all'))).
    - intro t. unfold ex, ex'. rewrite (Hkeys all Hw Hf), (Hkeys all' Hw' Hf'). split; apply Permutation_in; [exact Hstr|apply Permutation_sym; exact Hstr]. }
  rewrite <- (thin_extras_perm (o_extra o) _ _ Hex).
  set (e := norm_extras (thin_extras (o_extra o) (ex_strings ex))). clearbody e.
  destruct (ex_strings ex) as [|x0 xs] eqn:Eex.
  - apply Permutation_nil in Hex. rewrite Hex. intro H. injection H as <-. eexists. split; [reflexivity|]. cbn. repeat split.
  - destruct (ex_strings ex') as [|y0 ys] eqn:Eex'; [apply Permutation_sym, Permutation_nil in Hex; discriminate|].
    rewrite <- Eex, <- Eex' in Hex.
    rewrite !Nat.add_succ_r.
    rewrite (loop_one_pass _ ct o e stripped gt mt all samples ex 1 Hf (reclean_covers ct o all Hw Hf) Hn).
    rewrite (loop_one_pass _ ct o e stripped gt mt all' samples' ex' 1 Hf' (reclean_covers ct o all' Hw' Hf') Hn').
    destruct (batch_extract ct o e stripped gt ex) as [[merged rex]|err] eqn:Eb; cbn [bind]; [|discriminate].
    rewrite (batch_extract_perm ct o e stripped gt ex ex' _ Hcap Hex Eb).
    destruct (find_non_matches mt rex all) as [[fails rf]|err] eqn:Efn; cbn [bind]; [|discriminate].
    destruct (find_non_matches_ok_strings mt rex all all' fails rf (proj1 Hw) (proj1 Hw') Hstr Efn) as (fails' & rf' & ->).
    cbn [bind]. rewrite !(find_bad_patterns_none o _ Hnp).
    destruct (o_dialect_out o).
    + destruct (mapM _ _) as [final|err]; cbn [bind]; [|discriminate]. intro H. injection H as <-.
      eexists. split; [reflexivity|]. cbn. repeat split.
    + intro H. injection H as <-. eexists. split; [reflexivity|]. cbn. repeat split.
Qed.

(* ------------------------------------------------------------------ repeats; list or frequency dictionary *)
Lemma existsb_iff_eq {T} (f : T -> bool) l l' :
  ((exists x, In x l /\ f x = true) <-> (exists x, In x l' /\ f x = true)) -> existsb f l = existsb f l'.
Proof.
  intro H. destruct (existsb f l) eqn:E1, (existsb f l') eqn:E2; try reflexivity.
  - apply existsb_exists in E1. apply H in E1. apply existsb_exists in E1. congruence.
  - apply existsb_exists in E2. apply H in E2. apply existsb_exists in E2. congruence.
Qed.

(* same kept cleaned strings and same "something was stripped" evidence => same stored strings and flag *)
Lemma clean_same_keys ct o items items' :
  (forall t c, (exists n, In (t, n, c) (omap (norm ct o) items)) <-> (exists n, In (t, n, c) (omap (norm ct o) items'))) ->
  Permutation (ex_strings (fst (clean ct o items))) (ex_strings (fst (clean ct o items'))) /\
  snd (clean ct o items) = snd (clean ct o items').
Proof.
  intro H. destruct (clean_counter ct o items) as (_ & Hnd & Hk & _ & Hb). destruct (clean_counter ct o items') as (_ & Hnd' & Hk' & _ & Hb').
  split.
  - apply NoDup_Permutation; [exact Hnd|exact Hnd'|]. intro t. rewrite Hk, Hk', !in_map_iff. split.
    + intros [[[t0 n] c] [<- Hin]]. destruct (proj1 (H t0 c) (ex_intro _ n Hin)) as [n' Hin']. exists (t0, n', c). split; [reflexivity|exact Hin'].
    + intros [[[t0 n] c] [<- Hin]]. destruct (proj2 (H t0 c) (ex_intro _ n Hin)) as [n' Hin']. exists (t0, n', c). split; [reflexivity|exact Hin'].
  - rewrite Hb, Hb'. apply existsb_iff_eq. split.
    + intros [[[t0 n] c] [Hin Hc]]. cbn [snd] in Hc. subst c. destruct (proj1 (H t0 true) (ex_intro _ n Hin)) as [n' Hin'].
      exists (t0, n', true). split; [exact Hin'|reflexivity].
    + intros [[[t0 n] c] [Hin Hc]]. cbn [snd] in Hc. subst c. destruct (proj2 (H t0 true) (ex_intro _ n Hin)) as [n' Hin'].
      exists (t0, n', true). split; [exact Hin'|reflexivity].
Qed.

(* repeating an example any number of times changes nothing *)
Theorem run_extractor_repeat ct o gt mt samples samples' items it k lo :
  (forall x, In x items -> 0 <= snd x) -> In it items ->
  no_pruning o -> 1 <= z_max_strings_in_group o ->
  Z.of_nat (length (ex_strings (fst (clean ct o items)))) <= z_do_all_exceptions o ->
  run_extractor ct o gt mt samples items = Ok lo ->
  exists lo', run_extractor ct o gt mt samples' (items ++ repeat it k) = Ok lo' /\ lo_rex lo' = lo_rex lo /\
              lo_none lo' = lo_none lo /\ lo_passes lo' = lo_passes lo.
Proof.
  intros Hnn Hin Hnp Hcap Hsmall H.
  assert (Hsame : forall t c, (exists n, In (t, n, c) (omap (norm ct o) items)) <->
                              (exists n, In (t, n, c) (omap (norm ct o) (items ++ repeat it k)))).
  { intros t c. rewrite omap_app. split.
    - intros [n Hn]. exists n. apply in_or_app. left. exact Hn.
    - intros [n Hn]. apply in_app_or in Hn as [Hn|Hn]; [exists n; exact Hn|].
      apply In_omap in Hn as [it' [Hr Hx]]. apply repeat_spec in Hr. subst it'. exists n. apply In_omap. exists it. split; assumption. }
  destruct (clean_same_keys ct o items (items ++ repeat it k) Hsame) as [Hs Hb].
  assert (Hnn' : forall x, In x (items ++ repeat it k) -> 0 <= snd x).
  { intros x Hx. apply in_app_or in Hx as [Hx|Hx]; [apply Hnn; exact Hx|]. apply repeat_spec in Hx. subst x. apply Hnn. exact Hin. }
  exact (run_extractor_same_strings ct o gt mt samples samples' items _ lo Hnn Hnn' Hs Hb Hnp Hcap Hsmall H).
Qed.

(* a list of strings (None = null), and any frequency dictionary with the same keys of non-zero count *)
Definition list_items (l : list (option str)) : list (option str * Z) := map (fun s => (s, 1)) l.

Lemma norm_count ct o s n : n <> 0 ->
  norm ct o (s, n) = match norm ct o (s, 1) with Some (t, _, c) => Some (t, n, c) | None => None end.
Proof.
  intro Hn. unfold norm. cbn [fst snd]. destruct s as [s|]; [|reflexivity].
  replace (Z.eqb n 0) with false by (symmetry; apply Z.eqb_neq; exact Hn). cbn [Z.eqb]. cbv zeta.
  destruct (o_remove_empties o && _); reflexivity.
Qed.

Theorem run_extractor_list_or_dict ct o gt mt samples samples' (l : list (option str)) (d : list (option str * Z)) lo :
  (forall kv, In kv d -> 0 <= snd kv) ->
  (forall s, In s l <-> exists n, In (s, n) d /\ n <> 0) ->
  no_pruning o -> 1 <= z_max_strings_in_group o ->
  Z.of_nat (length (ex_strings (fst (clean ct o (list_items l))))) <= z_do_all_exceptions o ->
  run_extractor ct o gt mt samples (list_items l) = Ok lo ->
  exists lo', run_extractor ct o gt mt samples' d = Ok lo' /\ lo_rex lo' = lo_rex lo /\
              lo_none lo' = lo_none lo /\ lo_passes lo' = lo_passes lo.
Proof.
  intros Hnn Hkeys Hnp Hcap Hsmall H.
  assert (Hsame : forall t c, (exists n, In (t, n, c) (omap (norm ct o) (list_items l))) <->
                              (exists n, In (t, n, c) (omap (norm ct o) d))).
  { intros t c. split.
    - intros [n Hn]. apply In_omap in Hn as [[s m] [Hin Hx]]. unfold list_items in Hin. apply in_map_iff in Hin as [s' [E Hs]].
      injection E as -> <-. destruct (proj1 (Hkeys s) Hs) as [m [Hd Hm]].
      exists m. apply In_omap. exists (s, m). split; [exact Hd|]. rewrite (norm_count ct o s m Hm), Hx. reflexivity.
    - intros [n Hn]. apply In_omap in Hn as [[s m] [Hin Hx]].
      assert (Hm : m <> 0).
      { intro E. subst m. unfold norm in Hx. cbn [fst snd Z.eqb] in Hx. destruct s; discriminate. }
      rewrite (norm_count ct o s m Hm) in Hx. destruct (norm ct o (s, 1)) as [[[t1 n1] c1]|] eqn:E1; [|discriminate].
      injection Hx as <- _ <-. exists n1. apply In_omap. exists (s, 1). split; [|exact E1].
      unfold list_items. apply in_map_iff. exists s. split; [reflexivity|]. apply Hkeys. exists m. split; assumption. }
  destruct (clean_same_keys ct o (list_items l) d Hsame) as [Hs Hb].
  assert (Hl : forall x, In x (list_items l) -> 0 <= snd x).
  { intros x Hx. unfold list_items in Hx. apply in_map_iff in Hx as [s [<- _]]. cbn. lia. }
  exact (run_extractor_same_strings ct o gt mt samples samples' (list_items l) d lo Hl Hnn Hs Hb Hnp Hcap Hsmall H).
Qed.
