(* C18: rexpy coverage figures.  Model of rex_coverage, terminate_patterns_and_sort,
   coverage_matrices (over a match oracle) and matrices2incremental_coverage. *)
From Coq Require Import ZArith List Bool Arith.
From Tdda Require Import Base.Sexp Base.Str Base.Sort.
Import ListNotations.
Open Scope Z_scope.

(* the stored examples: distinct strings with their frequencies; matches: one row per example,
   one bool per pattern (re.match of the terminated pattern, an oracle) *)
Record example_row := { er_freq : Z; er_match : list bool }.

Definition column (rows : list example_row) (p : nat) : list (Z * bool) :=
  map (fun r => (er_freq r, nth p (er_match r) false)) rows.

(* rex_coverage: per pattern, sum of frequencies (or count) of matched examples *)
Definition coverage (rows : list example_row) (np : nat) (dedup : bool) : list Z :=
  map (fun p => fold_right Z.add 0
                  (map (fun r => if nth p (er_match r) false then (if dedup then 1 else er_freq r) else 0) rows))
      (seq 0 np).

Definition n_examples (rows : list example_row) (dedup : bool) : Z :=
  if dedup then Z.of_nat (length rows) else fold_right Z.add 0 (map er_freq rows).

(* the greedy loop works on rows that are either live or zeroed *)
Record cov := { c_rex : nat; c_n : Z; c_n_uniq : Z; c_incr : Z; c_incr_uniq : Z }.

Definition live_total (rows : list (bool * example_row)) (p : nat) (dedup : bool) : Z :=
  fold_right Z.add 0
    (map (fun lr => if fst lr && nth p (er_match (snd lr)) false
                    then (if dedup then 1 else er_freq (snd lr)) else 0) rows).

Fixpoint zmax_l (l : list Z) : Z := match l with [] => 0 | x :: r => Z.max x (zmax_l r) end.

Fixpoint first_ge (l : list Z) (target : Z) (i : nat) : nat :=
  match l with
  | [] => i
  | x :: r => if Z.ltb x target then first_ge r target (S i) else i
  end.

Definition mem_natb (n : nat) (l : list nat) : bool := existsb (Nat.eqb n) l.

Definition kill (p : nat) (rows : list (bool * example_row)) : list (bool * example_row) :=
  map (fun lr => if fst lr && nth p (er_match (snd lr)) false then (false, snd lr) else lr) rows.

Definition totals_of (rows : list (bool * example_row)) (np : nat) (dedup : bool) : list Z :=
  map (fun p => live_total rows p dedup) (seq 0 np).

(* returns the results and the final live/zeroed state of the rows *)
Fixpoint greedy (fuel : nat) (np : nat) (sort_dedup : bool) (full : list example_row)
         (rows : list (bool * example_row)) (done : list cov) : list cov * list (bool * example_row) :=
  match fuel with
  | O => (done, rows)
  | S f =>
    if Nat.leb np (length done) then (done, rows) else
    let sort_totals := totals_of rows np sort_dedup in
    let target := zmax_l sort_totals in
    if Z.ltb 0 target then
      let p := first_ge sort_totals target O in
      if mem_natb p (map c_rex done) then (done, rows)   (* cannot happen: its column is already zero *)
      else
        greedy f np sort_dedup full (kill p rows)
               (done ++ [{| c_rex := p;
                            c_n := nth p (coverage full np false) 0;
                            c_n_uniq := nth p (coverage full np true) 0;
                            c_incr := live_total rows p false; c_incr_uniq := live_total rows p true |}])
    else (done, rows)
  end.

Definition start (rows : list example_row) : list (bool * example_row) := map (fun r => (true, r)) rows.

Definition incremental (rows : list example_row) (np : nat) (sort_dedup : bool) : list cov :=
  fst (greedy (S np) np sort_dedup rows (start rows) []).

(* terminate_patterns_and_sort: add ^ / $ when missing, sort by (string, original index) *)
Definition terminate (p : str) : str :=
  (if startswith [94] p then [] else [94]) ++ p ++ (if endswith [36] p then [] else [36]).

Definition pair_leb (a b : str * nat) : bool :=
  if str_eqb (fst a) (fst b) then Nat.leb (snd a) (snd b) else str_leb (fst a) (fst b).

Definition terminate_and_sort (ps : list str) : list (str * nat) :=
  isort pair_leb (combine (map terminate ps) (seq 0 (length ps))).

(* wire: (rows ((freq (bools...)) ...), np, dedup) -> coverage lists + incremental results *)
Definition sx_row (s : sexp) : example_row :=
  {| er_freq := sx_Z (sx_nth 0 s); er_match := map sx_bool (sx_list (sx_nth 1 s)) |}.
Definition of_cov (c : cov) : sexp :=
  L [of_nat (c_rex c); A (c_n c); A (c_n_uniq c); A (c_incr c); A (c_incr_uniq c)].
Definition coverage_entry (s : sexp) : sexp :=
  let rows := map sx_row (sx_list (sx_nth 0 s)) in
  let np := sx_nat (sx_nth 1 s) in
  L [ L (map A (coverage rows np false)); L (map A (coverage rows np true));
      L (map of_cov (incremental rows np false)); L (map of_cov (incremental rows np true));
      A (n_examples rows false); A (n_examples rows true) ].
Definition terminate_entry (s : sexp) : sexp :=
  L (map (fun pi => L [of_str (fst pi); of_nat (snd pi)]) (terminate_and_sort (sx_strs s))).
