(* The extraction loop ends: after the sampled attempts every pass that does not stop adds a stored string that
   the working examples did not have, so the number of passes is bounded by
   max_sampled_attempts + (number of stored strings) + 1.  The model's fuel is therefore never exhausted, and when
   the loop stops every string that still fails the check is one of the working examples. *)
From Coq Require Import ZArith List Bool Lia.
From Tdda Require Import Base.Sexp Base.Str Base.Sort Generated.Consts Rexpy.Chars Rexpy.Pipeline Rexpy.PipelineProofs.
Import ListNotations.
Open Scope Z_scope.

(* ------------------------------------------------------------------ where errors come from *)
Ltac neq_fuel := let HH := fresh in intro HH; vm_compute in HH; discriminate HH.
Lemma mapM_err {A B} (f : A -> res B) l err : mapM f l = Err err -> exists x, In x l /\ f x = Err err.
Proof.
  induction l as [|x l IH]; cbn [mapM]; [discriminate|].
  destruct (f x) as [y|e1] eqn:Ef; cbn [bind].
  - destruct (mapM f l) as [ys|e2]; cbn [bind]; [discriminate|]. intro H. injection H as <-.
    destruct (IH eq_refl) as [x' [Hin Hx']]. exists x'. split; [right; exact Hin|exact Hx'].
  - intro H. injection H as <-. exists x. split; [left; reflexivity|exact Ef].
Qed.

Lemma vrle2re_err out full e stripped tagged fs err : vrle2re out full e stripped tagged fs = Err err -> err = E_BAD_CODE.
Proof.
  unfold vrle2re. destruct (mapM _ fs) as [parts|e1] eqn:Em; cbn [bind]; [discriminate|]. intro H. injection H as <-.
  destruct (mapM_err _ _ _ Em) as [f [_ Hf]]. unfold fragment2re, atom_text in Hf.
  destruct (f_atom f) as [s|c|code|chars]; cbn [bind] in Hf; try discriminate.
  destruct (cat_re out e code); cbn [bind] in Hf; [discriminate|]. injection Hf as <-. reflexivity.
Qed.

Lemma refine_vrle_err ct o e stripped gt strings rles vrle err :
  refine_vrle ct o e stripped gt strings rles vrle = Err err -> err <> E_FUEL.
Proof.
  unfold refine_vrle. destruct (vrle2re _ _ _ _ _ _) as [regex|e1] eqn:Ev; cbn [bind].
  - destruct (mapM _ _) as [groups|e2] eqn:Em; cbn [bind]; [discriminate|]. intro H. injection H as <-.
    destruct (mapM_err _ _ _ Em) as [x [_ Hx]]. destruct (lookup_groups gt regex x) as [gs|].
    + destruct (Nat.eqb _ _); [discriminate|]. injection Hx as <-. neq_fuel.
    + injection Hx as <-. neq_fuel.
  - intro H. injection H as <-. rewrite (vrle2re_err _ _ _ _ _ _ _ Ev). neq_fuel.
Qed.

Lemma batch_extract_err ct o e stripped gt ex err : batch_extract ct o e stripped gt ex = Err err -> err <> E_FUEL.
Proof.
  unfold batch_extract. cbv zeta. destruct (mapM _ (to_vrles _)) as [refined|e1] eqn:Er; cbn [bind].
  - destruct (mapM (vrle2re _ _ _ _ _) _) as [rex|e2] eqn:Ex; cbn [bind]; [intro H; discriminate H|]. intro H. injection H as <-.
    destruct (mapM_err _ _ _ Ex) as [x [_ Hx]]. rewrite (vrle2re_err _ _ _ _ _ _ _ Hx). neq_fuel.
  - intro H. injection H as <-. destruct (mapM_err _ _ _ Er) as [x [_ Hx]]. eapply refine_vrle_err. exact Hx.
Qed.

Lemma first_matching_err mt rexes s err : first_matching mt rexes s = Err err -> err = E_NO_MATCH.
Proof.
  unfold first_matching. generalize O. induction rexes as [|r rs IH]; intro j; [discriminate|].
  destruct (lookup_match mt r s) as [[|]|]; [discriminate|apply IH|]. intro H. injection H as <-. reflexivity.
Qed.

Lemma find_non_matches_err mt rexes all err : find_non_matches mt rexes all = Err err -> err = E_NO_MATCH.
Proof.
  unfold find_non_matches. destruct rexes as [|r0 rs]; [discriminate|].
  destruct (mapM _ _) as [firsts|e1] eqn:Em; cbn [bind]; [discriminate|]. intro H. injection H as <-.
  destruct (mapM_err _ _ _ Em) as [x [_ Hx]]. eapply first_matching_err. exact Hx.
Qed.

Lemma take_sample_err {T} samples (z : list T) err : take_sample samples z = Err err -> err = E_NO_SAMPLE.
Proof.
  unfold take_sample. destruct samples as [|idx rest]; [intro H; injection H as <-; reflexivity|].
  destruct (mapM _ idx) as [picked|e1] eqn:Em; cbn [bind]; [discriminate|]. intro H. injection H as <-.
  destruct (mapM_err _ _ _ Em) as [i [_ Hi]]. destruct (nth_error z i); [discriminate|]. injection Hi as <-. reflexivity.
Qed.

Lemma sample_non_matches_err o mt samples rexes all maxN err :
  sample_non_matches o mt samples rexes all maxN = Err err -> err <> E_FUEL.
Proof.
  unfold sample_non_matches. destruct (find_non_matches mt rexes all) as [[failures rf]|e1] eqn:Ef; cbn [bind].
  - destruct maxN as [mx|]; [|discriminate]. destruct (_ && _); [|discriminate].
    destruct (take_sample samples failures) as [ps|e2] eqn:Et; cbn [bind]; [discriminate|]. intro H. injection H as <-.
    rewrite (take_sample_err _ _ _ Et). neq_fuel.
  - intro H. injection H as <-. rewrite (find_non_matches_err _ _ _ _ Ef). neq_fuel.
Qed.

(* ------------------------------------------------------------------ what clean stores *)
Lemma counter_add_strings t n strings freqs s :
  In s (fst (counter_add t n strings freqs)) -> s = t \/ In s strings.
Proof.
  revert freqs; induction strings as [|u strings IH]; intros freqs; cbn [counter_add].
  - intros [<-|[]]. left. reflexivity.
  - destruct freqs as [|f freqs]; [intros [<-|[]]; left; reflexivity|].
    destruct (str_eqb t u); [intro H; right; exact H|].
    specialize (IH freqs). destruct (counter_add t n strings freqs) as [ss fs]. cbn [fst] in *.
    intros [<-|H]; [right; left; reflexivity|]. destruct (IH H) as [->|H']; [left; reflexivity|right; right; exact H'].
Qed.

Lemma counter_add_lengths t n strings freqs : length strings = length freqs ->
  length (fst (counter_add t n strings freqs)) = length (snd (counter_add t n strings freqs)).
Proof.
  revert freqs; induction strings as [|u strings IH]; intros [|f freqs] H; cbn [counter_add]; try reflexivity; try discriminate.
  destruct (str_eqb t u); [exact H|]. specialize (IH freqs ltac:(cbn in H; lia)).
  destruct (counter_add t n strings freqs) as [ss fs]. cbn [fst snd length] in *. lia.
Qed.

Definition clean_form (ct : chartab) (o : ropts) (s : str) : str := if o_strip o then strip_ct ct s else s.

Lemma clean_fold_inv ct o items : forall st,
  length (fst (fst st)) = length (snd (fst st)) ->
  let st' := fold_left (clean_step ct o) items st in
  length (fst (fst st')) = length (snd (fst st')) /\
  forall t, In t (fst (fst st')) -> In t (fst (fst st)) \/ exists s n, In (Some s, n) items /\ t = clean_form ct o s.
Proof.
  induction items as [|it items IH]; intros st Hl; cbn [fold_left]; [split; [exact Hl|intros t H; left; exact H]|].
  assert (Hstep : length (fst (fst (clean_step ct o st it))) = length (snd (fst (clean_step ct o st it))) /\
                  forall t, In t (fst (fst (clean_step ct o st it))) ->
                            In t (fst (fst st)) \/ exists s n, it = (Some s, n) /\ t = clean_form ct o s).
  { destruct st as [[strings freqs] stripped]. cbn [fst snd] in Hl. unfold clean_step.
    destruct it as [[s|] n]; cbn [fst snd]; [|split; [exact Hl|intros t H; left; exact H]].
    destruct (Z.eqb n 0); [split; [exact Hl|intros t H; left; exact H]|]. cbv zeta.
    destruct (o_remove_empties o && _); [split; [exact Hl|intros t H; left; exact H]|].
    pose proof (counter_add_lengths (if o_strip o then strip_ct ct s else s) n strings freqs Hl) as H1.
    pose proof (counter_add_strings (if o_strip o then strip_ct ct s else s) n strings freqs) as H2.
    destruct (counter_add _ n strings freqs) as [ss fs]. cbn [fst snd] in *. split; [exact H1|].
    intros t Ht. destruct (H2 t Ht) as [->|H]; [right; exists s, n; split; reflexivity|left; exact H]. }
  destruct Hstep as [Hl' Hs]. destruct (IH _ Hl') as [IH1 IH2]. split; [exact IH1|].
  intros t Ht. destruct (IH2 t Ht) as [H|(s & n & Hin & ->)].
  - destruct (Hs t H) as [H'|(s & n & -> & ->)]; [left; exact H'|right; exists s, n; split; [left; reflexivity|reflexivity]].
  - right. exists s, n. split; [right; exact Hin|reflexivity].
Qed.

Lemma clean_lengths ct o items : length (ex_strings (fst (clean ct o items))) = length (ex_freqs (fst (clean ct o items))).
Proof.
  rewrite clean_unfold. pose proof (clean_fold_inv ct o items ([], [], false) eq_refl) as [H _].
  destruct (fold_left _ items _) as [[strings freqs] stripped]. exact H.
Qed.

Lemma clean_strings_sub ct o items t : In t (ex_strings (fst (clean ct o items))) ->
  exists s n, In (Some s, n) items /\ t = clean_form ct o s.
Proof.
  rewrite clean_unfold. pose proof (clean_fold_inv ct o items ([], [], false) eq_refl) as [_ H].
  destruct (fold_left _ items _) as [[strings freqs] stripped]. cbn [fst ex_strings] in *. intro Ht.
  destruct (H t Ht) as [[]|H']. exact H'.
Qed.

(* the stored examples are in final form: cleaning them again changes nothing *)
Definition stored_final (ct : chartab) (o : ropts) (all : examples) : Prop :=
  forall s, In s (ex_strings all) -> clean_form ct o s = s.

Lemma clean_stored_final ct o items : stored_final ct o (fst (clean ct o items)).
Proof.
  intros t Ht. destruct (clean_strings_sub ct o items t Ht) as (s & n & _ & ->). unfold clean_form.
  destruct (o_strip o); [apply strip_idem|reflexivity].
Qed.

(* the failures found by a check, cleaned, are stored strings *)
Lemma failex_sub ct o all fails : stored_final ct o all ->
  incl fails (combine (ex_strings all) (ex_freqs all)) ->
  incl (ex_strings (fst (clean ct o (map (fun sf : str * Z => (Some (fst sf), snd sf)) fails)))) (ex_strings all).
Proof.
  intros Hf Hsub t Ht. destruct (clean_strings_sub _ _ _ _ Ht) as (s & n & Hin & ->).
  apply in_map_iff in Hin as [[s' n'] [E Hin]]. cbn [fst snd] in E. injection E as -> ->.
  apply Hsub, in_combine_l in Hin. rewrite (Hf s Hin). exact Hin.
Qed.

(* ------------------------------------------------------------------ the measure *)
Definition missing (all : examples) (strings : list str) : list str :=
  filter (fun s => negb (mem_str s strings)) (ex_strings all).

Lemma filter_length_mono {T} (f g : T -> bool) l : (forall x, In x l -> g x = true -> f x = true) ->
  (length (filter g l) <= length (filter f l))%nat.
Proof.
  induction l as [|x l IH]; intro H; cbn [filter]; [lia|].
  specialize (IH (fun y Hy => H y (or_intror Hy))). pose proof (H x (or_introl eq_refl)) as Hx.
  destruct (g x); [rewrite (Hx eq_refl); cbn [length]; lia|]. destruct (f x); cbn [length]; lia.
Qed.

Lemma filter_length_strict {T} (f g : T -> bool) l x : (forall y, In y l -> g y = true -> f y = true) ->
  In x l -> f x = true -> g x = false -> (length (filter g l) < length (filter f l))%nat.
Proof.
  induction l as [|y l IH]; intros H Hin Hf Hg; [destruct Hin|]. cbn [filter].
  pose proof (filter_length_mono f g l (fun z Hz => H z (or_intror Hz))) as Hm.
  destruct Hin as [->|Hin].
  - rewrite Hf, Hg. cbn [length]. lia.
  - specialize (IH (fun z Hz => H z (or_intror Hz)) Hin Hf Hg). pose proof (H y (or_introl eq_refl)) as Hy.
    destruct (g y); [rewrite (Hy eq_refl); cbn [length]; lia|]. destruct (f y); cbn [length]; lia.
Qed.

Lemma missing_mono all l l' : incl l l' -> (length (missing all l') <= length (missing all l))%nat.
Proof.
  intro Hi. unfold missing. apply filter_length_mono. intros x _ Hx. apply negb_true_iff in Hx. apply negb_true_iff.
  destruct (mem_str x l) eqn:E; [|reflexivity]. apply mem_str_In in E. apply Hi in E. apply mem_str_In in E. congruence.
Qed.

Lemma missing_strict all l l' x : incl l l' -> In x (ex_strings all) -> ~ In x l -> In x l' ->
  (length (missing all l') < length (missing all l))%nat.
Proof.
  intros Hi Hall Hn Hin. unfold missing. apply (filter_length_strict _ _ _ x).
  - intros y _ Hy. apply negb_true_iff in Hy. apply negb_true_iff.
    destruct (mem_str y l) eqn:E; [|reflexivity]. apply mem_str_In in E. apply Hi in E. apply mem_str_In in E. congruence.
  - exact Hall.
  - apply negb_true_iff. destruct (mem_str x l) eqn:E; [|reflexivity]. apply mem_str_In in E. contradiction.
  - apply negb_false_iff. apply mem_str_In. exact Hin.
Qed.

(* ------------------------------------------------------------------ the loop never runs out of fuel *)
Theorem extract_loop_fuel ct o e stripped gt mt all : stored_final ct o all ->
  forall fuel samples ex attempt,
  (Z.to_nat (z_max_sampled_attempts o + 1 - attempt) + length (missing all (ex_strings ex)) < fuel)%nat ->
  extract_loop fuel ct o e stripped gt mt all samples ex attempt <> Err E_FUEL.
Proof.
  intro Hfin. induction fuel as [|fuel IH]; intros samples ex attempt Hm; [lia|].
  cbn [extract_loop].
  destruct (batch_extract ct o e stripped gt ex) as [[merged rex]|err] eqn:Eb; cbn [bind];
    [|intro H; injection H as ->; exact (batch_extract_err _ _ _ _ _ _ _ Eb eq_refl)].
  set (maxN := if Z.ltb (z_max_sampled_attempts o) attempt then None else Some (z_do_all_exceptions o)).
  destruct (sample_non_matches o mt samples rex all maxN) as [[[fails re_freqs] samples1]|err] eqn:Es; cbn [bind];
    [|intro H; injection H as ->; exact (sample_non_matches_err _ _ _ _ _ _ _ Es eq_refl)].
  pose proof (sample_non_matches_incl _ _ _ _ _ _ _ _ _ Es) as Hsub.
  set (failex := fst (clean ct o (map (fun sf : str * Z => (Some (fst sf), snd sf)) fails))).
  pose proof (failex_sub ct o all fails Hfin Hsub) as Hfx. fold failex in Hfx.
  destruct (ex_strings failex) as [|fs0 fsr] eqn:Efs; [discriminate|]. rewrite <- Efs in *.
  destruct (filter _ (combine (ex_strings failex) (ex_freqs failex))) as [|fr0 frr] eqn:Efresh; [discriminate|].
  assert (Hfr : forall sf, In sf (fr0 :: frr) -> In (fst sf) (ex_strings all) /\ ~ In (fst sf) (ex_strings ex)).
  { intros [s f] Hin. rewrite <- Efresh in Hin. apply filter_In in Hin as [Hin Hn]. cbn [fst] in *. split.
    - apply Hfx. eapply in_combine_l. exact Hin.
    - apply negb_true_iff in Hn. intro Hc. apply mem_str_In in Hc. congruence. }
  destruct (Z.leb _ _ || Z.ltb (z_max_sampled_attempts o) attempt) eqn:Ecase.
  - apply IH. cbn [ex_strings].
    destruct (Z.ltb_spec (z_max_sampled_attempts o) attempt) as [Hlt|Hge].
    + (* unsampled pass: a stored string that was missing has been added *)
      destruct (Hfr fr0 (or_introl eq_refl)) as [Ha Hn].
      pose proof (missing_strict all (ex_strings ex) (ex_strings ex ++ map fst (fr0 :: frr)) (fst fr0)
                    (incl_appl _ (incl_refl _)) Ha Hn ltac:(apply in_or_app; right; left; reflexivity)) as Hs.
      replace (Z.to_nat (z_max_sampled_attempts o + 1 - (attempt + 1))) with O by lia.
      replace (Z.to_nat (z_max_sampled_attempts o + 1 - attempt)) with O in Hm by lia. lia.
    + pose proof (missing_mono all (ex_strings ex) (ex_strings ex ++ map fst (fr0 :: frr)) (incl_appl _ (incl_refl _))) as Hs.
      assert (Z.to_nat (z_max_sampled_attempts o + 1 - (attempt + 1)) < Z.to_nat (z_max_sampled_attempts o + 1 - attempt))%nat by lia.
      lia.
  - apply orb_false_iff in Ecase as [_ Ege]. apply Z.ltb_ge in Ege.
    destruct (take_sample samples1 (fr0 :: frr)) as [[pk rest]|err] eqn:Et; cbn [bind];
      [|intro H; injection H as ->; pose proof (take_sample_err _ _ _ Et) as E6; vm_compute in E6; discriminate E6].
    apply IH. cbn [ex_strings fst snd].
    pose proof (missing_mono all (ex_strings ex) (ex_strings ex ++ map fst pk) (incl_appl _ (incl_refl _))) as Hs.
    assert (Z.to_nat (z_max_sampled_attempts o + 1 - (attempt + 1)) < Z.to_nat (z_max_sampled_attempts o + 1 - attempt))%nat by lia.
    lia.
Qed.

(* the whole run: the model's bound on the number of passes is never what stops it *)
Theorem run_extractor_fuel ct o gt mt samples items : run_extractor ct o gt mt samples items <> Err E_FUEL.
Proof.
  unfold run_extractor. pose proof (clean_stored_final ct o items) as Hfin.
  destruct (clean ct o items) as [all stripped]. cbn [fst] in Hfin.
  destruct (sample_non_matches o mt samples [] all (z_do_all o)) as [[[picked rf0] samples1]|err] eqn:Es; cbn [bind];
    [|intro H; injection H as ->; exact (sample_non_matches_err _ _ _ _ _ _ _ Es eq_refl)].
  set (ex := fst (clean ct o (map (fun sf : str * Z => (Some (fst sf), snd sf)) picked))).
  set (e := norm_extras (thin_extras (o_extra o) (ex_strings ex))).
  destruct (ex_strings ex) as [|x0 xs] eqn:Eex; [discriminate|].
  destruct (extract_loop _ ct o e stripped gt mt all samples1 ex 1) as [r|err] eqn:El; cbn [bind].
  - destruct r as [[[[[[merged rex] re_freqs] lastfail] ex'] samples2] passes].
    destruct (o_dialect_out o); [|discriminate].
    destruct (mapM _ _) as [final|err] eqn:Ef; cbn [bind]; [discriminate|]. intro H. injection H as ->.
    destruct (mapM_err _ _ _ Ef) as [x [_ Hx]]. pose proof (vrle2re_err _ _ _ _ _ _ _ Hx) as E6. vm_compute in E6. discriminate E6.
  - intro H. injection H as ->. revert El. apply extract_loop_fuel; [exact Hfin|].
    assert (length (missing all (ex_strings ex)) <= length (ex_strings all))%nat by apply filter_length_le.
    lia.
Qed.

(* ------------------------------------------------------------------ what is left when the loop stops *)
Lemma filter_nil_all {T} (f : T -> bool) l : filter f l = [] -> forall x, In x l -> f x = false.
Proof.
  induction l as [|y l IH]; intros H x Hin; [destruct Hin|]. cbn [filter] in H. destruct (f y) eqn:E; [discriminate|].
  destruct Hin as [<-|Hin]; [exact E|apply IH; assumption].
Qed.

Lemma extract_loop_last_failures fuel ct o e stripped gt mt all : forall samples ex attempt merged rex rf lf ex' smp' passes,
  extract_loop fuel ct o e stripped gt mt all samples ex attempt = Ok (merged, rex, rf, lf, ex', smp', passes) ->
  forall s, In s lf -> In s (ex_strings ex').
Proof.
  induction fuel as [|fuel IH]; intros samples ex attempt merged rex rf lf ex' smp' passes H; [discriminate|].
  cbn [extract_loop] in H.
  destruct (batch_extract ct o e stripped gt ex) as [[m1 r1]|err]; cbn [bind] in H; [|discriminate].
  destruct (sample_non_matches _ _ _ _ _ _) as [[[fails re_freqs] samples1]|err]; cbn [bind] in H; [|discriminate].
  set (failex := fst (clean ct o (map (fun sf : str * Z => (Some (fst sf), snd sf)) fails))) in *.
  destruct (ex_strings failex) as [|fs0 fsr] eqn:Efs.
  - injection H as _ _ _ <- _ _ _. intros s [].
  - rewrite <- Efs in *.
    destruct (filter _ (combine (ex_strings failex) (ex_freqs failex))) as [|fr0 frr] eqn:Efresh.
    + injection H as _ _ _ <- <- _ _. intros s Hs.
      destruct (in_combine_exists (ex_strings failex) (ex_freqs failex) s (clean_lengths _ _ _) Hs) as [f Hin].
      pose proof (filter_nil_all _ _ Efresh (s, f) Hin) as Hn. cbn [fst] in Hn.
      apply negb_false_iff in Hn. apply mem_str_In. exact Hn.
    + destruct (Z.leb _ _ || Z.ltb _ _).
      * eapply IH; exact H.
      * destruct (take_sample samples1 (fr0 :: frr)) as [ps|err]; cbn [bind] in H; [|discriminate].
        eapply IH; exact H.
Qed.

(* when a run ends, every string that its last check found unmatched is one of the working examples *)
Theorem run_extractor_last_failures ct o gt mt samples items lo :
  run_extractor ct o gt mt samples items = Ok lo ->
  forall s, In s (lo_last_failures lo) -> In s (ex_strings (lo_examples lo)).
Proof.
  unfold run_extractor. destruct (clean ct o items) as [all stripped].
  destruct (sample_non_matches o mt samples [] all (z_do_all o)) as [[[picked rf0] samples1]|err]; cbn [bind]; [|discriminate].
  set (ex := fst (clean ct o (map (fun sf : str * Z => (Some (fst sf), snd sf)) picked))).
  set (e := norm_extras (thin_extras (o_extra o) (ex_strings ex))).
  destruct (ex_strings ex) as [|x0 xs] eqn:Eex.
  - intro H. injection H as <-. intros s [].
  - destruct (extract_loop _ ct o e stripped gt mt all samples1 ex 1) as [r|err] eqn:El; cbn [bind]; [|discriminate].
    destruct r as [[[[[[merged rex] re_freqs] lastfail] ex'] samples2] passes].
    pose proof (extract_loop_last_failures _ _ _ _ _ _ _ _ _ _ _ _ _ _ _ _ _ _ El) as Hl.
    destruct (o_dialect_out o).
    + destruct (mapM _ _) as [final|err]; cbn [bind]; [|discriminate]. intro H. injection H as <-. exact Hl.
    + intro H. injection H as <-. exact Hl.
Qed.
