(* A model of the regular-expression TEXT that rexpy writes, for the fragment of Python's re syntax it uses
   (no extra letters): an abstract syntax, a parser from text, and a backtracking matcher.  The parser and matcher
   are executable and are compared with CPython's re on every (expression, string) pair of the real runs. *)
From Coq Require Import ZArith List Bool.
From Tdda Require Import Base.Sexp Base.Str Rexpy.Chars Rexpy.Pipeline Rexpy.OracleCheck Rexpy.Wire.
Import ListNotations.
Open Scope Z_scope.

(* ------------------------------------------------------------------ abstract syntax *)
Inductive britem := BChar (c : Z) | BRange (a b : Z) | BNotWord | BSpace.
Inductive cset := CAny | CDigit | CSpace | CLit (c : Z) | CBr (neg : bool) (items : list britem) | CUnion (a b : cset).
Record item := { i_set : cset; i_min : Z; i_max : option Z }.

(* ------------------------------------------------------------------ meaning *)
Definition sem_britem (ct : chartab) (b : britem) (c : Z) : bool :=
  match b with
  | BChar x => Z.eqb x c
  | BRange a z => between a z c
  | BNotWord => negb (is_word ct c)
  | BSpace => ct_space ct c
  end.

Fixpoint sem_cset (ct : chartab) (s : cset) (c : Z) : bool :=
  match s with
  | CAny => true                                   (* DOTALL *)
  | CDigit => ct_decimal ct c
  | CSpace => ct_space ct c
  | CLit x => Z.eqb x c
  | CBr neg items => xorb neg (existsb (fun b => sem_britem ct b c) items)
  | CUnion a b => sem_cset ct a c || sem_cset ct b c      (* (a|b) with single-character alternatives *)
  end.

Fixpoint take_while (p : Z -> bool) (s : str) : nat :=
  match s with
  | c :: s' => if p c then S (take_while p s') else O
  | [] => O
  end.

(* does the whole string match the sequence of quantified character sets? *)
Fixpoint match_items (ct : chartab) (items : list item) (s : str) : bool :=
  match items with
  | [] => match s with [] => true | _ => false end
  | it :: rest =>
    let k := take_while (sem_cset ct (i_set it)) s in
    existsb (fun n => count_okb (i_min it) (i_max it) n && match_items ct rest (skipn n s)) (seq 0 (S k))
  end.

(* ------------------------------------------------------------------ parser *)
Definition ascii_alnum (c : Z) : bool := is_upper c || is_lower c || is_09 c.
(* characters that are not literal when plain:  \ [ ] ( ) { } * + ? | ^ $ . *)
Definition metas : str := [92; 91; 93; 40; 41; 123; 125; 42; 43; 63; 124; 94; 36; 46].
Definition is_meta (c : Z) : bool := memc c metas.

(* the items of a bracket expression, after '[' or '[^'.  (Tests are written with Z.eqb rather than numeral
   patterns so that they can be reasoned about with a symbolic character.) *)
Fixpoint parse_br (fuel : nat) (s : str) (first : bool) : option (list britem * str) :=
  match fuel with
  | O => None
  | S f =>
    let continue (b : britem) (r : str) :=
        match parse_br f r false with Some (its, r') => Some (b :: its, r') | None => None end in
    match s with
    | [] => None
    | c :: r =>
      if Z.eqb c 93 then (if first then continue (BChar 93) r else Some ([], r))
      else if Z.eqb c 92 then
        match r with
        | x :: r' => if Z.eqb x 87 then continue BNotWord r'
                     else if Z.eqb x 115 then continue BSpace r'
                     else if ascii_alnum x then None
                     else continue (BChar x) r'
        | [] => None
        end
      else
        match r with
        | d1 :: d :: r' =>
          if Z.eqb d1 45 then
            (if Z.eqb d 93 then Some ([BChar c; BChar 45], r')
             else if Z.eqb d 92 then None
             else continue (BRange c d) r')
          else continue (BChar c) r
        | _ => continue (BChar c) r
        end
    end
  end.

Definition parse_basic (s : str) : option (cset * str) :=
  match s with
  | [] => None
  | c :: r =>
    if Z.eqb c 92 then
      match r with
      | x :: r' => if Z.eqb x 100 then Some (CDigit, r')
                   else if Z.eqb x 115 then Some (CSpace, r')
                   else if ascii_alnum x then None
                   else Some (CLit x, r')
      | [] => None
      end
    else if Z.eqb c 91 then
      match r with
      | x :: r' =>
        if Z.eqb x 94 then
          match parse_br (length r') r' true with Some (its, r2) => Some (CBr true its, r2) | None => None end
        else
          match parse_br (length r) r true with Some (its, r2) => Some (CBr false its, r2) | None => None end
      | [] => None
      end
    else if Z.eqb c 46 then Some (CAny, r)
    else if is_meta c then None
    else Some (CLit c, r)
  end.

(* after '(' : an alternation of two single-character atoms, (a|b), as with extra letters: ([^\W_]|[.-]) *)
Definition parse_alt (r : str) : option (cset * str) :=
  match parse_basic r with
  | Some (a1, c1 :: r1) =>
    if Z.eqb c1 124 then
      match parse_basic r1 with
      | Some (a2, c2 :: r2) => if Z.eqb c2 41 then Some (CUnion a1 a2, r2) else None
      | _ => None
      end
    else None
  | _ => None
  end.

Definition parse_atom (s : str) : option (cset * str) :=
  match s with
  | c :: r => if Z.eqb c 40 then parse_alt r else parse_basic s
  | [] => None
  end.

(* a maximal run of decimal digits, as a number *)
Fixpoint read_digits (s : str) (acc : Z) (seen : bool) : option Z * str :=
  match s with
  | c :: r => if is_09 c then read_digits r (acc * 10 + (c - 48)) true else ((if seen then Some acc else None), s)
  | [] => ((if seen then Some acc else None), s)
  end.

Definition starts_quant (s : str) : bool :=
  match s with c :: _ => Z.eqb c 42 || Z.eqb c 43 || Z.eqb c 63 || Z.eqb c 123 | [] => false end.

(* the quantifier, if any, and the rest; stacked or lazy quantifiers are not part of the fragment *)
Definition parse_quant (s : str) : option (Z * option Z * str) :=
  let checked (m : Z) (M : option Z) (r : str) := if starts_quant r then None else Some (m, M, r) in
  match s with
  | [] => Some (1, Some 1, s)
  | c :: r =>
    if Z.eqb c 42 then checked 0 None r
    else if Z.eqb c 43 then checked 1 None r
    else if Z.eqb c 63 then checked 0 (Some 1) r
    else if Z.eqb c 123 then
      match read_digits r 0 false with
      | (Some m, c2 :: r') =>
        if Z.eqb c2 125 then checked m (Some m) r'
        else if Z.eqb c2 44 then
          match read_digits r' 0 false with
          | (Some n, c3 :: r'') => if Z.eqb c3 125 then checked m (Some n) r'' else None
          | _ => None
          end
        else None
      | _ => None
      end
    else Some (1, Some 1, s)
  end.

(* quantified atoms up to (and including) the closing character: ')' inside a group, '$' at the top *)
Fixpoint parse_seq (fuel : nat) (top : bool) (s : str) : option (list item * str) :=
  match fuel with
  | O => None
  | S f =>
    match s with
    | [] => None
    | c :: r =>
      if Z.eqb c 36 then (if top then Some ([], r) else None)
      else if Z.eqb c 41 then (if top then None else Some ([], r))
      else
        match parse_atom s with
        | Some (cs, r1) =>
          match parse_quant r1 with
          | Some (m, M, r2) =>
            match parse_seq f top r2 with
            | Some (rest, r3) => Some ({| i_set := cs; i_min := m; i_max := M |} :: rest, r3)
            | None => None
            end
          | None => None
          end
        | None =>
          (* not an atom: a capture group around a sequence, at the top level only *)
          if Z.eqb c 40 && top then
            match parse_seq f false r with
            | Some (inner, r1) =>
              if starts_quant r1 then None else
              match parse_seq f true r1 with Some (rest, r2) => Some (inner ++ rest, r2) | None => None end
            | None => None
            end
          else None
        end
    end
  end.

(* '^' items '$' and nothing after *)
Definition parse_regex (s : str) : option (list item) :=
  match s with
  | c :: r => if Z.eqb c 94 then match parse_seq (S (length r)) true r with Some (items, []) => Some items | _ => None end
              else None
  | [] => None
  end.

(* re.match(text, s) with DOTALL|UNICODE, as rexpy calls it: '$' also matches just before a final newline *)
Definition drop_final_newline (s : str) : option str :=
  match rev s with c :: r => if Z.eqb c 10 then Some (rev r) else None | [] => None end.

Definition re_model_match (ct : chartab) (text s : str) : option bool :=
  match parse_regex text with
  | Some items => Some (match_items ct items s ||
                        match drop_final_newline s with Some s' => match_items ct items s' | None => false end)
  | None => None
  end.

(* re.fullmatch(text, s): the whole string, final line feed included *)
Definition re_model_fullmatch (ct : chartab) (text s : str) : option bool :=
  match parse_regex text with
  | Some items => Some (match_items ct items s)
  | None => None
  end.

(* ------------------------------------------------------------------ the same decision in polynomial time *)
(* match_items backtracks, which is exponential on expressions such as a?-?a?-?a?... (rexpy writes them for
   variable-length fragments); the extracted model uses the positions reachable after each item instead.
   RegexFast.v proves that the two agree on every expression and string. *)
Definition step_positions (ct : chartab) (s : str) (it : item) (ps : list nat) : list nat :=
  nodup Nat.eq_dec
    (flat_map (fun p => map (fun k => (p + k)%nat)
                            (filter (count_okb (i_min it) (i_max it))
                                    (seq 0 (S (take_while (sem_cset ct (i_set it)) (skipn p s)))))) ps).
Definition match_fast (ct : chartab) (items : list item) (s : str) : bool :=
  existsb (Nat.eqb (List.length s)) (fold_left (fun ps it => step_positions ct s it ps) items [O]).

Definition re_fast_match (ct : chartab) (text s : str) : option bool :=
  match parse_regex text with
  | Some items => Some (match_fast ct items s ||
                        match drop_final_newline s with Some s' => match_fast ct items s' | None => false end)
  | None => None
  end.
Definition re_fast_fullmatch (ct : chartab) (text s : str) : option bool :=
  match parse_regex text with
  | Some items => Some (match_fast ct items s)
  | None => None
  end.

(* ------------------------------------------------------------------ which refined patterns the text theorem covers *)
(* the categories that have a regular expression when there are no extra letters *)
Definition class_codes : list Z := [cA; ca; cL; cUL; cUM; cD; ch; cH; cX; cN; cn; cC; cUC; cWS; cP; cO; cAny].

Definition quant_okb (m : Z) (M : option Z) : bool :=
  Z.leb 0 m && match M with Some M' => Z.leb 0 M' | None => true end.

(* with the B/b/M codes that exist only with extra letters *)
Definition all_codes : list Z := class_codes ++ [cB; cb; cM].
(* what Categories keeps of extra_letters: a subset of _ . - in this order *)
Definition extras8 : list str := [[]; [95]; [46]; [45]; [95; 46]; [95; 45]; [46; 45]; [95; 46; 45]].

Definition frag_renderable (e : str) (f : frag) : bool :=
  match f_atom f with
  | ALit [c] => quant_okb (f_min f) (f_max f)
  | ALit _ => Z.eqb (f_min f) 1 && opt_Z_eqb (f_max f) 1
  | ARaw c => (Z.eqb c 46 || negb (is_meta c)) && quant_okb (f_min f) (f_max f)
  | AClass code => memc code all_codes && (match cat_re false e code with Some _ => true | None => false end) &&
                   quant_okb (f_min f) (f_max f)
  | ABracket cs => negb (match cs with [] => true | _ => false end) && quant_okb (f_min f) (f_max f)
  end.


(* are all the patterns of one batch extraction covered by the text theorem? *)
Definition batch_renderable (ct : chartab) (o : ropts) (e : str) (stripped : bool) (gt : groups_table) (ex : examples) : bool :=
  mem_str e extras8 &&
  match batch_extract ct o e stripped gt ex with
  | Ok (merged, _) => forallb (forallb (frag_renderable e)) merged
  | Err _ => false
  end.

(* (opts extras stripped groups strings) -> 0/1 *)
Definition renderable_entry (s : sexp) : sexp :=
  of_bool (batch_renderable py_chartab (sx_ropts (sx_nth 0 s)) (sx_str (sx_nth 1 s)) (sx_bool (sx_nth 2 s))
                            (map sx_grow (sx_list (sx_nth 3 s)))
                            {| ex_strings := sx_strs (sx_nth 4 s); ex_freqs := [] |}).

(* (text strings full) -> (2) outside the fragment | (b1 b2 ...) one 0/1 per string; full = 1: re.fullmatch, 0: re.match *)
Definition regex_entry (s : sexp) : sexp :=
  let text := sx_str (sx_nth 0 s) in
  let full := sx_bool (sx_nth 2 s) in
  match parse_regex text with
  | None => L [A 2]
  | Some _ => L (map (fun x => match (if full then re_fast_fullmatch else re_fast_match) py_chartab text (sx_str x) with
                               | Some true => A 1 | Some false => A 0 | None => A 2 end) (sx_list (sx_nth 1 s)))
  end.
