(* The expression TEXT that rexpy renders for a refined pattern parses (Regex.parse_regex) to the sequence of
   quantified character sets that the pattern denotes, and the model matcher accepts every string the pattern
   matches fragment by fragment.  Scope: no extra letters (e = []), the internal (perl) rendering. *)
From Coq Require Import ZArith List Bool Lia.
From Tdda Require Import Base.Sexp Base.Str Generated.Consts Rexpy.Chars Rexpy.Pipeline Rexpy.OracleCheck Rexpy.Sem
     Rexpy.Regex Rexpy.PipelineProofs Rexpy.BatchProofs.
Import ListNotations.
Open Scope Z_scope.

(* ------------------------------------------------------------------ A. the matcher is complete for its specification *)
Inductive lang (ct : chartab) : list item -> str -> Prop :=
| lang_nil : lang ct [] []
| lang_cons it rest s1 s2 :
    forallb (sem_cset ct (i_set it)) s1 = true -> count_ok (i_min it) (i_max it) (length s1) ->
    lang ct rest s2 -> lang ct (it :: rest) (s1 ++ s2).

Lemma take_while_ge p s1 s2 : forallb p s1 = true -> (length s1 <= take_while p (s1 ++ s2))%nat.
Proof.
  induction s1 as [|c s1 IH]; cbn [forallb app take_while length]; [lia|].
  intro H. apply andb_true_iff in H as [H1 H2]. rewrite H1. specialize (IH H2). lia.
Qed.

Lemma skipn_app_exact {T} (l1 l2 : list T) : skipn (length l1) (l1 ++ l2) = l2.
Proof. induction l1 as [|x l1 IH]; cbn; [reflexivity|exact IH]. Qed.

Theorem match_items_complete ct items s : lang ct items s -> match_items ct items s = true.
Proof.
  induction 1 as [|it rest s1 s2 Hall Hc _ IH]; [reflexivity|]. cbn [match_items].
  apply existsb_exists. exists (length s1). split.
  - apply in_seq. pose proof (take_while_ge _ s1 s2 Hall). lia.
  - rewrite skipn_app_exact, IH, andb_true_r. apply count_okb_ok. exact Hc.
Qed.

Lemma lang_app ct i1 i2 s1 s2 : lang ct i1 s1 -> lang ct i2 s2 -> lang ct (i1 ++ i2) (s1 ++ s2).
Proof.
  induction 1 as [|it rest a b Ha Hc _ IH]; intro H2; [exact H2|].
  rewrite <- app_assoc. cbn [app]. constructor; [exact Ha|exact Hc|apply IH; exact H2].
Qed.
