(* The expression TEXT that rexpy renders for a refined pattern parses (Regex.parse_regex) to the sequence of
   quantified character sets that the pattern denotes, and the model matcher accepts every string the pattern
   matches fragment by fragment.  Scope: no extra letters (e = []), the internal (perl) rendering. *)
From Coq Require Import ZArith List Bool Lia.
From Tdda Require Import Base.Sexp Base.Str Generated.Consts Rexpy.Chars Rexpy.Pipeline Rexpy.OracleCheck Rexpy.Sem
     Rexpy.Regex Rexpy.PipelineProofs Rexpy.BatchProofs.
Import ListNotations.
Open Scope Z_scope.

(* ------------------------------------------------------------------ A. the matcher is complete for its specification *)
Inductive lang (ct : chartab) : list item -> str -> Prop :=
| lang_nil : lang ct [] []
| lang_cons it rest s1 s2 :
    forallb (sem_cset ct (i_set it)) s1 = true -> count_ok (i_min it) (i_max it) (length s1) ->
    lang ct rest s2 -> lang ct (it :: rest) (s1 ++ s2).

Lemma take_while_ge p s1 s2 : forallb p s1 = true -> (length s1 <= take_while p (s1 ++ s2))%nat.
Proof.
  induction s1 as [|c s1 IH]; cbn [forallb app take_while length]; [lia|].
  intro H. apply andb_true_iff in H as [H1 H2]. rewrite H1. specialize (IH H2). lia.
Qed.

Lemma skipn_app_exact {T} (l1 l2 : list T) : skipn (length l1) (l1 ++ l2) = l2.
Proof. induction l1 as [|x l1 IH]; cbn; [reflexivity|exact IH]. Qed.

Theorem match_items_complete ct items s : lang ct items s -> match_items ct items s = true.
Proof.
  induction 1 as [|it rest s1 s2 Hall Hc _ IH]; [reflexivity|]. cbn [match_items].
  apply existsb_exists. exists (length s1). split.
  - apply in_seq. pose proof (take_while_ge _ s1 s2 Hall). lia.
  - rewrite skipn_app_exact, IH, andb_true_r. apply count_okb_ok. exact Hc.
Qed.

Lemma lang_app ct i1 i2 s1 s2 : lang ct i1 s1 -> lang ct i2 s2 -> lang ct (i1 ++ i2) (s1 ++ s2).
Proof.
  induction 1 as [|it rest a b Ha Hc _ IH]; intro H2; [exact H2|].
  rewrite <- app_assoc. cbn [app]. constructor; [exact Ha|exact Hc|apply IH; exact H2].
Qed.

(* ------------------------------------------------------------------ B. numbers and quantifiers *)
From Tdda Require Import Rexpy.DecProofs.

Lemma read_digits_run ds : forall acc seen r,
  forallb is_09 ds = true -> match r with c :: _ => is_09 c = false | [] => True end -> ds <> [] \/ seen = true ->
  read_digits (ds ++ r) acc seen = (Some (fold_left (fun a c => a * 10 + (c - 48)) ds acc), r).
Proof.
  induction ds as [|d ds IH]; intros acc seen r Hd Hr Hs; cbn [app fold_left].
  - destruct Hs as [Hs | ->]; [congruence|]. destruct r as [|c r]; cbn [read_digits]; [reflexivity|]. rewrite Hr. reflexivity.
  - cbn [forallb] in Hd. apply andb_true_iff in Hd as [Hd1 Hd2]. cbn [read_digits]. rewrite Hd1.
    apply IH; [exact Hd2|exact Hr|right; reflexivity].
Qed.

Lemma read_digits_dec n r : 0 <= n -> match r with c :: _ => is_09 c = false | [] => True end ->
  read_digits (dec_of_Z n ++ r) 0 false = (Some n, r).
Proof.
  intros Hn Hr. destruct (dec_of_Z_digits n Hn) as [Hd Hne].
  rewrite (read_digits_run _ 0 false r Hd Hr (or_introl Hne)). pose proof (undec_dec n Hn) as Hu. unfold undec in Hu.
  rewrite Hu. reflexivity.
Qed.

(* the first character of an atom's text is neither a sequence-level special ( $ ) nor a quantifier *)
Definition head_ok (regex : str) : Prop :=
  match regex with
  | c :: _ => (Z.eqb c 36 || Z.eqb c 41 || Z.eqb c 40 || Z.eqb c 42 || Z.eqb c 43 || Z.eqb c 63 || Z.eqb c 123) = false
  | [] => False
  end.

Definition atom_ok (cs : cset) (regex : str) : Prop :=
  (forall x, parse_atom (regex ++ x) = Some (cs, x)) /\ head_ok regex.

Lemma head_ok_not_quant regex x : head_ok regex -> starts_quant (regex ++ x) = false.
Proof.
  destruct regex as [|c regex]; [intros []|]. cbn [head_ok app starts_quant]. intro H.
  repeat (apply orb_false_iff in H as [H ?]). repeat (apply orb_false_iff; split); assumption.
Qed.

(* one step of parse_seq over an atom text followed by anything whose quantifier parses *)
Lemma parse_seq_step fuel top cs regex tail m M r2 rest r3 : atom_ok cs regex ->
  parse_quant tail = Some (m, M, r2) ->
  parse_seq fuel top r2 = Some (rest, r3) ->
  parse_seq (S fuel) top (regex ++ tail) = Some ({| i_set := cs; i_min := m; i_max := M |} :: rest, r3).
Proof.
  intros [Ha Hh] Hq Hr. destruct regex as [|c regex]; [destruct Hh|]. cbn [head_ok] in Hh.
  repeat (apply orb_false_iff in Hh as [Hh ?]).
  cbn [parse_seq app]. rewrite Hh. replace (Z.eqb c 41) with false by (symmetry; assumption).
  replace (Z.eqb c 40) with false by (symmetry; assumption).
  change (c :: regex ++ tail) with ((c :: regex) ++ tail). rewrite Ha, Hq, Hr. reflexivity.
Qed.

Definition quant_ok (m : Z) (M : option Z) : Prop := 0 <= m /\ match M with Some M' => 0 <= M' | None => True end.

(* the items that the text of a quantified atom parses to, and what they accept *)
Definition quant_items (cs : cset) (regex : str) (m : Z) (M : option Z) : list item :=
  match M with
  | None => [{| i_set := cs; i_min := (if Z.eqb m 0 then 0 else 1); i_max := None |}]
  | Some M' =>
    if Z.eqb m M' && negb (Z.eqb m 1) && Z.eqb m 2 && Nat.eqb (length regex) 1
    then [{| i_set := cs; i_min := 1; i_max := Some 1 |}; {| i_set := cs; i_min := 1; i_max := Some 1 |}]
    else [{| i_set := cs; i_min := m; i_max := Some M' |}]
  end.

Lemma quantified_parses fuel top cs regex m M rest irest rend :
  atom_ok cs regex -> quant_ok m M -> starts_quant rest = false ->
  parse_seq fuel top rest = Some (irest, rend) ->
  parse_seq (length (quant_items cs regex m M) + fuel) top (quantify regex m M ++ rest) =
  Some (quant_items cs regex m M ++ irest, rend).
Proof.
  intros Hok [Hm HM] Hsq Hrest. pose proof Hok as [Ha Hh].
  assert (Hplain : forall f, parse_seq f top rest = Some (irest, rend) ->
            parse_seq (S f) top (regex ++ rest) = Some ({| i_set := cs; i_min := 1; i_max := Some 1 |} :: irest, rend)).
  { intros f Hf. eapply parse_seq_step; [exact Hok| |exact Hf].
    unfold parse_quant. destruct rest as [|c rest]; [reflexivity|]. cbn [starts_quant] in Hsq.
    repeat (apply orb_false_iff in Hsq as [Hsq ?]).
    rewrite Hsq. replace (Z.eqb c 43) with false by (symmetry; assumption).
    replace (Z.eqb c 63) with false by (symmetry; assumption). replace (Z.eqb c 123) with false by (symmetry; assumption).
    reflexivity. }
  assert (Hone : forall qt m' M', parse_quant (qt ++ rest) = Some (m', M', rest) ->
            parse_seq (S fuel) top ((regex ++ qt) ++ rest) = Some ({| i_set := cs; i_min := m'; i_max := M' |} :: irest, rend)).
  { intros qt m' M' Hq. rewrite <- app_assoc. eapply parse_seq_step; [exact Hok|exact Hq|exact Hrest]. }
  unfold quantify, quant_items. destruct M as [M'|].
  - destruct (Z.eqb_spec m M') as [<-|Hne]; cbn [andb].
    + destruct (Z.eqb_spec m 1) as [->|Hn1]; cbn [negb andb].
      * cbn [length Nat.add]. apply Hplain. exact Hrest.
      * destruct (Z.eqb m 2 && Nat.eqb (length regex) 1) eqn:E2; cbn [length Nat.add].
        -- (* the doubled single character *)
           rewrite <- app_assoc. eapply parse_seq_step; [exact Hok| |apply Hplain; exact Hrest].
           unfold parse_quant. pose proof (head_ok_not_quant regex rest Hh) as Hq.
           destruct regex as [|c regex]; [destruct Hh|]. cbn [app] in *. cbn [starts_quant] in Hq.
           repeat (apply orb_false_iff in Hq as [Hq ?]).
           rewrite Hq. replace (Z.eqb c 43) with false by (symmetry; assumption).
           replace (Z.eqb c 63) with false by (symmetry; assumption). replace (Z.eqb c 123) with false by (symmetry; assumption).
           reflexivity.
        -- apply (Hone ([123] ++ dec_of_Z m ++ [125]) m (Some m)). unfold parse_quant. cbn [app].
           change (Z.eqb 123 42) with false. change (Z.eqb 123 43) with false. change (Z.eqb 123 63) with false.
           change (Z.eqb 123 123) with true. cbv iota.
           rewrite <- app_assoc. cbn [app]. rewrite (read_digits_dec m (125 :: rest) Hm ltac:(reflexivity)).
           change (Z.eqb 125 125) with true. cbv iota. rewrite Hsq. reflexivity.
    + destruct (Z.eqb m 0 && Z.eqb M' 1) eqn:E01; cbn [length Nat.add].
      * apply andb_true_iff in E01 as [E0 E1]. apply Z.eqb_eq in E0. apply Z.eqb_eq in E1. subst m M'.
        apply (Hone [63] 0 (Some 1)). unfold parse_quant. cbn [app].
        change (Z.eqb 63 42) with false. change (Z.eqb 63 43) with false. change (Z.eqb 63 63) with true. cbv iota.
        rewrite Hsq. reflexivity.
      * apply (Hone ([123] ++ dec_of_Z m ++ [44] ++ dec_of_Z M' ++ [125]) m (Some M')). unfold parse_quant. cbn [app].
        change (Z.eqb 123 42) with false. change (Z.eqb 123 43) with false. change (Z.eqb 123 63) with false.
        change (Z.eqb 123 123) with true. cbv iota.
        repeat (rewrite <- !app_assoc; cbn [app]).
        rewrite (read_digits_dec m (44 :: dec_of_Z M' ++ 125 :: rest) Hm ltac:(reflexivity)).
        change (Z.eqb 44 125) with false. change (Z.eqb 44 44) with true. cbv iota.
        rewrite (read_digits_dec M' (125 :: rest) HM ltac:(reflexivity)).
        change (Z.eqb 125 125) with true. cbv iota. rewrite Hsq. reflexivity.
  - cbn [length Nat.add]. destruct (Z.eqb m 0).
    + apply (Hone [42] 0 None). unfold parse_quant. cbn [app]. change (Z.eqb 42 42) with true. cbv iota. rewrite Hsq. reflexivity.
    + apply (Hone [43] 1 None). unfold parse_quant. cbn [app]. change (Z.eqb 43 42) with false. change (Z.eqb 43 43) with true.
      cbv iota. rewrite Hsq. reflexivity.
Qed.

Lemma quant_items_lang ct cs regex m M s :
  forallb (sem_cset ct cs) s = true -> count_ok m M (length s) -> lang ct (quant_items cs regex m M) s.
Proof.
  intros Hall Hc. unfold quant_items. destruct M as [M'|].
  - destruct (Z.eqb m M' && negb (Z.eqb m 1) && Z.eqb m 2 && Nat.eqb (length regex) 1) eqn:E.
    + apply andb_true_iff in E as [E _]. apply andb_true_iff in E as [E E2]. apply andb_true_iff in E as [E1 _].
      apply Z.eqb_eq in E1. apply Z.eqb_eq in E2. subst M' m. cbn [count_ok] in Hc.
      destruct s as [|a [|b [|c s]]]; cbn [length] in Hc; try lia.
      cbn [forallb] in Hall. apply andb_true_iff in Hall as [Ha Hb]. apply andb_true_iff in Hb as [Hb _].
      change [a; b] with ([a] ++ [b] ++ []). constructor; [cbn; rewrite Ha; reflexivity|cbn; lia|].
      constructor; [cbn; rewrite Hb; reflexivity|cbn; lia|constructor].
    + rewrite <- (app_nil_r s). constructor; [exact Hall|exact Hc|constructor].
  - rewrite <- (app_nil_r s). constructor; [exact Hall| |constructor]. cbn [i_min i_max count_ok] in *.
    destruct (Z.eqb_spec m 0); [left; reflexivity|]. destruct Hc as [Hc|Hc]; [contradiction|right; exact Hc].
Qed.

(* ------------------------------------------------------------------ C. atoms *)
Lemma memc_false_neq c l k : memc c l = false -> In k l -> Z.eqb c k = false.
Proof.
  unfold memc. intros H Hin. destruct (Z.eqb c k) eqn:E; [|reflexivity].
  assert (existsb (Z.eqb c) l = true) by (apply existsb_exists; exists k; split; assumption). congruence.
Qed.

Lemma forallb_memc (P : Z -> bool) l c : forallb P l = true -> memc c l = true -> P c = true.
Proof. intros Hf Hm. apply memc_In in Hm. rewrite forallb_forall in Hf. apply Hf. exact Hm. Qed.

Lemma not_meta_plain c : is_meta c = false -> atom_ok (CLit c) [c].
Proof.
  intro Hm. unfold is_meta in Hm.
  assert (H92 : Z.eqb c 92 = false) by (apply (memc_false_neq c metas); [exact Hm|cbn; tauto]).
  assert (H91 : Z.eqb c 91 = false) by (apply (memc_false_neq c metas); [exact Hm|cbn; tauto]).
  assert (H46 : Z.eqb c 46 = false) by (apply (memc_false_neq c metas); [exact Hm|cbn; tauto]).
  split.
  - intro x. cbn [app parse_atom]. rewrite H92, H91, H46. unfold is_meta. rewrite Hm. reflexivity.
  - cbn [head_ok].
    rewrite (memc_false_neq c metas 36 Hm), (memc_false_neq c metas 41 Hm), (memc_false_neq c metas 40 Hm),
            (memc_false_neq c metas 42 Hm), (memc_false_neq c metas 43 Hm), (memc_false_neq c metas 63 Hm),
            (memc_false_neq c metas 123 Hm); cbn; tauto.
Qed.

Lemma escaped_special c : memc c re_specials = true -> atom_ok (CLit c) [92; c].
Proof.
  intro Hs.
  pose proof (forallb_memc (fun k => negb (Z.eqb k 100) && negb (Z.eqb k 115) && negb (ascii_alnum k)) re_specials c
                ltac:(vm_compute; reflexivity) Hs) as H.
  apply andb_true_iff in H as [H H3]. apply andb_true_iff in H as [H1 H2].
  apply negb_true_iff in H1. apply negb_true_iff in H2. apply negb_true_iff in H3.
  split; [|reflexivity]. intro x. cbn [app parse_atom]. change (Z.eqb 92 92) with true. cbv iota.
  rewrite H1, H2, H3. reflexivity.
Qed.

Lemma metas_are_special c : memc c re_specials = false -> is_meta c = false.
Proof.
  intro H. unfold is_meta. destruct (memc c metas) eqn:E; [|reflexivity].
  pose proof (forallb_memc (fun k => memc k re_specials) metas c ltac:(vm_compute; reflexivity) E). congruence.
Qed.

Lemma unescapes_not_meta c : memc c unescapes = true -> is_meta c = false.
Proof.
  intro H. pose proof (forallb_memc (fun k => negb (is_meta k)) unescapes c ltac:(vm_compute; reflexivity) H) as Hn.
  apply negb_true_iff in Hn. exact Hn.
Qed.

Theorem escape_char_atom full c : atom_ok (CLit c) (escape_char full c).
Proof.
  unfold escape_char, re_escape_char. destruct full.
  - destruct (memc c re_specials) eqn:E; [apply escaped_special; exact E|apply not_meta_plain, metas_are_special; exact E].
  - destruct (memc c unescapes) eqn:Eu; [apply not_meta_plain, unescapes_not_meta; exact Eu|].
    destruct (memc c re_specials) eqn:E; [apply escaped_special; exact E|apply not_meta_plain, metas_are_special; exact E].
Qed.

Lemma dot_atom : atom_ok CAny [46].
Proof. split; [|reflexivity]. intro x. reflexivity. Qed.

(* ------------------------------------------------------------------ D. category classes (no extra letters) *)
Definition class_info (code : Z) : option (str * cset) :=
  match cat_re false [] code with
  | Some t => match parse_atom t with Some (cs, []) => Some (t, cs) | _ => None end
  | None => None
  end.

(* the categories that have a regular expression when there are no extra letters *)
Definition class_codes : list Z := [cA; ca; cL; cUL; cUM; cD; ch; cH; cX; cN; cn; cC; cUC; cWS; cP; cO; cAny].

Definition class_good (code : Z) : Prop :=
  exists t cs, cat_re false [] code = Some t /\ atom_ok cs t /\
               forall ct c, sem_cset ct cs c = cat_sem ct false [] code c.

Local Arguments Z.eqb : simpl nomatch.
Local Arguments Z.leb : simpl nomatch.

Ltac class_parse := split; [let x := fresh "x" in intro x; destruct x; reflexivity|reflexivity].
Ltac sem_atoms :=
  repeat match goal with
         | |- context [is_word ?ct ?c] => destruct (is_word ct c)
         | |- context [ct_alnum ?ct ?c] => destruct (ct_alnum ct c)
         | |- context [ct_space ?ct ?c] => destruct (ct_space ct c)
         | |- context [ct_decimal ?ct ?c] => destruct (ct_decimal ct c)
         | |- context [between ?a ?b ?c] => destruct (between a b c)
         | |- context [Z.eqb ?a ?b] => destruct (Z.eqb a b)
         end; reflexivity.
Ltac class_sem :=
  let ct := fresh "ct" in let c := fresh "c" in
  intros ct c; unfold cat_sem; cbn; unfold is_upper, is_lower, is_09, is_word; cbn;
  rewrite ?(Z.eqb_sym 95 c); sem_atoms.

(* the order in which escaped_bracket writes a set of characters *)
Definition bracket_order (chars : str) : str :=
  (if memc 93 chars then [93] else []) ++ filter (fun c => negb (memc c bracket_specials)) chars ++
  (if memc 92 chars then [92] else []) ++ (if memc 94 chars then [94] else []) ++ (if memc 45 chars then [45] else []).

Lemma bracket_order_In chars x : In x (bracket_order chars) <-> In x chars.
Proof.
  unfold bracket_order. rewrite !in_app_iff, filter_In. split.
  - intros [H|[[H _]|[H|[H|H]]]]; try exact H.
    + destruct (memc 93 chars) eqn:E; [|destruct H]. destruct H as [<-|[]]. apply memc_In. exact E.
    + destruct (memc 92 chars) eqn:E; [|destruct H]. destruct H as [<-|[]]. apply memc_In. exact E.
    + destruct (memc 94 chars) eqn:E; [|destruct H]. destruct H as [<-|[]]. apply memc_In. exact E.
    + destruct (memc 45 chars) eqn:E; [|destruct H]. destruct H as [<-|[]]. apply memc_In. exact E.
  - intro H. destruct (memc x bracket_specials) eqn:E.
    + apply memc_In in E. pose proof (proj2 (memc_In x chars) H) as Hm. cbn in E.
      destruct E as [<-|[<-|[<-|[<-|[]]]]]; rewrite Hm; cbn; tauto.
    + right. left. split; [exact H|]. reflexivity.
Qed.

Lemma memc_ext l l' c : (forall x, In x l <-> In x l') -> memc c l = memc c l'.
Proof.
  intro H. destruct (memc c l) eqn:E1, (memc c l') eqn:E2; try reflexivity.
  - apply memc_In, H, memc_In in E1. congruence.
  - apply memc_In, H, memc_In in E2. congruence.
Qed.

Lemma br_chars_sem ct l c : existsb (fun b => sem_britem ct b c) (map BChar l) = memc c l.
Proof.
  unfold memc. induction l as [|x l IH]; cbn [map existsb sem_britem]; [reflexivity|]. rewrite IH, (Z.eqb_sym x c). reflexivity.
Qed.

Lemma punct_set_sem c : memc c (punct_chars []) = punct_sem [] c.
Proof.
  destruct (between 33 126 c) eqn:Eb.
  - assert (Hin : In c (map Z.of_nat (seq 33 94))).
    { unfold between in Eb. apply andb_true_iff in Eb as [H1 H2]. apply Z.leb_le in H1. apply Z.leb_le in H2.
      apply in_map_iff. exists (Z.to_nat c). split; [lia|]. apply in_seq. lia. }
    assert (Hall : forallb (fun k => Bool.eqb (memc k (punct_chars [])) (punct_sem [] k))
                           (map Z.of_nat (seq 33 94)) = true) by (vm_compute; reflexivity).
    rewrite forallb_forall in Hall. specialize (Hall c Hin). apply Bool.eqb_prop in Hall. exact Hall.
  - unfold punct_sem. rewrite Eb. cbn [andb].
    assert (Hr : forallb (between 33 126) (punct_chars []) = true) by (vm_compute; reflexivity).
    rewrite forallb_forall in Hr. destruct (memc c (punct_chars [])) eqn:E; [|reflexivity].
    apply memc_In in E. rewrite (Hr c E) in Eb. discriminate.
Qed.

From Coq Require Import String.
Local Open Scope string_scope.
Ltac class_case t cs := exists t, cs; split; [vm_compute; reflexivity|split; [class_parse|class_sem]].

Theorem class_codes_good : Forall class_good class_codes.
Proof.
  unfold class_codes. repeat constructor.
  - class_case (s2l "[A-Z]") (CBr false [BRange 65 90]).
  - class_case (s2l "[a-z]") (CBr false [BRange 97 122]).
  - class_case (s2l "[A-Za-z]") (CBr false [BRange 65 90; BRange 97 122]).
  - class_case (s2l "[^\W0-9_]") (CBr true [BNotWord; BRange 48 57; BChar 95]).
  - class_case (s2l "[^\W0-9_]") (CBr true [BNotWord; BRange 48 57; BChar 95]).
  - class_case (s2l "\d") CDigit.
  - class_case (s2l "[0-9a-f]") (CBr false [BRange 48 57; BRange 97 102]).
  - class_case (s2l "[0-9A-F]") (CBr false [BRange 48 57; BRange 65 70]).
  - class_case (s2l "[0-9a-fA-F]") (CBr false [BRange 48 57; BRange 97 102; BRange 65 70]).
  - class_case (s2l "[A-Z0-9]") (CBr false [BRange 65 90; BRange 48 57]).
  - class_case (s2l "[a-z0-9]") (CBr false [BRange 97 122; BRange 48 57]).
  - class_case (s2l "[A-Za-z0-9]") (CBr false [BRange 65 90; BRange 97 122; BRange 48 57]).
  - class_case (s2l "[^\W_]") (CBr true [BNotWord; BChar 95]).
  - class_case (s2l "\s") CSpace.
  - (* punctuation: the bracket over the 32 ASCII punctuation characters *)
    exists (escaped_bracket false (punct_chars [])), (CBr false (map BChar (bracket_order (punct_chars [] )))).
    split; [reflexivity|]. split.
    + split; [|reflexivity]. intro x. destruct x; vm_compute; reflexivity.
    + intros ct c. cbn [sem_cset xorb]. rewrite br_chars_sem, (memc_ext _ _ c (bracket_order_In (punct_chars []))), punct_set_sem.
      change (cat_sem ct false [] cP c) with (punct_sem [] c). destruct (punct_sem [] c); reflexivity.
  - class_case (s2l "[^!-~\s]") (CBr true [BRange 33 126; BSpace]).
  - class_case (s2l ".") CAny.
Qed.

(* ------------------------------------------------------------------ E. bracket expressions over an arbitrary set *)
Local Close Scope string_scope.

Lemma parse_br_first f c r : Z.eqb c 93 = false -> parse_br (S f) (c :: r) true = parse_br (S f) (c :: r) false.
Proof. intro H. cbn [parse_br]. rewrite H. reflexivity. Qed.

(* a plain member followed by something that is not a dash *)
Lemma parse_br_plain f c d1 r its x : Z.eqb c 93 = false -> Z.eqb c 92 = false -> Z.eqb d1 45 = false ->
  parse_br f (d1 :: r) false = Some (its, x) ->
  parse_br (S f) (c :: d1 :: r) false = Some (BChar c :: its, x).
Proof.
  intros H93 H92 Hd H. cbn [parse_br]. rewrite H93, H92. destruct r as [|d r']; [rewrite H; reflexivity|].
  rewrite Hd, H. reflexivity.
Qed.

(* a plain member followed by the final dash *)
Lemma parse_br_dash f c x : Z.eqb c 93 = false -> Z.eqb c 92 = false ->
  parse_br (S f) (c :: 45 :: 93 :: x) false = Some ([BChar c; BChar 45], x).
Proof. intros H93 H92. cbn [parse_br]. rewrite H93, H92. reflexivity. Qed.

Definition plain_member (c : Z) : Prop := Z.eqb c 93 = false /\ Z.eqb c 92 = false /\ Z.eqb c 45 = false.

(* T is what follows the plain members: it does not start with a dash, or it is exactly the final dash *)
Lemma parse_br_mains ms : forall f T itsT x, Forall plain_member ms ->
  (match T with d :: _ => Z.eqb d 45 = false | [] => False end \/ (T = 45 :: 93 :: x /\ itsT = [BChar 45])) ->
  parse_br f T false = Some (itsT, x) ->
  parse_br (List.length ms + f) (ms ++ T) false = Some (map BChar ms ++ itsT, x).
Proof.
  induction ms as [|c ms IH]; intros f T itsT x Hms HT H; [exact H|].
  inversion Hms as [|? ? [H93 [H92 H45]] Hms']; subst. cbn [List.length Nat.add app map].
  specialize (IH f T itsT x Hms' HT H).
  destruct ms as [|c2 ms].
  - cbn [app List.length Nat.add map] in *. destruct HT as [HT|[-> ->]].
    + destruct T as [|d T]; [destruct HT|]. apply parse_br_plain; assumption.
    + apply parse_br_dash; assumption.
  - inversion Hms' as [|? ? [_ [_ H45']] _]; subst. cbn [app] in *. apply parse_br_plain; assumption.
Qed.
