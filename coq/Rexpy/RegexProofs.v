(* The expression TEXT that rexpy renders for a refined pattern parses (Regex.parse_regex) to the sequence of
   quantified character sets that the pattern denotes, and the model matcher accepts every string the pattern
   matches fragment by fragment.  Scope: no extra letters (e = []), the internal (perl) rendering. *)
From Coq Require Import ZArith List Bool Lia.
From Tdda Require Import Base.Sexp Base.Str Generated.Consts Rexpy.Chars Rexpy.Pipeline Rexpy.OracleCheck Rexpy.Sem
     Rexpy.Regex Rexpy.PipelineProofs Rexpy.RefineProofs Rexpy.BatchProofs.
Import ListNotations.
Open Scope Z_scope.

(* ------------------------------------------------------------------ A. the matcher is complete for its specification *)
Inductive lang (ct : chartab) : list item -> str -> Prop :=
| lang_nil : lang ct [] []
| lang_cons it rest s1 s2 :
    forallb (sem_cset ct (i_set it)) s1 = true -> count_ok (i_min it) (i_max it) (length s1) ->
    lang ct rest s2 -> lang ct (it :: rest) (s1 ++ s2).

Lemma take_while_ge p s1 s2 : forallb p s1 = true -> (length s1 <= take_while p (s1 ++ s2))%nat.
Proof.
  induction s1 as [|c s1 IH]; cbn [forallb app take_while length]; [lia|].
  intro H. apply andb_true_iff in H as [H1 H2]. rewrite H1. specialize (IH H2). lia.
Qed.

Lemma skipn_app_exact {T} (l1 l2 : list T) : skipn (length l1) (l1 ++ l2) = l2.
Proof. induction l1 as [|x l1 IH]; cbn; [reflexivity|exact IH]. Qed.

Theorem match_items_complete ct items s : lang ct items s -> match_items ct items s = true.
Proof.
  induction 1 as [|it rest s1 s2 Hall Hc _ IH]; [reflexivity|]. cbn [match_items].
  apply existsb_exists. exists (length s1). split.
  - apply in_seq. pose proof (take_while_ge _ s1 s2 Hall). lia.
  - rewrite skipn_app_exact, IH, andb_true_r. apply count_okb_ok. exact Hc.
Qed.

Lemma take_while_firstn p : forall s n, (n <= take_while p s)%nat -> forallb p (firstn n s) = true /\ length (firstn n s) = n.
Proof.
  induction s as [|c s IH]; intros n Hn; cbn [take_while] in Hn.
  - replace n with O by lia. split; reflexivity.
  - destruct n as [|n]; [split; reflexivity|]. destruct (p c) eqn:E; [|lia].
    destruct (IH n ltac:(lia)) as [H1 H2]. cbn [firstn forallb length]. rewrite E, H1, H2. split; reflexivity.
Qed.

(* ... and sound: the matcher decides its specification *)
Theorem match_items_sound ct items : forall s, match_items ct items s = true -> lang ct items s.
Proof.
  induction items as [|it rest IH]; intros s H; cbn [match_items] in H.
  - destruct s; [constructor|discriminate].
  - apply existsb_exists in H as [n [Hn Hb]]. apply in_seq in Hn. apply andb_true_iff in Hb as [Hc Hr].
    destruct (take_while_firstn (sem_cset ct (i_set it)) s n ltac:(lia)) as [Hall Hlen].
    rewrite <- (firstn_skipn n s). constructor; [exact Hall|rewrite Hlen; apply count_okb_ok; exact Hc|apply IH; exact Hr].
Qed.

Corollary match_items_spec ct items s : match_items ct items s = true <-> lang ct items s.
Proof. split; [apply match_items_sound|apply match_items_complete]. Qed.

Lemma lang_app ct i1 i2 s1 s2 : lang ct i1 s1 -> lang ct i2 s2 -> lang ct (i1 ++ i2) (s1 ++ s2).
Proof.
  induction 1 as [|it rest a b Ha Hc _ IH]; intro H2; [exact H2|].
  rewrite <- app_assoc. cbn [app]. constructor; [exact Ha|exact Hc|apply IH; exact H2].
Qed.

(* ------------------------------------------------------------------ B. numbers and quantifiers *)
From Tdda Require Import Rexpy.DecProofs.

Lemma read_digits_run ds : forall acc seen r,
  forallb is_09 ds = true -> match r with c :: _ => is_09 c = false | [] => True end -> ds <> [] \/ seen = true ->
  read_digits (ds ++ r) acc seen = (Some (fold_left (fun a c => a * 10 + (c - 48)) ds acc), r).
Proof.
  induction ds as [|d ds IH]; intros acc seen r Hd Hr Hs; cbn [app fold_left].
  - destruct Hs as [Hs | ->]; [congruence|]. destruct r as [|c r]; cbn [read_digits]; [reflexivity|]. rewrite Hr. reflexivity.
  - cbn [forallb] in Hd. apply andb_true_iff in Hd as [Hd1 Hd2]. cbn [read_digits]. rewrite Hd1.
    apply IH; [exact Hd2|exact Hr|right; reflexivity].
Qed.

Lemma read_digits_dec n r : 0 <= n -> match r with c :: _ => is_09 c = false | [] => True end ->
  read_digits (dec_of_Z n ++ r) 0 false = (Some n, r).
Proof.
  intros Hn Hr. destruct (dec_of_Z_digits n Hn) as [Hd Hne].
  rewrite (read_digits_run _ 0 false r Hd Hr (or_introl Hne)). pose proof (undec_dec n Hn) as Hu. unfold undec in Hu.
  rewrite Hu. reflexivity.
Qed.

(* the first character of an atom's text is neither a sequence-level special ( $ ) nor a quantifier *)
Definition head_ok (regex : str) : Prop :=
  match regex with
  | c :: _ => (Z.eqb c 36 || Z.eqb c 41 || Z.eqb c 40 || Z.eqb c 42 || Z.eqb c 43 || Z.eqb c 63 || Z.eqb c 123) = false
  | [] => False
  end.
(* ... the same, but an opening parenthesis (of an alternation) is allowed *)
Definition head_ok' (regex : str) : Prop :=
  match regex with
  | c :: _ => (Z.eqb c 36 || Z.eqb c 41 || Z.eqb c 42 || Z.eqb c 43 || Z.eqb c 63 || Z.eqb c 123) = false
  | [] => False
  end.

(* a basic atom (literal, escape, bracket, dot) *)
Definition basic_ok (cs : cset) (regex : str) : Prop :=
  (forall x, parse_basic (regex ++ x) = Some (cs, x)) /\ head_ok regex.
(* any atom, alternations included *)
Definition atom_ok (cs : cset) (regex : str) : Prop :=
  (forall x, parse_atom (regex ++ x) = Some (cs, x)) /\ head_ok' regex.

Lemma basic_atom cs regex : basic_ok cs regex -> atom_ok cs regex.
Proof.
  intros [Hp Hh]. destruct regex as [|c regex]; [destruct Hh|]. cbn [head_ok] in Hh.
  repeat (apply orb_false_iff in Hh as [Hh ?]). split.
  - intro x. cbn [app parse_atom]. replace (Z.eqb c 40) with false by (symmetry; assumption). apply (Hp x).
  - cbn [head_ok']. rewrite Hh. repeat (apply orb_false_iff; split); try assumption; reflexivity.
Qed.

Lemma head_ok_not_quant regex x : head_ok' regex -> starts_quant (regex ++ x) = false.
Proof.
  destruct regex as [|c regex]; [intros []|]. cbn [head_ok' app starts_quant]. intro H.
  repeat (apply orb_false_iff in H as [H ?]). repeat (apply orb_false_iff; split); assumption.
Qed.

(* one step of parse_seq over an atom text followed by anything whose quantifier parses *)
Lemma parse_seq_step fuel top cs regex tail m M r2 rest r3 : atom_ok cs regex ->
  parse_quant tail = Some (m, M, r2) ->
  parse_seq fuel top r2 = Some (rest, r3) ->
  parse_seq (S fuel) top (regex ++ tail) = Some ({| i_set := cs; i_min := m; i_max := M |} :: rest, r3).
Proof.
  intros [Ha Hh] Hq Hr. destruct regex as [|c regex]; [destruct Hh|]. cbn [head_ok'] in Hh.
  repeat (apply orb_false_iff in Hh as [Hh ?]).
  cbn [parse_seq app]. rewrite Hh. replace (Z.eqb c 41) with false by (symmetry; assumption).
  change (c :: regex ++ tail) with ((c :: regex) ++ tail). rewrite Ha, Hq, Hr. reflexivity.
Qed.

Definition quant_ok (m : Z) (M : option Z) : Prop := 0 <= m /\ match M with Some M' => 0 <= M' | None => True end.

(* the items that the text of a quantified atom parses to, and what they accept *)
Definition quant_items (cs : cset) (regex : str) (m : Z) (M : option Z) : list item :=
  match M with
  | None => [{| i_set := cs; i_min := (if Z.eqb m 0 then 0 else 1); i_max := None |}]
  | Some M' =>
    if Z.eqb m M' && negb (Z.eqb m 1) && Z.eqb m 2 && Nat.eqb (length regex) 1
    then [{| i_set := cs; i_min := 1; i_max := Some 1 |}; {| i_set := cs; i_min := 1; i_max := Some 1 |}]
    else [{| i_set := cs; i_min := m; i_max := Some M' |}]
  end.

Lemma quantified_parses fuel top cs regex m M rest irest rend :
  atom_ok cs regex -> quant_ok m M -> starts_quant rest = false ->
  parse_seq fuel top rest = Some (irest, rend) ->
  parse_seq (length (quant_items cs regex m M) + fuel) top (quantify regex m M ++ rest) =
  Some (quant_items cs regex m M ++ irest, rend).
Proof.
  intros Hok [Hm HM] Hsq Hrest. pose proof Hok as [Ha Hh].
  assert (Hplain : forall f, parse_seq f top rest = Some (irest, rend) ->
            parse_seq (S f) top (regex ++ rest) = Some ({| i_set := cs; i_min := 1; i_max := Some 1 |} :: irest, rend)).
  { intros f Hf. eapply parse_seq_step; [exact Hok| |exact Hf].
    unfold parse_quant. destruct rest as [|c rest]; [reflexivity|]. cbn [starts_quant] in Hsq.
    repeat (apply orb_false_iff in Hsq as [Hsq ?]).
    rewrite Hsq. replace (Z.eqb c 43) with false by (symmetry; assumption).
    replace (Z.eqb c 63) with false by (symmetry; assumption). replace (Z.eqb c 123) with false by (symmetry; assumption).
    reflexivity. }
  assert (Hone : forall qt m' M', parse_quant (qt ++ rest) = Some (m', M', rest) ->
            parse_seq (S fuel) top ((regex ++ qt) ++ rest) = Some ({| i_set := cs; i_min := m'; i_max := M' |} :: irest, rend)).
  { intros qt m' M' Hq. rewrite <- app_assoc. eapply parse_seq_step; [exact Hok|exact Hq|exact Hrest]. }
  unfold quantify, quant_items. destruct M as [M'|].
  - destruct (Z.eqb_spec m M') as [<-|Hne]; cbn [andb].
    + destruct (Z.eqb_spec m 1) as [->|Hn1]; cbn [negb andb].
      * cbn [length Nat.add]. apply Hplain. exact Hrest.
      * destruct (Z.eqb m 2 && Nat.eqb (length regex) 1) eqn:E2; cbn [length Nat.add].
        -- (* the doubled single character *)
           rewrite <- app_assoc. eapply parse_seq_step; [exact Hok| |apply Hplain; exact Hrest].
           unfold parse_quant. pose proof (head_ok_not_quant regex rest Hh) as Hq.
           destruct regex as [|c regex]; [destruct Hh|]. cbn [app] in *. cbn [starts_quant] in Hq.
           repeat (apply orb_false_iff in Hq as [Hq ?]).
           rewrite Hq. replace (Z.eqb c 43) with false by (symmetry; assumption).
           replace (Z.eqb c 63) with false by (symmetry; assumption). replace (Z.eqb c 123) with false by (symmetry; assumption).
           reflexivity.
        -- apply (Hone ([123] ++ dec_of_Z m ++ [125]) m (Some m)). unfold parse_quant. cbn [app].
           change (Z.eqb 123 42) with false. change (Z.eqb 123 43) with false. change (Z.eqb 123 63) with false.
           change (Z.eqb 123 123) with true. cbv iota.
           rewrite <- app_assoc. cbn [app]. rewrite (read_digits_dec m (125 :: rest) Hm ltac:(reflexivity)).
           change (Z.eqb 125 125) with true. cbv iota. rewrite Hsq. reflexivity.
    + destruct (Z.eqb m 0 && Z.eqb M' 1) eqn:E01; cbn [length Nat.add].
      * apply andb_true_iff in E01 as [E0 E1]. apply Z.eqb_eq in E0. apply Z.eqb_eq in E1. subst m M'.
        apply (Hone [63] 0 (Some 1)). unfold parse_quant. cbn [app].
        change (Z.eqb 63 42) with false. change (Z.eqb 63 43) with false. change (Z.eqb 63 63) with true. cbv iota.
        rewrite Hsq. reflexivity.
      * apply (Hone ([123] ++ dec_of_Z m ++ [44] ++ dec_of_Z M' ++ [125]) m (Some M')). unfold parse_quant. cbn [app].
        change (Z.eqb 123 42) with false. change (Z.eqb 123 43) with false. change (Z.eqb 123 63) with false.
        change (Z.eqb 123 123) with true. cbv iota.
        repeat (rewrite <- !app_assoc; cbn [app]).
        rewrite (read_digits_dec m (44 :: dec_of_Z M' ++ 125 :: rest) Hm ltac:(reflexivity)).
        change (Z.eqb 44 125) with false. change (Z.eqb 44 44) with true. cbv iota.
        rewrite (read_digits_dec M' (125 :: rest) HM ltac:(reflexivity)).
        change (Z.eqb 125 125) with true. cbv iota. rewrite Hsq. reflexivity.
  - cbn [length Nat.add]. destruct (Z.eqb m 0).
    + apply (Hone [42] 0 None). unfold parse_quant. cbn [app]. change (Z.eqb 42 42) with true. cbv iota. rewrite Hsq. reflexivity.
    + apply (Hone [43] 1 None). unfold parse_quant. cbn [app]. change (Z.eqb 43 42) with false. change (Z.eqb 43 43) with true.
      cbv iota. rewrite Hsq. reflexivity.
Qed.

Lemma quant_items_lang ct cs regex m M s :
  forallb (sem_cset ct cs) s = true -> count_ok m M (length s) -> lang ct (quant_items cs regex m M) s.
Proof.
  intros Hall Hc. unfold quant_items. destruct M as [M'|].
  - destruct (Z.eqb m M' && negb (Z.eqb m 1) && Z.eqb m 2 && Nat.eqb (length regex) 1) eqn:E.
    + apply andb_true_iff in E as [E _]. apply andb_true_iff in E as [E E2]. apply andb_true_iff in E as [E1 _].
      apply Z.eqb_eq in E1. apply Z.eqb_eq in E2. subst M' m. cbn [count_ok] in Hc.
      destruct s as [|a [|b [|c s]]]; cbn [length] in Hc; try lia.
      cbn [forallb] in Hall. apply andb_true_iff in Hall as [Ha Hb]. apply andb_true_iff in Hb as [Hb _].
      change [a; b] with ([a] ++ [b] ++ []). constructor; [cbn; rewrite Ha; reflexivity|cbn; lia|].
      constructor; [cbn; rewrite Hb; reflexivity|cbn; lia|constructor].
    + rewrite <- (app_nil_r s). constructor; [exact Hall|exact Hc|constructor].
  - rewrite <- (app_nil_r s). constructor; [exact Hall| |constructor]. cbn [i_min i_max count_ok] in *.
    destruct (Z.eqb_spec m 0); [left; reflexivity|]. destruct Hc as [Hc|Hc]; [contradiction|right; exact Hc].
Qed.

Lemma lang_single_inv ct it s : lang ct [it] s ->
  forallb (sem_cset ct (i_set it)) s = true /\ count_ok (i_min it) (i_max it) (length s).
Proof.
  intro H. inversion H as [|? ? s1 s2 Ha Hc Hr]; subst. inversion Hr; subst. rewrite app_nil_r. split; assumption.
Qed.

Lemma lang_app_inv ct i1 : forall i2 s, lang ct (i1 ++ i2) s -> exists s1 s2, s = s1 ++ s2 /\ lang ct i1 s1 /\ lang ct i2 s2.
Proof.
  induction i1 as [|it i1 IH]; intros i2 s H; cbn [app] in H.
  - exists [], s. split; [reflexivity|split; [constructor|exact H]].
  - inversion H as [|? ? a b Ha Hc Hr]; subst. destruct (IH i2 b Hr) as (s1 & s2 & -> & H1 & H2).
    exists (a ++ s1), s2. split; [rewrite app_assoc; reflexivity|split; [constructor; assumption|exact H2]].
Qed.

Lemma quant_items_lang_inv ct cs regex m M s : lang ct (quant_items cs regex m M) s ->
  forallb (sem_cset ct cs) s = true /\ count_ok m M (length s).
Proof.
  unfold quant_items. destruct M as [M'|].
  - destruct (Z.eqb m M' && negb (Z.eqb m 1) && Z.eqb m 2 && Nat.eqb (length regex) 1) eqn:E.
    + apply andb_true_iff in E as [E _]. apply andb_true_iff in E as [E E2]. apply andb_true_iff in E as [E1 _].
      apply Z.eqb_eq in E1. apply Z.eqb_eq in E2. subst M' m. intro H.
      change [{| i_set := cs; i_min := 1; i_max := Some 1 |}; {| i_set := cs; i_min := 1; i_max := Some 1 |}]
        with ([{| i_set := cs; i_min := 1; i_max := Some 1 |}] ++ [{| i_set := cs; i_min := 1; i_max := Some 1 |}]) in H.
      apply lang_app_inv in H as (s1 & s2 & -> & H1 & H2).
      apply lang_single_inv in H1 as [A1 C1]. apply lang_single_inv in H2 as [A2 C2]. cbn [i_set i_min i_max count_ok] in *.
      rewrite forallb_app, A1, A2, app_length. split; [reflexivity|]. cbn [count_ok]. lia.
    + intro H. apply lang_single_inv in H. exact H.
  - intro H. apply lang_single_inv in H as [A C]. cbn [i_set i_min i_max count_ok] in *. split; [exact A|].
    destruct (Z.eqb_spec m 0); [left; assumption|]. destruct C as [C|C]; [discriminate|right; exact C].
Qed.

(* ------------------------------------------------------------------ C. atoms *)
Lemma memc_false_neq c l k : memc c l = false -> In k l -> Z.eqb c k = false.
Proof.
  unfold memc. intros H Hin. destruct (Z.eqb c k) eqn:E; [|reflexivity].
  assert (existsb (Z.eqb c) l = true) by (apply existsb_exists; exists k; split; assumption). congruence.
Qed.

Lemma forallb_memc (P : Z -> bool) l c : forallb P l = true -> memc c l = true -> P c = true.
Proof. intros Hf Hm. apply memc_In in Hm. rewrite forallb_forall in Hf. apply Hf. exact Hm. Qed.

Lemma not_meta_plain c : is_meta c = false -> basic_ok (CLit c) [c].
Proof.
  intro Hm. unfold is_meta in Hm.
  assert (H92 : Z.eqb c 92 = false) by (apply (memc_false_neq c metas); [exact Hm|cbn; tauto]).
  assert (H91 : Z.eqb c 91 = false) by (apply (memc_false_neq c metas); [exact Hm|cbn; tauto]).
  assert (H46 : Z.eqb c 46 = false) by (apply (memc_false_neq c metas); [exact Hm|cbn; tauto]).
  split.
  - intro x. cbn [app parse_basic]. rewrite H92, H91, H46. unfold is_meta. rewrite Hm. reflexivity.
  - cbn [head_ok].
    rewrite (memc_false_neq c metas 36 Hm), (memc_false_neq c metas 41 Hm), (memc_false_neq c metas 40 Hm),
            (memc_false_neq c metas 42 Hm), (memc_false_neq c metas 43 Hm), (memc_false_neq c metas 63 Hm),
            (memc_false_neq c metas 123 Hm); cbn; tauto.
Qed.

Lemma escaped_special c : memc c re_specials = true -> basic_ok (CLit c) [92; c].
Proof.
  intro Hs.
  pose proof (forallb_memc (fun k => negb (Z.eqb k 100) && negb (Z.eqb k 115) && negb (ascii_alnum k)) re_specials c
                ltac:(vm_compute; reflexivity) Hs) as H.
  apply andb_true_iff in H as [H H3]. apply andb_true_iff in H as [H1 H2].
  apply negb_true_iff in H1. apply negb_true_iff in H2. apply negb_true_iff in H3.
  split; [|reflexivity]. intro x. cbn [app parse_basic]. change (Z.eqb 92 92) with true. cbv iota.
  rewrite H1, H2, H3. reflexivity.
Qed.

Lemma metas_are_special c : memc c re_specials = false -> is_meta c = false.
Proof.
  intro H. unfold is_meta. destruct (memc c metas) eqn:E; [|reflexivity].
  pose proof (forallb_memc (fun k => memc k re_specials) metas c ltac:(vm_compute; reflexivity) E). congruence.
Qed.

Lemma unescapes_not_meta c : memc c unescapes = true -> is_meta c = false.
Proof.
  intro H. pose proof (forallb_memc (fun k => negb (is_meta k)) unescapes c ltac:(vm_compute; reflexivity) H) as Hn.
  apply negb_true_iff in Hn. exact Hn.
Qed.

Theorem escape_char_basic full c : basic_ok (CLit c) (escape_char full c).
Proof.
  unfold escape_char, re_escape_char. destruct full.
  - destruct (memc c re_specials) eqn:E; [apply escaped_special; exact E|apply not_meta_plain, metas_are_special; exact E].
  - destruct (memc c unescapes) eqn:Eu; [apply not_meta_plain, unescapes_not_meta; exact Eu|].
    destruct (memc c re_specials) eqn:E; [apply escaped_special; exact E|apply not_meta_plain, metas_are_special; exact E].
Qed.

Lemma dot_atom : basic_ok CAny [46].
Proof. split; [|reflexivity]. intro x. reflexivity. Qed.

(* ------------------------------------------------------------------ D0. sets of characters in brackets *)
(* the order in which escaped_bracket writes a set of characters *)
Definition bracket_order (chars : str) : str :=
  (if memc 93 chars then [93] else []) ++ filter (fun c => negb (memc c bracket_specials)) chars ++
  (if memc 92 chars then [92] else []) ++ (if memc 94 chars then [94] else []) ++ (if memc 45 chars then [45] else []).

Lemma bracket_order_In chars x : In x (bracket_order chars) <-> In x chars.
Proof.
  unfold bracket_order. rewrite !in_app_iff, filter_In. split.
  - intros [H|[[H _]|[H|[H|H]]]]; try exact H.
    + destruct (memc 93 chars) eqn:E; [|destruct H]. destruct H as [<-|[]]. apply memc_In. exact E.
    + destruct (memc 92 chars) eqn:E; [|destruct H]. destruct H as [<-|[]]. apply memc_In. exact E.
    + destruct (memc 94 chars) eqn:E; [|destruct H]. destruct H as [<-|[]]. apply memc_In. exact E.
    + destruct (memc 45 chars) eqn:E; [|destruct H]. destruct H as [<-|[]]. apply memc_In. exact E.
  - intro H. destruct (memc x bracket_specials) eqn:E.
    + apply memc_In in E. pose proof (proj2 (memc_In x chars) H) as Hm. cbn in E.
      destruct E as [<-|[<-|[<-|[<-|[]]]]]; rewrite Hm; cbn; tauto.
    + right. left. split; [exact H|]. reflexivity.
Qed.

Lemma memc_ext l l' c : (forall x, In x l <-> In x l') -> memc c l = memc c l'.
Proof.
  intro H. destruct (memc c l) eqn:E1, (memc c l') eqn:E2; try reflexivity.
  - apply memc_In, H, memc_In in E1. congruence.
  - apply memc_In, H, memc_In in E2. congruence.
Qed.

Lemma br_chars_sem ct l c : existsb (fun b => sem_britem ct b c) (map BChar l) = memc c l.
Proof.
  unfold memc. induction l as [|x l IH]; cbn [map existsb sem_britem]; [reflexivity|]. rewrite IH, (Z.eqb_sym x c). reflexivity.
Qed.

(* ------------------------------------------------------------------ E. bracket expressions over an arbitrary set *)
Local Close Scope string_scope.

Lemma parse_br_first f c r : Z.eqb c 93 = false -> parse_br (S f) (c :: r) true = parse_br (S f) (c :: r) false.
Proof. intro H. cbn [parse_br]. rewrite H. reflexivity. Qed.

(* a plain member followed by something that is not a dash *)
Lemma parse_br_plain f c d1 r its x : Z.eqb c 93 = false -> Z.eqb c 92 = false -> Z.eqb d1 45 = false ->
  parse_br f (d1 :: r) false = Some (its, x) ->
  parse_br (S f) (c :: d1 :: r) false = Some (BChar c :: its, x).
Proof.
  intros H93 H92 Hd H. cbn [parse_br]. rewrite H93, H92. destruct r as [|d r']; [rewrite H; reflexivity|].
  rewrite Hd, H. reflexivity.
Qed.

(* a plain member followed by the final dash *)
Lemma parse_br_dash f c x : Z.eqb c 93 = false -> Z.eqb c 92 = false ->
  parse_br (S f) (c :: 45 :: 93 :: x) false = Some ([BChar c; BChar 45], x).
Proof. intros H93 H92. cbn [parse_br]. rewrite H93, H92. reflexivity. Qed.

Definition plain_member (c : Z) : Prop := Z.eqb c 93 = false /\ Z.eqb c 92 = false /\ Z.eqb c 45 = false.

(* T is what follows the plain members: it does not start with a dash, or it is exactly the final dash *)
Lemma parse_br_mains ms : forall f T itsT x, Forall plain_member ms ->
  (match T with d :: _ => Z.eqb d 45 = false | [] => False end \/ (T = 45 :: 93 :: x /\ itsT = [BChar 45])) ->
  parse_br f T false = Some (itsT, x) ->
  parse_br (List.length ms + f) (ms ++ T) false = Some (map BChar ms ++ itsT, x).
Proof.
  induction ms as [|c ms IH]; intros f T itsT x Hms HT H; [exact H|].
  inversion Hms as [|? ? [H93 [H92 H45]] Hms']; subst. cbn [List.length Nat.add app map].
  specialize (IH f T itsT x Hms' HT H).
  destruct ms as [|c2 ms].
  - cbn [app List.length Nat.add map] in *. destruct HT as [HT|[-> ->]].
    + destruct T as [|d T]; [destruct HT|]. apply parse_br_plain; assumption.
    + apply parse_br_dash; assumption.
  - inversion Hms' as [|? ? [_ [_ H45']] _]; subst. cbn [app] in *. apply parse_br_plain; assumption.
Qed.

Definition suffix_text (b92 b94 esc94 b45 : bool) : str :=
  (if b92 then [92; 92] else []) ++ (if b94 then (if esc94 then [92; 94] else [94]) else []) ++ (if b45 then [45] else []).
Definition suffix_chars (b92 b94 b45 : bool) : str :=
  (if b92 then [92] else []) ++ (if b94 then [94] else []) ++ (if b45 then [45] else []).

Lemma parse_br_suffix b92 b94 esc94 b45 f x :
  parse_br (S (List.length (suffix_text b92 b94 esc94 b45)) + f) (suffix_text b92 b94 esc94 b45 ++ 93 :: x) false =
  Some (map BChar (suffix_chars b92 b94 b45), x).
Proof. destruct b92, b94, esc94, b45; destruct x as [|x0 x]; reflexivity. Qed.

Lemma suffix_head_ok b92 b94 esc94 b45 x :
  match suffix_text b92 b94 esc94 b45 ++ 93 :: x with d :: _ => Z.eqb d 45 = false | [] => False end \/
  (suffix_text b92 b94 esc94 b45 ++ 93 :: x = 45 :: 93 :: x /\ map BChar (suffix_chars b92 b94 b45) = [BChar 45]).
Proof. destruct b92, b94, esc94, b45; cbn; auto. Qed.

Lemma filter_plain chars : Forall plain_member (filter (fun c => negb (memc c bracket_specials)) chars).
Proof.
  apply Forall_forall. intros c Hc. apply filter_In in Hc as [_ Hn]. apply negb_true_iff in Hn.
  unfold plain_member. repeat split; apply (memc_false_neq c bracket_specials); try exact Hn; cbn; tauto.
Qed.

Definition is_nilb {T} (l : list T) : bool := match l with [] => true | _ => false end.

Lemma escaped_bracket_shape chars :
  let prefix := if memc 93 chars then [93] else [] in
  let mains := filter (fun c => negb (memc c bracket_specials)) chars in
  let esc := is_nilb (prefix ++ mains ++ (if memc 92 chars then [92; 92] else [])) in
  escaped_bracket false chars = [91] ++ prefix ++ mains ++ suffix_text (memc 92 chars) (memc 94 chars) esc (memc 45 chars) ++ [93].
Proof.
  cbv zeta. unfold escaped_bracket, suffix_text. cbn [negb andb app].
  set (prefix := if memc 93 chars then [93] else []). set (mains := filter _ chars).
  set (bs := if memc 92 chars then [92; 92] else []).
  assert (E : (match prefix ++ mains ++ bs with [] => true | _ => false end) = is_nilb (prefix ++ mains ++ bs)) by reflexivity.
  rewrite E. rewrite <- !app_assoc. reflexivity.
Qed.

Theorem bracket_atom chars : chars <> [] ->
  basic_ok (CBr false (map BChar (bracket_order chars))) (escaped_bracket false chars).
Proof.
  intro Hne. rewrite escaped_bracket_shape. cbv zeta.
  set (b93 := memc 93 chars). set (b92 := memc 92 chars). set (b94 := memc 94 chars). set (b45 := memc 45 chars).
  set (mains := filter (fun c => negb (memc c bracket_specials)) chars).
  set (esc := is_nilb ((if b93 then [93] else []) ++ mains ++ (if b92 then [92; 92] else []))).
  split; [|reflexivity]. intro x.
  assert (Hord : bracket_order chars = (if b93 then [93] else []) ++ mains ++ suffix_chars b92 b94 b45) by reflexivity.
  rewrite Hord, !map_app.
  set (T := suffix_text b92 b94 esc b45 ++ 93 :: x).
  assert (HT : forall f, parse_br (S (List.length (suffix_text b92 b94 esc b45)) + f) T false = Some (map BChar (suffix_chars b92 b94 b45), x))
    by (intro f; apply parse_br_suffix).
  pose proof (suffix_head_ok b92 b94 esc b45 x) as Hhead. fold T in Hhead.
  pose proof (filter_plain chars) as Hplain. fold mains in Hplain.
  (* the text after '[' *)
  assert (Hbody : forall f, parse_br (List.length mains + (S (List.length (suffix_text b92 b94 esc b45)) + f)) (mains ++ T) false =
                            Some (map BChar mains ++ map BChar (suffix_chars b92 b94 b45), x)).
  { intro f. apply parse_br_mains; [exact Hplain|exact Hhead|apply HT]. }
  replace (([91] ++ (if b93 then [93] else []) ++ mains ++ suffix_text b92 b94 esc b45 ++ [93]) ++ x)
    with (91 :: (if b93 then [93] else []) ++ mains ++ T)
    by (unfold T; cbn [app]; rewrite <- !app_assoc; reflexivity).
  cbn [parse_basic]. change (Z.eqb 91 92) with false. change (Z.eqb 91 91) with true. cbv iota.
  destruct b93 eqn:E93.
  - (* ']' comes first *)
    cbn [app]. change (Z.eqb 93 94) with false. cbv iota. cbn [List.length parse_br]. change (Z.eqb 93 93) with true. cbv iota.
    replace (List.length (mains ++ T)) with (List.length mains + (S (List.length (suffix_text b92 b94 esc b45)) + List.length x))%nat
      by (unfold T; rewrite !app_length; cbn [List.length]; lia).
    rewrite Hbody. reflexivity.
  - cbn [app]. destruct mains as [|m0 ms] eqn:Em.
    + (* no plain member: the suffix starts the set *)
      cbn [app map] in *.
      assert (Hnz : b92 = true \/ b94 = true \/ b45 = true).
      { destruct chars as [|c0 chars0]; [congruence|].
        assert (Hin : In c0 (c0 :: chars0)) by (left; reflexivity).
        destruct (memc c0 bracket_specials) eqn:Es.
        - apply memc_In in Es. cbn in Es. pose proof (proj2 (memc_In c0 (c0 :: chars0)) Hin) as Hm.
          destruct Es as [<-|[<-|[<-|[<-|[]]]]].
          + unfold b93 in E93. congruence.
          + left. exact Hm.
          + right. right. exact Hm.
          + right. left. exact Hm.
        - exfalso. assert (In c0 (filter (fun c => negb (memc c bracket_specials)) (c0 :: chars0))).
          { apply filter_In. split; [exact Hin|rewrite Es; reflexivity]. }
          fold mains in H. rewrite Em in H. destruct H. }
      assert (Hesc : esc = negb b92) by (unfold esc; destruct b92; reflexivity).
      unfold T in *. rewrite Hesc in *.
      destruct b92, b94, b45; cbn in Hnz; try (exfalso; intuition discriminate); destruct x; reflexivity.
    + (* a plain member first: '^' cannot be it *)
      inversion Hplain as [|? ? [H93 [H92 H45]] Hms]; subst.
      assert (H94 : Z.eqb m0 94 = false).
      { assert (Hin : In m0 (filter (fun c => negb (memc c bracket_specials)) chars)) by (fold mains; rewrite Em; left; reflexivity).
        apply filter_In in Hin as [_ Hn]. apply negb_true_iff in Hn. apply (memc_false_neq m0 bracket_specials); [exact Hn|cbn; tauto]. }
      cbn [app]. rewrite H94.
      replace (List.length (m0 :: ms ++ T)) with (List.length (m0 :: ms) + (S (List.length (suffix_text b92 b94 esc b45)) + List.length x))%nat
        by (unfold T; cbn [List.length]; rewrite !app_length; cbn [List.length]; lia).
      cbn [List.length Nat.add]. rewrite parse_br_first by exact H93.
      specialize (Hbody (List.length x)). cbn [List.length Nat.add app] in Hbody. rewrite Hbody. reflexivity.
Qed.

(* ------------------------------------------------------------------ D. category classes, for every set of extra letters *)
Lemma norm_extras_in8 x : In (norm_extras x) extras8.
Proof.
  unfold norm_extras. cbn [filter]. destruct (memc 95 x), (memc 46 x), (memc 45 x); cbn; tauto.
Qed.

Definition class_good (out : bool) (e : str) (code : Z) : Prop :=
  exists t cs, cat_re out e code = Some t /\ atom_ok cs t /\
               forall ct c, sem_cset ct cs c = cat_sem ct out e code c.

Local Arguments Z.eqb : simpl nomatch.
Local Arguments Z.leb : simpl nomatch.

Ltac sem_atoms :=
  repeat match goal with
         | |- context [is_word ?ct ?c] => destruct (is_word ct c)
         | |- context [ct_alnum ?ct ?c] => destruct (ct_alnum ct c)
         | |- context [ct_space ?ct ?c] => destruct (ct_space ct c)
         | |- context [ct_decimal ?ct ?c] => destruct (ct_decimal ct c)
         | |- context [between ?a ?b ?c] => destruct (between a b c)
         | |- context [Z.eqb ?a ?b] => destruct (Z.eqb a b)
         end; reflexivity.
Ltac class_sem :=
  let ct := fresh "ct" in let c := fresh "c" in
  intros ct c; unfold cat_sem; cbn; unfold is_upper, is_lower, is_09, is_word; cbn;
  rewrite ?(Z.eqb_sym 95 c), ?(Z.eqb_sym 46 c), ?(Z.eqb_sym 45 c); sem_atoms.
Ltac class_auto :=
  eexists; eexists; split; [vm_compute; reflexivity|
    split; [split; [let x := fresh "x" in intro x; destruct x; [vm_compute; reflexivity|reflexivity]|reflexivity]|class_sem]].

(* punctuation: the characters of the class are exactly those punct_sem accepts *)
Lemma memc_filter (p : Z -> bool) l c : memc c (filter p l) = memc c l && p c.
Proof.
  destruct (memc c (filter p l)) eqn:E.
  - apply memc_In, filter_In in E as [H1 H2]. apply memc_In in H1. rewrite H1, H2. reflexivity.
  - destruct (memc c l) eqn:E1; [|reflexivity]. destruct (p c) eqn:E2; [|reflexivity].
    assert (memc c (filter p l) = true) by (apply memc_In, filter_In; split; [apply memc_In; exact E1|exact E2]). congruence.
Qed.

Lemma punct_set_sem e c : memc c (punct_chars e) = punct_sem e c.
Proof.
  unfold punct_chars. rewrite memc_filter. destruct (punct_sem e c) eqn:Ep; [|apply andb_false_r]. rewrite andb_true_r.
  apply memc_In, in_map_iff. unfold punct_sem in Ep. apply andb_true_iff in Ep as [Ep _]. apply andb_true_iff in Ep as [Eb _].
  unfold between in Eb. apply andb_true_iff in Eb as [H1 H2]. apply Z.leb_le in H1. apply Z.leb_le in H2.
  exists (Z.to_nat c). split; [lia|]. apply in_seq. lia.
Qed.

Lemma punct_chars_nonempty e : In e extras8 -> punct_chars e <> [].
Proof.
  intro He. assert (Hin : In 33 (punct_chars e)).
  { apply memc_In. rewrite punct_set_sem. cbn in He.
    destruct He as [<-|[<-|[<-|[<-|[<-|[<-|[<-|[<-|[]]]]]]]]]; reflexivity. }
  intro E. rewrite E in Hin. destruct Hin.
Qed.

Lemma punct_good out e : In e extras8 -> class_good out e cP.
Proof.
  intro He. exists (escaped_bracket false (punct_chars e)), (CBr false (map BChar (bracket_order (punct_chars e)))).
  split; [reflexivity|]. split; [apply basic_atom, bracket_atom, punct_chars_nonempty; exact He|].
  intros ct c. cbn [sem_cset xorb]. rewrite br_chars_sem, (memc_ext _ _ c (bracket_order_In (punct_chars e))), punct_set_sem.
  change (cat_sem ct out e cP c) with (punct_sem e c). destruct (punct_sem e c); reflexivity.
Qed.

Theorem class_codes_good out :
  Forall (fun e => Forall (fun code => cat_re out e code = None \/ class_good out e code) all_codes) extras8.
Proof.
  destruct out; unfold extras8, all_codes, class_codes; cbn [app];
  repeat (apply Forall_cons || apply Forall_nil);
    first [ left; vm_compute; reflexivity
          | right; apply punct_good; cbn; tauto
          | right; class_auto ].
Qed.

Lemma class_lookup out e code t : In e extras8 -> In code all_codes -> cat_re out e code = Some t -> class_good out e code.
Proof.
  intros He Hc Ht. pose proof (proj1 (Forall_forall _ _) (class_codes_good out) e He) as H1.
  destruct (proj1 (Forall_forall _ _) H1 code Hc) as [Hn|Hg]; [congruence|exact Hg].
Qed.

(* ------------------------------------------------------------------ F. fragments and whole expressions *)
Lemma parse_seq_mono f : forall top s r, parse_seq f top s = Some r -> forall k, parse_seq (f + k) top s = Some r.
Proof.
  induction f as [|f IH]; intros top s r H k; [discriminate|]. cbn [Nat.add parse_seq] in *.
  destruct s as [|c s]; [discriminate|].
  destruct (Z.eqb c 36); [exact H|]. destruct (Z.eqb c 41); [exact H|].
  destruct (parse_atom (c :: s)) as [[cs r1]|].
  - destruct (parse_quant r1) as [[[m M] r2]|]; [|discriminate].
    destruct (parse_seq f top r2) as [[rest r3]|] eqn:E; [|discriminate]. rewrite (IH _ _ _ E k). exact H.
  - destruct (Z.eqb c 40 && top); [|discriminate].
    destruct (parse_seq f false s) as [[inner r1]|] eqn:E1; [|discriminate]. rewrite (IH _ _ _ E1 k).
    destruct (starts_quant r1); [discriminate|].
    destruct (parse_seq f true r1) as [[rest r2]|] eqn:E2; [|discriminate]. rewrite (IH _ _ _ E2 k). exact H.
Qed.

Lemma parse_seq_ge f f' top s r : parse_seq f top s = Some r -> (f <= f')%nat -> parse_seq f' top s = Some r.
Proof. intros H Hle. replace f' with (f + (f' - f))%nat by lia. apply parse_seq_mono. exact H. Qed.

(* how the text of one fragment parses, and what its items accept *)
Definition part_good (out : bool) (e : str) (top : bool) (f : frag) (part : str) (its : list item) (k : nat) : Prop :=
  (forall fuel rest irest rend, starts_quant rest = false -> parse_seq fuel top rest = Some (irest, rend) ->
     parse_seq (k + fuel) top (part ++ rest) = Some (its ++ irest, rend)) /\
  (k <= List.length part)%nat /\
  (forall rest, starts_quant rest = false -> starts_quant (part ++ rest) = false) /\
  (forall ct s, frag_matches ct out e f s <-> lang ct its s).

Section WithOut.
Variable out : bool.   (* false: the expressions as used while extracting; true: the portable re-rendering *)

Lemma quant_okb_ok m M : quant_okb m M = true -> quant_ok m M.
Proof.
  unfold quant_okb, quant_ok. intro H. apply andb_true_iff in H as [H1 H2]. apply Z.leb_le in H1. split; [exact H1|].
  destruct M as [M'|]; [apply Z.leb_le; exact H2|exact I].
Qed.

(* a single quantified atom *)
Lemma single_part e top f cs regex (p : Z -> bool) :
  atom_ok cs regex -> quant_ok (f_min f) (f_max f) ->
  (forall ct s, frag_matches ct out e f s <-> forallb (sem_cset ct cs) s = true /\ count_ok (f_min f) (f_max f) (List.length s)) ->
  part_good out e top f (quantify regex (f_min f) (f_max f)) (quant_items cs regex (f_min f) (f_max f))
            (List.length (quant_items cs regex (f_min f) (f_max f))).
Proof.
  intros Hok Hq Hsem. split; [|split; [|split]].
  - intros fuel rest irest rend Hsq Hr. apply quantified_parses; assumption.
  - destruct Hok as [_ Hh]. assert (Hl : (1 <= List.length regex)%nat) by (destruct regex; [destruct Hh|cbn; lia]).
    unfold quantify, quant_items. destruct (f_max f) as [M'|].
    + destruct (Z.eqb (f_min f) M'); cbn [andb].
      * destruct (Z.eqb (f_min f) 1); cbn [negb andb List.length]; [lia|].
        destruct (Z.eqb (f_min f) 2 && Nat.eqb (List.length regex) 1) eqn:E2; cbn [List.length]; rewrite ?app_length; [|lia].
        lia.
      * cbn [List.length]. destruct (Z.eqb (f_min f) 0 && Z.eqb M' 1); rewrite app_length; lia.
    + cbn [List.length]. destruct (Z.eqb (f_min f) 0); rewrite app_length; lia.
  - intros rest Hsq. destruct Hok as [_ Hh]. unfold quantify.
    destruct (f_max f) as [M'|]; repeat match goal with |- context [if ?b then _ else _] => destruct b end;
      rewrite <- ?app_assoc; apply head_ok_not_quant; exact Hh.
  - intros ct s. rewrite (Hsem ct s). split; [intros [H1 H2]; apply quant_items_lang; assumption|apply quant_items_lang_inv].
Qed.

(* a literal string of several (or no) characters *)
Lemma literal_part top full s : forall fuel rest irest rend, starts_quant rest = false ->
  parse_seq fuel top rest = Some (irest, rend) ->
  parse_seq (List.length s + fuel) top (escape full s ++ rest) =
  Some (map (fun c => {| i_set := CLit c; i_min := 1; i_max := Some 1 |}) s ++ irest, rend) /\
  starts_quant (escape full s ++ rest) = false.
Proof.
  induction s as [|c s IH]; intros fuel rest irest rend Hsq Hr; [split; [exact Hr|exact Hsq]|].
  destruct (IH fuel rest irest rend Hsq Hr) as [IH1 IH2].
  unfold escape in *. cbn [flat_map List.length Nat.add map app]. rewrite <- app_assoc.
  pose proof (basic_atom _ _ (escape_char_basic full c)) as Hok. split.
  - eapply parse_seq_step; [exact Hok| |exact IH1].
    unfold parse_quant. destruct (flat_map (escape_char full) s ++ rest) as [|d r] eqn:E; [reflexivity|].
    cbn [starts_quant] in IH2. repeat (apply orb_false_iff in IH2 as [IH2 ?]).
    rewrite IH2. replace (Z.eqb d 43) with false by (symmetry; assumption).
    replace (Z.eqb d 63) with false by (symmetry; assumption). replace (Z.eqb d 123) with false by (symmetry; assumption).
    reflexivity.
  - apply head_ok_not_quant. apply Hok.
Qed.

Lemma lang_literal ct s : lang ct (map (fun c => {| i_set := CLit c; i_min := 1; i_max := Some 1 |}) s) s.
Proof.
  induction s as [|c s IH]; [constructor|]. cbn [map]. change (c :: s) with ([c] ++ s).
  constructor; [cbn; rewrite Z.eqb_refl; reflexivity|cbn; lia|exact IH].
Qed.

Lemma lang_literal_inv ct l : forall s, lang ct (map (fun c => {| i_set := CLit c; i_min := 1; i_max := Some 1 |}) l) s -> s = l.
Proof.
  induction l as [|c l IH]; intros s H; cbn [map] in H.
  - inversion H. reflexivity.
  - inversion H as [|? ? a b Ha Hc Hr]; subst. cbn [i_set i_min i_max count_ok] in *. rewrite (IH b Hr).
    destruct a as [|x [|y a]]; cbn [length] in Hc; try lia. cbn [forallb sem_cset] in Ha. apply andb_true_iff in Ha as [Ha _].
    apply Z.eqb_eq in Ha. subst x. reflexivity.
Qed.

Lemma forallb_ext_local {T} (p q : T -> bool) l : (forall x, p x = q x) -> forallb p l = forallb q l.
Proof. intro H. induction l as [|x l IH]; cbn [forallb]; [reflexivity|]. rewrite H, IH. reflexivity. Qed.

Lemma pred_sem_iff ct e f cs p : atom_pred ct out e (f_atom f) = Some p -> (forall x, sem_cset ct cs x = p x) ->
  forall s, frag_matches ct out e f s <-> forallb (sem_cset ct cs) s = true /\ count_ok (f_min f) (f_max f) (List.length s).
Proof.
  intros Hp Hx s. unfold frag_matches. rewrite Hp, (forallb_ext_local _ _ s Hx). reflexivity.
Qed.

Lemma escape_length full l : (List.length l <= List.length (escape full l))%nat.
Proof.
  unfold escape. induction l as [|x l IHl]; cbn [flat_map List.length]; [lia|].
  rewrite app_length. assert (H1 : (1 <= List.length (escape_char full x))%nat).
  { unfold escape_char, re_escape_char. repeat match goal with |- context [if ?b then _ else _] => destruct b end; cbn; lia. }
  change (S (List.length l)) with (1 + List.length l)%nat. apply Nat.add_le_mono; assumption.
Qed.

Theorem fragment_part e top full f part : In e extras8 ->
  frag_renderable e f = true -> fragment2re out full e false f = Ok part -> exists its k, part_good out e top f part its k.
Proof.
  intro He. unfold frag_renderable, fragment2re. destruct f as [a m M]. cbn [f_atom f_min f_max andb negb]. intros Hr Hp.
  destruct a as [s|c|code|cs]; cbn [atom_text bind] in Hp.
  - destruct s as [|c [|c2 s2]].
    + (* the empty literal *)
      apply andb_true_iff in Hr as [H1 H2]. apply Z.eqb_eq in H1. unfold opt_Z_eqb in H2. destruct M as [M'|]; [|discriminate].
      apply Z.eqb_eq in H2. subst m M'. injection Hp as <-. exists [], O. split; [|split; [|split]].
      * intros fuel rest irest rend _ H. exact H.
      * cbn. lia.
      * intros rest H. exact H.
      * intros ct s. unfold frag_matches. cbn [f_atom atom_pred f_min f_max]. split; [intros [-> _]; constructor|].
        intro H. inversion H. repeat split.
    + (* one character *)
      injection Hp as <-. unfold escape. cbn [flat_map]. rewrite app_nil_r.
      exists (quant_items (CLit c) (escape_char full c) m M), (List.length (quant_items (CLit c) (escape_char full c) m M)).
      apply (single_part e top {| f_atom := ALit [c]; f_min := m; f_max := M |} (CLit c) (escape_char full c) (Z.eqb c));
        [apply basic_atom, escape_char_basic|apply quant_okb_ok; exact Hr|].
      intros ct s. apply (pred_sem_iff ct e {| f_atom := ALit [c]; f_min := m; f_max := M |} (CLit c) (Z.eqb c)); [reflexivity|reflexivity].
    + (* a longer literal *)
      apply andb_true_iff in Hr as [H1 H2]. apply Z.eqb_eq in H1. unfold opt_Z_eqb in H2. destruct M as [M'|]; [|discriminate].
      apply Z.eqb_eq in H2. subst m M'. injection Hp as <-.
      change (quantify (escape full (c :: c2 :: s2)) 1 (Some 1)) with (escape full (c :: c2 :: s2)).
      exists (map (fun x => {| i_set := CLit x; i_min := 1; i_max := Some 1 |}) (c :: c2 :: s2)), (List.length (c :: c2 :: s2)).
      split; [|split; [|split]].
      * intros fuel rest irest rend Hsq H. apply (literal_part top full (c :: c2 :: s2)); assumption.
      * exact (escape_length full (c :: c2 :: s2)).
      * intros rest Hsq. assert (Hok := basic_atom _ _ (escape_char_basic full c)). unfold escape. cbn [flat_map]. rewrite <- app_assoc.
        apply head_ok_not_quant. apply Hok.
      * intros ct s. unfold frag_matches. cbn [f_atom atom_pred f_min f_max]. split; [intros [-> _]; apply lang_literal|].
        intro H. apply lang_literal_inv in H. subst s. repeat split.
  - (* a raw character *)
    apply andb_true_iff in Hr as [Hc Hq]. injection Hp as <-.
    destruct (Z.eqb_spec c 46) as [->|Hne].
    + exists (quant_items CAny [46] m M), (List.length (quant_items CAny [46] m M)).
      apply (single_part e top {| f_atom := ARaw 46; f_min := m; f_max := M |} CAny [46] (fun _ => true));
        [apply basic_atom, dot_atom|apply quant_okb_ok; exact Hq|].
      intros ct s. apply (pred_sem_iff ct e {| f_atom := ARaw 46; f_min := m; f_max := M |} CAny (raw_sem 46)); [reflexivity|reflexivity].
    + cbn [orb] in Hc. apply negb_true_iff in Hc. exists (quant_items (CLit c) [c] m M), (List.length (quant_items (CLit c) [c] m M)).
      apply (single_part e top {| f_atom := ARaw c; f_min := m; f_max := M |} (CLit c) [c] (Z.eqb c));
        [apply basic_atom, not_meta_plain; exact Hc|apply quant_okb_ok; exact Hq|].
      intros ct s. apply (pred_sem_iff ct e {| f_atom := ARaw c; f_min := m; f_max := M |} (CLit c) (raw_sem c)); [reflexivity|].
      intro x. cbn [sem_cset]. unfold raw_sem.
      replace (Z.eqb c 46) with false by (symmetry; apply Z.eqb_neq; exact Hne). cbn [orb]. apply Z.eqb_sym.
  - (* a category *)
    apply andb_true_iff in Hr as [Hc Hq]. apply andb_true_iff in Hc as [Hc Hsome]. apply memc_In in Hc.
    destruct (cat_re out e code) as [t0|] eqn:Ht0; [|discriminate].
    destruct (class_lookup out e code t0 He Hc Ht0) as (t & cs & Ht & Hok & Hsem).
    rewrite Ht0 in Ht. injection Ht as <-. injection Hp as <-. exists (quant_items cs t0 m M), (List.length (quant_items cs t0 m M)).
    apply (single_part e top {| f_atom := AClass code; f_min := m; f_max := M |} cs t0 (fun _ => true));
      [exact Hok|apply quant_okb_ok; exact Hq|].
    intros ct s. apply (pred_sem_iff ct e {| f_atom := AClass code; f_min := m; f_max := M |} cs (cat_sem ct out e code)); [reflexivity|].
    intro x. apply Hsem.
  - (* a bracket over a set of characters *)
    apply andb_true_iff in Hr as [Hc Hq]. injection Hp as <-.
    assert (Hne : cs <> []) by (destruct cs; [discriminate|discriminate]).
    exists (quant_items (CBr false (map BChar (bracket_order cs))) (escaped_bracket false cs) m M),
           (List.length (quant_items (CBr false (map BChar (bracket_order cs))) (escaped_bracket false cs) m M)).
    apply (single_part e top {| f_atom := ABracket cs; f_min := m; f_max := M |} _ _ (fun _ => true));
      [apply basic_atom, bracket_atom; exact Hne|apply quant_okb_ok; exact Hq|].
    intros ct s. apply (pred_sem_iff ct e {| f_atom := ABracket cs; f_min := m; f_max := M |} _ (fun x => memc x cs)); [reflexivity|].
    intro x. cbn [sem_cset xorb].
    rewrite br_chars_sem, (memc_ext _ _ x (bracket_order_In cs)). destruct (memc x cs); reflexivity.
Qed.

Lemma parse_seq_group f body inner r1 rest r2 :
  parse_atom (40 :: body) = None ->
  parse_seq f false body = Some (inner, r1) -> starts_quant r1 = false -> parse_seq f true r1 = Some (rest, r2) ->
  parse_seq (S f) true (40 :: body) = Some (inner ++ rest, r2).
Proof.
  intros Hn H1 Hq H2. cbn [parse_seq]. change (Z.eqb 40 36) with false. change (Z.eqb 40 41) with false. cbv iota.
  rewrite Hn. change (Z.eqb 40 40) with true. cbn [andb]. rewrite H1, Hq, H2. reflexivity.
Qed.

(* '(' followed by a quantified atom and ')' is not an alternation *)
Lemma wrapped_not_atom cs t m M rest : atom_ok cs t -> parse_atom (40 :: quantify t m M ++ 41 :: rest) = None.
Proof.
  intros [Ha Hh]. cbn [parse_atom]. change (Z.eqb 40 40) with true. cbv iota. unfold parse_alt.
  destruct t as [|c0 t]; [destruct Hh|].
  destruct (Z.eqb_spec c0 40) as [->|Hne].
  - (* the atom is itself an alternation: not a basic atom *)
    assert (Hq : exists y, quantify (40 :: t) m M ++ 41 :: rest = 40 :: y).
    { unfold quantify. destruct M as [M'|]; repeat match goal with |- context [if ?b then _ else _] => destruct b end;
        cbn [app]; eexists; reflexivity. }
    destruct Hq as [y ->]. reflexivity.
  - (* a basic atom followed by a quantifier, itself, or ')' : never '|' *)
    assert (Hb : forall x, parse_basic ((c0 :: t) ++ x) = Some (cs, x)).
    { intro x. specialize (Ha x). cbn [app parse_atom] in Ha. replace (Z.eqb c0 40) with false in Ha by (symmetry; apply Z.eqb_neq; exact Hne).
      exact Ha. }
    cbn [head_ok'] in Hh. repeat (apply orb_false_iff in Hh as [Hh ?]).
    assert (H124 : Z.eqb c0 124 = false).
    { destruct (Z.eqb_spec c0 124) as [->|]; [|reflexivity]. specialize (Hb []). cbn in Hb. discriminate. }
    unfold quantify. destruct M as [M'|]; repeat match goal with |- context [if ?b then _ else _] => destruct b end;
      rewrite <- ?app_assoc; rewrite Hb; cbn [app]; try rewrite H124; reflexivity.
Qed.

(* with capture groups: a category fragment is wrapped in ( ) *)
Theorem tagged_fragment_part e full tagged f part : In e extras8 ->
  frag_renderable e f = true -> fragment2re out full e tagged f = Ok part -> exists its k, part_good out e true f part its k.
Proof.
  intros He Hr Hp. destruct (tagged && negb (f_fixed f)) eqn:Et.
  - (* wrapped *)
    apply andb_true_iff in Et as [-> Hnf]. apply negb_true_iff in Hnf.
    unfold fragment2re in Hp. destruct (atom_text out full e (f_atom f)) as [regex|err] eqn:Ea; cbn [bind] in Hp; [|discriminate].
    rewrite Hnf in Hp. cbn [negb andb] in Hp. injection Hp as <-.
    assert (Hun : fragment2re out full e false f = Ok (quantify regex (f_min f) (f_max f))).
    { unfold fragment2re. rewrite Ea. cbn [bind andb]. reflexivity. }
    destruct (fragment_part e false full f _ He Hr Hun) as (its & k & Hparse & Hk & Hhead & Hsem).
    assert (Hatom : exists cs, atom_ok cs regex).
    { unfold f_fixed in Hnf. destruct f as [a m M]. cbn [f_atom f_min f_max] in *. destruct a as [s|c|code|cs]; try discriminate.
      unfold frag_renderable in Hr. cbn [f_atom] in Hr. apply andb_true_iff in Hr as [Hc _]. apply andb_true_iff in Hc as [Hc _].
      apply memc_In in Hc. cbn [atom_text] in Ea. destruct (cat_re out e code) as [t0|] eqn:Ht0; [|discriminate].
      injection Ea as <-. destruct (class_lookup out e code t0 He Hc Ht0) as (t & cs & Ht & Hok & _).
      rewrite Ht0 in Ht. injection Ht as <-. exists cs. exact Hok. }
    destruct Hatom as [cs0 Hatom].
    unfold capture_group.
    destruct (startswith [40] (quantify regex (f_min f) (f_max f)) && endswith [41] (quantify regex (f_min f) (f_max f))).
    { (* already of the form ( ... ) : an alternation without quantifier, left as it is *)
      exact (fragment_part e true full f _ He Hr Hun). }
    exists its, (S (S k)). split; [|split; [|split]].
    + intros fuel rest irest rend Hsq Hrest. cbn [app]. rewrite <- app_assoc. cbn [app].
      replace (S (S k) + fuel)%nat with (S (k + (1 + fuel)))%nat by lia.
      assert (Hin : parse_seq (k + (1 + fuel)) false (quantify regex (f_min f) (f_max f) ++ 41 :: rest) = Some (its ++ [], rest)).
      { apply Hparse; [reflexivity|]. cbn [Nat.add parse_seq]. reflexivity. }
      rewrite app_nil_r in Hin.
      apply (parse_seq_group _ _ its rest irest rend (wrapped_not_atom cs0 regex _ _ rest Hatom) Hin Hsq).
      apply (parse_seq_ge fuel); [exact Hrest|lia].
    + rewrite !app_length. cbn [List.length]. lia.
    + intros rest _. reflexivity.
    + exact Hsem.
  - (* not wrapped *)
    assert (Hun : fragment2re out full e false f = Ok part).
    { unfold fragment2re in *. destruct (atom_text out full e (f_atom f)) as [regex|err]; cbn [bind] in *; [|discriminate].
      rewrite Et in Hp. exact Hp. }
    exact (fragment_part e true full f part He Hr Hun).
Qed.

(* all the fragments of a pattern *)
Lemma fragments_parts e full tagged : In e extras8 -> forall frags parts,
  forallb (frag_renderable e) frags = true -> mapM (fragment2re out full e tagged) frags = Ok parts ->
  exists its K,
    (forall fuel rest irest rend, starts_quant rest = false -> parse_seq fuel true rest = Some (irest, rend) ->
       parse_seq (K + fuel) true (List.concat parts ++ rest) = Some (its ++ irest, rend)) /\
    (K <= List.length (List.concat parts))%nat /\
    (forall rest, starts_quant rest = false -> starts_quant (List.concat parts ++ rest) = false) /\
    (forall ct s, matches_frags ct out e frags s <-> lang ct its s).
Proof.
  intro He. induction frags as [|f frags IH]; intros parts Hr Hm; cbn [mapM forallb] in *.
  - injection Hm as <-. exists [], O. cbn [List.concat app Nat.add List.length].
    split; [intros; assumption|]. split; [lia|]. split; [intros; assumption|].
    intros ct s. split; intro H; inversion H; subst; constructor.
  - apply andb_true_iff in Hr as [Hr1 Hr2].
    destruct (fragment2re out full e tagged f) as [p|err] eqn:Ep; cbn [bind] in Hm; [|discriminate].
    destruct (mapM (fragment2re out full e tagged) frags) as [ps|err] eqn:Eps; cbn [bind] in Hm; [|discriminate].
    injection Hm as <-. destruct (IH ps Hr2 eq_refl) as (its2 & K2 & Hp2 & Hk2 & Hh2 & Hs2).
    destruct (tagged_fragment_part e full tagged f p He Hr1 Ep) as (its1 & k1 & Hp1 & Hk1 & Hh1 & Hs1).
    exists (its1 ++ its2), (k1 + K2)%nat. cbn [List.concat]. split; [|split; [|split]].
    + intros fuel rest irest rend Hsq Hrest. rewrite <- !app_assoc, <- Nat.add_assoc.
      apply Hp1; [apply Hh2; exact Hsq|]. apply Hp2; assumption.
    + rewrite app_length. lia.
    + intros rest Hsq. rewrite <- app_assoc. apply Hh1, Hh2. exact Hsq.
    + intros ct s. split.
      * intro H. inversion H as [|? ? s1 s2 Hf Hrest']; subst. apply lang_app; [apply Hs1; exact Hf|apply Hs2; exact Hrest'].
      * intro H. apply lang_app_inv in H as (s1 & s2 & -> & H1 & H2). constructor; [apply Hs1; exact H1|apply Hs2; exact H2].
Qed.

Definition ws_item : item := {| i_set := CSpace; i_min := 0; i_max := None |}.

Lemma ws_parses fuel rest irest rend : starts_quant rest = false -> parse_seq fuel true rest = Some (irest, rend) ->
  parse_seq (S fuel) true ([92; 115; 42] ++ rest) = Some (ws_item :: irest, rend).
Proof.
  intros Hsq H. change ([92; 115; 42] ++ rest) with ([92; 115] ++ (42 :: rest)).
  eapply parse_seq_step; [apply basic_atom; split; [intro x; reflexivity|reflexivity]| |exact H].
  unfold parse_quant. change (Z.eqb 42 42) with true. cbv iota. rewrite Hsq. reflexivity.
Qed.

(* THE TEXT THEOREM: the expression rendered for a pattern is inside the modelled fragment of the syntax, and the
   model's reading of it accepts every string that the pattern matches fragment by fragment *)
Theorem rendered_text_matches ct e full stripped tagged frags text s :
  In e extras8 ->
  forallb (frag_renderable e) frags = true ->
  vrle2re out full e stripped tagged frags = Ok text ->
  matches_frags ct out e frags s ->
  re_model_fullmatch ct text s = Some true.
Proof.
  intros He Hr Hv Hm. unfold vrle2re in Hv.
  destruct (mapM (fragment2re out full e tagged) frags) as [parts|err] eqn:Ep; cbn [bind] in Hv; [|discriminate].
  injection Hv as <-. destruct (fragments_parts e full tagged He frags parts Hr Ep) as (its & K & Hparse & HK & Hhead & Hsem).
  pose proof (proj1 (Hsem ct s) Hm) as Hlang.
  assert (Hend : forall f, parse_seq (S f) true [36] = Some ([], [])) by reflexivity.
  unfold re_model_fullmatch, parse_regex. cbn [app]. change (Z.eqb 94 94) with true. cbv iota.
  destruct stripped.
  - (* ^\s* ... \s*$ *)
    match goal with |- context [s2l ?x] => change (s2l x) with [92; 115; 42] end.
    assert (Hall : parse_seq (S (K + S (S O))) true ([92; 115; 42] ++ List.concat parts ++ [92; 115; 42] ++ [36]) =
                   Some (ws_item :: its ++ [ws_item], [])).
    { apply ws_parses; [apply Hhead; reflexivity|].
      apply (Hparse (S (S O)) ([92; 115; 42] ++ [36]) [ws_item] []); [reflexivity|]. apply ws_parses; [reflexivity|apply Hend]. }
    rewrite (parse_seq_ge _ (S (List.length ([92; 115; 42] ++ List.concat parts ++ [92; 115; 42] ++ [36]))) true _ _ Hall)
      by (rewrite !app_length; cbn [List.length]; lia).
    assert (Hl : lang ct (ws_item :: its ++ [ws_item]) s).
    { change s with ([] ++ s). constructor; [reflexivity|left; reflexivity|].
      rewrite <- (app_nil_r s). apply lang_app; [exact Hlang|].
      change (@nil Z) with (@nil Z ++ []). constructor; [reflexivity|left; reflexivity|constructor]. }
    rewrite (match_items_complete ct _ s Hl). reflexivity.
  - cbn [app].
    assert (Hall : parse_seq (K + S O) true (List.concat parts ++ [36]) = Some (its ++ [], [])).
    { apply Hparse; [reflexivity|apply Hend]. }
    rewrite (parse_seq_ge _ (S (List.length (List.concat parts ++ [36]))) true _ _ Hall)
      by (rewrite app_length; cbn [List.length]; lia).
    rewrite app_nil_r, (match_items_complete ct _ s Hlang). reflexivity.
Qed.

(* the rendered text parses to the items of the pattern (padded with \s* when stripped), and those items accept exactly
   what the pattern matches fragment by fragment *)
Definition padded (stripped : bool) (its : list item) : list item :=
  if stripped then ws_item :: its ++ [ws_item] else its.

Theorem rendered_text_parses e full stripped tagged frags text :
  In e extras8 -> forallb (frag_renderable e) frags = true ->
  vrle2re out full e stripped tagged frags = Ok text ->
  exists its, parse_regex text = Some (padded stripped its) /\
              forall ct s, matches_frags ct out e frags s <-> lang ct its s.
Proof.
  intros He Hr Hv. unfold vrle2re in Hv.
  destruct (mapM (fragment2re out full e tagged) frags) as [parts|err] eqn:Ep; cbn [bind] in Hv; [|discriminate].
  injection Hv as <-. destruct (fragments_parts e full tagged He frags parts Hr Ep) as (its & K & Hparse & HK & Hhead & Hsem).
  exists its. split; [|exact Hsem].
  assert (Hend : forall f, parse_seq (S f) true [36] = Some ([], [])) by reflexivity.
  unfold parse_regex, padded. cbn [app]. change (Z.eqb 94 94) with true. cbv iota.
  destruct stripped.
  - match goal with |- context [s2l ?x] => change (s2l x) with [92; 115; 42] end.
    assert (Hall : parse_seq (S (K + S (S O))) true ([92; 115; 42] ++ List.concat parts ++ [92; 115; 42] ++ [36]) =
                   Some (ws_item :: its ++ [ws_item], [])).
    { apply ws_parses; [apply Hhead; reflexivity|].
      apply (Hparse (S (S O)) ([92; 115; 42] ++ [36]) [ws_item] []); [reflexivity|]. apply ws_parses; [reflexivity|apply Hend]. }
    rewrite (parse_seq_ge _ (S (List.length ([92; 115; 42] ++ List.concat parts ++ [92; 115; 42] ++ [36]))) true _ _ Hall)
      by (rewrite !app_length; cbn [List.length]; lia).
    reflexivity.
  - cbn [app].
    assert (Hall : parse_seq (K + S O) true (List.concat parts ++ [36]) = Some (its ++ [], [])).
    { apply Hparse; [reflexivity|apply Hend]. }
    rewrite (parse_seq_ge _ (S (List.length (List.concat parts ++ [36]))) true _ _ Hall)
      by (rewrite app_length; cbn [List.length]; lia).
    rewrite app_nil_r. reflexivity.
Qed.

(* EXACTNESS (not stripped): the model's reading of the text accepts exactly the strings the pattern matches *)
Theorem rendered_text_exact ct e full tagged frags text s :
  In e extras8 -> forallb (frag_renderable e) frags = true ->
  vrle2re out full e false tagged frags = Ok text ->
  (re_model_fullmatch ct text s = Some true <-> matches_frags ct out e frags s).
Proof.
  intros He Hr Hv. destruct (rendered_text_parses e full false tagged frags text He Hr Hv) as (its & Hp & Hsem).
  unfold re_model_fullmatch. rewrite Hp. cbn [padded]. rewrite (Hsem ct s), <- match_items_spec. split; [intro H; injection H as ->; reflexivity|intros ->; reflexivity].
Qed.

(* C13: the tagged and the untagged rendering of a pattern accept the same strings: tagging only adds groups *)
Theorem tag_same_language ct e full frags t0 t1 s :
  In e extras8 -> forallb (frag_renderable e) frags = true ->
  vrle2re out full e false false frags = Ok t0 ->
  vrle2re out full e false true frags = Ok t1 ->
  re_model_fullmatch ct t0 s = re_model_fullmatch ct t1 s.
Proof.
  intros He Hr H0 H1.
  destruct (rendered_text_parses e full false false frags t0 He Hr H0) as (i0 & P0 & S0).
  destruct (rendered_text_parses e full false true frags t1 He Hr H1) as (i1 & P1 & S1).
  unfold re_model_fullmatch. rewrite P0, P1. cbn [padded]. f_equal.
  destruct (match_items ct i0 s) eqn:E0, (match_items ct i1 s) eqn:E1; try reflexivity.
  - apply match_items_spec, S0, S1, match_items_spec in E0. congruence.
  - apply match_items_spec, S1, S0, match_items_spec in E1. congruence.
Qed.

End WithOut.

(* ------------------------------------------------------------------ G. one batch extraction, at the level of the text *)
Lemma mapM_nth_pair {A B} (f : A -> res B) l ys x : mapM f l = Ok ys -> In x l -> exists y, In y ys /\ f x = Ok y.
Proof.
  intro H. apply mapM_Forall2 in H. induction H as [|a b l ys Hab _ IH]; intro Hin; [destruct Hin|].
  destruct Hin as [<-|Hin]; [exists b; split; [left; reflexivity|exact Hab]|].
  destruct (IH Hin) as [y [Hy Hf]]. exists y. split; [right; exact Hy|exact Hf].
Qed.

Lemma batch_rex_of ct o e stripped gt ex merged rex :
  batch_extract ct o e stripped gt ex = Ok (merged, rex) ->
  mapM (vrle2re false (o_full_escape o) e stripped (o_tag o)) merged = Ok rex.
Proof.
  unfold batch_extract. destruct (mapM _ (to_vrles _)) as [refined|err]; cbn [bind]; [|discriminate].
  destruct (mapM (vrle2re false (o_full_escape o) e stripped (o_tag o)) _) as [rx|err] eqn:E; cbn [bind]; [|discriminate].
  intro H. injection H as <- <-. exact E.
Qed.

(* every working example is matched - in the model's reading of the expression TEXT - by one of the expressions *)
Theorem batch_text_covers ct o e stripped gt ex merged rex :
  batch_extract ct o e stripped gt ex = Ok (merged, rex) ->
  table_ok ct -> 1 <= z_max_strings_in_group o ->
  batch_oracle_okb ct o e stripped gt ex = true ->
  batch_renderable ct o e stripped gt ex = true ->
  forall s, In s (ex_strings ex) -> exists text, In text rex /\ re_model_fullmatch ct text s = Some true.
Proof.
  intros Hb Htab Hcap Horc Hren s Hs.
  destruct (batch_covers_checked ct o e stripped gt ex merged rex Hb Htab Hcap Horc s Hs) as [fs [Hin Hm]].
  unfold batch_renderable in Hren. apply andb_true_iff in Hren as [He Hren]. apply mem_str_In in He.
  rewrite Hb in Hren. rewrite forallb_forall in Hren.
  destruct (mapM_nth_pair _ _ _ fs (batch_rex_of _ _ _ _ _ _ _ _ Hb) Hin) as [text [Ht Hv]].
  exists text. split; [exact Ht|]. eapply rendered_text_matches; [exact He|apply Hren; exact Hin|exact Hv|exact Hm].
Qed.

(* ... and every expression matches one of the working examples (C13) *)
Theorem batch_text_each_matches ct o e stripped gt ex merged rex :
  batch_extract ct o e stripped gt ex = Ok (merged, rex) ->
  table_ok ct -> 1 <= z_max_strings_in_group o ->
  batch_oracle_okb ct o e stripped gt ex = true ->
  batch_renderable ct o e stripped gt ex = true ->
  forall text, In text rex -> exists s, In s (ex_strings ex) /\ re_model_fullmatch ct text s = Some true.
Proof.
  intros Hb Htab Hcap Horc Hren text Ht.
  destruct (mapM_In _ _ _ _ (batch_rex_of _ _ _ _ _ _ _ _ Hb) Ht) as [fs [Hin Hv]].
  destruct (batch_each_matches_some ct o e stripped gt ex merged rex Hb Htab Hcap Horc fs Hin) as [s [Hs Hm]].
  unfold batch_renderable in Hren. apply andb_true_iff in Hren as [He Hren]. apply mem_str_In in He.
  rewrite Hb in Hren. rewrite forallb_forall in Hren.
  exists s. split; [exact Hs|]. eapply rendered_text_matches; [exact He|apply Hren; exact Hin|exact Hv|exact Hm].
Qed.

(* what re.fullmatch accepts, re.match accepts *)
Lemma fullmatch_match ct text s : re_model_fullmatch ct text s = Some true -> re_model_match ct text s = Some true.
Proof.
  unfold re_model_fullmatch, re_model_match. destruct (parse_regex text) as [items|]; [|discriminate].
  intro H. injection H as ->. reflexivity.
Qed.

(* ------------------------------------------------------------------ H. the portable / grep re-rendering (OutCats) *)
(* The expressions RETURNED under the portable and grep dialects are rendered again with out = true, where
   the digit class is written [0-9] instead of \d.  Their language is exactly matches_frags ct true
   (rendered_text_exact true); it covers what the internal expression covers provided every character that
   Python classes as a decimal digit is an ASCII digit - and not otherwise (portable_gap_refuted below, which
   is the known finding c03-portable-digits / c13-portable-digits). *)
Definition ascii_decimals (ct : chartab) (s : str) : Prop :=
  forall c, In c s -> ct_decimal ct c = true -> is_09 c = true.

Lemma cat_sem_portable ct e code c :
  (ct_decimal ct c = true -> is_09 c = true) -> cat_sem ct false e code c = true -> cat_sem ct true e code c = true.
Proof.
  intro Hd. unfold cat_sem.
  repeat match goal with
         | |- context [if Z.eqb code ?k then _ else _] => destruct (Z.eqb code k); [solve [auto]|]
         end.
  auto.
Qed.

Lemma cat_sem_portable_inv ct e code c :
  (is_09 c = true -> ct_decimal ct c = true) -> cat_sem ct true e code c = true -> cat_sem ct false e code c = true.
Proof.
  intro Hd. unfold cat_sem.
  repeat match goal with
         | |- context [if Z.eqb code ?k then _ else _] => destruct (Z.eqb code k); [solve [auto]|]
         end.
  auto.
Qed.

Lemma frag_matches_portable ct e f s :
  frag_matches ct false e f s -> ascii_decimals ct s -> frag_matches ct true e f s.
Proof.
  unfold frag_matches. destruct (f_atom f) as [w|c|code|cs]; cbn [atom_pred]; try (intros H _; exact H).
  - intros [H1 H2] Ha. split; [|exact H2]. rewrite forallb_forall in *. intros x Hx.
    apply cat_sem_portable; [apply Ha; exact Hx|apply H1; exact Hx].
Qed.

Lemma matches_frags_portable ct e frags s :
  matches_frags ct false e frags s -> ascii_decimals ct s -> matches_frags ct true e frags s.
Proof.
  intro H. induction H as [|f fs s1 s2 H1 _ IH]; intro Ha; [constructor|].
  constructor.
  - apply frag_matches_portable; [exact H1|]. intros c Hc. apply Ha, in_or_app. left. exact Hc.
  - apply IH. intros c Hc. apply Ha, in_or_app. right. exact Hc.
Qed.

(* the portable expression matches everything the internal one does, on strings whose decimal digits are ASCII *)
Theorem portable_text_matches ct e full stripped tagged frags text s :
  In e extras8 -> forallb (frag_renderable e) frags = true ->
  vrle2re true full e stripped tagged frags = Ok text ->
  matches_frags ct false e frags s -> ascii_decimals ct s ->
  re_model_fullmatch ct text s = Some true.
Proof.
  intros He Hr Hv Hm Ha. eapply (rendered_text_matches true); [exact He|exact Hr|exact Hv|].
  apply matches_frags_portable; assumption.
Qed.

Lemma matches_frags_portable_inv ct e frags s :
  (forall c, is_09 c = true -> ct_decimal ct c = true) ->
  matches_frags ct true e frags s -> matches_frags ct false e frags s.
Proof.
  intros Hd Hm. induction Hm as [|f fs s1 s2 H1 _ IH]; [constructor|]. constructor; [|exact IH].
  revert H1. unfold frag_matches. destruct (f_atom f) as [w|c|code|cs]; cbn [atom_pred]; try (intro H; exact H).
  intros [H1 H2]. split; [|exact H2]. rewrite forallb_forall in *. intros x Hx.
  apply cat_sem_portable_inv; [apply Hd|apply H1; exact Hx].
Qed.

(* ... and nothing the internal one does not, as long as the ASCII digits are decimal digits (table_ok) *)
Theorem portable_text_within ct e full tagged frags text s :
  In e extras8 -> forallb (frag_renderable e) frags = true ->
  (forall c, is_09 c = true -> ct_decimal ct c = true) ->
  vrle2re true full e false tagged frags = Ok text ->
  re_model_fullmatch ct text s = Some true -> matches_frags ct false e frags s.
Proof.
  intros He Hr Hd Hv Hm. apply (rendered_text_exact true ct e full tagged frags text s He Hr Hv) in Hm.
  apply matches_frags_portable_inv; assumption.
Qed.

(* Without the hypothesis the statement is false of the faithful model - and of the code: this witness is the
   known finding c03-portable-digits / c13-portable-digits (two ARABIC-INDIC digits, U+0663 U+0664). *)
Example portable_gap_refuted :
  exists frags text s,
    vrle2re true false [] false false frags = Ok text /\
    forallb (frag_renderable []) frags = true /\
    matches_frags py_chartab false [] frags s /\
    re_model_fullmatch py_chartab text s = Some false.
Proof.
  exists [{| f_atom := AClass cD; f_min := 2; f_max := Some 2 |}]. eexists. exists [1635; 1636].
  split; [vm_compute; reflexivity|]. split; [vm_compute; reflexivity|]. split; [|vm_compute; reflexivity].
  change [1635; 1636] with ([1635; 1636] ++ []). constructor; [|constructor].
  unfold frag_matches. cbn [atom_pred f_atom]. split; [vm_compute; reflexivity|]. cbn. lia.
Qed.

(* one batch extraction whose patterns are rendered again for output (what run_extractor does under the portable
   and grep dialects): the returned texts still cover the working examples, and each still matches one of them,
   when the examples' decimal digits are ASCII *)
Theorem batch_portable_covers ct o e stripped gt ex merged rex prex :
  batch_extract ct o e stripped gt ex = Ok (merged, rex) ->
  table_ok ct -> 1 <= z_max_strings_in_group o ->
  batch_oracle_okb ct o e stripped gt ex = true ->
  batch_renderable ct o e stripped gt ex = true ->
  mapM (vrle2re true (o_full_escape o) e stripped (o_tag o)) merged = Ok prex ->
  (forall s, In s (ex_strings ex) -> ascii_decimals ct s) ->
  forall s, In s (ex_strings ex) -> exists text, In text prex /\ re_model_fullmatch ct text s = Some true.
Proof.
  intros Hb Htab Hcap Horc Hren Hp Hasc s Hs.
  destruct (batch_covers_checked ct o e stripped gt ex merged rex Hb Htab Hcap Horc s Hs) as [fs [Hin Hm]].
  unfold batch_renderable in Hren. apply andb_true_iff in Hren as [He Hren]. apply mem_str_In in He.
  rewrite Hb in Hren. rewrite forallb_forall in Hren.
  destruct (mapM_nth_pair _ _ _ fs Hp Hin) as [text [Ht Hv]].
  exists text. split; [exact Ht|].
  eapply portable_text_matches; [exact He|apply Hren; exact Hin|exact Hv|exact Hm|apply Hasc; exact Hs].
Qed.

Theorem batch_portable_each_matches ct o e stripped gt ex merged rex prex :
  batch_extract ct o e stripped gt ex = Ok (merged, rex) ->
  table_ok ct -> 1 <= z_max_strings_in_group o ->
  batch_oracle_okb ct o e stripped gt ex = true ->
  batch_renderable ct o e stripped gt ex = true ->
  mapM (vrle2re true (o_full_escape o) e stripped (o_tag o)) merged = Ok prex ->
  (forall s, In s (ex_strings ex) -> ascii_decimals ct s) ->
  forall text, In text prex -> exists s, In s (ex_strings ex) /\ re_model_fullmatch ct text s = Some true.
Proof.
  intros Hb Htab Hcap Horc Hren Hp Hasc text Ht.
  destruct (mapM_In _ _ _ _ Hp Ht) as [fs [Hin Hv]].
  destruct (batch_each_matches_some ct o e stripped gt ex merged rex Hb Htab Hcap Horc fs Hin) as [s [Hs Hm]].
  unfold batch_renderable in Hren. apply andb_true_iff in Hren as [He Hren]. apply mem_str_In in He.
  rewrite Hb in Hren. rewrite forallb_forall in Hren.
  exists s. split; [exact Hs|].
  eapply portable_text_matches; [exact He|apply Hren; exact Hin|exact Hv|exact Hm|apply Hasc; exact Hs].
Qed.
