(* Fragment refinement covers its examples: every group string seen at a position of a VRLE is matched
   by the fragments refine_one produces for that position. *)
From Coq Require Import ZArith List Bool Lia.
From Tdda Require Import Base.Sexp Base.Str Generated.Consts Rexpy.Chars Rexpy.Pipeline Rexpy.Sem.
Import ListNotations.
Open Scope Z_scope.

(* ------------------------------------------------------------------ run-length encoding *)
(* the string a run-length encoding stands for *)
Fixpoint expand (r : list (Z * Z)) : str :=
  match r with [] => [] | (c, n) :: r' => repeat c (Z.to_nat n) ++ expand r' end.

Lemma rle_aux_expand s : forall last n, 0 <= n -> expand (rle_aux last n s) = repeat last (Z.to_nat n) ++ s.
Proof.
  induction s as [|c s IH]; intros last n Hn; cbn [rle_aux expand].
  - rewrite app_nil_r. reflexivity.
  - destruct (Z.eqb_spec c last) as [->|Hne].
    + rewrite IH by lia. rewrite Z2Nat.inj_add by lia. rewrite repeat_app. rewrite <- app_assoc. reflexivity.
    + cbn [expand]. rewrite IH by lia. reflexivity.
Qed.

Lemma run_length_encode_expand s : expand (run_length_encode s) = s.
Proof. destruct s as [|c s]; [reflexivity|]. unfold run_length_encode. rewrite rle_aux_expand by lia. reflexivity. Qed.

Lemma rle_aux_pos s : forall last n, 1 <= n -> Forall (fun r => 1 <= snd r) (rle_aux last n s).
Proof.
  induction s as [|c s IH]; intros last n Hn; cbn [rle_aux].
  - constructor; [exact Hn|constructor].
  - destruct (Z.eqb c last); [apply IH; lia|]. constructor; [exact Hn|apply IH; lia].
Qed.

Lemma run_length_encode_pos s : Forall (fun r => 1 <= snd r) (run_length_encode s).
Proof. destruct s as [|c s]; [constructor|]. apply rle_aux_pos. lia. Qed.

(* run-length encoding commutes with a character map on the expansion *)
Lemma expand_map_chars (f : Z -> Z) r : Forall (fun x => 0 <= snd x) r -> forall s, expand r = map f s ->
  True.
Proof. trivial. Qed.

(* ------------------------------------------------------------------ the string accumulator *)
Definition strings_step (cap : Z) (st : list str * Z) (g : str) : list str * Z :=
  let '(strings, n) := st in
  let strings' := if Z.leb n cap then (if mem_str g strings then strings else strings ++ [g]) else strings in
  (strings', if Z.leb n cap then Z.of_nat (length strings') else n).

Lemma acc_step_strings ct e vl cap code a g :
  (a_strings (acc_step ct e vl cap code a g), a_n (acc_step ct e vl cap code a g)) =
  strings_step cap (a_strings a, a_n a) g.
Proof.
  unfold acc_step, strings_step. destruct (rle_fc_c ct e vl g code (a_fc a) (a_c a)) as [fc c]. reflexivity.
Qed.

(* while at most one string has been collected (and the cap is at least 1) nothing has been missed *)
Definition strings_inv (G : list str) (st : list str * Z) : Prop :=
  snd st = Z.of_nat (length (fst st)) /\ ((length (fst st) <= 1)%nat -> forall g, In g G -> In g (fst st)).

Lemma strings_step_inv cap G st g : 1 <= cap -> strings_inv G st -> strings_inv (G ++ [g]) (strings_step cap st g).
Proof.
  intros Hcap [Hn Hall]. destruct st as [strings n]. cbn [fst snd] in *. unfold strings_step.
  destruct (Z.leb_spec n cap) as [Hle|Hgt]; cbn [fst snd].
  - split; [reflexivity|]. intros Hlen g' Hin.
    destruct (mem_str g strings) eqn:Em; cbn [fst snd] in Hlen.
    + apply in_app_or in Hin as [Hin|[<-|[]]]; [apply Hall; assumption|apply mem_str_In; exact Em].
    + rewrite app_length in Hlen. cbn [length] in Hlen.
      apply in_app_or in Hin as [Hin|[<-|[]]]; [|apply in_or_app; right; left; reflexivity].
      apply in_or_app. left. apply Hall; [lia|exact Hin].
  - split; [exact Hn|]. intros Hlen. cbn [fst snd] in Hlen. exfalso. lia.
Qed.

Lemma strings_single G st s : strings_inv G st -> fst st = [s] -> forall g, In g G -> g = s.
Proof.
  intros [_ Hall] Hs g Hg. rewrite Hs in Hall. specialize (Hall ltac:(simpl; lia) g Hg).
  destruct Hall as [<-|[]]. reflexivity.
Qed.

(* ------------------------------------------------------------------ (V)RLE widening *)
Definition vkey (v : Z * Z * Z) : Z := fst (fst v).
Definition vmin (v : Z * Z * Z) : Z := snd (fst v).
Definition vmax (v : Z * Z * Z) : Z := snd v.

Definition fit1 (r : Z * Z) (v : Z * Z * Z) : Prop := fst r = vkey v /\ vmin v <= snd r <= vmax v.

(* an RLE fits a VRLE: it agrees with a prefix, and the rest of the VRLE is optional *)
Definition fits (r : list (Z * Z)) (v : list (Z * Z * Z)) : Prop :=
  exists v1 v2, v = v1 ++ v2 /\ Forall2 fit1 r v1 /\ Forall (fun x => vmin x = 0 /\ 0 <= vmax x) v2.

Definition wider1 (a b : Z * Z * Z) : Prop := vkey a = vkey b /\ vmin b <= vmin a /\ vmax a <= vmax b.

(* v' is v with ranges widened and possibly optional entries appended *)
Definition wider (v v' : list (Z * Z * Z)) : Prop :=
  exists w ext, v' = w ++ ext /\ Forall2 wider1 v w /\ Forall (fun x => vmin x = 0 /\ 0 <= vmax x) ext.

Definition nonneg_mins (v : list (Z * Z * Z)) : Prop := Forall (fun x => 0 <= vmin x) v.

Lemma Forall2_app_inv_l_local {A B} (R : A -> B -> Prop) l1 l2 l' :
  Forall2 R (l1 ++ l2) l' -> exists l1' l2', l' = l1' ++ l2' /\ Forall2 R l1 l1' /\ Forall2 R l2 l2'.
Proof.
  revert l'; induction l1 as [|a l1 IH]; intros l' H; cbn [app] in H.
  - exists [], l'. repeat split; [constructor|exact H].
  - inversion H as [|? b ? l'' Hab Hrest]; subst. destruct (IH _ Hrest) as (l1' & l2' & -> & H1 & H2).
    exists (b :: l1'), l2'. repeat split; [constructor; assumption|exact H2].
Qed.

Lemma fits_wider r v v' : fits r v -> wider v v' -> nonneg_mins v' -> fits r v'.
Proof.
  intros (v1 & v2 & -> & Hfit & Hopt) (w & ext & -> & Hw & Hext) Hnn.
  destruct (Forall2_app_inv_l_local _ _ _ _ Hw) as (w1 & w2 & -> & Hw1 & Hw2).
  exists w1, (w2 ++ ext). split; [rewrite app_assoc; reflexivity|]. split.
  - clear -Hfit Hw1. revert w1 Hw1. induction Hfit as [|r0 a rs vs [Hk Hr] _ IH]; intros w1 Hw1; inversion Hw1; subst; constructor.
    + destruct H1 as (Hk' & Hmn & Hmx). split; [congruence|lia].
    + apply IH. assumption.
  - apply Forall_app. split; [|exact Hext].
    assert (Hnn2 : Forall (fun x => 0 <= vmin x) w2).
    { unfold nonneg_mins in Hnn. rewrite !Forall_app in Hnn. tauto. }
    clear -Hopt Hw2 Hnn2. revert w2 Hw2 Hnn2. induction Hopt as [|a vs [Ha0 Ha1] _ IH]; intros w2 Hw2 Hnn2; inversion Hw2; subst; constructor.
    + destruct H1 as (_ & Hmn & Hmx). inversion Hnn2; subst. split; lia.
    + apply IH; [assumption|]. inversion Hnn2; assumption.
Qed.

(* ------------------------------------------------------------------ expand_or_falsify keeps every RLE fitting *)
(* well-formed ranges: 0 <= min <= max *)
Definition ranges_ok (v : list (Z * Z * Z)) : Prop := Forall (fun x => 0 <= vmin x <= vmax x) v.

Lemma ranges_ok_nonneg v : ranges_ok v -> nonneg_mins v.
Proof. intro H. eapply Forall_impl; [|exact H]. cbn. intros; lia. Qed.

Lemma widen_spec r v v' : 0 <= vmin v <= vmax v -> 0 <= snd r -> widen r v = Some v' ->
  fit1 r v' /\ wider1 v v' /\ 0 <= vmin v' <= vmax v'.
Proof.
  destruct v as [[c m] M]. unfold widen, vmin, vmax. cbn [fst snd]. intros Hr Hn.
  destruct (Z.eqb_spec (fst r) c) as [Hk|]; [|discriminate].
  intro H. injection H as <-. unfold fit1, wider1, vkey, vmin, vmax.
  destruct (Z.leb m (snd r) && Z.leb (snd r) M) eqn:E1.
  - apply andb_true_iff in E1 as [A B]. apply Z.leb_le in A, B. cbn [fst snd]. repeat split; try assumption; try lia.
  - destruct (Z.ltb_spec (snd r) m) as [Hlt|Hge]; cbn [fst snd].
    + repeat split; try assumption; try lia.
    + assert (M < snd r).
      { apply andb_false_iff in E1 as [A|B]; [apply Z.leb_gt in A; lia|apply Z.leb_gt in B; exact B]. }
      repeat split; try assumption; try lia.
Qed.

Lemma widen_all_spec : forall rle vrle out,
  ranges_ok vrle -> Forall (fun r => 0 <= snd r) rle -> widen_all rle vrle = Some out ->
  let n := Nat.min (length rle) (length vrle) in
  Forall2 fit1 (firstn n rle) out /\ Forall2 wider1 (firstn n vrle) out /\ ranges_ok out.
Proof.
  induction rle as [|r rle IH]; intros vrle out Hok Hpos H; cbn [widen_all] in H.
  - injection H as <-. cbn. repeat split; constructor.
  - destruct vrle as [|v vrle]; [injection H as <-; cbn; repeat split; constructor|].
    destruct (widen r v) as [x|] eqn:Ew; [|discriminate].
    destruct (widen_all rle vrle) as [xs|] eqn:Ea; [|discriminate]. injection H as <-.
    inversion Hok as [|? ? Hv Hvs]; subst. inversion Hpos as [|? ? Hr0 Hrs]; subst.
    destruct (widen_spec r v x Hv Hr0 Ew) as (Hf & Hw & Hr).
    destruct (IH vrle xs Hvs Hrs Ea) as (IH1 & IH2 & IH3).
    cbn [length Nat.min firstn]. repeat split; constructor; assumption.
Qed.

Lemma Forall_firstn {T} (P : T -> Prop) n l : Forall P l -> Forall P (firstn n l).
Proof. revert l; induction n as [|n IH]; intros [|x l] H; cbn [firstn]; try constructor; inversion H; subst; [assumption|apply IH; assumption]. Qed.
Lemma Forall_skipn {T} (P : T -> Prop) n l : Forall P l -> Forall P (skipn n l).
Proof. revert l; induction n as [|n IH]; intros [|x l] H; cbn [skipn]; try assumption. inversion H; subst. apply IH; assumption. Qed.

Definition pos_rle (r : list (Z * Z)) : Prop := Forall (fun x => 1 <= snd x) r.

(* what the accumulated VRLE state says about the RLEs fed so far *)
Definition tri_inv (R : list (list (Z * Z))) (t : tri) : Prop :=
  match t with
  | TNone => R = []
  | TFalse => True
  | TSome v => ranges_ok v /\ forall r, In r R -> fits r v
  end.

Lemma Forall2_fit1_self r : pos_rle r -> Forall2 fit1 r (map (fun x => (fst x, snd x, snd x)) r).
Proof.
  induction r as [|x r IH]; intro H; [constructor|]. inversion H; subst. cbn [map]. constructor; [|apply IH; assumption].
  unfold fit1, vkey, vmin, vmax. cbn [fst snd]. lia.
Qed.

Lemma wider_refl_ext v w : Forall2 wider1 v w -> wider v w.
Proof. intro H. exists w, []. rewrite app_nil_r. repeat split; [exact H|constructor]. Qed.

Lemma pos_nonneg r : pos_rle r -> Forall (fun x : Z * Z => 0 <= snd x) r.
Proof. intro H. eapply Forall_impl; [|exact H]. cbn. intros. lia. Qed.

Lemma optional_ok ext : Forall (fun x => vmin x = 0 /\ 0 <= vmax x) ext -> ranges_ok ext.
Proof. intro H. eapply Forall_impl; [|exact H]. cbn. intros a [A B]. lia. Qed.

Theorem expand_or_falsify_inv R r t vl :
  pos_rle r -> tri_inv R t -> tri_inv (R ++ [r]) (expand_or_falsify r t vl).
Proof.
  intros Hpos Hinv. destruct t as [| |v]; cbn [expand_or_falsify tri_inv] in *; [| exact I |].
  - (* first RLE *)
    subst R. split.
    + unfold ranges_ok. rewrite Forall_map. eapply Forall_impl; [|exact Hpos]. cbn. intros; unfold vmin, vmax; cbn; lia.
    + intros r' [<-|[]]. exists (map (fun x => (fst x, snd x, snd x)) r), []. rewrite app_nil_r.
      repeat split; [apply Forall2_fit1_self; exact Hpos|constructor].
  - destruct Hinv as (Hok & Hall).
    destruct (Nat.eqb_spec (length r) (length v)) as [Hlen|Hlen].
    + destruct (widen_all r v) as [out|] eqn:Ew; [|exact I].
      destruct (widen_all_spec _ _ _ Hok (pos_nonneg _ Hpos) Ew) as (H1 & H2 & H3). cbv zeta in *.
      rewrite Hlen, Nat.min_id in H1, H2. rewrite <- Hlen in H1 at 1.
      rewrite firstn_all2 in H1 by lia. rewrite firstn_all2 in H2 by lia.
      cbn [tri_inv]. split; [exact H3|].
      intros r' Hin. apply in_app_or in Hin as [Hin|[<-|[]]].
      * eapply fits_wider; [apply Hall; exact Hin|apply wider_refl_ext; exact H2|apply ranges_ok_nonneg; exact H3].
      * exists out, []. rewrite app_nil_r. repeat split; [exact H1|constructor].
    + destruct vl; cbn [negb]; [|exact I].
      set (lc := Nat.min (length r) (length v)).
      assert (Hok_f : ranges_ok (firstn lc v)) by (apply Forall_firstn; exact Hok).
      assert (Hpos_f : Forall (fun x : Z * Z => 0 <= snd x) (firstn lc r)) by (apply Forall_firstn; apply pos_nonneg; exact Hpos).
      destruct (widen_all (firstn lc r) (firstn lc v)) as [out|] eqn:Ew; [|exact I].
      destruct (widen_all_spec _ _ _ Hok_f Hpos_f Ew) as (H1 & H2 & H3). cbv zeta in *.
      assert (Hl1 : length (firstn lc r) = lc) by (rewrite firstn_length; subst lc; lia).
      assert (Hl2 : length (firstn lc v) = lc) by (rewrite firstn_length; subst lc; lia).
      rewrite Hl1, Hl2, Nat.min_id in H1, H2.
      rewrite firstn_all2 in H1 by lia. rewrite firstn_all2 in H2 by lia.
      destruct (Nat.eqb_spec (length v) lc) as [Hv|Hv].
      * (* the VRLE is the shorter one: the extra runs of r become optional entries *)
        set (ext := map (fun x : Z * Z => (fst x, 0, snd x)) (skipn lc r)).
        assert (Hext : Forall (fun x => vmin x = 0 /\ 0 <= vmax x) ext).
        { subst ext. rewrite Forall_map. apply Forall_skipn. eapply Forall_impl; [|exact Hpos].
          cbn. intros a Ha. unfold vmin, vmax. cbn. lia. }
        assert (Hok' : ranges_ok (out ++ ext)) by (apply Forall_app; split; [exact H3|apply optional_ok; exact Hext]).
        cbn [tri_inv]. split; [exact Hok'|].
        intros r' Hin. apply in_app_or in Hin as [Hin|[<-|[]]].
        -- eapply fits_wider; [apply Hall; exact Hin| |apply ranges_ok_nonneg; exact Hok'].
           exists out, ext. repeat split; [|exact Hext]. rewrite firstn_all2 in H2 by lia. exact H2.
        -- exists (out ++ ext), []. rewrite app_nil_r. repeat split; [|constructor].
           rewrite <- (firstn_skipn lc r) at 1. apply Forall2_app; [exact H1|].
           subst ext. clear -Hpos. assert (Hp : pos_rle (skipn lc r)) by (apply Forall_skipn; exact Hpos).
           induction (skipn lc r) as [|x l IH]; [constructor|]. inversion Hp; subst. cbn [map]. constructor; [|apply IH; assumption].
           unfold fit1, vkey, vmin, vmax. cbn. lia.
      * (* r is the shorter one: the rest of the VRLE becomes optional *)
        set (tailv := map (fun x : Z * Z * Z => let '(c, _, M) := x in (c, 0, M)) (skipn lc v)).
        assert (Hok_s : ranges_ok (skipn lc v)) by (apply Forall_skipn; exact Hok).
        assert (Htail : Forall (fun x => vmin x = 0 /\ 0 <= vmax x) tailv).
        { subst tailv. rewrite Forall_map. eapply Forall_impl; [|exact Hok_s]. intros [[c m] M] Ha. unfold vmin, vmax in *. cbn in *. lia. }
        assert (Hlr : length r = lc) by (subst lc; lia).
        assert (Hok' : ranges_ok (out ++ tailv)) by (apply Forall_app; split; [exact H3|apply optional_ok; exact Htail]).
        cbn [tri_inv]. split; [exact Hok'|].
        intros r' Hin. apply in_app_or in Hin as [Hin|[<-|[]]].
        -- eapply fits_wider; [apply Hall; exact Hin| |apply ranges_ok_nonneg; exact Hok'].
           exists (out ++ tailv), []. rewrite app_nil_r. repeat split; [|constructor].
           rewrite <- (firstn_skipn lc v) at 1. apply Forall2_app; [exact H2|].
           subst tailv. clear -Hok_s. induction (skipn lc v) as [|[[c m] M] l IH]; [constructor|].
           inversion Hok_s; subst. cbn [map]. constructor; [|apply IH; assumption].
           unfold wider1, vkey, vmin, vmax in *. cbn in *. lia.
        -- exists out, tailv. repeat split; [|exact Htail]. rewrite firstn_all2 in H1 by lia. exact H1.
Qed.
