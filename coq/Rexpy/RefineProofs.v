(* Fragment refinement covers its examples: every group string seen at a position of a VRLE is matched
   by the fragments refine_one produces for that position. *)
From Coq Require Import ZArith List Bool Lia.
From Tdda Require Import Base.Sexp Base.Str Generated.Consts Rexpy.Chars Rexpy.Pipeline Rexpy.Sem.
Import ListNotations.
Open Scope Z_scope.

(* ------------------------------------------------------------------ run-length encoding *)
(* the string a run-length encoding stands for *)
Fixpoint expand (r : list (Z * Z)) : str :=
  match r with [] => [] | (c, n) :: r' => repeat c (Z.to_nat n) ++ expand r' end.

Lemma rle_aux_expand s : forall last n, 0 <= n -> expand (rle_aux last n s) = repeat last (Z.to_nat n) ++ s.
Proof.
  induction s as [|c s IH]; intros last n Hn; cbn [rle_aux expand].
  - rewrite app_nil_r. reflexivity.
  - destruct (Z.eqb_spec c last) as [->|Hne].
    + rewrite IH by lia. rewrite Z2Nat.inj_add by lia. rewrite repeat_app. rewrite <- app_assoc. reflexivity.
    + cbn [expand]. rewrite IH by lia. reflexivity.
Qed.

Lemma run_length_encode_expand s : expand (run_length_encode s) = s.
Proof. destruct s as [|c s]; [reflexivity|]. unfold run_length_encode. rewrite rle_aux_expand by lia. reflexivity. Qed.

Lemma rle_aux_pos s : forall last n, 1 <= n -> Forall (fun r => 1 <= snd r) (rle_aux last n s).
Proof.
  induction s as [|c s IH]; intros last n Hn; cbn [rle_aux].
  - constructor; [exact Hn|constructor].
  - destruct (Z.eqb c last); [apply IH; lia|]. constructor; [exact Hn|apply IH; lia].
Qed.

Lemma run_length_encode_pos s : Forall (fun r => 1 <= snd r) (run_length_encode s).
Proof. destruct s as [|c s]; [constructor|]. apply rle_aux_pos. lia. Qed.

(* run-length encoding commutes with a character map on the expansion *)
Lemma expand_map_chars (f : Z -> Z) r : Forall (fun x => 0 <= snd x) r -> forall s, expand r = map f s ->
  True.
Proof. trivial. Qed.

(* ------------------------------------------------------------------ the string accumulator *)
Definition strings_step (cap : Z) (st : list str * Z) (g : str) : list str * Z :=
  let '(strings, n) := st in
  let strings' := if Z.leb n cap then (if mem_str g strings then strings else strings ++ [g]) else strings in
  (strings', if Z.leb n cap then Z.of_nat (length strings') else n).

Lemma acc_step_strings ct e vl cap code a g :
  (a_strings (acc_step ct e vl cap code a g), a_n (acc_step ct e vl cap code a g)) =
  strings_step cap (a_strings a, a_n a) g.
Proof.
  unfold acc_step, strings_step. destruct (rle_fc_c ct e vl g code (a_fc a) (a_c a)) as [fc c]. reflexivity.
Qed.

(* while at most one string has been collected (and the cap is at least 1) nothing has been missed *)
Definition strings_inv (G : list str) (st : list str * Z) : Prop :=
  snd st = Z.of_nat (length (fst st)) /\ ((length (fst st) <= 1)%nat -> forall g, In g G -> In g (fst st)).

Lemma strings_step_inv cap G st g : 1 <= cap -> strings_inv G st -> strings_inv (G ++ [g]) (strings_step cap st g).
Proof.
  intros Hcap [Hn Hall]. destruct st as [strings n]. cbn [fst snd] in *. unfold strings_step.
  destruct (Z.leb_spec n cap) as [Hle|Hgt]; cbn [fst snd].
  - split; [reflexivity|]. intros Hlen g' Hin.
    destruct (mem_str g strings) eqn:Em; cbn [fst snd] in Hlen.
    + apply in_app_or in Hin as [Hin|[<-|[]]]; [apply Hall; assumption|apply mem_str_In; exact Em].
    + rewrite app_length in Hlen. cbn [length] in Hlen.
      apply in_app_or in Hin as [Hin|[<-|[]]]; [|apply in_or_app; right; left; reflexivity].
      apply in_or_app. left. apply Hall; [lia|exact Hin].
  - split; [exact Hn|]. intros Hlen. cbn [fst snd] in Hlen. exfalso. lia.
Qed.

Lemma strings_single G st s : strings_inv G st -> fst st = [s] -> forall g, In g G -> g = s.
Proof.
  intros [_ Hall] Hs g Hg. rewrite Hs in Hall. specialize (Hall ltac:(simpl; lia) g Hg).
  destruct Hall as [<-|[]]. reflexivity.
Qed.

(* ------------------------------------------------------------------ (V)RLE widening *)
Definition vkey (v : Z * Z * Z) : Z := fst (fst v).
Definition vmin (v : Z * Z * Z) : Z := snd (fst v).
Definition vmax (v : Z * Z * Z) : Z := snd v.

Definition fit1 (r : Z * Z) (v : Z * Z * Z) : Prop := fst r = vkey v /\ vmin v <= snd r <= vmax v.

(* an RLE fits a VRLE: it agrees with a prefix, and the rest of the VRLE is optional *)
Definition fits (r : list (Z * Z)) (v : list (Z * Z * Z)) : Prop :=
  exists v1 v2, v = v1 ++ v2 /\ Forall2 fit1 r v1 /\ Forall (fun x => vmin x = 0 /\ 0 <= vmax x) v2.

Definition wider1 (a b : Z * Z * Z) : Prop := vkey a = vkey b /\ vmin b <= vmin a /\ vmax a <= vmax b.

(* v' is v with ranges widened and possibly optional entries appended *)
Definition wider (v v' : list (Z * Z * Z)) : Prop :=
  exists w ext, v' = w ++ ext /\ Forall2 wider1 v w /\ Forall (fun x => vmin x = 0 /\ 0 <= vmax x) ext.

Definition nonneg_mins (v : list (Z * Z * Z)) : Prop := Forall (fun x => 0 <= vmin x) v.

Lemma Forall2_app_inv_l_local {A B} (R : A -> B -> Prop) l1 l2 l' :
  Forall2 R (l1 ++ l2) l' -> exists l1' l2', l' = l1' ++ l2' /\ Forall2 R l1 l1' /\ Forall2 R l2 l2'.
Proof.
  revert l'; induction l1 as [|a l1 IH]; intros l' H; cbn [app] in H.
  - exists [], l'. repeat split; [constructor|exact H].
  - inversion H as [|? b ? l'' Hab Hrest]; subst. destruct (IH _ Hrest) as (l1' & l2' & -> & H1 & H2).
    exists (b :: l1'), l2'. repeat split; [constructor; assumption|exact H2].
Qed.

Lemma fits_wider r v v' : fits r v -> wider v v' -> nonneg_mins v' -> fits r v'.
Proof.
  intros (v1 & v2 & -> & Hfit & Hopt) (w & ext & -> & Hw & Hext) Hnn.
  destruct (Forall2_app_inv_l_local _ _ _ _ Hw) as (w1 & w2 & -> & Hw1 & Hw2).
  exists w1, (w2 ++ ext). split; [rewrite app_assoc; reflexivity|]. split.
  - clear -Hfit Hw1. revert w1 Hw1. induction Hfit as [|r0 a rs vs [Hk Hr] _ IH]; intros w1 Hw1; inversion Hw1; subst; constructor.
    + destruct H1 as (Hk' & Hmn & Hmx). split; [congruence|lia].
    + apply IH. assumption.
  - apply Forall_app. split; [|exact Hext].
    assert (Hnn2 : Forall (fun x => 0 <= vmin x) w2).
    { unfold nonneg_mins in Hnn. rewrite !Forall_app in Hnn. tauto. }
    clear -Hopt Hw2 Hnn2. revert w2 Hw2 Hnn2. induction Hopt as [|a vs [Ha0 Ha1] _ IH]; intros w2 Hw2 Hnn2; inversion Hw2; subst; constructor.
    + destruct H1 as (_ & Hmn & Hmx). inversion Hnn2; subst. split; lia.
    + apply IH; [assumption|]. inversion Hnn2; assumption.
Qed.

(* ------------------------------------------------------------------ expand_or_falsify keeps every RLE fitting *)
(* well-formed ranges: 0 <= min <= max *)
Definition ranges_ok (v : list (Z * Z * Z)) : Prop := Forall (fun x => 0 <= vmin x <= vmax x) v.

Lemma ranges_ok_nonneg v : ranges_ok v -> nonneg_mins v.
Proof. intro H. eapply Forall_impl; [|exact H]. cbn. intros; lia. Qed.

Lemma widen_spec r v v' : 0 <= vmin v <= vmax v -> 0 <= snd r -> widen r v = Some v' ->
  fit1 r v' /\ wider1 v v' /\ 0 <= vmin v' <= vmax v'.
Proof.
  destruct v as [[c m] M]. unfold widen, vmin, vmax. cbn [fst snd]. intros Hr Hn.
  destruct (Z.eqb_spec (fst r) c) as [Hk|]; [|discriminate].
  intro H. injection H as <-. unfold fit1, wider1, vkey, vmin, vmax.
  destruct (Z.leb m (snd r) && Z.leb (snd r) M) eqn:E1.
  - apply andb_true_iff in E1 as [A B]. apply Z.leb_le in A, B. cbn [fst snd]. repeat split; try assumption; try lia.
  - destruct (Z.ltb_spec (snd r) m) as [Hlt|Hge]; cbn [fst snd].
    + repeat split; try assumption; try lia.
    + assert (M < snd r).
      { apply andb_false_iff in E1 as [A|B]; [apply Z.leb_gt in A; lia|apply Z.leb_gt in B; exact B]. }
      repeat split; try assumption; try lia.
Qed.

Lemma widen_all_spec : forall rle vrle out,
  ranges_ok vrle -> Forall (fun r => 0 <= snd r) rle -> widen_all rle vrle = Some out ->
  let n := Nat.min (length rle) (length vrle) in
  Forall2 fit1 (firstn n rle) out /\ Forall2 wider1 (firstn n vrle) out /\ ranges_ok out.
Proof.
  induction rle as [|r rle IH]; intros vrle out Hok Hpos H; cbn [widen_all] in H.
  - injection H as <-. cbn. repeat split; constructor.
  - destruct vrle as [|v vrle]; [injection H as <-; cbn; repeat split; constructor|].
    destruct (widen r v) as [x|] eqn:Ew; [|discriminate].
    destruct (widen_all rle vrle) as [xs|] eqn:Ea; [|discriminate]. injection H as <-.
    inversion Hok as [|? ? Hv Hvs]; subst. inversion Hpos as [|? ? Hr0 Hrs]; subst.
    destruct (widen_spec r v x Hv Hr0 Ew) as (Hf & Hw & Hr).
    destruct (IH vrle xs Hvs Hrs Ea) as (IH1 & IH2 & IH3).
    cbn [length Nat.min firstn]. repeat split; constructor; assumption.
Qed.

Lemma Forall_firstn {T} (P : T -> Prop) n l : Forall P l -> Forall P (firstn n l).
Proof. revert l; induction n as [|n IH]; intros [|x l] H; cbn [firstn]; try constructor; inversion H; subst; [assumption|apply IH; assumption]. Qed.
Lemma Forall_skipn {T} (P : T -> Prop) n l : Forall P l -> Forall P (skipn n l).
Proof. revert l; induction n as [|n IH]; intros [|x l] H; cbn [skipn]; try assumption. inversion H; subst. apply IH; assumption. Qed.

Definition pos_rle (r : list (Z * Z)) : Prop := Forall (fun x => 1 <= snd x) r.

(* what the accumulated VRLE state says about the RLEs fed so far *)
Definition tri_inv (R : list (list (Z * Z))) (t : tri) : Prop :=
  match t with
  | TNone => R = []
  | TFalse => True
  | TSome v => ranges_ok v /\ forall r, In r R -> fits r v
  end.

Lemma Forall2_fit1_self r : pos_rle r -> Forall2 fit1 r (map (fun x => (fst x, snd x, snd x)) r).
Proof.
  induction r as [|x r IH]; intro H; [constructor|]. inversion H; subst. cbn [map]. constructor; [|apply IH; assumption].
  unfold fit1, vkey, vmin, vmax. cbn [fst snd]. lia.
Qed.

Lemma wider_refl_ext v w : Forall2 wider1 v w -> wider v w.
Proof. intro H. exists w, []. rewrite app_nil_r. repeat split; [exact H|constructor]. Qed.

Lemma pos_nonneg r : pos_rle r -> Forall (fun x : Z * Z => 0 <= snd x) r.
Proof. intro H. eapply Forall_impl; [|exact H]. cbn. intros. lia. Qed.

Lemma optional_ok ext : Forall (fun x => vmin x = 0 /\ 0 <= vmax x) ext -> ranges_ok ext.
Proof. intro H. eapply Forall_impl; [|exact H]. cbn. intros a [A B]. lia. Qed.

Theorem expand_or_falsify_inv R r t vl :
  pos_rle r -> tri_inv R t -> tri_inv (R ++ [r]) (expand_or_falsify r t vl).
Proof.
  intros Hpos Hinv. destruct t as [| |v]; cbn [expand_or_falsify tri_inv] in *; [| exact I |].
  - (* first RLE *)
    subst R. split.
    + unfold ranges_ok. rewrite Forall_map. eapply Forall_impl; [|exact Hpos]. cbn. intros; unfold vmin, vmax; cbn; lia.
    + intros r' [<-|[]]. exists (map (fun x => (fst x, snd x, snd x)) r), []. rewrite app_nil_r.
      repeat split; [apply Forall2_fit1_self; exact Hpos|constructor].
  - destruct Hinv as (Hok & Hall).
    destruct (Nat.eqb_spec (length r) (length v)) as [Hlen|Hlen].
    + destruct (widen_all r v) as [out|] eqn:Ew; [|exact I].
      destruct (widen_all_spec _ _ _ Hok (pos_nonneg _ Hpos) Ew) as (H1 & H2 & H3). cbv zeta in *.
      rewrite Hlen, Nat.min_id in H1, H2. rewrite <- Hlen in H1 at 1.
      rewrite firstn_all2 in H1 by lia. rewrite firstn_all2 in H2 by lia.
      cbn [tri_inv]. split; [exact H3|].
      intros r' Hin. apply in_app_or in Hin as [Hin|[<-|[]]].
      * eapply fits_wider; [apply Hall; exact Hin|apply wider_refl_ext; exact H2|apply ranges_ok_nonneg; exact H3].
      * exists out, []. rewrite app_nil_r. repeat split; [exact H1|constructor].
    + destruct vl; cbn [negb]; [|exact I].
      set (lc := Nat.min (length r) (length v)).
      assert (Hok_f : ranges_ok (firstn lc v)) by (apply Forall_firstn; exact Hok).
      assert (Hpos_f : Forall (fun x : Z * Z => 0 <= snd x) (firstn lc r)) by (apply Forall_firstn; apply pos_nonneg; exact Hpos).
      destruct (widen_all (firstn lc r) (firstn lc v)) as [out|] eqn:Ew; [|exact I].
      destruct (widen_all_spec _ _ _ Hok_f Hpos_f Ew) as (H1 & H2 & H3). cbv zeta in *.
      assert (Hl1 : length (firstn lc r) = lc) by (rewrite firstn_length; subst lc; lia).
      assert (Hl2 : length (firstn lc v) = lc) by (rewrite firstn_length; subst lc; lia).
      rewrite Hl1, Hl2, Nat.min_id in H1, H2.
      rewrite firstn_all2 in H1 by lia. rewrite firstn_all2 in H2 by lia.
      destruct (Nat.eqb_spec (length v) lc) as [Hv|Hv].
      * (* the VRLE is the shorter one: the extra runs of r become optional entries *)
        set (ext := map (fun x : Z * Z => (fst x, 0, snd x)) (skipn lc r)).
        assert (Hext : Forall (fun x => vmin x = 0 /\ 0 <= vmax x) ext).
        { subst ext. rewrite Forall_map. apply Forall_skipn. eapply Forall_impl; [|exact Hpos].
          cbn. intros a Ha. unfold vmin, vmax. cbn. lia. }
        assert (Hok' : ranges_ok (out ++ ext)) by (apply Forall_app; split; [exact H3|apply optional_ok; exact Hext]).
        cbn [tri_inv]. split; [exact Hok'|].
        intros r' Hin. apply in_app_or in Hin as [Hin|[<-|[]]].
        -- eapply fits_wider; [apply Hall; exact Hin| |apply ranges_ok_nonneg; exact Hok'].
           exists out, ext. repeat split; [|exact Hext]. rewrite firstn_all2 in H2 by lia. exact H2.
        -- exists (out ++ ext), []. rewrite app_nil_r. repeat split; [|constructor].
           rewrite <- (firstn_skipn lc r) at 1. apply Forall2_app; [exact H1|].
           subst ext. clear -Hpos. assert (Hp : pos_rle (skipn lc r)) by (apply Forall_skipn; exact Hpos).
           induction (skipn lc r) as [|x l IH]; [constructor|]. inversion Hp; subst. cbn [map]. constructor; [|apply IH; assumption].
           unfold fit1, vkey, vmin, vmax. cbn. lia.
      * (* r is the shorter one: the rest of the VRLE becomes optional *)
        set (tailv := map (fun x : Z * Z * Z => let '(c, _, M) := x in (c, 0, M)) (skipn lc v)).
        assert (Hok_s : ranges_ok (skipn lc v)) by (apply Forall_skipn; exact Hok).
        assert (Htail : Forall (fun x => vmin x = 0 /\ 0 <= vmax x) tailv).
        { subst tailv. rewrite Forall_map. eapply Forall_impl; [|exact Hok_s]. intros [[c m] M] Ha. unfold vmin, vmax in *. cbn in *. lia. }
        assert (Hlr : length r = lc) by (subst lc; lia).
        assert (Hok' : ranges_ok (out ++ tailv)) by (apply Forall_app; split; [exact H3|apply optional_ok; exact Htail]).
        cbn [tri_inv]. split; [exact Hok'|].
        intros r' Hin. apply in_app_or in Hin as [Hin|[<-|[]]].
        -- eapply fits_wider; [apply Hall; exact Hin| |apply ranges_ok_nonneg; exact Hok'].
           exists (out ++ tailv), []. rewrite app_nil_r. repeat split; [|constructor].
           rewrite <- (firstn_skipn lc v) at 1. apply Forall2_app; [exact H2|].
           subst tailv. clear -Hok_s. induction (skipn lc v) as [|[[c m] M] l IH]; [constructor|].
           inversion Hok_s; subst. cbn [map]. constructor; [|apply IH; assumption].
           unfold wider1, vkey, vmin, vmax in *. cbn in *. lia.
        -- exists out, tailv. repeat split; [|exact Htail]. rewrite firstn_all2 in H1 by lia. exact H1.
Qed.

(* ------------------------------------------------------------------ from "fits" to "is matched" *)
(* the runs of a string under a key function f, as pieces *)
Lemma rle_aux_pieces (f : Z -> Z) s : forall c k (pre : str),
  (forall x, In x pre -> f x = c) -> Z.of_nat (length pre) = k -> 1 <= k ->
  exists pieces, pre ++ s = List.concat pieces /\
    Forall2 (fun p rn => Z.of_nat (length p) = snd rn /\ forall x, In x p -> f x = fst rn) pieces (rle_aux c k (map f s)).
Proof.
  induction s as [|y s IH]; intros c k pre Hpre Hk Hk1; cbn [map rle_aux].
  - exists [pre]. cbn [List.concat]. rewrite !app_nil_r. split; [reflexivity|].
    constructor; [split; [exact Hk|exact Hpre]|constructor].
  - destruct (Z.eqb_spec (f y) c) as [Heq|Hne].
    + destruct (IH c (k + 1) (pre ++ [y])) as [pieces [Hc Hf]].
      * intros x Hx. apply in_app_or in Hx as [Hx|[<-|[]]]; [apply Hpre; exact Hx|exact Heq].
      * rewrite app_length. cbn [length]. lia.
      * lia.
      * exists pieces. split; [rewrite <- Hc, <- app_assoc; reflexivity|exact Hf].
    + destruct (IH (f y) 1 [y]) as [pieces [Hc Hf]].
      * intros x [<-|[]]. reflexivity.
      * reflexivity.
      * lia.
      * exists (pre :: pieces). split; [cbn [List.concat]; rewrite <- Hc; reflexivity|].
        constructor; [split; [exact Hk|exact Hpre]|exact Hf].
Qed.

Lemma rle_pieces (f : Z -> Z) s :
  exists pieces, s = List.concat pieces /\
    Forall2 (fun p rn => Z.of_nat (length p) = snd rn /\ forall x, In x p -> f x = fst rn) pieces (run_length_encode (map f s)).
Proof.
  destruct s as [|y s]; [exists []; split; [reflexivity|constructor]|].
  cbn [map run_length_encode]. destruct (rle_aux_pieces f s (f y) 1 [y]) as [pieces [Hc Hf]].
  - intros x [<-|[]]. reflexivity.
  - reflexivity.
  - lia.
  - exists pieces. split; [exact Hc|exact Hf].
Qed.

Lemma map_id_local (s : str) : map (fun x => x) s = s.
Proof. induction s as [|a s IH]; [reflexivity|]. cbn [map]. rewrite IH. reflexivity. Qed.

Lemma count_ok_plusify m M n : m <= n <= M -> 1 <= n ->
  count_ok m (if Z.leb (M - m) max_vrle_range then Some M else None) (Z.to_nat n).
Proof.
  intros H H1. destruct (Z.leb (M - m) max_vrle_range); cbn [count_ok]; [rewrite Z2Nat.id by lia; exact H|].
  right. lia.
Qed.

Lemma count_ok_plusify_empty M : 0 <= M ->
  count_ok 0 (if Z.leb (M - 0) max_vrle_range then Some M else None) O.
Proof. intro H. destruct (Z.leb (M - 0) max_vrle_range); cbn [count_ok]; [cbn; lia|left; reflexivity]. Qed.

(* a string whose keyed RLE fits the VRLE is matched by the plusified fragments, when each piece's
   characters satisfy the predicate of the fragment with that key *)
Lemma fits_matches ct out e (fixed : bool) (f : Z -> Z) s v :
  fits (run_length_encode (map f s)) v ->
  (forall x key, In x s -> f x = key ->
     match atom_pred ct out e (if fixed then ARaw key else AClass key) return Prop with Some p => p x = true | None => False end) ->
  matches_frags ct out e (map (plusify fixed) v) s.
Proof.
  intros (v1 & v2 & -> & Hfit & Hopt) Hsem.
  destruct (rle_pieces f s) as [pieces [Hs Hp]]. rewrite map_app.
  pose proof (run_length_encode_pos (map f s)) as Hpos.
  assert (Hin : forall p, In p pieces -> forall x, In x p -> In x s).
  { intros p Hp0 x Hx. rewrite Hs. apply in_concat. exists p. split; assumption. }
  rewrite Hs. rewrite <- (app_nil_r (List.concat pieces)). apply matches_frags_app.
  - clear Hs Hopt. revert v1 Hfit Hin Hpos.
    induction Hp as [|p rn ps rs [Hlen Hkey] _ IH]; intros v1 Hfit Hin Hpos; inversion Hfit as [|? y ? v1' Hy Hrest]; subst.
    + constructor.
    + inversion Hpos as [|? ? Hrn Hrs]; subst. cbn [List.concat map]. constructor.
      * destruct y as [[c m] M]. destruct Hy as [Hk Hr]. unfold vkey, vmin, vmax in Hk, Hr. cbn [fst snd] in Hk, Hr.
        unfold frag_matches, plusify. cbn [f_atom f_min f_max].
        assert (Hp1 : forall x, In x p -> match atom_pred ct out e (if fixed then ARaw c else AClass c) return Prop with Some q => q x = true | None => False end).
        { intros x Hx. apply Hsem; [apply (Hin p (or_introl eq_refl)); exact Hx|]. rewrite (Hkey x Hx). exact Hk. }
        destruct (atom_pred ct out e (if fixed then ARaw c else AClass c)) as [q|] eqn:Eq.
        -- split; [apply forallb_forall; exact Hp1|].
           replace (length p) with (Z.to_nat (snd rn)) by (rewrite <- Hlen; apply Nat2Z.id).
           apply count_ok_plusify; lia.
        -- destruct fixed; discriminate.
      * apply IH; [exact Hrest| |exact Hrs]. intros p' Hp' x Hx. apply (Hin p' (or_intror Hp')). exact Hx.
  - clear -Hopt. induction Hopt as [|[[c m] M] l [Hm HM] _ IH]; [constructor|]. cbn [map].
    change (@nil Z) with (@nil Z ++ @nil Z). constructor; [|exact IH].
    unfold vmin, vmax in Hm, HM. cbn [fst snd] in Hm, HM. subst m.
    unfold frag_matches, plusify. cbn [f_atom f_min f_max].
    destruct fixed; cbn [atom_pred]; (split; [reflexivity|apply count_ok_plusify_empty; exact HM]).
Qed.

(* ------------------------------------------------------------------ fine classes *)
(* the one fact needed about the character tables: ASCII digits are decimal digits *)
Definition table_ok (ct : chartab) : Prop := forall c, is_09 c = true -> ct_decimal ct c = true.

Lemma cat_sem_D ct e c : cat_sem ct false e cD c = ct_decimal ct c. Proof. reflexivity. Qed.
Lemma cat_sem_a ct e c : cat_sem ct false e ca c = is_lower c. Proof. reflexivity. Qed.
Lemma cat_sem_A ct e c : cat_sem ct false e cA c = is_upper c. Proof. reflexivity. Qed.
Lemma cat_sem_B ct e c : cat_sem ct false e cB c = is_upper c || memc c e. Proof. reflexivity. Qed.
Lemma cat_sem_UC ct e c : cat_sem ct false e cUC c = (is_word ct c && negb (memc c (el_exc e))) || memc c (el_inc e).
Proof. reflexivity. Qed.
Lemma cat_sem_UM ct e c : cat_sem ct false e cUM c =
  match e with
  | [] => is_word ct c && negb (is_09 c) && negb (Z.eqb c 95)
  | _ => (is_word ct c && negb (is_09 c) && negb (memc c (el_exc e))) || memc c (el_inc e)
  end.
Proof. reflexivity. Qed.

(* every character of an alphanumeric group belongs to the fine class rexpy assigns to it *)
Theorem fine_class_sound ct e c : table_ok ct ->
  cat_sem ct false e cUC c = true -> cat_sem ct false e (fine_class ct e c) c = true.
Proof.
  intros Htab Huc. unfold fine_class.
  destruct (ct_decimal ct c) eqn:Ed; [rewrite cat_sem_D; exact Ed|].
  destruct (is_lower c) eqn:El; [rewrite cat_sem_a; exact El|].
  destruct (is_upper c) eqn:Eu; [rewrite cat_sem_A; exact Eu|].
  destruct (memc c e) eqn:Em; [rewrite cat_sem_B, Em; apply orb_true_r|].
  assert (H09 : is_09 c = false).
  { destruct (is_09 c) eqn:E9; [|reflexivity]. rewrite (Htab c E9) in Ed. discriminate. }
  rewrite cat_sem_UC in Huc. rewrite cat_sem_UM. rewrite H09. cbn [negb].
  destruct e as [|e0 e'].
  - cbn [el_exc el_inc has_us memc existsb filter orb] in Huc. rewrite orb_false_r in Huc.
    apply andb_true_iff in Huc as [Hw Hx]. rewrite Hw. cbn [andb].
    unfold memc in Hx. cbn [existsb] in Hx. rewrite orb_false_r in Hx. exact Hx.
  - apply orb_true_iff in Huc as [Huc|Huc]; [|rewrite Huc; apply orb_true_r].
    apply andb_true_iff in Huc as [Hw Hx]. rewrite Hw, Hx. reflexivity.
Qed.

(* ------------------------------------------------------------------ the accumulator invariant *)
Record pos_ok (ct : chartab) (e : str) (v : vfrag) (g : str) : Prop := {
  po_class : forallb (cat_sem ct false e (vf_code v)) g = true;
  po_count : count_ok (vf_min v) (vf_max v) (length g) }.

Definition acc_inv (ct : chartab) (e : str) (G : list str) (a : acc) : Prop :=
  strings_inv G (a_strings a, a_n a) /\
  (forall x, In x (a_chars a) <-> exists g, In g G /\ In x g) /\
  tri_inv (map (fun g => run_length_encode (map (fine_class ct e) g)) G) (a_fc a) /\
  tri_inv (map (fun g => run_length_encode g) G) (a_c a).

Lemma acc0_inv ct e : acc_inv ct e [] acc0.
Proof.
  unfold acc_inv, acc0. cbn [a_strings a_n a_chars a_fc a_c map]. repeat split.
  - intros _ g [].
  - intros [].
  - intros [g [[] _]].
Qed.

Lemma acc_step_inv ct e vl cap code G a g : 1 <= cap ->
  acc_inv ct e G a -> acc_inv ct e (G ++ [g]) (acc_step ct e vl cap code a g).
Proof.
  intros Hcap (Hs & Hc & Hfc & Hcc).
  assert (Hstr := acc_step_strings ct e vl cap code a g).
  unfold acc_inv. split; [|split].
  - rewrite Hstr. apply strings_step_inv; assumption.
  - unfold acc_step. destruct (rle_fc_c ct e vl g code (a_fc a) (a_c a)) as [fc c]. cbn [a_chars].
    intro x. rewrite add_chars_In, Hc. split.
    + intros [Hx|[g0 [Hg0 Hx]]]; [exists g; split; [apply in_or_app; right; left; reflexivity|exact Hx]|
                                   exists g0; split; [apply in_or_app; left; exact Hg0|exact Hx]].
    + intros [g0 [Hg0 Hx]]. apply in_app_or in Hg0 as [Hg0|[<-|[]]]; [right; exists g0; split; assumption|left; exact Hx].
  - unfold acc_step. destruct (rle_fc_c ct e vl g code (a_fc a) (a_c a)) as [fc c] eqn:Er. cbn [a_fc a_c].
    unfold rle_fc_c in Er. rewrite !map_app. cbn [map].
    destruct (negb (Z.eqb code cUC) || (is_false (a_fc a) && is_false (a_c a))).
    + injection Er as <- <-. split; exact I.
    + injection Er as <- <-. split.
      * apply expand_or_falsify_inv; [apply run_length_encode_pos|exact Hfc].
      * apply expand_or_falsify_inv; [apply run_length_encode_pos|exact Hcc].
Qed.

(* ------------------------------------------------------------------ refine_one covers its groups *)
Lemma In_forallb {T} (p : T -> bool) l x : forallb p l = true -> In x l -> p x = true.
Proof. intros H Hx. rewrite forallb_forall in H. apply H. exact Hx. Qed.

Lemma tri_nonempty_some t l : tri_nonempty t = Some l -> t = TSome l.
Proof. destruct t as [| |[|x v]]; cbn; intro H; try discriminate. injection H as <-. reflexivity. Qed.

Lemma refine_rest_covers ct mp e n v a G :
  table_ok ct -> acc_inv ct e G a -> (forall g, In g G -> pos_ok ct e v g) ->
  forall g, In g G -> matches_frags ct false e (fst (refine_rest ct mp e n v a)) g.
Proof.
  intros Htab (Hs & Hc & Hfc & Hcc) Hok g Hg.
  assert (Hchars : forall x, In x g -> In x (a_chars a)) by (intros x Hx; apply Hc; exists g; split; assumption).
  destruct (Hok g Hg) as [Hcls Hcnt].
  assert (Hplain : forall code, (forall x, In x g -> cat_sem ct false e code x = true) ->
            matches_frags ct false e [{| f_atom := AClass code; f_min := vf_min v; f_max := vf_max v |}] g).
  { intros code Hcode. apply matches_frags_single. unfold frag_matches. cbn [f_atom f_min f_max atom_pred].
    split; [apply forallb_forall; exact Hcode|exact Hcnt]. }
  assert (Hplain_c : matches_frags ct false e [{| f_atom := AClass (vf_code v); f_min := vf_min v; f_max := vf_max v |}] g).
  { apply Hplain. intros x Hx. eapply In_forallb; eassumption. }
  unfold refine_rest.
  set (general := match List.find _ (general_order e) with Some code => _ | None => _ end).
  assert (Hgeneral : matches_frags ct false e (fst general) g).
  { subst general. destruct (List.find _ (general_order e)) as [code|] eqn:Ef; cbn [fst]; [|exact Hplain_c].
    apply List.find_some in Ef as [_ Ef]. apply Hplain. intros x Hx. eapply In_forallb; [exact Ef|apply Hchars; exact Hx]. }
  assert (Hsingle : forall ch, a_chars a = [ch] ->
            matches_frags ct false e [{| f_atom := ALit [ch]; f_min := vf_min v; f_max := vf_max v |}] g).
  { intros ch Ech. apply matches_frags_single. unfold frag_matches. cbn [f_atom f_min f_max atom_pred].
    split; [|exact Hcnt]. apply forallb_forall. intros x Hx. specialize (Hchars x Hx). rewrite Ech in Hchars.
    destruct Hchars as [<-|[]]. apply Z.eqb_refl. }
  assert (Hmain : matches_frags ct false e
            (fst (if Z.eqb (vf_code v) cUC
                  then match tri_nonempty (a_c a) with
                       | Some rlec => (map (plusify true) rlec, n)
                       | None => match tri_nonempty (a_fc a) with
                                 | Some rlefc => if Z.leb (n + Z.of_nat (length rlefc) - 1) max_groups
                                                 then (map (plusify false) rlefc, n + Z.of_nat (length rlefc) - 1)
                                                 else general
                                 | None => general
                                 end
                       end
                  else if Z.eqb (vf_code v) cP && Z.leb (Z.of_nat (length (a_chars a))) mp
                       then ([{| f_atom := ABracket (a_chars a); f_min := vf_min v; f_max := vf_max v |}], n)
                       else ([{| f_atom := AClass (vf_code v); f_min := vf_min v; f_max := vf_max v |}], n))) g).
  { destruct (Z.eqb_spec (vf_code v) cUC) as [Ecode|Ecode].
    - destruct (tri_nonempty (a_c a)) as [rlec|] eqn:Erc.
      + cbn [fst]. apply tri_nonempty_some in Erc. rewrite Erc in Hcc. destruct Hcc as [_ Hfit].
        apply (fits_matches ct false e true (fun x => x)).
        * rewrite map_id_local. apply Hfit. apply in_map_iff. exists g. split; [reflexivity|exact Hg].
        * intros x key _ <-. cbn [atom_pred]. unfold raw_sem. rewrite Z.eqb_refl. apply orb_true_r.
      + destruct (tri_nonempty (a_fc a)) as [rlefc|] eqn:Erf; [|exact Hgeneral].
        destruct (Z.leb _ max_groups); [|exact Hgeneral]. cbn [fst].
        apply tri_nonempty_some in Erf. rewrite Erf in Hfc. destruct Hfc as [_ Hfit].
        apply (fits_matches ct false e false (fine_class ct e)).
        * apply Hfit. apply in_map_iff. exists g. split; [reflexivity|exact Hg].
        * intros x key Hx <-. cbn [atom_pred]. apply fine_class_sound; [exact Htab|].
          rewrite <- Ecode. eapply In_forallb; eassumption.
    - destruct (Z.eqb (vf_code v) cP && _); cbn [fst]; [|exact Hplain_c].
      apply matches_frags_single. unfold frag_matches. cbn [f_atom f_min f_max atom_pred].
      split; [|exact Hcnt]. apply forallb_forall. intros x Hx. apply memc_In. apply Hchars. exact Hx. }
  destruct (a_chars a) as [|ch1 [|ch2 chs]] eqn:Ech; [exact Hmain|cbn [fst]; apply Hsingle; reflexivity|exact Hmain].
Qed.

(* every group string seen at a position is matched by the fragments refined for that position *)
Theorem refine_one_covers ct mp e n v a G :
  table_ok ct -> acc_inv ct e G a -> (forall g, In g G -> pos_ok ct e v g) ->
  forall g, In g G -> matches_frags ct false e (fst (refine_one ct mp e n v a)) g.
Proof.
  intros Htab Hinv Hok g Hg. unfold refine_one.
  destruct (a_strings a) as [|s0 [|s1 ss]] eqn:Es; try (eapply refine_rest_covers; eassumption).
  cbn [fst]. apply matches_frags_single.
  destruct Hinv as (Hs & _).
  assert (g = s0).
  { eapply (strings_single G (a_strings a, a_n a)); [exact Hs|cbn [fst]; exact Es|exact Hg]. }
  subst g. unfold frag_matches. cbn [f_atom f_min f_max].
  destruct s0 as [|c0 [|c1 s']]; cbn [atom_pred].
  - repeat split; reflexivity.
  - split; [cbn [forallb]; rewrite Z.eqb_refl; reflexivity|cbn [count_ok length]; lia].
  - repeat split; reflexivity.
Qed.

(* ------------------------------------------------------------------ all positions, all examples *)
Definition column (i : nat) (groups : list (list str)) : list str := map (fun gs => nth i gs []) groups.

Lemma column_app i g1 g2 : column i (g1 ++ g2) = column i g1 ++ column i g2.
Proof. unfold column. apply map_app. Qed.

Lemma zip_with_length {A B C} (f : A -> B -> C) l1 l2 : length (zip_with f l1 l2) = Nat.min (length l1) (length l2).
Proof. revert l2; induction l1 as [|a l1 IH]; intros [|b l2]; cbn [zip_with length Nat.min]; try reflexivity. rewrite IH. reflexivity. Qed.

Lemma zip_with_nth {A B C} (f : A -> B -> C) l1 l2 i da db dc :
  (i < length l1)%nat -> (i < length l2)%nat -> nth i (zip_with f l1 l2) dc = f (nth i l1 da) (nth i l2 db).
Proof.
  revert l2 i; induction l1 as [|a l1 IH]; intros [|b l2] i H1 H2; cbn [length] in *; try lia.
  destruct i as [|i]; cbn [zip_with nth]; [reflexivity|]. apply IH; lia.
Qed.

Lemma nth_map_const {A B} (d : B) (l : list A) i : nth i (map (fun _ => d) l) d = d.
Proof. revert i; induction l as [|a l IH]; intros [|i]; cbn [map nth]; try reflexivity. apply IH. Qed.

Section Fold.
  Variables (ct : chartab) (e : str) (vl : bool) (cap : Z) (vrle : list vfrag).
  Hypothesis Hcap : 1 <= cap.

  Definition fold_step (accs : list acc) (gs : list str) : list acc :=
    zip_with (fun va g => acc_step ct e vl cap (vf_code (fst va)) (snd va) g) (combine vrle accs) gs.

  Definition accs_ok (groups : list (list str)) (accs : list acc) : Prop :=
    length accs = length vrle /\
    forall i, (i < length vrle)%nat -> acc_inv ct e (column i groups) (nth i accs acc0).

  Lemma fold_step_ok groups accs gs : accs_ok groups accs -> length gs = length vrle ->
    accs_ok (groups ++ [gs]) (fold_step accs gs).
  Proof.
    intros [Hlen Hinv] Hgs. unfold accs_ok, fold_step. split.
    - rewrite zip_with_length, combine_length. lia.
    - intros i Hi. rewrite column_app. cbn [column map].
      pose proof (zip_with_nth (fun (va : vfrag * acc) (g : str) => acc_step ct e vl cap (vf_code (fst va)) (snd va) g)
                               (combine vrle accs) gs i ((0, 0, None), acc0) [] acc0) as Hz.
      rewrite Hz by (rewrite ?combine_length; lia). clear Hz.
      rewrite combine_nth by (symmetry; exact Hlen). cbn [fst snd]. apply acc_step_inv; [exact Hcap|apply Hinv; exact Hi].
  Qed.

  Lemma fold_ok groups : (forall gs, In gs groups -> length gs = length vrle) ->
    accs_ok groups (fold_left fold_step groups (map (fun _ => acc0) vrle)).
  Proof.
    induction groups as [|gs groups IH] using rev_ind; intro Hlen.
    - cbn [fold_left]. split; [apply map_length|]. intros i Hi. cbn [column map].
      rewrite nth_map_const. apply acc0_inv.
    - rewrite fold_left_app. cbn [fold_left]. apply fold_step_ok.
      + apply IH. intros g Hg. apply Hlen. apply in_or_app. left. exact Hg.
      + apply Hlen. apply in_or_app. right. left. reflexivity.
  Qed.
End Fold.

Lemma refine_all_covers ct mp e : forall vs accs n gs,
  length accs = length vs -> length gs = length vs ->
  (forall i m, (i < length vs)%nat ->
     matches_frags ct false e (fst (refine_one ct mp e m (nth i vs (0, 0, None)) (nth i accs acc0))) (nth i gs [])) ->
  matches_frags ct false e (refine_all ct mp e n vs accs) (List.concat gs).
Proof.
  induction vs as [|v vs IH]; intros accs n gs Ha Hg Hall.
  - destruct gs; [|discriminate]. destruct accs; [|discriminate]. constructor.
  - destruct accs as [|a accs]; [discriminate|]. destruct gs as [|g gs]; [discriminate|].
    cbn [refine_all List.concat]. destruct (refine_one ct mp e n v a) as [fs n'] eqn:Er.
    apply matches_frags_app.
    + specialize (Hall O n ltac:(cbn; lia)). cbn [nth] in Hall. rewrite Er in Hall. exact Hall.
    + apply IH; [cbn in Ha; lia|cbn in Hg; lia|]. intros i m Hi. apply (Hall (S i) m). cbn [length]. lia.
Qed.

(* Forall2 over positions as an index statement *)
Lemma Forall2_nth {A B} (R : A -> B -> Prop) l1 l2 da db i :
  Forall2 R l1 l2 -> (i < length l1)%nat -> R (nth i l1 da) (nth i l2 db).
Proof.
  intro H. revert i. induction H as [|a b l1 l2 Hab _ IH]; intros i Hi; cbn [length] in Hi; [lia|].
  destruct i; cbn [nth]; [exact Hab|apply IH; lia].
Qed.

Lemma Forall2_length_local {A B} (R : A -> B -> Prop) l1 l2 : Forall2 R l1 l2 -> length l1 = length l2.
Proof. induction 1; cbn; congruence. Qed.

(* The refinement of a VRLE covers every example it was built from: if each example's group strings
   (whatever split the regular-expression engine chose) satisfy the coarse fragment they were matched
   by, then the concatenation of the groups is matched by the refined fragments. *)
Theorem refine_covers ct mp e vl cap vrle (groups : list (list str)) :
  table_ok ct -> 1 <= cap ->
  (forall gs, In gs groups -> Forall2 (pos_ok ct e) vrle gs) ->
  let accs := fold_left (fold_step ct e vl cap vrle) groups (map (fun _ => acc0) vrle) in
  forall gs, In gs groups ->
    matches_frags ct false e (refine_all ct mp e (Z.of_nat (length vrle)) vrle accs) (List.concat gs).
Proof.
  intros Htab Hcap Hok accs gs Hgs.
  assert (Hlens : forall gs0, In gs0 groups -> length gs0 = length vrle).
  { intros gs0 H0. symmetry. eapply Forall2_length_local. apply Hok. exact H0. }
  destruct (fold_ok ct e vl cap vrle Hcap groups Hlens) as [Hlen Hinv]. fold accs in Hlen, Hinv.
  apply refine_all_covers; [exact Hlen|apply Hlens; exact Hgs|].
  intros i m Hi. eapply refine_one_covers; [exact Htab|apply Hinv; exact Hi| |].
  - intros g Hg. unfold column in Hg. apply in_map_iff in Hg as [gs0 [<- Hgs0]].
    apply (Forall2_nth (pos_ok ct e) vrle gs0 (0, 0, None) [] i (Hok gs0 Hgs0) Hi).
  - unfold column. apply in_map_iff. exists gs. split; [reflexivity|exact Hgs].
Qed.
