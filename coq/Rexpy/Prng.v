(* C14: how the Extractor uses Python's global random generator.  The generator is abstract:
   a state type G, seeding (seed_state), and one transition per random.sample call (advance).
   PRNGState(n): saved := getstate(); seed(n)  (only when n is not None);  restore(): setstate(saved).
   Extractor.__init__ and Extractor.extract() each run  PRNGState(seed); try: body finally: restore(). *)
From Coq Require Import ZArith List Bool Lia.
Import ListNotations.

Section Prng.
  Variable G : Type.
  Variable seed_state : Z -> G.
  Variable advance : G -> G.

  Inductive event := EGet | ESeed (n : Z) | ESample | ESet.

  (* one guarded phase drawing k samples; returns the final global state, the states at which the
     samples were drawn, and the trace of calls on the random module *)
  Fixpoint draw (k : nat) (g : G) : G * list G :=
    match k with
    | O => (g, [])
    | S k' => let '(g', seen) := draw k' (advance g) in (g', g :: seen)
    end.

  Definition phase (seed : option Z) (k : nat) (g : G) : G * list G * list event :=
    match seed with
    | Some n =>
      let saved := g in
      let '(_, seen) := draw k (seed_state n) in
      (saved, seen, [EGet; ESeed n] ++ repeat ESample k ++ [ESet])
    | None =>
      let '(g', seen) := draw k g in (g', seen, repeat ESample k)
    end.

  (* Extractor(...): the initial sample (k1 draws) then extract() (k2 draws) *)
  Definition extractor_run (seed : option Z) (k1 k2 : nat) (g : G) : G * list G * list event :=
    let '(g1, seen1, t1) := phase seed k1 g in
    let '(g2, seen2, t2) := phase seed k2 g1 in
    (g2, seen1 ++ seen2, t1 ++ t2).

  Lemma draw_seen_indep k : forall g, snd (draw k g) = snd (draw k g).
  Proof. reflexivity. Qed.

  (* with a seed the global generator ends in the state it started in, whatever is drawn *)
  Theorem global_state_restored_proof n k1 k2 g : fst (fst (extractor_run (Some n) k1 k2 g)) = g.
  Proof.
    unfold extractor_run, phase.
    destruct (draw k1 (seed_state n)) as [g1 s1]. destruct (draw k2 (seed_state n)) as [g2 s2]. reflexivity.
  Qed.

  (* with a seed the generator states the samples are drawn from do not depend on the initial
     global state: the run is reproducible *)
  Theorem seeded_reproducible_proof n k1 k2 g g' :
    snd (fst (extractor_run (Some n) k1 k2 g)) = snd (fst (extractor_run (Some n) k1 k2 g')).
  Proof.
    unfold extractor_run, phase.
    destruct (draw k1 (seed_state n)) as [g1 s1]. destruct (draw k2 (seed_state n)) as [g2 s2]. reflexivity.
  Qed.

  (* without a seed nothing is saved or restored: the generator simply advances once per sample *)
  Lemma draw_fst k : forall g, fst (draw k g) = Nat.iter k advance g.
  Proof.
    induction k as [|k IH]; intro g; [reflexivity|]. cbn [draw].
    destruct (draw k (advance g)) as [g' s] eqn:E. cbn [fst].
    specialize (IH (advance g)). rewrite E in IH. cbn [fst] in IH. rewrite IH.
    clear. induction k as [|k IH]; [reflexivity|].
    change (Nat.iter (S k) advance (advance g)) with (advance (Nat.iter k advance (advance g))).
    rewrite IH. reflexivity.
  Qed.

  Theorem unseeded_advances_proof k1 k2 g :
    fst (fst (extractor_run None k1 k2 g)) = Nat.iter (k1 + k2) advance g.
  Proof.
    unfold extractor_run, phase.
    pose proof (draw_fst k1 g) as H1. destruct (draw k1 g) as [g1 s1]. cbn [fst] in H1.
    pose proof (draw_fst k2 g1) as H2. destruct (draw k2 g1) as [g2 s2]. cbn [fst] in *.
    rewrite H2, H1. rewrite Nat.add_comm. clear.
    induction k2 as [|k2 IH]; [reflexivity|].
    change (advance (Nat.iter k2 advance (Nat.iter k1 advance g)) = advance (Nat.iter (k2 + k1) advance g)).
    rewrite IH. reflexivity.
  Qed.

  Definition trace_of (seed : option Z) (k1 k2 : nat) (g : G) : list event := snd (extractor_run seed k1 k2 g).
End Prng.

(* wire: events as numbers: 0 getstate, 1 seed, 2 sample, 3 setstate; the generator is irrelevant
   for the trace, so instantiate it with unit *)
From Tdda Require Import Base.Sexp.
Definition prng_entry (s : sexp) : sexp :=
  let seed := sx_opt sx_Z (sx_nth 0 s) in
  let t := trace_of unit (fun _ => tt) (fun g => g) seed (sx_nat (sx_nth 1 s)) (sx_nat (sx_nth 2 s)) tt in
  L (map (fun e => match e with
                   | EGet => A 0 | ESeed _ => A 1 | ESample => A 2 | ESet => A 3 end) t).
