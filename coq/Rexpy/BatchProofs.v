(* One batch extraction covers its own working examples (at the level of fragment semantics),
   relative to the group-split oracle. *)
From Coq Require Import ZArith List Bool Lia.
From Tdda Require Import Base.Sexp Base.Str Base.Sort Generated.Consts Rexpy.Chars Rexpy.Pipeline Rexpy.Sem
     Rexpy.PipelineProofs Rexpy.RefineProofs Rexpy.OracleCheck.
Import ListNotations.
Open Scope Z_scope.

(* ------------------------------------------------------------------ boolean form of the oracle hypotheses *)
Lemma count_okb_ok m M n : count_okb m M n = true <-> count_ok m M n.
Proof.
  unfold count_okb, count_ok. destruct M as [M'|].
  - rewrite andb_true_iff, !Z.leb_le. tauto.
  - rewrite orb_true_iff, Z.eqb_eq, Nat.leb_le. tauto.
Qed.

Lemma pos_okb_ok ct e v g : pos_okb ct e v g = true <-> pos_ok ct e v g.
Proof.
  unfold pos_okb. rewrite andb_true_iff, count_okb_ok. split.
  - intros [A B]. constructor; assumption.
  - intros [A B]. split; assumption.
Qed.

Lemma forall2b_Forall2 {A B} (f : A -> B -> bool) l1 l2 :
  forall2b f l1 l2 = true <-> Forall2 (fun a b => f a b = true) l1 l2.
Proof.
  revert l2; induction l1 as [|a l1 IH]; intros [|b l2]; cbn [forall2b]; split; intro H; try discriminate; try constructor; try (inversion H; fail).
  - apply andb_true_iff in H. tauto.
  - apply IH. apply andb_true_iff in H. tauto.
  - inversion H; subst. apply andb_true_iff. split; [assumption|apply IH; assumption].
Qed.

Lemma Forall2_impl_local {A B} (R1 R2 : A -> B -> Prop) l1 l2 :
  (forall a b, R1 a b -> R2 a b) -> Forall2 R1 l1 l2 -> Forall2 R2 l1 l2.
Proof. intros H F. induction F; constructor; auto. Qed.

Lemma split_okb_ok ct e vrle ex gs : split_okb ct e vrle ex gs = true ->
  List.concat gs = ex /\ Forall2 (pos_ok ct e) vrle gs.
Proof.
  unfold split_okb. rewrite andb_true_iff, str_eqb_eq, forall2b_Forall2. intros [A B]. split; [exact A|].
  eapply Forall2_impl_local; [|exact B]. intros a b H. apply pos_okb_ok. exact H.
Qed.

(* every split the oracle table offers for a (coarse regex, example of that VRLE) pair is acceptable *)
Definition oracle_ok (ct : chartab) (o : ropts) (e : str) (stripped : bool) (gt : groups_table)
           (strings : list str) (rles : list (list (Z * Z))) (vrles : list (list vfrag)) : Prop :=
  forall vrle regex ex gs, In vrle vrles ->
    vrle2re false (o_full_escape o) e stripped true (map frag_of_vfrag vrle) = Ok regex ->
    In ex (mine_of strings rles vrle) -> lookup_groups gt regex ex = Some gs ->
    split_okb ct e vrle ex gs = true.

(* ------------------------------------------------------------------ refine_vrle *)
Lemma mapM_ext_in {A B} (f : A -> res B) l ys : mapM f l = Ok ys ->
  forall x, In x l -> exists y, f x = Ok y /\ In y ys.
Proof.
  intro H. apply mapM_Forall2 in H. induction H as [|x y l ys Hxy _ IH]; intros x0 Hin; [destruct Hin|].
  destruct Hin as [<-|Hin]; [exists y; split; [exact Hxy|left; reflexivity]|].
  destruct (IH x0 Hin) as [y0 [Hy0 Hin0]]. exists y0. split; [exact Hy0|right; exact Hin0].
Qed.

Theorem refine_vrle_covers ct o e stripped gt strings rles vrles vrle frags :
  table_ok ct -> 1 <= z_max_strings_in_group o ->
  oracle_ok ct o e stripped gt strings rles vrles -> In vrle vrles ->
  refine_vrle ct o e stripped gt strings rles vrle = Ok frags ->
  forall ex, In ex (mine_of strings rles vrle) -> matches_frags ct false e frags ex.
Proof.
  intros Htab Hcap Horc Hin H ex Hex. unfold refine_vrle in H.
  destruct (vrle2re false (o_full_escape o) e stripped true (map frag_of_vfrag vrle)) as [regex|err] eqn:Ere; cbn [bind] in H; [|discriminate].
  fold (mine_of strings rles vrle) in H.
  destruct (mapM _ (mine_of strings rles vrle)) as [groups|err] eqn:Eg; cbn [bind] in H; [|discriminate].
  injection H as <-.
  (* every collected group list is an acceptable split of its example *)
  assert (Hsplit : forall ex0 gs, In ex0 (mine_of strings rles vrle) ->
            (match lookup_groups gt regex ex0 with
             | Some gs0 => if Nat.eqb (length gs0) (length vrle) then Ok gs0 else Err E_GROUP_COUNT
             | None => Err E_NO_GROUPS end) = Ok gs ->
            List.concat gs = ex0 /\ Forall2 (pos_ok ct e) vrle gs).
  { intros ex0 gs Hex0 Hl. destruct (lookup_groups gt regex ex0) as [gs0|] eqn:El; [|discriminate].
    destruct (Nat.eqb _ _); [|discriminate]. injection Hl as <-.
    apply split_okb_ok. eapply Horc; eassumption. }
  assert (Hall : forall gs, In gs groups -> Forall2 (pos_ok ct e) vrle gs).
  { intros gs Hgs. destruct (mapM_In _ _ _ _ Eg Hgs) as [ex0 [Hex0 Hl]]. apply (Hsplit ex0 gs Hex0 Hl). }
  destruct (mapM_ext_in _ _ _ Eg ex Hex) as [gs [Hl Hgs]].
  destruct (Hsplit ex gs Hex Hl) as [Hcat _]. rewrite <- Hcat.
  exact (refine_covers ct (z_max_punc_in_group o) e (o_vlf o) (z_max_strings_in_group o) vrle groups Htab Hcap Hall gs Hgs).
Qed.

(* ------------------------------------------------------------------ every example has its VRLE *)
Lemma rle_eqb_eq a b : rle_eqb a b = true <-> a = b.
Proof.
  revert b; induction a as [|[c n] a IH]; intros [|[d m] b]; cbn [rle_eqb]; split; intro H; try reflexivity; try discriminate.
  - apply andb_true_iff in H as [H1 H2]. apply andb_true_iff in H1 as [Hc Hn].
    apply Z.eqb_eq in Hc, Hn. apply IH in H2. congruence.
  - injection H as -> -> ->. rewrite !Z.eqb_refl. cbn [andb]. apply IH. reflexivity.
Qed.

Lemma dedup_by_In {T} (eqb : T -> T -> bool) (Heq : forall a b, eqb a b = true <-> a = b) l x :
  In x (dedup_by eqb l) <-> In x l.
Proof.
  induction l as [|y l IH]; [reflexivity|]. cbn [dedup_by]. split.
  - intros [<-|H]; [left; reflexivity|]. apply filter_In in H as [H _]. right. apply IH. exact H.
  - intros [<-|H]; [left; reflexivity|].
    destruct (eqb y x) eqn:E; [left; apply Heq; exact E|]. right. apply filter_In. split; [apply IH; exact H|rewrite E; reflexivity].
Qed.

Lemma vrle_of_sig_codes rles sig : map vf_code (vrle_of_sig rles sig) = sig.
Proof.
  unfold vrle_of_sig. rewrite map_map.
  assert (H : forall i, vf_code ((fun i0 => let counts := map (fun r => snd (nth i0 r (0, 0))) (filter (fun r => str_eqb (signature r) sig) rles) in
                          let m := list_min counts in let M := list_max counts in let cat := nth i0 sig 0 in
                          if Z.leb (M - m) max_vrle_range then (cat, m, Some M) else (cat, 1, None)) i) = nth i sig 0).
  { intro i. cbv zeta. destruct (Z.leb _ _); reflexivity. }
  rewrite (map_ext _ _ H). clear H.
  induction sig as [|c sig IH]; [reflexivity|]. cbn [length seq map nth]. f_equal.
  rewrite <- seq_shift, map_map. exact IH.
Qed.

Lemma in_combine_map {A B} (f : A -> B) l x : In x l -> In (x, f x) (combine l (map f l)).
Proof.
  induction l as [|y l IH]; intro H; [destruct H|]. cbn [map combine].
  destruct H as [<-|H]; [left; reflexivity|right; apply IH; exact H].
Qed.

Lemma example_has_vrle ct e strings s :
  In s strings ->
  let rles := map (rle_coarse ct e) strings in
  exists vrle, In vrle (to_vrles (dedup_by rle_eqb rles)) /\ In s (mine_of strings rles vrle).
Proof.
  intros Hs rles. set (r := rle_coarse ct e s). set (rles' := dedup_by rle_eqb rles).
  assert (Hr : In r rles') by (apply (dedup_by_In _ rle_eqb_eq); apply in_map; exact Hs).
  assert (Hsig : In (signature r) (sigs_of rles')).
  { unfold sigs_of. apply (dedup_by_In _ str_eqb_eq). apply in_map. exact Hr. }
  exists (vrle_of_sig rles' (signature r)). split.
  - unfold to_vrles. apply isort_In. apply in_map. exact Hsig.
  - unfold mine_of. apply in_map_iff. exists (s, r). split; [reflexivity|]. apply filter_In. split.
    + subst r rles. apply in_combine_map. exact Hs.
    + cbn [snd]. rewrite vrle_of_sig_codes. apply str_eqb_refl.
Qed.

(* C03, one batch: every working example is matched (at the level of fragment semantics) by one of the
   refined patterns the batch extraction returns *)
Theorem batch_covers ct o e stripped gt ex merged rex :
  batch_extract ct o e stripped gt ex = Ok (merged, rex) ->
  table_ok ct -> 1 <= z_max_strings_in_group o ->
  oracle_ok ct o e stripped gt (ex_strings ex) (map (rle_coarse ct e) (ex_strings ex))
            (to_vrles (dedup_by rle_eqb (map (rle_coarse ct e) (ex_strings ex)))) ->
  forall s, In s (ex_strings ex) -> exists fs, In fs merged /\ matches_frags ct false e fs s.
Proof.
  unfold batch_extract. intros H Htab Hcap Horc s Hs.
  set (strings := ex_strings ex) in *. set (rles := map (rle_coarse ct e) strings) in *.
  set (vrles := to_vrles (dedup_by rle_eqb rles)) in *.
  destruct (mapM (refine_vrle ct o e stripped gt strings rles) vrles) as [refined|err] eqn:Eref; cbn [bind] in H; [|discriminate].
  set (m := match refined with [_] => refined | _ => isort len_leb refined end) in *.
  destruct (mapM _ m) as [rx|err] eqn:Erx; cbn [bind] in H; [|discriminate]. injection H as <- _.
  destruct (example_has_vrle ct e strings s Hs) as [vrle [Hv Hmine]]. fold rles vrles in Hv, Hmine.
  destruct (mapM_ext_in _ _ _ Eref vrle Hv) as [frags [Hf Hin]].
  exists frags. split.
  - subst m. destruct refined as [|a [|b l]]; [exact Hin|exact Hin|apply isort_In; exact Hin].
  - eapply refine_vrle_covers; eassumption.
Qed.

(* ------------------------------------------------------------------ checking the oracle hypotheses on a run *)
Lemma batch_oracle_okb_ok ct o e stripped gt ex : batch_oracle_okb ct o e stripped gt ex = true ->
  oracle_ok ct o e stripped gt (ex_strings ex) (map (rle_coarse ct e) (ex_strings ex))
            (to_vrles (dedup_by rle_eqb (map (rle_coarse ct e) (ex_strings ex)))).
Proof.
  unfold batch_oracle_okb, oracle_ok. intros H vrle regex ex0 gs Hv Hre Hex Hl.
  rewrite forallb_forall in H. specialize (H vrle Hv). unfold vrle_oracle_okb in H. rewrite Hre in H.
  rewrite forallb_forall in H. specialize (H ex0 Hex). rewrite Hl in H. exact H.
Qed.

(* the same with the checkable hypothesis *)
Theorem batch_covers_checked ct o e stripped gt ex merged rex :
  batch_extract ct o e stripped gt ex = Ok (merged, rex) ->
  table_ok ct -> 1 <= z_max_strings_in_group o ->
  batch_oracle_okb ct o e stripped gt ex = true ->
  forall s, In s (ex_strings ex) -> exists fs, In fs merged /\ matches_frags ct false e fs s.
Proof.
  intros H Htab Hcap Hb. eapply batch_covers; try eassumption. apply batch_oracle_okb_ok. exact Hb.
Qed.

(* the interpreter's tables satisfy the one table fact used *)
Lemma py_table_ok : table_ok py_chartab.
Proof.
  intros c H. unfold is_09, between in H. apply andb_true_iff in H as [H1 H2]. apply Z.leb_le in H1, H2.
  assert (Hc : c = 48 \/ c = 49 \/ c = 50 \/ c = 51 \/ c = 52 \/ c = 53 \/ c = 54 \/ c = 55 \/ c = 56 \/ c = 57) by lia.
  destruct Hc as [->|[->|[->|[->|[->|[->|[->|[->|[->| ->]]]]]]]]]; vm_compute; reflexivity.
Qed.

(* ------------------------------------------------------------------ C13: every pattern matches one of the examples *)
Lemma isort_In_local {T} (leb : T -> T -> bool) l y : In y (isort leb l) <-> In y l.
Proof. apply isort_In. Qed.

Lemma mapM_In_back {A B} (f : A -> res B) l ys y : mapM f l = Ok ys -> In y ys -> exists x, In x l /\ f x = Ok y.
Proof. apply mapM_In. Qed.

(* every VRLE has at least one example: it was built from the RLE of one *)
Lemma vrle_has_example ct e strings vrle :
  let rles := map (rle_coarse ct e) strings in
  In vrle (to_vrles (dedup_by rle_eqb rles)) -> exists s, In s (mine_of strings rles vrle).
Proof.
  intros rles Hin. unfold to_vrles in Hin. apply isort_In in Hin.
  apply in_map_iff in Hin as [sig [Hv Hsig]]. subst vrle.
  unfold sigs_of in Hsig. apply (proj1 (dedup_by_In _ str_eqb_eq _ _)) in Hsig.
  apply in_map_iff in Hsig as [r [Hr0 Hr]]. subst sig.
  apply (proj1 (dedup_by_In _ rle_eqb_eq _ _)) in Hr. unfold rles in Hr. apply in_map_iff in Hr as [s [Hs0 Hs]]. subst r.
  exists s. unfold mine_of. apply in_map_iff. exists (s, rle_coarse ct e s). split; [reflexivity|].
  apply filter_In. split; [apply in_combine_map; exact Hs|]. cbn [snd]. rewrite vrle_of_sig_codes. apply str_eqb_refl.
Qed.

Lemma mine_of_sub strings rles vrle s : In s (mine_of strings rles vrle) -> length strings = length rles -> In s strings.
Proof.
  unfold mine_of. intros H _. apply in_map_iff in H as [[s0 r0] [<- H]]. apply filter_In in H as [H _].
  apply in_combine_l in H. exact H.
Qed.

(* each refined pattern of a batch extraction matches at least one of the working examples *)
Theorem batch_each_matches_some ct o e stripped gt ex merged rex :
  batch_extract ct o e stripped gt ex = Ok (merged, rex) ->
  table_ok ct -> 1 <= z_max_strings_in_group o ->
  batch_oracle_okb ct o e stripped gt ex = true ->
  forall fs, In fs merged -> exists s, In s (ex_strings ex) /\ matches_frags ct false e fs s.
Proof.
  unfold batch_extract. intros H Htab Hcap Hb fs Hfs.
  pose proof (batch_oracle_okb_ok _ _ _ _ _ _ Hb) as Horc.
  set (strings := ex_strings ex) in *. set (rles := map (rle_coarse ct e) strings) in *.
  set (vrles := to_vrles (dedup_by rle_eqb rles)) in *.
  destruct (mapM (refine_vrle ct o e stripped gt strings rles) vrles) as [refined|err] eqn:Eref; cbn [bind] in H; [|discriminate].
  set (m := match refined with [_] => refined | _ => isort len_leb refined end) in *.
  destruct (mapM _ m) as [rx|err] eqn:Erx; cbn [bind] in H; [|discriminate]. injection H as <- _.
  assert (Hin : In fs refined).
  { subst m. destruct refined as [|a [|b l]]; [exact Hfs|exact Hfs|apply isort_In in Hfs; exact Hfs]. }
  destruct (mapM_In _ _ _ _ Eref Hin) as [vrle [Hv Hr]].
  destruct (vrle_has_example ct e strings vrle Hv) as [s Hs]. fold rles in Hs.
  exists s. split.
  - eapply mine_of_sub; [exact Hs|]. unfold rles. rewrite map_length. reflexivity.
  - eapply refine_vrle_covers; eassumption.
Qed.
