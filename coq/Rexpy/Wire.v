(* S-expression wiring of the rexpy model for the extracted runner. *)
From Coq Require Import ZArith List Bool.
From Tdda Require Import Base.Sexp Base.Str Generated.Consts Rexpy.Chars Rexpy.Pipeline Rexpy.OracleCheck.
Import ListNotations.
Open Scope Z_scope.

Definition sx_optZ (s : sexp) : option Z := sx_opt sx_Z s.

(* (tag extra full_escape remove_empties strip vlf max_patterns min_strings dialect_out
    do_all do_all_exceptions max_sampled_attempts max_punc_in_group max_strings_in_group) *)
Definition sx_ropts (s : sexp) : ropts :=
  {| o_tag := sx_bool (sx_nth 0 s); o_extra := sx_str (sx_nth 1 s); o_full_escape := sx_bool (sx_nth 2 s);
     o_remove_empties := sx_bool (sx_nth 3 s); o_strip := sx_bool (sx_nth 4 s); o_vlf := sx_bool (sx_nth 5 s);
     o_max_patterns := sx_optZ (sx_nth 6 s); o_min_strings := sx_Z (sx_nth 7 s);
     o_dialect_out := sx_bool (sx_nth 8 s);
     z_do_all := sx_optZ (sx_nth 9 s); z_do_all_exceptions := sx_Z (sx_nth 10 s);
     z_max_sampled_attempts := sx_Z (sx_nth 11 s); z_max_punc_in_group := sx_Z (sx_nth 12 s);
     z_max_strings_in_group := sx_Z (sx_nth 13 s) |}.

Definition sx_item (s : sexp) : option str * Z := (sx_opt sx_str (sx_nth 0 s), sx_Z (sx_nth 1 s)).
Definition sx_grow (s : sexp) : str * str * list str := (sx_str (sx_nth 0 s), sx_str (sx_nth 1 s), sx_strs (sx_nth 2 s)).
Definition sx_mrow (s : sexp) : str * str * bool := (sx_str (sx_nth 0 s), sx_str (sx_nth 1 s), sx_bool (sx_nth 2 s)).

Definition of_res {T} (f : T -> sexp) (r : res T) : sexp :=
  match r with Ok a => L [A 0; f a] | Err e => L [A e] end.

Definition of_frag (f : frag) : sexp :=
  L [match f_atom f with
     | ALit s => L [A 0; of_str s] | ARaw c => L [A 1; A c] | AClass c => L [A 2; A c] | ABracket cs => L [A 3; of_str cs]
     end; A (f_min f); of_opt A (f_max f); of_bool (f_fixed f)].

(* (opts items groups matches samples) -> (0 (none rex strings freqs passes samples_left last_failures)) | (err) *)
Definition rexpy_entry (s : sexp) : sexp :=
  let o := sx_ropts (sx_nth 0 s) in
  let items := map sx_item (sx_list (sx_nth 1 s)) in
  let gt := map sx_grow (sx_list (sx_nth 2 s)) in
  let mt := map sx_mrow (sx_list (sx_nth 3 s)) in
  let samples := map (fun l => map sx_nat (sx_list l)) (sx_list (sx_nth 4 s)) in
  of_res (fun lo => L [of_bool (lo_none lo); of_strs (lo_rex lo); of_strs (ex_strings (lo_examples lo));
                       L (map A (ex_freqs (lo_examples lo))); A (lo_passes lo); of_nat (lo_samples_left lo);
                       of_strs (lo_last_failures lo)])
         (run_extractor py_chartab o gt mt samples items).

(* character-level sweeps: (extras out code chars) -> membership bits;  (extras chars) -> coarse codes *)
Definition catsem_entry (s : sexp) : sexp :=
  let e := sx_str (sx_nth 0 s) in
  L (map (fun c => of_bool (cat_sem py_chartab (sx_bool (sx_nth 1 s)) e (sx_Z (sx_nth 2 s)) c)) (sx_str (sx_nth 3 s))).
Definition coarse_entry (s : sexp) : sexp :=
  let e := sx_str (sx_nth 0 s) in
  L [of_str (map (coarse_char py_chartab e) (sx_str (sx_nth 1 s)));
     of_str (map (fine_class py_chartab e) (sx_str (sx_nth 1 s)))].
(* (extras) -> the regex text of every category, internal and output *)
Definition catre_entry (s : sexp) : sexp :=
  let e := sx_str s in
  let codes := [cA; ca; cL; cUL; cB; cb; cM; cUM; cD; ch; cH; cX; cN; cn; cC; cUC; cWS; cP; cO; cAny] in
  L (map (fun code => L [A code; of_opt of_str (cat_re false e code); of_opt of_str (cat_re true e code)]) codes).
(* (full inner s) -> (escape full s, escaped_bracket inner s) *)
Definition escape_entry (s : sexp) : sexp :=
  L [of_str (escape (sx_bool (sx_nth 0 s)) (sx_str (sx_nth 2 s)));
     of_str (escaped_bracket (sx_bool (sx_nth 1 s)) (sx_str (sx_nth 2 s)))].
(* batch level: (opts extras stripped groups strings freqs) -> refined patterns and expressions *)
Definition batch_entry (s : sexp) : sexp :=
  let o := sx_ropts (sx_nth 0 s) in
  of_res (fun mr => L [L (map (fun p => L (map of_frag p)) (fst mr)); of_strs (snd mr)])
         (batch_extract py_chartab o (sx_str (sx_nth 1 s)) (sx_bool (sx_nth 2 s))
                        (map sx_grow (sx_list (sx_nth 3 s)))
                        {| ex_strings := sx_strs (sx_nth 4 s); ex_freqs := map sx_Z (sx_list (sx_nth 5 s)) |}).

(* (opts extras stripped groups strings) -> does every recorded split of the working examples satisfy the
   hypotheses of the coverage theorem (groups concatenate to the example, each group meets its coarse fragment)? *)
Definition oracle_entry (s : sexp) : sexp :=
  let o := sx_ropts (sx_nth 0 s) in
  of_bool (batch_oracle_okb py_chartab o (sx_str (sx_nth 1 s)) (sx_bool (sx_nth 2 s))
                            (map sx_grow (sx_list (sx_nth 3 s)))
                            {| ex_strings := sx_strs (sx_nth 4 s); ex_freqs := [] |}).
