(* Semantics of refined patterns at the level of their structure (not their text): which strings a
   fragment list matches, reading each atom as the set of characters its regular expression denotes
   and each (min, max) pair as rexpy's quantifier rendering does. *)
From Coq Require Import ZArith List Bool Lia.
From Tdda Require Import Base.Sexp Base.Str Rexpy.Chars Rexpy.Pipeline.
Import ListNotations.
Open Scope Z_scope.

(* how many repetitions the rendered quantifier allows: M = None renders '*' when m = 0 and '+' otherwise;
   otherwise {m,M} (with the abbreviations for m = M, and '?') *)
Definition count_ok (m : Z) (M : option Z) (n : nat) : Prop :=
  match M with
  | None => m = 0 \/ (1 <= n)%nat
  | Some M' => m <= Z.of_nat n <= M'
  end.

(* an unescaped character of an alphanumeric group: a dot matches anything, the others are literal *)
Definition raw_sem (c x : Z) : bool := Z.eqb c 46 || Z.eqb x c.

Definition atom_pred (ct : chartab) (out : bool) (e : str) (a : atom) : option (Z -> bool) :=
  match a with
  | ALit [c] => Some (Z.eqb c)
  | ALit _ => None
  | ARaw c => Some (raw_sem c)
  | AClass code => Some (cat_sem ct out e code)
  | ABracket cs => Some (fun x => memc x cs)
  end.

Definition frag_matches (ct : chartab) (out : bool) (e : str) (f : frag) (s : str) : Prop :=
  match atom_pred ct out e (f_atom f) with
  | Some p => forallb p s = true /\ count_ok (f_min f) (f_max f) (length s)
  | None => match f_atom f with
            | ALit w => s = w /\ f_min f = 1 /\ f_max f = Some 1
            | _ => False
            end
  end.

Inductive matches_frags (ct : chartab) (out : bool) (e : str) : list frag -> str -> Prop :=
| mf_nil : matches_frags ct out e [] []
| mf_cons f fs s1 s2 : frag_matches ct out e f s1 -> matches_frags ct out e fs s2 ->
                       matches_frags ct out e (f :: fs) (s1 ++ s2).

Lemma matches_frags_app ct out e fs1 fs2 s1 s2 :
  matches_frags ct out e fs1 s1 -> matches_frags ct out e fs2 s2 -> matches_frags ct out e (fs1 ++ fs2) (s1 ++ s2).
Proof.
  induction 1 as [|f fs a b Hf _ IH]; intro H2; [exact H2|].
  rewrite <- app_assoc. cbn [app]. constructor; [exact Hf|apply IH; exact H2].
Qed.

Lemma matches_frags_single ct out e f s : frag_matches ct out e f s -> matches_frags ct out e [f] s.
Proof. intro H. rewrite <- (app_nil_r s). constructor; [exact H|constructor]. Qed.

(* ------------------------------------------------------------------ sets of characters *)
Lemma insert_char_In c l x : In x (insert_char c l) <-> c = x \/ In x l.
Proof.
  induction l as [|d l IH]; cbn [insert_char]; [simpl; tauto|].
  destruct (Z.ltb c d); [simpl; tauto|]. destruct (Z.eqb_spec c d) as [->|Hne]; [simpl; tauto|].
  simpl. rewrite IH. tauto.
Qed.

Lemma add_chars_In s : forall set x, In x (add_chars s set) <-> In x s \/ In x set.
Proof.
  unfold add_chars. induction s as [|c s IH]; intros set x; cbn [fold_left]; [simpl; tauto|].
  rewrite IH, insert_char_In. simpl. tauto.
Qed.

Lemma memc_In c s : memc c s = true <-> In c s.
Proof.
  unfold memc. rewrite existsb_exists. split.
  - intros [x [Hx He]]. apply Z.eqb_eq in He. subst. exact Hx.
  - intro H. exists c. split; [exact H|apply Z.eqb_refl].
Qed.
