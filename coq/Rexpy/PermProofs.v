(* C14: batch extraction does not depend on the order of the working examples.
   Part 1: the accumulators of analyse_fragments are order-independent. *)
From Coq Require Import ZArith List Bool Lia Permutation.
From Tdda Require Import Base.Sexp Base.Str Base.Sort Generated.Consts Rexpy.Chars Rexpy.Pipeline Rexpy.Sem Rexpy.RefineProofs.
Import ListNotations.
Open Scope Z_scope.

(* ------------------------------------------------------------------ folds with a commuting step *)
Lemma fold_left_comm_perm {A B} (f : A -> B -> A) :
  (forall a x y, f (f a x) y = f (f a y) x) ->
  forall l l', Permutation l l' -> forall a, fold_left f l a = fold_left f l' a.
Proof.
  intros Hc l l' Hp. induction Hp as [|x l l' _ IH|x y l|l l' l'' _ IH1 _ IH2]; intro a; cbn [fold_left].
  - reflexivity.
  - apply IH.
  - rewrite Hc. reflexivity.
  - rewrite IH1. apply IH2.
Qed.

(* a step that commutes only on states satisfying an invariant the step preserves *)
Lemma fold_left_comm_perm_inv {A B} (f : A -> B -> A) (I : A -> Prop) (P : B -> Prop) :
  (forall a x, I a -> P x -> I (f a x)) ->
  (forall a x y, I a -> P x -> P y -> f (f a x) y = f (f a y) x) ->
  forall l l', Permutation l l' -> Forall P l -> forall a, I a -> fold_left f l a = fold_left f l' a.
Proof.
  intros Hi Hc l l' Hp. induction Hp as [|x l l' Hp IH|x y l|l l' l'' Hp1 IH1 Hp2 IH2]; intros HP a Ha; cbn [fold_left].
  - reflexivity.
  - inversion HP; subst. apply IH; [assumption|apply Hi; assumption].
  - inversion HP as [|? ? Hy HP']; subst. inversion HP' as [|? ? Hx HP'']; subst. rewrite Hc by assumption. reflexivity.
  - rewrite IH1 by assumption. apply IH2; [|exact Ha].
    eapply Permutation_Forall; eassumption.
Qed.

(* ------------------------------------------------------------------ character sets *)
(* strictly increasing lists are determined by their elements *)
Fixpoint sorted_strict (l : str) : Prop :=
  match l with [] => True | x :: r => (forall y, In y r -> x < y) /\ sorted_strict r end.

Lemma insert_char_sorted c l : sorted_strict l -> sorted_strict (insert_char c l).
Proof.
  induction l as [|d l IH]; intro H; cbn [insert_char sorted_strict].
  - split; [intros y []|exact I].
  - destruct H as [Hd Hs]. destruct (Z.ltb_spec c d) as [Hlt|Hge].
    + cbn [sorted_strict]. split; [|split; assumption].
      intros y [<-|Hy]; [exact Hlt|]. specialize (Hd y Hy). lia.
    + destruct (Z.eqb_spec c d) as [->|Hne]; [split; assumption|].
      cbn [sorted_strict]. split; [|apply IH; exact Hs].
      intros y Hy. apply insert_char_In in Hy as [<-|Hy]; [lia|apply Hd; exact Hy].
Qed.

Lemma add_chars_sorted s : forall set, sorted_strict set -> sorted_strict (add_chars s set).
Proof.
  unfold add_chars. induction s as [|c s IH]; intros set H; cbn [fold_left]; [exact H|].
  apply IH. apply insert_char_sorted. exact H.
Qed.

Lemma sorted_strict_unique l : forall l', sorted_strict l -> sorted_strict l' ->
  (forall x, In x l <-> In x l') -> l = l'.
Proof.
  induction l as [|a l IH]; intros [|b l'] Hs Hs' Hin.
  - reflexivity.
  - exfalso. apply (proj2 (Hin b)). left; reflexivity.
  - exfalso. apply (proj1 (Hin a)). left; reflexivity.
  - destruct Hs as [Ha Hs]. destruct Hs' as [Hb Hs'].
    assert (a = b).
    { destruct (proj1 (Hin a) (or_introl eq_refl)) as [E|Ha']; [congruence|].
      destruct (proj2 (Hin b) (or_introl eq_refl)) as [E|Hb']; [congruence|].
      specialize (Ha b Hb'). specialize (Hb a Ha'). lia. }
    subst b. f_equal. apply IH; [exact Hs|exact Hs'|].
    intro x. split; intro Hx.
    + destruct (proj1 (Hin x) (or_intror Hx)) as [E|H']; [|exact H']. subst x. specialize (Ha a Hx). lia.
    + destruct (proj2 (Hin x) (or_intror Hx)) as [E|H']; [|exact H']. subst x. specialize (Hb a Hx). lia.
Qed.

(* ------------------------------------------------------------------ expand_or_falsify as a structural merge *)
Definition hull1 (r : Z * Z) (v : Z * Z * Z) : option (Z * Z * Z) :=
  let '(c, m, M) := v in
  if Z.eqb (fst r) c then Some (c, Z.min m (snd r), Z.max M (snd r)) else None.

Lemma widen_hull r v : vmin v <= vmax v -> widen r v = hull1 r v.
Proof.
  destruct v as [[c m] M]. unfold widen, hull1, vmin, vmax. cbn [fst snd]. intro H.
  destruct (Z.eqb (fst r) c); [|reflexivity]. f_equal.
  destruct (Z.leb_spec m (snd r)); destruct (Z.leb_spec (snd r) M); cbn [andb].
  - rewrite Z.min_l, Z.max_l by lia. reflexivity.
  - destruct (Z.ltb_spec (snd r) m); [lia|]. rewrite Z.min_l, Z.max_r by lia. reflexivity.
  - destruct (Z.ltb_spec (snd r) m); [|lia]. rewrite Z.min_r, Z.max_l by lia. reflexivity.
  - lia.
Qed.

Definition zero_min (x : Z * Z * Z) : Z * Z * Z := let '(c, _, M) := x in (c, 0, M).
Definition ext_run (x : Z * Z) : Z * Z * Z := (fst x, 0, snd x).

Fixpoint merge (vl : bool) (r : list (Z * Z)) (v : list (Z * Z * Z)) : option (list (Z * Z * Z)) :=
  match r, v with
  | [], [] => Some []
  | [], _ :: _ => if vl then Some (map zero_min v) else None
  | _ :: _, [] => if vl then Some (map ext_run r) else None
  | x :: r', y :: v' => match hull1 x y, merge vl r' v' with
                        | Some z, Some o => Some (z :: o)
                        | _, _ => None
                        end
  end.

Definition tri_of (o : option (list (Z * Z * Z))) : tri := match o with Some v => TSome v | None => TFalse end.

Lemma widen_all_hull : forall r v, ranges_ok v -> length r = length v -> widen_all r v = merge false r v /\ widen_all r v = merge true r v.
Proof.
  induction r as [|x r IH]; intros [|y v] Hok Hlen; try discriminate; cbn [widen_all merge]; [split; reflexivity|].
  inversion Hok as [|? ? Hy Hv]; subst. rewrite (widen_hull x y) by lia.
  destruct (IH v Hv ltac:(cbn in Hlen; lia)) as [IH1 IH2]. rewrite <- IH1, <- IH2.
  destruct (hull1 x y); [|split; reflexivity]. destruct (widen_all r v); split; reflexivity.
Qed.

Lemma merge_false_neq : forall r v, length r <> length v -> merge false r v = None.
Proof.
  induction r as [|x r IH]; intros [|y v] H; cbn [merge length] in *; try reflexivity; try lia.
  rewrite IH by lia. destruct (hull1 x y); reflexivity.
Qed.

Lemma merge_true_neq : forall r v, ranges_ok v -> length r <> length v ->
  let lc := Nat.min (length r) (length v) in
  merge true r v =
  match widen_all (firstn lc r) (firstn lc v) with
  | None => None
  | Some out => Some (out ++ (if Nat.eqb (length v) lc then map ext_run (skipn lc r) else map zero_min (skipn lc v)))
  end.
Proof.
  induction r as [|x r IH]; intros [|y v] Hok H; cbn [merge length Nat.min firstn skipn widen_all Nat.eqb app] in *; try lia; try reflexivity.
  inversion Hok as [|? ? Hy Hv]; subst. rewrite (widen_hull x y) by lia.
  destruct (hull1 x y) as [z|]; [|reflexivity].
  rewrite (IH v Hv ltac:(lia)). cbv zeta.
  destruct (widen_all _ _) as [out|]; reflexivity.
Qed.

(* expand_or_falsify on an existing VRLE is merge *)
Lemma expand_merge r v vl : ranges_ok v -> expand_or_falsify r (TSome v) vl = tri_of (merge vl r v).
Proof.
  intro Hok. cbn [expand_or_falsify]. destruct (Nat.eqb_spec (length r) (length v)) as [E|E].
  - destruct (widen_all_hull r v Hok E) as [H1 H2]. destruct vl; [rewrite <- H2|rewrite <- H1]; destruct (widen_all r v); reflexivity.
  - destruct vl; cbn [negb].
    + rewrite (merge_true_neq r v Hok E). cbv zeta.
      destruct (widen_all _ _) as [out|]; [|reflexivity].
      destruct (Nat.eqb (length v) (Nat.min (length r) (length v))); reflexivity.
    + rewrite merge_false_neq by exact E. reflexivity.
Qed.

(* ------------------------------------------------------------------ merging commutes *)
Definition obind {A B} (o : option A) (f : A -> option B) : option B := match o with Some a => f a | None => None end.

Lemma hull1_comm x1 x2 y : obind (hull1 x1 y) (hull1 x2) = obind (hull1 x2 y) (hull1 x1).
Proof.
  destruct y as [[c m] M]. destruct x1 as [c1 n1], x2 as [c2 n2]. unfold hull1, obind. cbn [fst snd].
  destruct (Z.eqb c1 c) eqn:E1; destruct (Z.eqb c2 c) eqn:E2; rewrite ?E1, ?E2; try reflexivity.
  f_equal. f_equal; [f_equal|]; lia.
Qed.

Lemma zero_ext x : zero_min (ext_run x) = ext_run x.
Proof. destruct x; reflexivity. Qed.

Lemma map_zero_ext r : map zero_min (map ext_run r) = map ext_run r.
Proof. rewrite map_map. apply map_ext. apply zero_ext. Qed.

Lemma zero_zero x : zero_min (zero_min x) = zero_min x.
Proof. destruct x as [[c m] M]; reflexivity. Qed.

Lemma hull1_zero x y : 0 <= snd x -> hull1 x (zero_min y) = option_map zero_min (hull1 x y).
Proof.
  destruct y as [[c m] M]. unfold hull1, zero_min. intro H. destruct (Z.eqb (fst x) c); [|reflexivity].
  cbn [option_map]. f_equal. f_equal. f_equal. lia.
Qed.

Definition nn_rle (r : list (Z * Z)) : Prop := Forall (fun x => 0 <= snd x) r.

Lemma merge_zero r : forall v, nn_rle r ->
  merge true r (map zero_min v) = option_map (map zero_min) (merge true r v).
Proof.
  induction r as [|x r IH]; intros [|y v] Hr; cbn [merge map option_map].
  - reflexivity.
  - reflexivity.
  - rewrite map_zero_ext. reflexivity.
  - inversion Hr; subst. rewrite hull1_zero by assumption. rewrite IH by assumption.
    destruct (hull1 x y); cbn [option_map]; [|reflexivity]. destruct (merge true r v); reflexivity.
Qed.

Lemma hull1_ext x1 x2 : 0 <= snd x1 -> 0 <= snd x2 -> hull1 x1 (ext_run x2) = hull1 x2 (ext_run x1).
Proof.
  destruct x1 as [c1 n1], x2 as [c2 n2]. unfold hull1, ext_run. cbn [fst snd]. intros H1 H2.
  destruct (Z.eqb_spec c1 c2) as [->|Hne]; [rewrite Z.eqb_refl; f_equal; f_equal; [f_equal|]; lia|].
  destruct (Z.eqb_spec c2 c1); [congruence|reflexivity].
Qed.

Lemma merge_ext_sym r1 : forall r2, nn_rle r1 -> nn_rle r2 ->
  merge true r1 (map ext_run r2) = merge true r2 (map ext_run r1).
Proof.
  induction r1 as [|x1 r1 IH]; intros [|x2 r2] H1 H2; cbn [merge map].
  - reflexivity.
  - rewrite map_zero_ext. reflexivity.
  - rewrite map_zero_ext. reflexivity.
  - inversion H1; subst. inversion H2; subst. rewrite (hull1_ext x1 x2) by assumption. rewrite IH by assumption. reflexivity.
Qed.

Lemma merge_cons_nonempty vl x r y v o : merge vl (x :: r) (y :: v) = Some o -> o <> [].
Proof. cbn [merge]. destruct (hull1 x y); [|discriminate]. destruct (merge vl r v); [|discriminate]. intro H. injection H as <-. discriminate. Qed.

Lemma merge_nil_cons vl R V : R <> [] -> V <> [] -> nn_rle R ->
  obind (merge vl [] V) (merge vl R) = obind (merge vl R V) (merge vl []).
Proof.
  intros HR HV Hnn. destruct R as [|x R]; [congruence|]. destruct V as [|y V]; [congruence|].
  remember (x :: R) as R0. remember (y :: V) as V0.
  destruct vl.
  - assert (E : merge true [] V0 = Some (map zero_min V0)) by (subst V0; reflexivity). rewrite E. cbn [obind].
    rewrite merge_zero by assumption. destruct (merge true R0 V0) as [o|] eqn:Eo; cbn [option_map obind]; [|reflexivity].
    subst R0 V0. apply merge_cons_nonempty in Eo. destruct o as [|z o]; [congruence|reflexivity].
  - assert (E : merge false [] V0 = None) by (subst V0; reflexivity). rewrite E. cbn [obind].
    destruct (merge false R0 V0) as [o|] eqn:Eo; cbn [obind]; [|reflexivity].
    subst R0 V0. apply merge_cons_nonempty in Eo. destruct o as [|z o]; [congruence|reflexivity].
Qed.

Lemma merge_nil_nil vl R : obind (merge vl [] []) (merge vl R) = obind (merge vl R []) (merge vl []).
Proof.
  destruct R as [|x R]; [reflexivity|]. remember (x :: R) as R0. destruct vl.
  - assert (E1 : merge true R0 [] = Some (map ext_run R0)) by (subst; reflexivity).
    assert (E2 : merge true [] (map ext_run R0) = Some (map zero_min (map ext_run R0))) by (subst; reflexivity).
    assert (E0 : merge true [] [] = Some []) by reflexivity.
    rewrite E0, E1. unfold obind. rewrite E1, E2, map_zero_ext. reflexivity.
  - subst. reflexivity.
Qed.

Theorem merge_comm vl : forall r1 r2 v, nn_rle r1 -> nn_rle r2 ->
  obind (merge vl r1 v) (merge vl r2) = obind (merge vl r2 v) (merge vl r1).
Proof.
  induction r1 as [|x1 r1 IH]; intros r2 v H1 H2.
  - destruct r2 as [|x2 r2]; [reflexivity|]. destruct v as [|y v].
    + apply merge_nil_nil.
    + apply merge_nil_cons; [discriminate|discriminate|exact H2].
  - destruct r2 as [|x2 r2].
    + destruct v as [|y v].
      * symmetry. apply merge_nil_nil.
      * symmetry. apply merge_nil_cons; [discriminate|discriminate|exact H1].
    + inversion H1 as [|? ? Hx1 Hr1]; subst. inversion H2 as [|? ? Hx2 Hr2]; subst.
      destruct v as [|y v].
      * cbn [merge]. destruct vl; cbn [obind]; [|reflexivity].
        apply (merge_ext_sym (x2 :: r2) (x1 :: r1) H2 H1).
      * specialize (IH r2 v Hr1 Hr2). pose proof (hull1_comm x1 x2 y) as Hh.
        cbn [merge].
        destruct (hull1 x1 y) as [z1|] eqn:E1; destruct (hull1 x2 y) as [z2|] eqn:E2; cbn [obind] in Hh |- *.
        -- destruct (merge vl r1 v) as [o1|] eqn:M1; destruct (merge vl r2 v) as [o2|] eqn:M2; cbn [obind merge] in IH |- *.
           ++ rewrite Hh, IH. reflexivity.
           ++ rewrite IH. destruct (hull1 x2 z1); reflexivity.
           ++ rewrite <- IH. destruct (hull1 x1 z2); reflexivity.
           ++ reflexivity.
        -- destruct (merge vl r1 v) as [o1|]; cbn [obind merge]; [|reflexivity]. rewrite Hh. reflexivity.
        -- destruct (merge vl r2 v) as [o2|]; cbn [obind merge]; [|reflexivity]. rewrite <- Hh. reflexivity.
        -- reflexivity.
Qed.

(* ------------------------------------------------------------------ the VRLE state does not depend on the order *)
Definition self_vrle (r : list (Z * Z)) : list (Z * Z * Z) := map (fun x => (fst x, snd x, snd x)) r.

Lemma hull1_self x1 x2 : hull1 x2 (fst x1, snd x1, snd x1) = hull1 x1 (fst x2, snd x2, snd x2).
Proof.
  destruct x1 as [c1 n1], x2 as [c2 n2]. unfold hull1. cbn [fst snd].
  destruct (Z.eqb_spec c2 c1) as [->|H]; [rewrite Z.eqb_refl; f_equal; f_equal; [f_equal|]; lia|].
  destruct (Z.eqb_spec c1 c2); [congruence|reflexivity].
Qed.

Lemma zero_self r : map zero_min (self_vrle r) = map ext_run r.
Proof. unfold self_vrle. rewrite map_map. apply map_ext. intros [c n]. reflexivity. Qed.

Lemma merge_self_sym vl r1 : forall r2, merge vl r2 (self_vrle r1) = merge vl r1 (self_vrle r2).
Proof.
  induction r1 as [|x1 r1 IH]; intros [|x2 r2]; cbn [self_vrle map merge].
  - reflexivity.
  - destruct vl; [|reflexivity]. change (map (fun x => (fst x, snd x, snd x)) (x2 :: r2)) with (self_vrle (x2 :: r2)).
    rewrite zero_self. reflexivity.
  - destruct vl; [|reflexivity]. change ((fst x1, snd x1, snd x1) :: map (fun x => (fst x, snd x, snd x)) r1) with (self_vrle (x1 :: r1)).
    rewrite zero_self. reflexivity.
  - rewrite (hull1_self x1 x2). fold (self_vrle r1). fold (self_vrle r2). rewrite IH. reflexivity.
Qed.

Lemma self_ranges_ok r : pos_rle r -> ranges_ok (self_vrle r).
Proof.
  intro H. unfold ranges_ok, self_vrle. rewrite Forall_map. eapply Forall_impl; [|exact H].
  cbn. intros a Ha. unfold vmin, vmax. cbn. lia.
Qed.

Definition tri_ok (t : tri) : Prop := match t with TSome v => ranges_ok v | _ => True end.

Lemma tri_ok_step r t vl : pos_rle r -> tri_ok t -> tri_ok (expand_or_falsify r t vl).
Proof.
  intros Hp Ht. destruct t as [| |v].
  - cbn [expand_or_falsify tri_ok]. apply self_ranges_ok. exact Hp.
  - exact I.
  - pose proof (expand_or_falsify_inv [] r (TSome v) vl Hp) as H. cbn [tri_inv] in H.
    specialize (H (conj Ht (fun r0 (Hr : In r0 []) => match Hr with end))).
    destruct (expand_or_falsify r (TSome v) vl) as [| |v']; cbn [tri_ok tri_inv] in *; [exact I|exact I|tauto].
Qed.

Theorem expand_comm vl t r1 r2 : tri_ok t -> pos_rle r1 -> pos_rle r2 ->
  expand_or_falsify r2 (expand_or_falsify r1 t vl) vl = expand_or_falsify r1 (expand_or_falsify r2 t vl) vl.
Proof.
  intros Ht H1 H2. destruct t as [| |v].
  - (* nothing seen yet *)
    change (expand_or_falsify r1 TNone vl) with (TSome (self_vrle r1)).
    change (expand_or_falsify r2 TNone vl) with (TSome (self_vrle r2)).
    rewrite (expand_merge r2 (self_vrle r1) vl (self_ranges_ok _ H1)).
    rewrite (expand_merge r1 (self_vrle r2) vl (self_ranges_ok _ H2)).
    rewrite merge_self_sym. reflexivity.
  - reflexivity.
  - cbn [tri_ok] in Ht.
    pose proof (tri_ok_step r1 (TSome v) vl H1 Ht) as Ho1. pose proof (tri_ok_step r2 (TSome v) vl H2 Ht) as Ho2.
    rewrite (expand_merge r1 v vl Ht) in *. rewrite (expand_merge r2 v vl Ht) in *.
    pose proof (merge_comm vl r1 r2 v (pos_nonneg _ H1) (pos_nonneg _ H2)) as Hc.
    destruct (merge vl r1 v) as [o1|]; destruct (merge vl r2 v) as [o2|]; cbn [tri_of obind tri_ok] in *.
    + rewrite (expand_merge r2 o1 vl Ho1), (expand_merge r1 o2 vl Ho2), Hc. reflexivity.
    + rewrite (expand_merge r2 o1 vl Ho1), Hc. reflexivity.
    + rewrite (expand_merge r1 o2 vl Ho2), <- Hc. reflexivity.
    + reflexivity.
Qed.

(* ------------------------------------------------------------------ one position: the accumulator's view *)
Definition acc_fold (ct : chartab) (e : str) (vl : bool) (cap code : Z) (G : list str) : acc :=
  fold_left (acc_step ct e vl cap code) G acc0.

Definition single_of (l : list str) : option str := match l with [s] => Some s | _ => None end.

(* what refine_one looks at *)
Definition view (a : acc) : option str * str * tri * tri := (single_of (a_strings a), a_chars a, a_fc a, a_c a).

Lemma refine_one_view ct mp e n v a a' : view a = view a' -> refine_one ct mp e n v a = refine_one ct mp e n v a'.
Proof.
  unfold view. intro H. injection H as Hs Hc Hf Hcc.
  unfold refine_one, refine_rest. rewrite Hc, Hf, Hcc.
  destruct (a_strings a) as [|s0 [|s1 ss]]; destruct (a_strings a') as [|t0 [|t1 ts]]; cbn [single_of] in Hs; try discriminate; try reflexivity.
  injection Hs as ->. reflexivity.
Qed.

(* components of a step *)
Lemma acc_step_chars ct e vl cap code a g : a_chars (acc_step ct e vl cap code a g) = add_chars g (a_chars a).
Proof. unfold acc_step. destruct (rle_fc_c ct e vl g code (a_fc a) (a_c a)). reflexivity. Qed.

Lemma acc_step_tris ct e vl cap code a g :
  (a_fc (acc_step ct e vl cap code a g), a_c (acc_step ct e vl cap code a g)) = rle_fc_c ct e vl g code (a_fc a) (a_c a).
Proof. unfold acc_step. destruct (rle_fc_c ct e vl g code (a_fc a) (a_c a)). reflexivity. Qed.

(* the pair of VRLE states steps componentwise *)
Lemma rle_fc_c_components ct e vl g code fc c : Z.eqb code cUC = true ->
  rle_fc_c ct e vl g code fc c =
  (expand_or_falsify (run_length_encode (map (fine_class ct e) g)) fc vl, expand_or_falsify (run_length_encode g) c vl).
Proof.
  intro Hc. unfold rle_fc_c. rewrite Hc. cbn [negb orb].
  destruct fc as [| |vf]; destruct c as [| |vc]; cbn [is_false andb]; try reflexivity.
Qed.

Lemma rle_fc_c_other ct e vl g code fc c : Z.eqb code cUC = false -> rle_fc_c ct e vl g code fc c = (TFalse, TFalse).
Proof. intro Hc. unfold rle_fc_c. rewrite Hc. reflexivity. Qed.

Definition pair_ok (p : tri * tri) : Prop := tri_ok (fst p) /\ tri_ok (snd p).

Lemma pstep_ok ct e vl code p g : pair_ok p -> pair_ok (rle_fc_c ct e vl g code (fst p) (snd p)).
Proof.
  intros [H1 H2]. destruct (Z.eqb code cUC) eqn:Ec.
  - rewrite rle_fc_c_components by exact Ec. split; cbn [fst snd]; apply tri_ok_step; try assumption; apply run_length_encode_pos.
  - rewrite rle_fc_c_other by exact Ec. split; exact I.
Qed.

Lemma pstep_comm ct e vl code p g1 g2 : pair_ok p ->
  let step q g := rle_fc_c ct e vl g code (fst q) (snd q) in
  step (step p g1) g2 = step (step p g2) g1.
Proof.
  intros [H1 H2]. cbv zeta. destruct (Z.eqb code cUC) eqn:Ec.
  - rewrite !rle_fc_c_components by exact Ec. cbn [fst snd]. rewrite ?rle_fc_c_components by exact Ec. cbn [fst snd].
    f_equal; apply expand_comm; try assumption; apply run_length_encode_pos.
  - rewrite !rle_fc_c_other by exact Ec. reflexivity.
Qed.

(* folds of the components *)
Lemma acc_fold_chars ct e vl cap code G : forall a,
  a_chars (fold_left (acc_step ct e vl cap code) G a) = fold_left (fun s g => add_chars g s) G (a_chars a).
Proof.
  induction G as [|g G IH]; intro a; cbn [fold_left]; [reflexivity|]. rewrite IH, acc_step_chars. reflexivity.
Qed.

Lemma acc_fold_tris ct e vl cap code G : forall a,
  (a_fc (fold_left (acc_step ct e vl cap code) G a), a_c (fold_left (acc_step ct e vl cap code) G a)) =
  fold_left (fun q g => rle_fc_c ct e vl g code (fst q) (snd q)) G (a_fc a, a_c a).
Proof.
  induction G as [|g G IH]; intro a; cbn [fold_left]; [reflexivity|]. rewrite IH, acc_step_tris. reflexivity.
Qed.

Lemma chars_fold_spec G : forall set, sorted_strict set ->
  sorted_strict (fold_left (fun s g => add_chars g s) G set) /\
  forall x, In x (fold_left (fun s g => add_chars g s) G set) <-> In x set \/ exists g, In g G /\ In x g.
Proof.
  induction G as [|g G IH]; intros set Hs; cbn [fold_left].
  - split; [exact Hs|]. intro x. split; [tauto|]. intros [H|[g [[] _]]]. exact H.
  - destruct (IH (add_chars g set) (add_chars_sorted g set Hs)) as [H1 H2]. split; [exact H1|].
    intro x. rewrite H2, add_chars_In. split.
    + intros [[Hx|Hx]|[g0 [Hg0 Hx]]]; [right; exists g; split; [left; reflexivity|exact Hx]|left; exact Hx|
                                       right; exists g0; split; [right; exact Hg0|exact Hx]].
    + intros [Hx|[g0 [[<-|Hg0] Hx]]]; [left; right; exact Hx|left; left; exact Hx|right; exists g0; split; assumption].
Qed.

Theorem chars_perm G G' : Permutation G G' ->
  fold_left (fun s g => add_chars g s) G [] = fold_left (fun s g => add_chars g s) G' [].
Proof.
  intro Hp. destruct (chars_fold_spec G [] I) as [S1 M1]. destruct (chars_fold_spec G' [] I) as [S2 M2].
  apply sorted_strict_unique; [exact S1|exact S2|]. intro x. rewrite M1, M2. split; intros [[]|[g [Hg Hx]]]; right; exists g; split; try exact Hx.
  - eapply Permutation_in; eassumption.
  - eapply Permutation_in; [apply Permutation_sym; exact Hp|exact Hg].
Qed.

Theorem tris_perm ct e vl code G G' : Permutation G G' ->
  fold_left (fun q g => rle_fc_c ct e vl g code (fst q) (snd q)) G (TNone, TNone) =
  fold_left (fun q g => rle_fc_c ct e vl g code (fst q) (snd q)) G' (TNone, TNone).
Proof.
  intro Hp.
  apply (fold_left_comm_perm_inv (fun q g => rle_fc_c ct e vl g code (fst q) (snd q)) pair_ok (fun _ => True)).
  - intros a x Ha _. apply pstep_ok. exact Ha.
  - intros a x y Ha _ _. apply (pstep_comm ct e vl code a x y Ha).
  - exact Hp.
  - apply Forall_forall. intros; exact I.
  - split; exact I.
Qed.

Lemma NoDup_snoc_local {T} (l : list T) x : NoDup l -> ~ In x l -> NoDup (l ++ [x]).
Proof.
  induction l as [|y l IH]; intros Hnd Hx; simpl; [constructor; [intros []|constructor]|].
  inversion Hnd; subst. constructor.
  - intro Hin. apply in_app_or in Hin as [Hin|[<-|[]]]; [contradiction|apply Hx; left; reflexivity].
  - apply IH; [assumption|]. intro Hin. apply Hx. right; exact Hin.
Qed.

(* ------------------------------------------------------------------ the collected strings: exactly-one is order-independent *)
Definition strings_inv2 (G : list str) (st : list str * Z) : Prop :=
  (forall s, In s (fst st) -> In s G) /\ NoDup (fst st) /\ (G <> [] -> fst st <> []).

Lemma strings_step_inv2 cap G st g : 1 <= cap -> strings_inv G st -> strings_inv2 G st ->
  strings_inv2 (G ++ [g]) (strings_step cap st g).
Proof.
  intros Hcap [Hn Hall] (Hsub & Hnd & Hne). destruct st as [strings n]. cbn [fst snd] in *. unfold strings_step.
  destruct (Z.leb_spec n cap) as [Hle|Hgt]; cbn [fst].
  - destruct (mem_str g strings) eqn:Em.
    + split; [intros s Hs; apply in_or_app; left; apply Hsub; exact Hs|]. split; [exact Hnd|].
      intros _ E. cbn [fst snd] in E. rewrite E in Em. discriminate Em.
    + split; [|split].
      * intros s Hs. apply in_app_or in Hs as [Hs|[<-|[]]]; apply in_or_app; [left; apply Hsub; exact Hs|right; left; reflexivity].
      * apply NoDup_snoc_local; [exact Hnd|]. intro Hin. apply mem_str_In in Hin. congruence.
      * intros _ E. cbn [fst snd] in E. destruct strings; discriminate.
  - split; [intros s Hs; apply in_or_app; left; apply Hsub; exact Hs|]. split; [exact Hnd|].
    intros _ E. cbn [fst snd] in E. rewrite E in Hn. cbn in Hn. lia.
Qed.

Lemma strings_fold_inv cap G : 1 <= cap ->
  strings_inv G (fold_left (strings_step cap) G ([], 0)) /\ strings_inv2 G (fold_left (strings_step cap) G ([], 0)).
Proof.
  intro Hcap. induction G as [|g G IH] using rev_ind.
  - cbn [fold_left]. split; [split; [reflexivity|intros _ g []]|]. split; [intros s []|]. split; [constructor|congruence].
  - rewrite fold_left_app. cbn [fold_left]. destruct IH as [I1 I2].
    split; [apply strings_step_inv; assumption|apply strings_step_inv2; assumption].
Qed.

Lemma single_char G st s : strings_inv G st -> strings_inv2 G st ->
  (fst st = [s] <-> (G <> [] /\ forall g, In g G -> g = s)).
Proof.
  intros I1 (Hsub & Hnd & Hne). split.
  - intro E. split.
    + intro HG. subst G. specialize (Hsub s). rewrite E in Hsub. destruct (Hsub (or_introl eq_refl)).
    + eapply strings_single; eassumption.
  - intros [HG Hall]. specialize (Hne HG).
    destruct (fst st) as [|a [|b l]] eqn:E; [congruence| |].
    + rewrite (Hall a (Hsub a (or_introl eq_refl))). reflexivity.
    + exfalso. assert (a = s) by (apply Hall, Hsub; left; reflexivity).
      assert (b = s) by (apply Hall, Hsub; right; left; reflexivity). subst.
      inversion Hnd; subst. apply H1. left. reflexivity.
Qed.

Theorem single_perm cap G G' : 1 <= cap -> Permutation G G' ->
  single_of (fst (fold_left (strings_step cap) G ([], 0))) = single_of (fst (fold_left (strings_step cap) G' ([], 0))).
Proof.
  intros Hcap Hp.
  destruct (strings_fold_inv cap G Hcap) as [A1 A2]. destruct (strings_fold_inv cap G' Hcap) as [B1 B2].
  set (st := fold_left (strings_step cap) G ([], 0)) in *. set (st' := fold_left (strings_step cap) G' ([], 0)) in *.
  assert (Htrans : forall s, (G <> [] /\ (forall g, In g G -> g = s)) <-> (G' <> [] /\ (forall g, In g G' -> g = s))).
  { intro s. split; intros [Hne Hall]; split.
    - intro E. subst G'. apply Permutation_sym, Permutation_nil in Hp. contradiction.
    - intros g Hg. apply Hall. eapply Permutation_in; [apply Permutation_sym; exact Hp|exact Hg].
    - intro E. subst G. apply Permutation_nil in Hp. contradiction.
    - intros g Hg. apply Hall. eapply Permutation_in; eassumption. }
  destruct (fst st) as [|a [|b l]] eqn:E; destruct (fst st') as [|a' [|b' l']] eqn:E'; cbn [single_of]; try reflexivity.
  - exfalso. assert (H : fst st = [a']) by (apply (single_char G st a' A1 A2), Htrans, (single_char G' st' a' B1 B2); exact E').
    rewrite E in H. discriminate.
  - exfalso. assert (H : fst st' = [a]) by (apply (single_char G' st' a B1 B2), Htrans, (single_char G st a A1 A2); exact E).
    rewrite E' in H. discriminate.
  - assert (H : fst st' = [a]) by (apply (single_char G' st' a B1 B2), Htrans, (single_char G st a A1 A2); exact E).
    rewrite E' in H. injection H as ->. reflexivity.
  - exfalso. assert (H : fst st' = [a]) by (apply (single_char G' st' a B1 B2), Htrans, (single_char G st a A1 A2); exact E).
    rewrite E' in H. discriminate.
  - exfalso. assert (H : fst st = [a']) by (apply (single_char G st a' A1 A2), Htrans, (single_char G' st' a' B1 B2); exact E').
    rewrite E in H. discriminate.
Qed.

Lemma acc_fold_strings ct e vl cap code G : forall a,
  (a_strings (fold_left (acc_step ct e vl cap code) G a), a_n (fold_left (acc_step ct e vl cap code) G a)) =
  fold_left (strings_step cap) G (a_strings a, a_n a).
Proof.
  induction G as [|g G IH]; intro a; cbn [fold_left]; [reflexivity|]. rewrite IH, acc_step_strings. reflexivity.
Qed.

(* what refine_one sees of a position does not depend on the order in which the examples were analysed *)
Theorem view_perm ct e vl cap code G G' : 1 <= cap -> Permutation G G' ->
  view (acc_fold ct e vl cap code G) = view (acc_fold ct e vl cap code G').
Proof.
  intros Hcap Hp. unfold view, acc_fold.
  pose proof (acc_fold_strings ct e vl cap code G acc0) as S1. pose proof (acc_fold_strings ct e vl cap code G' acc0) as S2.
  pose proof (acc_fold_tris ct e vl cap code G acc0) as T1. pose proof (acc_fold_tris ct e vl cap code G' acc0) as T2.
  rewrite (acc_fold_chars ct e vl cap code G acc0), (acc_fold_chars ct e vl cap code G' acc0).
  cbn [acc0 a_strings a_n a_fc a_c a_chars] in *.
  rewrite (chars_perm G G' Hp).
  rewrite (tris_perm ct e vl code G G' Hp) in T1. rewrite <- T2 in T1. injection T1 as -> ->.
  pose proof (single_perm cap G G' Hcap Hp) as Hs. rewrite <- S1, <- S2 in Hs. cbn [fst] in Hs. rewrite Hs. reflexivity.
Qed.

(* ------------------------------------------------------------------ sorting: a canonical result *)
Section SortCanon.
  Context {T : Type} (leb : T -> T -> bool) (P : T -> Prop).
  Hypothesis leb_total : forall a b, P a -> P b -> leb a b = true \/ leb b a = true.
  Hypothesis leb_trans : forall a b c, P a -> P b -> P c -> leb a b = true -> leb b c = true -> leb a c = true.
  Hypothesis leb_antisym : forall a b, P a -> P b -> leb a b = true -> leb b a = true -> a = b.

  Lemma leb_false_rev_gen a b : P a -> P b -> leb a b = false -> leb b a = true.
  Proof. intros Ha Hb H. destruct (leb_total a b Ha Hb) as [H'|H']; congruence. Qed.

  Lemma insert_comm_gen x y l : P x -> P y -> Forall P l ->
    insert leb x (insert leb y l) = insert leb y (insert leb x l).
  Proof.
    intros Hx Hy Hl. induction Hl as [|z l Hz Hl IH]; cbn [insert].
    - destruct (leb x y) eqn:Exy, (leb y x) eqn:Eyx; try reflexivity.
      + assert (x = y) by (apply leb_antisym; assumption). subst. reflexivity.
      + destruct (leb_total x y Hx Hy); congruence.
    - destruct (leb y z) eqn:Eyz, (leb x z) eqn:Exz; cbn [insert].
      + destruct (leb x y) eqn:Exy, (leb y x) eqn:Eyx; cbn [insert]; rewrite ?Eyz, ?Exz; try reflexivity.
        * assert (x = y) by (apply leb_antisym; assumption). subst. reflexivity.
        * destruct (leb_total x y Hx Hy); congruence.
      + assert (Eyx : leb y x = true).
        { apply (leb_false_rev_gen x z Hx Hz) in Exz. eapply (leb_trans y z x); eassumption. }
        destruct (leb x y) eqn:Exy.
        * assert (x = y) by (apply leb_antisym; assumption). subst. congruence.
        * rewrite Exz, Eyz. reflexivity.
      + assert (Exy : leb x y = true).
        { apply (leb_false_rev_gen y z Hy Hz) in Eyz. eapply (leb_trans x z y); eassumption. }
        destruct (leb y x) eqn:Eyx.
        * assert (x = y) by (apply leb_antisym; assumption). subst. congruence.
        * rewrite Exz, Eyz. reflexivity.
      + rewrite Exz, Eyz. f_equal. exact IH.
  Qed.

  Lemma insert_P x l : P x -> Forall P l -> Forall P (insert leb x l).
  Proof.
    intros Hx Hl. induction Hl as [|z l Hz Hl IH]; cbn [insert]; [constructor; [exact Hx|constructor]|].
    destruct (leb x z); constructor; try assumption. constructor; assumption.
  Qed.

  Lemma isort_P l : Forall P l -> Forall P (isort leb l).
  Proof. induction 1 as [|x l Hx Hl IH]; cbn [isort]; [constructor|]. apply insert_P; assumption. Qed.

  Theorem isort_perm_eq a b : Permutation a b -> Forall P a -> isort leb a = isort leb b.
  Proof.
    induction 1 as [| x a b Hp IH | x y a | a b c Hp1 IH1 Hp2 IH2]; intro HP; cbn [isort].
    - reflexivity.
    - inversion HP; subst. rewrite IH by assumption. reflexivity.
    - inversion HP as [|? ? Hy HP']; subst. inversion HP' as [|? ? Hx HP'']; subst.
      apply insert_comm_gen; try assumption. apply isort_P. exact HP''.
    - rewrite IH1 by assumption. apply IH2. eapply Permutation_Forall; eassumption.
  Qed.
End SortCanon.

(* ------------------------------------------------------------------ the order on VRLEs *)
Definition klt (a b : Z * Z * Z) : Prop :=
  fst (fst a) < fst (fst b) \/
  (fst (fst a) = fst (fst b) /\ (snd (fst a) < snd (fst b) \/ (snd (fst a) = snd (fst b) /\ snd a < snd b))).

Lemma key_cmp_spec a b : CompareSpec (a = b) (klt a b) (klt b a) (key_cmp a b).
Proof.
  destruct a as [[a1 a2] a3], b as [[b1 b2] b3]. unfold key_cmp, klt. cbn [fst snd].
  destruct (Z.compare_spec a1 b1); [|constructor; lia|constructor; lia].
  destruct (Z.compare_spec a2 b2); [|constructor; lia|constructor; lia].
  destruct (Z.compare_spec a3 b3); constructor; [congruence|lia|lia].
Qed.

Lemma klt_irrefl a : ~ klt a a. Proof. unfold klt. lia. Qed.
Lemma klt_trans a b c : klt a b -> klt b c -> klt a c. Proof. unfold klt. lia. Qed.
Lemma klt_asym a b : klt a b -> klt b a -> False. Proof. unfold klt. lia. Qed.

Lemma vrle_leb_total : forall a b, vrle_leb a b = true \/ vrle_leb b a = true.
Proof.
  induction a as [|x a IH]; intros [|y b]; cbn [vrle_leb]; try (left; reflexivity); try (right; reflexivity).
  destruct (key_cmp_spec (vf_key x) (vf_key y)) as [E|H|H].
  - rewrite E. destruct (key_cmp_spec (vf_key y) (vf_key y)) as [_|H|H]; [apply IH|destruct (klt_irrefl _ H)..].
  - left; reflexivity.
  - right. destruct (key_cmp_spec (vf_key y) (vf_key x)) as [E|H'|H']; [rewrite E in H; destruct (klt_irrefl _ H)|reflexivity|destruct (klt_asym _ _ H H')].
Qed.

Lemma vrle_leb_trans : forall a b c, vrle_leb a b = true -> vrle_leb b c = true -> vrle_leb a c = true.
Proof.
  induction a as [|x a IH]; intros [|y b] [|z c]; cbn [vrle_leb]; try reflexivity; try discriminate.
  destruct (key_cmp_spec (vf_key x) (vf_key y)) as [E1|H1|H1]; [| |discriminate];
  destruct (key_cmp_spec (vf_key y) (vf_key z)) as [E2|H2|H2]; try discriminate.
  - rewrite E1, E2. destruct (key_cmp_spec (vf_key z) (vf_key z)) as [_|H|H]; [apply IH|destruct (klt_irrefl _ H)..].
  - intros _ _. rewrite E1. destruct (key_cmp_spec (vf_key y) (vf_key z)) as [E|H|H]; [rewrite E in H2; destruct (klt_irrefl _ H2)|reflexivity|destruct (klt_asym _ _ H2 H)].
  - intros _ _. rewrite <- E2. destruct (key_cmp_spec (vf_key x) (vf_key y)) as [E|H|H]; [rewrite E in H1; destruct (klt_irrefl _ H1)|reflexivity|destruct (klt_asym _ _ H1 H)].
  - intros _ _. pose proof (klt_trans _ _ _ H1 H2) as H3.
    destruct (key_cmp_spec (vf_key x) (vf_key z)) as [E|H|H]; [rewrite E in H3; destruct (klt_irrefl _ H3)|reflexivity|destruct (klt_asym _ _ H3 H)].
Qed.

Lemma vrle_leb_both_codes : forall a b, vrle_leb a b = true -> vrle_leb b a = true -> map vf_code a = map vf_code b.
Proof.
  induction a as [|x a IH]; intros [|y b]; cbn [vrle_leb map]; try reflexivity; try discriminate.
  destruct (key_cmp_spec (vf_key x) (vf_key y)) as [E|H|H].
  - rewrite E. destruct (key_cmp_spec (vf_key y) (vf_key y)) as [_|H|H]; [|destruct (klt_irrefl _ H)..].
    intros H1 H2. f_equal; [|apply IH; assumption].
    unfold vf_key in E. injection E as Ec _ _. exact Ec.
  - intros _. destruct (key_cmp_spec (vf_key y) (vf_key x)) as [E|H'|H']; [rewrite E in H; destruct (klt_irrefl _ H)|destruct (klt_asym _ _ H H')|discriminate].
  - discriminate.
Qed.

(* ------------------------------------------------------------------ to_vrles does not depend on the order *)
From Tdda Require Import Rexpy.PipelineProofs Rexpy.BatchProofs.

Lemma fold_min_le l : forall x, fold_left Z.min l x <= x /\ (forall y, In y l -> fold_left Z.min l x <= y) /\
                                (fold_left Z.min l x = x \/ In (fold_left Z.min l x) l).
Proof.
  induction l as [|a l IH]; intro x; cbn [fold_left]; [split; [lia|split; [intros y []|left; reflexivity]]|].
  destruct (IH (Z.min x a)) as (H1 & H2 & H3). split; [lia|]. split.
  - intros y [<-|Hy]; [lia|apply H2; exact Hy].
  - destruct H3 as [H3|H3]; [|right; right; exact H3].
    rewrite H3. destruct (Z.min_spec x a) as [[_ ->]|[_ ->]]; [left; reflexivity|right; left; reflexivity].
Qed.

Lemma fold_max_ge l : forall x, x <= fold_left Z.max l x /\ (forall y, In y l -> y <= fold_left Z.max l x) /\
                                (fold_left Z.max l x = x \/ In (fold_left Z.max l x) l).
Proof.
  induction l as [|a l IH]; intro x; cbn [fold_left]; [split; [lia|split; [intros y []|left; reflexivity]]|].
  destruct (IH (Z.max x a)) as (H1 & H2 & H3). split; [lia|]. split.
  - intros y [<-|Hy]; [lia|apply H2; exact Hy].
  - destruct H3 as [H3|H3]; [|right; right; exact H3].
    rewrite H3. destruct (Z.max_spec x a) as [[_ ->]|[_ ->]]; [right; left; reflexivity|left; reflexivity].
Qed.

Lemma list_min_perm l l' : Permutation l l' -> list_min l = list_min l'.
Proof.
  intro Hp. destruct l as [|x r]; [apply Permutation_nil in Hp; subst; reflexivity|].
  destruct l' as [|x' r']; [apply Permutation_sym, Permutation_nil in Hp; discriminate|].
  unfold list_min.
  destruct (fold_min_le r x) as (A1 & A2 & A3). destruct (fold_min_le r' x') as (B1 & B2 & B3).
  assert (HinA : In (fold_left Z.min r x) (x' :: r')).
  { eapply Permutation_in; [exact Hp|]. destruct A3 as [->|A3]; [left; reflexivity|right; exact A3]. }
  assert (HinB : In (fold_left Z.min r' x') (x :: r)).
  { eapply Permutation_in; [apply Permutation_sym; exact Hp|]. destruct B3 as [->|B3]; [left; reflexivity|right; exact B3]. }
  assert (fold_left Z.min r' x' <= fold_left Z.min r x) by (destruct HinA as [<-|H]; [exact B1|apply B2; exact H]).
  assert (fold_left Z.min r x <= fold_left Z.min r' x') by (destruct HinB as [<-|H0]; [exact A1|apply A2; exact H0]).
  lia.
Qed.

Lemma list_max_perm l l' : Permutation l l' -> list_max l = list_max l'.
Proof.
  intro Hp. destruct l as [|x r]; [apply Permutation_nil in Hp; subst; reflexivity|].
  destruct l' as [|x' r']; [apply Permutation_sym, Permutation_nil in Hp; discriminate|].
  unfold list_max.
  destruct (fold_max_ge r x) as (A1 & A2 & A3). destruct (fold_max_ge r' x') as (B1 & B2 & B3).
  assert (HinA : In (fold_left Z.max r x) (x' :: r')).
  { eapply Permutation_in; [exact Hp|]. destruct A3 as [->|A3]; [left; reflexivity|right; exact A3]. }
  assert (HinB : In (fold_left Z.max r' x') (x :: r)).
  { eapply Permutation_in; [apply Permutation_sym; exact Hp|]. destruct B3 as [->|B3]; [left; reflexivity|right; exact B3]. }
  assert (fold_left Z.max r x <= fold_left Z.max r' x') by (destruct HinA as [<-|H]; [exact B1|apply B2; exact H]).
  assert (fold_left Z.max r' x' <= fold_left Z.max r x) by (destruct HinB as [<-|H0]; [exact A1|apply A2; exact H0]).
  lia.
Qed.

Lemma filter_perm {T} (f : T -> bool) l l' : Permutation l l' -> Permutation (filter f l) (filter f l').
Proof.
  induction 1 as [|x l l' _ IH|x y l|l l' l'' _ IH1 _ IH2]; cbn [filter].
  - constructor.
  - destruct (f x); [apply perm_skip|]; exact IH.
  - destruct (f x), (f y); try apply perm_swap; try apply Permutation_refl.
  - eapply perm_trans; eassumption.
Qed.

Lemma vrle_of_sig_perm L L' sig : Permutation L L' -> vrle_of_sig L sig = vrle_of_sig L' sig.
Proof.
  intro Hp. unfold vrle_of_sig. apply map_ext. intro i.
  set (g := filter (fun r => str_eqb (signature r) sig) L). set (g' := filter (fun r => str_eqb (signature r) sig) L').
  assert (Hg : Permutation g g') by (apply filter_perm; exact Hp).
  rewrite (list_min_perm _ _ (Permutation_map (fun r => snd (nth i r (0, 0))) Hg)).
  rewrite (list_max_perm _ _ (Permutation_map (fun r => snd (nth i r (0, 0))) Hg)). reflexivity.
Qed.

Lemma dedup_by_NoDup {T} (eqb : T -> T -> bool) (Heq : forall a b, eqb a b = true <-> a = b) l : NoDup (dedup_by eqb l).
Proof.
  induction l as [|x l IH]; cbn [dedup_by]; [constructor|]. constructor.
  - intro Hin. apply filter_In in Hin as [_ Hn]. assert (eqb x x = true) by (apply Heq; reflexivity). rewrite H in Hn. discriminate.
  - apply NoDup_filter. exact IH.
Qed.

Lemma dedup_by_perm {T} (eqb : T -> T -> bool) (Heq : forall a b, eqb a b = true <-> a = b) l l' :
  (forall x, In x l <-> In x l') -> Permutation (dedup_by eqb l) (dedup_by eqb l').
Proof.
  intro H. apply NoDup_Permutation; try (apply dedup_by_NoDup; exact Heq).
  intro x. rewrite !(dedup_by_In eqb Heq). apply H.
Qed.

Theorem to_vrles_perm L L' : Permutation L L' -> to_vrles L = to_vrles L'.
Proof.
  intro Hp. unfold to_vrles.
  assert (Hs : Permutation (sigs_of L) (sigs_of L')).
  { unfold sigs_of. apply (dedup_by_perm str_eqb str_eqb_eq). intro x. split; intro Hx;
      (eapply Permutation_in; [|exact Hx]); apply Permutation_map; [exact Hp|apply Permutation_sym; exact Hp]. }
  rewrite (map_ext (vrle_of_sig L') (vrle_of_sig L) (fun sig => eq_sym (vrle_of_sig_perm L L' sig Hp))).
  apply (isort_perm_eq vrle_leb (fun v => v = vrle_of_sig L (map vf_code v))).
  - intros a b _ _. apply vrle_leb_total.
  - intros a b c _ _ _. apply vrle_leb_trans.
  - intros a b Ha Hb H1 H2. rewrite Ha, Hb. rewrite (vrle_leb_both_codes a b H1 H2). reflexivity.
  - apply Permutation_map. exact Hs.
  - apply Forall_forall. intros v Hv. apply in_map_iff in Hv as [sig [<- _]]. rewrite vrle_of_sig_codes. reflexivity.
Qed.

(* ------------------------------------------------------------------ the accumulators of one pattern *)
Lemma fold_nth ct e vl cap vrle i : (i < length vrle)%nat -> forall groups accs,
  (forall gs, In gs groups -> length gs = length vrle) -> length accs = length vrle ->
  length (fold_left (fold_step ct e vl cap vrle) groups accs) = length vrle /\
  nth i (fold_left (fold_step ct e vl cap vrle) groups accs) acc0 =
  fold_left (acc_step ct e vl cap (vf_code (nth i vrle (0, 0, None)))) (column i groups) (nth i accs acc0).
Proof.
  intro Hi. induction groups as [|gs groups IH]; intros accs Hlen Ha; cbn [fold_left column map]; [split; [exact Ha|reflexivity]|].
  assert (Hgs : length gs = length vrle) by (apply Hlen; left; reflexivity).
  assert (Hl : length (fold_step ct e vl cap vrle accs gs) = length vrle).
  { unfold fold_step. rewrite zip_with_length, combine_length. lia. }
  destruct (IH (fold_step ct e vl cap vrle accs gs) (fun g Hg => Hlen g (or_intror Hg)) Hl) as [IH1 IH2].
  split; [exact IH1|]. rewrite IH2. f_equal. unfold fold_step.
  pose proof (zip_with_nth (fun (va : vfrag * acc) (g : str) => acc_step ct e vl cap (vf_code (fst va)) (snd va) g)
                           (combine vrle accs) gs i ((0, 0, None), acc0) [] acc0) as Hz.
  rewrite Hz by (rewrite ?combine_length; lia). rewrite combine_nth by (symmetry; exact Ha). reflexivity.
Qed.

Lemma fold_len ct e vl cap vrle : forall groups accs,
  (forall gs, In gs groups -> length gs = length vrle) -> length accs = length vrle ->
  length (fold_left (fold_step ct e vl cap vrle) groups accs) = length vrle.
Proof.
  induction groups as [|gs groups IH]; intros accs Hlen Ha; cbn [fold_left]; [exact Ha|].
  apply IH; [intros g Hg; apply Hlen; right; exact Hg|].
  unfold fold_step. rewrite zip_with_length, combine_length. rewrite (Hlen gs (or_introl eq_refl)). lia.
Qed.

Lemma refine_all_view ct mp e : forall vs accs accs' n, Forall2 (fun a a' => view a = view a') accs accs' ->
  refine_all ct mp e n vs accs = refine_all ct mp e n vs accs'.
Proof.
  induction vs as [|v vs IH]; intros accs accs' n H; [reflexivity|].
  destruct H as [|a a' accs accs' Hv H]; [reflexivity|]. cbn [refine_all].
  rewrite (refine_one_view ct mp e n v a a' Hv). destruct (refine_one ct mp e n v a') as [fs n']. f_equal. apply IH. exact H.
Qed.

Lemma Forall2_nth_local {A} (R : A -> A -> Prop) d : forall l l', length l = length l' ->
  (forall i, (i < length l)%nat -> R (nth i l d) (nth i l' d)) -> Forall2 R l l'.
Proof.
  induction l as [|x l IH]; intros [|y l'] Hlen H; try discriminate; constructor.
  - apply (H O). cbn. lia.
  - apply IH; [cbn in Hlen; lia|]. intros i Hi. apply (H (S i)). cbn. lia.
Qed.

Lemma mapM_perm {A B} (f : A -> res B) l l' : Permutation l l' -> forall ys, mapM f l = Ok ys ->
  exists ys', mapM f l' = Ok ys' /\ Permutation ys ys'.
Proof.
  induction 1 as [|x l l' _ IH|x y l|l l' l'' _ IH1 _ IH2]; intros ys H.
  - exists ys. split; [exact H|apply Permutation_refl].
  - cbn [mapM] in *. destruct (f x) as [b|err]; cbn [bind] in *; [|discriminate].
    destruct (mapM f l) as [bs|err]; cbn [bind] in *; [|discriminate]. injection H as <-.
    destruct (IH bs eq_refl) as [bs' [-> Hp]]. cbn [bind]. eexists. split; [reflexivity|apply perm_skip; exact Hp].
  - cbn [mapM] in *. destruct (f y) as [b|err]; cbn [bind] in *; [|discriminate].
    destruct (f x) as [b2|err]; cbn [bind] in *; [|discriminate].
    destruct (mapM f l) as [bs|err]; cbn [bind] in *; [|discriminate]. injection H as <-.
    eexists. split; [reflexivity|apply perm_swap].
  - destruct (IH1 ys H) as [ys1 [H1 P1]]. destruct (IH2 ys1 H1) as [ys2 [H2 P2]].
    exists ys2. split; [exact H2|eapply perm_trans; eassumption].
Qed.

Lemma mapM_impl {A B} (f g : A -> res B) l : (forall x y, In x l -> f x = Ok y -> g x = Ok y) ->
  forall ys, mapM f l = Ok ys -> mapM g l = Ok ys.
Proof.
  induction l as [|x l IH]; intros Hfg ys H; cbn [mapM] in *; [exact H|].
  destruct (f x) as [b|err] eqn:Ef; cbn [bind] in *; [|discriminate].
  rewrite (Hfg x b (or_introl eq_refl) Ef). cbn [bind].
  destruct (mapM f l) as [bs|err] eqn:El; cbn [bind] in *; [|discriminate].
  rewrite (IH (fun x0 y0 Hx => Hfg x0 y0 (or_intror Hx)) bs eq_refl). exact H.
Qed.

Lemma combine_map_self {A B} (f : A -> B) l : combine l (map f l) = map (fun x => (x, f x)) l.
Proof. induction l as [|x l IH]; cbn [combine map]; [reflexivity|]. rewrite IH. reflexivity. Qed.

Lemma column_perm i G G' : Permutation G G' -> Permutation (column i G) (column i G').
Proof. apply Permutation_map. Qed.

(* one coarse pattern: the refinement sees the examples only through each position's view *)
Theorem refine_vrle_perm ct o e stripped gt strings strings' vrle r :
  1 <= z_max_strings_in_group o -> Permutation strings strings' ->
  refine_vrle ct o e stripped gt strings (map (rle_coarse ct e) strings) vrle = Ok r ->
  refine_vrle ct o e stripped gt strings' (map (rle_coarse ct e) strings') vrle = Ok r.
Proof.
  intros Hcap Hp. unfold refine_vrle.
  destruct (vrle2re false (o_full_escape o) e stripped true (map frag_of_vfrag vrle)) as [regex|err]; cbn [bind]; [|discriminate].
  rewrite !combine_map_self.
  set (sel := fun sr : str * list (Z * Z) => str_eqb (signature (snd sr)) (map vf_code vrle)).
  set (look := fun ex : str => match lookup_groups gt regex ex with
        | Some gs => if Nat.eqb (length gs) (length vrle) then Ok gs else Err E_GROUP_COUNT | None => Err E_NO_GROUPS end).
  assert (Hm : Permutation (map fst (filter sel (map (fun x => (x, rle_coarse ct e x)) strings)))
                           (map fst (filter sel (map (fun x => (x, rle_coarse ct e x)) strings')))).
  { apply Permutation_map, filter_perm, Permutation_map. exact Hp. }
  destruct (mapM look (map fst (filter sel (map (fun x => (x, rle_coarse ct e x)) strings)))) as [groups|err] eqn:Eg; cbn [bind]; [|discriminate].
  destruct (mapM_perm look _ _ Hm groups Eg) as [groups' [-> Hg]]. cbn [bind]. intro H. injection H as <-. f_equal.
  assert (Hlen : forall gs, In gs groups -> length gs = length vrle).
  { intros gs Hin. destruct (mapM_In _ _ _ _ Eg Hin) as [ex [_ Hex]]. unfold look in Hex.
    destruct (lookup_groups gt regex ex) as [gs0|]; [|discriminate].
    destruct (Nat.eqb (length gs0) (length vrle)) eqn:En; [|discriminate]. injection Hex as <-. apply Nat.eqb_eq. exact En. }
  assert (Hlen' : forall gs, In gs groups' -> length gs = length vrle).
  { intros gs Hin. apply Hlen. eapply Permutation_in; [apply Permutation_sym; exact Hg|exact Hin]. }
  change (fun (accs : list acc) (gs : list str) =>
            zip_with (fun va g => acc_step ct e (o_vlf o) (z_max_strings_in_group o) (vf_code (fst va)) (snd va) g) (combine vrle accs) gs)
    with (fold_step ct e (o_vlf o) (z_max_strings_in_group o) vrle).
  set (init := map (fun _ : vfrag => acc0) vrle).
  assert (Hinit : length init = length vrle) by apply map_length.
  symmetry. apply refine_all_view. apply (Forall2_nth_local _ acc0).
  - rewrite (fold_len ct e (o_vlf o) (z_max_strings_in_group o) vrle groups init Hlen Hinit).
    rewrite (fold_len ct e (o_vlf o) (z_max_strings_in_group o) vrle groups' init Hlen' Hinit). reflexivity.
  - intros i Hi. rewrite (fold_len ct e (o_vlf o) (z_max_strings_in_group o) vrle groups init Hlen Hinit) in Hi.
    rewrite (proj2 (fold_nth ct e (o_vlf o) (z_max_strings_in_group o) vrle i Hi groups init Hlen Hinit)).
    rewrite (proj2 (fold_nth ct e (o_vlf o) (z_max_strings_in_group o) vrle i Hi groups' init Hlen' Hinit)).
    unfold init. rewrite nth_map_const.
    apply (view_perm ct e (o_vlf o) (z_max_strings_in_group o) _ _ _ Hcap (column_perm i _ _ Hg)).
Qed.

(* ------------------------------------------------------------------ the batch *)
Theorem batch_extract_perm ct o e stripped gt ex ex' r :
  1 <= z_max_strings_in_group o -> Permutation (ex_strings ex) (ex_strings ex') ->
  batch_extract ct o e stripped gt ex = Ok r -> batch_extract ct o e stripped gt ex' = Ok r.
Proof.
  intros Hcap Hp. unfold batch_extract.
  assert (Hd : Permutation (dedup_by rle_eqb (map (rle_coarse ct e) (ex_strings ex)))
                           (dedup_by rle_eqb (map (rle_coarse ct e) (ex_strings ex')))).
  { apply (dedup_by_perm rle_eqb rle_eqb_eq). intro x. split; intro Hx;
      (eapply Permutation_in; [|exact Hx]); apply Permutation_map; [exact Hp|apply Permutation_sym; exact Hp]. }
  rewrite <- (to_vrles_perm _ _ Hd).
  destruct (mapM (refine_vrle ct o e stripped gt (ex_strings ex) (map (rle_coarse ct e) (ex_strings ex))) _) as [refined|err] eqn:Er;
    cbn [bind]; [|discriminate].
  rewrite (mapM_impl _ (refine_vrle ct o e stripped gt (ex_strings ex') (map (rle_coarse ct e) (ex_strings ex'))) _
             (fun v y _ Hv => refine_vrle_perm ct o e stripped gt _ _ v y Hcap Hp Hv) refined Er).
  cbn [bind]. exact (fun H => H).
Qed.

(* ... and so does failure: an ordering of the examples on which the batch fails exists iff it fails on all *)
Corollary batch_extract_perm_err ct o e stripped gt ex ex' err :
  1 <= z_max_strings_in_group o -> Permutation (ex_strings ex) (ex_strings ex') ->
  batch_extract ct o e stripped gt ex = Err err -> exists err', batch_extract ct o e stripped gt ex' = Err err'.
Proof.
  intros Hcap Hp H. destruct (batch_extract ct o e stripped gt ex') as [r|err'] eqn:E'; [|exists err'; reflexivity].
  rewrite (batch_extract_perm ct o e stripped gt ex' ex r Hcap (Permutation_sym Hp) E') in H. discriminate.
Qed.

(* the frequencies are not looked at by the batch at all *)
Theorem batch_extract_freqs ct o e stripped gt ex fs :
  batch_extract ct o e stripped gt ex = batch_extract ct o e stripped gt {| ex_strings := ex_strings ex; ex_freqs := fs |}.
Proof. reflexivity. Qed.

(* the hypothesis on max_strings_in_group cannot be dropped: with a cap of 0 the first example analysed fixes the fragment *)
Example cap_zero_order_matters :
  view (acc_fold py_chartab [] false 0 cUC [[97]; [98]]) <> view (acc_fold py_chartab [] false 0 cUC [[98]; [97]]).
Proof. vm_compute. discriminate. Qed.
