(* First layer of theorems about the Extractor model: shape of the returned expressions,
   counting, tagging, and what the check-and-extend loop guarantees on exit. *)
From Coq Require Import ZArith List Bool Lia Arith.
From Tdda Require Import Base.Sexp Base.Str Base.Sort Generated.Consts Rexpy.Chars Rexpy.Pipeline.
Import ListNotations.
Open Scope Z_scope.

(* ------------------------------------------------------------------ mapM *)
Lemma mapM_Forall2 {A B} (f : A -> res B) l ys : mapM f l = Ok ys -> Forall2 (fun x y => f x = Ok y) l ys.
Proof.
  revert ys; induction l as [|x l IH]; intros ys H; cbn [mapM] in H.
  - inversion H. constructor.
  - destruct (f x) as [y|e] eqn:Ex; cbn [bind] in H; [|discriminate].
    destruct (mapM f l) as [ys'|e] eqn:El; cbn [bind] in H; [|discriminate].
    inversion H; subst. constructor; [exact Ex|]. apply IH. reflexivity.
Qed.

Lemma mapM_length {A B} (f : A -> res B) l ys : mapM f l = Ok ys -> length ys = length l.
Proof. intro H. apply mapM_Forall2 in H. induction H; simpl; congruence. Qed.

Lemma mapM_In {A B} (f : A -> res B) l ys y : mapM f l = Ok ys -> In y ys -> exists x, In x l /\ f x = Ok y.
Proof.
  intro H. apply mapM_Forall2 in H. induction H as [|x y' l ys Hxy _ IH]; intro Hin; [destruct Hin|].
  destruct Hin as [<-|Hin]; [exists x; split; [left; reflexivity|exact Hxy]|].
  destruct (IH Hin) as [x' [Hx' Hf]]. exists x'. split; [right; exact Hx'|exact Hf].
Qed.

(* ------------------------------------------------------------------ anchoring *)
Definition anchored (r : str) : Prop := exists body, r = [94] ++ body ++ [36].

Lemma vrle2re_anchored out full e stripped tagged fs r : vrle2re out full e stripped tagged fs = Ok r -> anchored r.
Proof.
  unfold vrle2re. destruct (mapM _ fs) as [parts|err]; cbn [bind]; [|discriminate].
  cbv zeta. set (ws := if stripped then _ else _). intro H. injection H as <-.
  exists (ws ++ List.concat parts ++ ws). rewrite <- !app_assoc. reflexivity.
Qed.

(* ------------------------------------------------------------------ sorting keeps length / membership *)
Lemma insert_length {T} (leb : T -> T -> bool) x l : length (insert leb x l) = S (length l).
Proof. induction l as [|y l IH]; simpl; [reflexivity|]. destruct (leb x y); simpl; [reflexivity|]. rewrite IH. reflexivity. Qed.

Lemma isort_length {T} (leb : T -> T -> bool) l : length (isort leb l) = length l.
Proof. induction l as [|x l IH]; simpl; [reflexivity|]. rewrite insert_length, IH. reflexivity. Qed.

Lemma filter_length_le {T} (f : T -> bool) l : (length (filter f l) <= length l)%nat.
Proof. induction l as [|x l IH]; simpl; [lia|]. destruct (f x); simpl; lia. Qed.

Lemma dedup_by_length_le {T} (eqb : T -> T -> bool) l : (length (dedup_by eqb l) <= length l)%nat.
Proof.
  induction l as [|x l IH]; simpl; [lia|].
  pose proof (filter_length_le (fun y => negb (eqb x y)) (dedup_by eqb l)). lia.
Qed.

(* ------------------------------------------------------------------ batch_extract: counting, anchoring *)
Lemma to_vrles_length rles : (length (to_vrles rles) <= length rles)%nat.
Proof.
  unfold to_vrles. rewrite isort_length, map_length. unfold sigs_of.
  pose proof (dedup_by_length_le str_eqb (map signature rles)). rewrite map_length in H. exact H.
Qed.

Lemma batch_extract_shape ct o e stripped gt ex merged rex :
  batch_extract ct o e stripped gt ex = Ok (merged, rex) ->
  length rex = length merged /\ (length merged <= length (ex_strings ex))%nat /\ Forall anchored rex.
Proof.
  unfold batch_extract.
  set (rles := map (rle_coarse ct e) (ex_strings ex)).
  destruct (mapM _ (to_vrles _)) as [refined|err] eqn:Eref; cbn [bind]; [|discriminate].
  set (m := match refined with [_] => refined | _ => isort len_leb refined end).
  destruct (mapM (vrle2re false (o_full_escape o) e stripped (o_tag o)) m) as [rx|err] eqn:Erx; cbn [bind]; [|discriminate].
  intro H. inversion H; subst merged rex. clear H.
  assert (Hm : length m = length refined).
  { subst m. destruct refined as [|a [|b l]]; [reflexivity|reflexivity|apply isort_length]. }
  split; [apply (mapM_length _ _ _ Erx)|]. split.
  - rewrite Hm, (mapM_length _ _ _ Eref).
    pose proof (to_vrles_length (dedup_by rle_eqb rles)).
    pose proof (dedup_by_length_le rle_eqb rles). subst rles. rewrite map_length in *. lia.
  - apply Forall_forall. intros r Hr. destruct (mapM_In _ _ _ _ Erx Hr) as [fs [_ Hfs]].
    eapply vrle2re_anchored. exact Hfs.
Qed.

(* tagging plays no part in choosing the fragments: only the final rendering differs *)
Definition with_tag (o : ropts) (t : bool) : ropts :=
  {| o_tag := t; o_extra := o_extra o; o_full_escape := o_full_escape o; o_remove_empties := o_remove_empties o;
     o_strip := o_strip o; o_vlf := o_vlf o; o_max_patterns := o_max_patterns o; o_min_strings := o_min_strings o;
     o_dialect_out := o_dialect_out o; z_do_all := z_do_all o; z_do_all_exceptions := z_do_all_exceptions o;
     z_max_sampled_attempts := z_max_sampled_attempts o; z_max_punc_in_group := z_max_punc_in_group o;
     z_max_strings_in_group := z_max_strings_in_group o |}.

Lemma refine_vrle_tag ct o e stripped gt strings rles vrle t :
  refine_vrle ct (with_tag o t) e stripped gt strings rles vrle = refine_vrle ct o e stripped gt strings rles vrle.
Proof. reflexivity. Qed.

Theorem batch_fragments_tag_independent ct o e stripped gt ex t merged rex :
  batch_extract ct o e stripped gt ex = Ok (merged, rex) ->
  exists rex', batch_extract ct (with_tag o t) e stripped gt ex = Ok (merged, rex') \/
               (exists err, mapM (vrle2re false (o_full_escape o) e stripped t) merged = Err err).
Proof.
  unfold batch_extract.
  change (mapM (refine_vrle ct (with_tag o t) e stripped gt (ex_strings ex) (map (rle_coarse ct e) (ex_strings ex))))
    with (mapM (refine_vrle ct o e stripped gt (ex_strings ex) (map (rle_coarse ct e) (ex_strings ex)))).
  destruct (mapM _ (to_vrles _)) as [refined|err] eqn:Eref; cbn [bind]; [|discriminate].
  set (m := match refined with [_] => refined | _ => isort len_leb refined end).
  destruct (mapM (vrle2re false (o_full_escape o) e stripped (o_tag o)) m) as [rx|err] eqn:Erx; cbn [bind]; [|discriminate].
  intro H. inversion H; subst merged rex. clear H. cbn [o_tag o_full_escape with_tag].
  destruct (mapM (vrle2re false (o_full_escape o) e stripped t) m) as [rx'|err'] eqn:Erx'; cbn [bind].
  - exists rx'. left. reflexivity.
  - exists []. right. exists err'. reflexivity.
Qed.

(* a tagged fragment is the untagged one inside capture_group (fixed fragments are never wrapped) *)
Theorem fragment_tag_only_wraps out full e f r :
  fragment2re out full e false f = Ok r ->
  fragment2re out full e true f = Ok (if f_fixed f then r else capture_group r).
Proof.
  unfold fragment2re. destruct (atom_text out full e (f_atom f)) as [regex|err]; cbn [bind]; [|discriminate].
  intro H. inversion H. destruct (f_fixed f); reflexivity.
Qed.

(* ------------------------------------------------------------------ find_non_matches *)
Lemma first_matching_go_some mt rs : forall s j k,
  (fix go (rs : list str) (j : nat) : res (option nat) :=
     match rs with
     | [] => Ok None
     | r :: rs' => match lookup_match mt r s with
                   | None => Err E_NO_MATCH
                   | Some true => Ok (Some j)
                   | Some false => go rs' (S j)
                   end
     end) rs j = Ok (Some k) ->
  exists r, In r rs /\ lookup_match mt r s = Some true.
Proof.
  induction rs as [|r rs IH]; intros s j k H; [discriminate|].
  destruct (lookup_match mt r s) as [[|]|] eqn:E; [| |discriminate].
  - exists r. split; [left; reflexivity|exact E].
  - destruct (IH s (S j) k H) as [r' [Hin Hm]]. exists r'. split; [right; exact Hin|exact Hm].
Qed.

Lemma first_matching_some mt rexes s k : first_matching mt rexes s = Ok (Some k) ->
  exists r, In r rexes /\ lookup_match mt r s = Some true.
Proof. unfold first_matching. apply first_matching_go_some. Qed.

Lemma no_none_all_some {P} (f : P -> res (option nat)) pairs firsts :
  Forall2 (fun p o => f p = Ok o) pairs firsts ->
  map fst (filter (fun pf : P * option nat => match snd pf with None => true | Some _ => false end) (combine pairs firsts)) = [] ->
  forall p, In p pairs -> exists k, f p = Ok (Some k).
Proof.
  induction 1 as [|p o ps os Hpo _ IH]; intros Hnil q Hq; [destruct Hq|].
  cbn [combine filter snd] in Hnil. destruct o as [k|].
  - destruct Hq as [<-|Hq]; [exists k; exact Hpo|]. apply IH; assumption.
  - cbn [map] in Hnil. discriminate.
Qed.

Lemma in_combine_exists {A B} (l1 : list A) (l2 : list B) x : length l1 = length l2 -> In x l1 -> exists y, In (x, y) (combine l1 l2).
Proof.
  revert l2; induction l1 as [|a l1 IH]; intros l2 Hlen Hin; [destruct Hin|].
  destruct l2 as [|b l2]; [discriminate|]. destruct Hin as [->|Hin]; [exists b; left; reflexivity|].
  destruct (IH l2 ltac:(simpl in Hlen; lia) Hin) as [y Hy]. exists y. right. exact Hy.
Qed.

(* if find_non_matches reports no failure, every stored example is matched by some expression *)
Theorem find_non_matches_complete mt rexes all re_freqs :
  rexes <> [] -> length (ex_strings all) = length (ex_freqs all) ->
  find_non_matches mt rexes all = Ok ([], re_freqs) ->
  forall s, In s (ex_strings all) -> exists r, In r rexes /\ lookup_match mt r s = Some true.
Proof.
  intros Hne Hlen H s Hs. unfold find_non_matches in H.
  destruct rexes as [|r0 rexes0]; [congruence|].
  destruct (mapM _ (combine (ex_strings all) (ex_freqs all))) as [firsts|err] eqn:Ef; cbn [bind] in H; [|discriminate].
  injection H as Hfail _.
  destruct (in_combine_exists _ _ s Hlen Hs) as [f Hin].
  destruct (no_none_all_some _ _ _ (mapM_Forall2 _ _ _ Ef) Hfail (s, f) Hin) as [k Hk].
  cbn [fst] in Hk. eapply first_matching_some. exact Hk.
Qed.

(* ------------------------------------------------------------------ clean: what survives *)
Definition is_nil {T} (l : list T) : bool := match l with [] => true | _ => false end.

(* an item that clean keeps: non-null, non-zero count, not an empty string under remove_empties *)
Definition kept (ct : chartab) (o : ropts) (it : option str * Z) : bool :=
  match fst it with
  | None => false
  | Some s => negb (Z.eqb (snd it) 0) &&
              negb (o_remove_empties o && is_nil (if o_strip o then strip_ct ct s else s))
  end.

Lemma counter_add_nonempty s n strings freqs : fst (counter_add s n strings freqs) <> [].
Proof.
  revert freqs; induction strings as [|t strings IH]; intros freqs; cbn [counter_add]; [discriminate|].
  destruct freqs as [|f freqs]; [discriminate|].
  destruct (str_eqb s t); [discriminate|].
  destruct (counter_add s n strings freqs) as [ss fs]. discriminate.
Qed.

Definition clean_step (ct : chartab) (o : ropts) (st : list str * list Z * bool) (it : option str * Z) :=
  let '(strings, freqs, stripped) := st in
  match fst it with
  | None => st
  | Some s =>
    if Z.eqb (snd it) 0 then st else
    let t := if o_strip o then strip_ct ct s else s in
    if o_remove_empties o && (match t with [] => true | _ => false end) then st
    else let '(ss, fs) := counter_add t (snd it) strings freqs in
         (ss, fs, stripped || negb (Nat.eqb (List.length t) (List.length s)))
  end.

Lemma clean_unfold ct o items :
  clean ct o items =
  let '(strings, freqs, stripped) := fold_left (clean_step ct o) items ([], [], false) in
  ({| ex_strings := strings; ex_freqs := freqs |}, stripped).
Proof. reflexivity. Qed.

Lemma clean_step_keeps_nonempty ct o st it : fst (fst st) <> [] -> fst (fst (clean_step ct o st it)) <> [].
Proof.
  destruct st as [[strings freqs] stripped]. cbn [fst]. intro H. unfold clean_step.
  destruct (fst it) as [s|]; [|exact H].
  destruct (Z.eqb (snd it) 0); [exact H|]. cbv zeta.
  destruct (o_remove_empties o && _); [exact H|].
  pose proof (counter_add_nonempty (if o_strip o then strip_ct ct s else s) (snd it) strings freqs) as Hc.
  destruct (counter_add _ _ strings freqs) as [ss fs]. exact Hc.
Qed.

Lemma fold_clean_nonempty ct o items : forall st, fst (fst st) <> [] ->
  fst (fst (fold_left (clean_step ct o) items st)) <> [].
Proof.
  induction items as [|it items IH]; intros st H; [exact H|]. cbn [fold_left]. apply IH.
  apply clean_step_keeps_nonempty. exact H.
Qed.

Lemma clean_step_kept ct o st it : kept ct o it = true -> fst (fst (clean_step ct o st it)) <> [].
Proof.
  destruct st as [[strings freqs] stripped]. unfold kept, clean_step.
  destruct (fst it) as [s|]; [|discriminate]. intro H. apply andb_true_iff in H as [H1 H2].
  apply negb_true_iff in H1. rewrite H1.
  apply negb_true_iff in H2. unfold is_nil in H2. cbv zeta.
  set (t := if o_strip o then strip_ct ct s else s).
  change (o_remove_empties o && match t with [] => true | _ :: _ => false end = false) in H2. clearbody t.
  destruct (o_remove_empties o); destruct t as [|c t]; cbn [andb] in *; try (exfalso; congruence);
    match goal with |- context [counter_add ?a ?b ?c ?d] =>
      pose proof (counter_add_nonempty a b c d) as Hc; destruct (counter_add a b c d) as [ss fs]; exact Hc end.
Qed.

(* if clean returns no strings, it kept none of its items *)
Lemma clean_empty_none_kept ct o items :
  ex_strings (fst (clean ct o items)) = [] -> forall it, In it items -> kept ct o it = false.
Proof.
  rewrite clean_unfold. intros H it Hin. destruct (kept ct o it) eqn:Ek; [|reflexivity]. exfalso.
  apply in_split in Hin as [l1 [l2 ->]]. rewrite fold_left_app in H. cbn [fold_left] in H.
  pose proof (fold_clean_nonempty ct o l2 (clean_step ct o (fold_left (clean_step ct o) l1 ([], [], false)) it)
                (clean_step_kept ct o _ it Ek)) as Hne.
  destruct (fold_left (clean_step ct o) l2 _) as [[strings freqs] stripped]. cbn [fst ex_strings] in *. contradiction.
Qed.

(* ------------------------------------------------------------------ sampling *)
Definition ne_samples (samples : list (list nat)) : Prop := Forall (fun idx : list nat => idx <> []) samples.

(* sampling never returns an empty selection when the generator's selections are non-empty
   (random.sample(z, k) with k >= 1) *)
Lemma take_sample_nonempty {T} samples (z : list T) picked rest :
  ne_samples samples -> take_sample samples z = Ok (picked, rest) -> picked <> [] /\ ne_samples rest.
Proof.
  intros HF H. unfold take_sample in H. destruct samples as [|idx samples]; [discriminate|].
  inversion HF as [|? ? Hidx HF']; subst.
  destruct (mapM _ idx) as [p|err] eqn:Em; cbn [bind] in H; [|discriminate]. inversion H; subst.
  split; [|exact HF']. apply mapM_length in Em. destruct picked; [destruct idx; [congruence|discriminate]|discriminate].
Qed.

Lemma take_sample_sub {T} samples (z : list T) picked rest : take_sample samples z = Ok (picked, rest) -> incl picked z.
Proof.
  unfold take_sample. destruct samples as [|idx samples]; [discriminate|].
  destruct (mapM _ idx) as [p|err] eqn:Em; cbn [bind]; [|discriminate]. intro H. inversion H; subst.
  intros x Hx. destruct (mapM_In _ _ _ _ Em Hx) as [i [_ Hi]]. destruct (nth_error z i) eqn:En; [|discriminate].
  inversion Hi; subst. eapply nth_error_In. exact En.
Qed.

Lemma find_non_matches_failures_sub mt rexes all failures rf :
  find_non_matches mt rexes all = Ok (failures, rf) -> incl failures (combine (ex_strings all) (ex_freqs all)).
Proof.
  unfold find_non_matches. destruct rexes as [|r0 rs].
  - intro H. inversion H. apply incl_refl.
  - destruct (mapM _ _) as [firsts|err]; cbn [bind]; [|discriminate]. intro H. inversion H; subst.
    intros p Hp. apply in_map_iff in Hp as [[p' o'] [<- Hp]]. apply filter_In in Hp as [Hp _].
    apply in_combine_l in Hp. exact Hp.
Qed.

Lemma sample_non_matches_incl o mt samples rexes all maxN fails rf smp' :
  sample_non_matches o mt samples rexes all maxN = Ok (fails, rf, smp') ->
  incl fails (combine (ex_strings all) (ex_freqs all)).
Proof.
  unfold sample_non_matches.
  destruct (find_non_matches mt rexes all) as [[failures rf0]|err] eqn:Ef; cbn [bind]; [|discriminate].
  pose proof (find_non_matches_failures_sub _ _ _ _ _ Ef) as Hsub.
  destruct maxN as [mx|]; [|intro H; injection H as <- _ _; exact Hsub].
  destruct (Z.ltb mx _ && Z.ltb _ _); [|intro H; injection H as <- _ _; exact Hsub].
  destruct (take_sample samples failures) as [[picked rest]|err] eqn:Et; cbn [bind]; [|discriminate].
  cbn [fst snd]. intro H. injection H as <- _ _. eapply incl_tran; [eapply take_sample_sub; exact Et|exact Hsub].
Qed.

(* the check: the failures it returns are stored examples; the remaining selections stay non-empty;
   and if the (possibly sampled) failures are empty, nothing failed at all *)
Lemma sample_non_matches_spec o mt samples rexes all maxN fails rf smp' :
  ne_samples samples ->
  sample_non_matches o mt samples rexes all maxN = Ok (fails, rf, smp') ->
  incl fails (combine (ex_strings all) (ex_freqs all)) /\ ne_samples smp' /\
  (fails = [] -> find_non_matches mt rexes all = Ok ([], rf)).
Proof.
  intros HF. unfold sample_non_matches.
  destruct (find_non_matches mt rexes all) as [[failures rf0]|err] eqn:Ef; cbn [bind]; [|discriminate].
  pose proof (find_non_matches_failures_sub _ _ _ _ _ Ef) as Hsub.
  assert (Hplain : Ok (failures, rf0, samples) = Ok (fails, rf, smp') ->
          incl fails (combine (ex_strings all) (ex_freqs all)) /\ ne_samples smp' /\
          (fails = [] -> Ok (failures, rf0) = Ok ([], rf))).
  { intro H. inversion H; subst. split; [exact Hsub|]. split; [exact HF|]. intros ->. reflexivity. }
  destruct maxN as [mx|]; [|exact Hplain].
  destruct (Z.ltb mx _ && Z.ltb _ _); [|exact Hplain].
  destruct (take_sample samples failures) as [[picked rest]|err] eqn:Et; cbn [bind]; [|discriminate].
  cbn [fst snd]. intro H. inversion H; subst.
  destruct (take_sample_nonempty _ _ _ _ HF Et) as [Hne Hrest].
  split; [eapply incl_tran; [eapply take_sample_sub; exact Et|exact Hsub]|]. split; [exact Hrest|].
  intro E. congruence.
Qed.

(* ------------------------------------------------------------------ the loop *)
(* what a loop result is: the expressions of some batch extraction together with the outcome of the
   check that was run on exactly those expressions *)
Definition checked_result (ct : chartab) (o : ropts) (e : str) (stripped : bool) (gt : groups_table) (mt : match_table)
           (all : examples) (r : list (list frag) * list str * list Z * list str) : Prop :=
  let '(merged, rex, re_freqs, lastfail) := r in
  exists ex0 smp smp' fails maxN,
    ne_samples smp /\
    batch_extract ct o e stripped gt ex0 = Ok (merged, rex) /\
    sample_non_matches o mt smp rex all maxN = Ok (fails, re_freqs, smp') /\
    lastfail = ex_strings (fst (clean ct o (map (fun sf => (Some (fst sf), snd sf)) fails))).

Lemma extract_loop_checked fuel ct o e stripped gt mt all : forall samples ex attempt r ex' smp' passes,
  ne_samples samples ->
  extract_loop fuel ct o e stripped gt mt all samples ex attempt = Ok (r, ex', smp', passes) ->
  checked_result ct o e stripped gt mt all r.
Proof.
  induction fuel as [|fuel IH]; intros samples ex attempt r ex' smp' passes HF H.
  - cbn [extract_loop] in H. discriminate.
  - cbn [extract_loop] in H.
    destruct (batch_extract ct o e stripped gt ex) as [[merged rex]|err] eqn:Eb; cbn [bind] in H; [|discriminate].
    set (maxN := if Z.ltb (z_max_sampled_attempts o) attempt then None else Some (z_do_all_exceptions o)) in *.
    destruct (sample_non_matches o mt samples rex all maxN) as [[[fails re_freqs] samples1]|err] eqn:Es; cbn [bind] in H; [|discriminate].
    destruct (sample_non_matches_spec _ _ _ _ _ _ _ _ _ HF Es) as (_ & HF1 & _).
    set (failex := fst (clean ct o (map (fun sf : str * Z => (Some (fst sf), snd sf)) fails))) in *.
    assert (Hnow : checked_result ct o e stripped gt mt all (merged, rex, re_freqs, ex_strings failex)).
    { exists ex, samples, samples1, fails, maxN. split; [exact HF|]. split; [exact Eb|]. split; [exact Es|reflexivity]. }
    destruct (ex_strings failex) as [|fs0 fsr] eqn:Efs.
    + injection H as <- _ _ _. exact Hnow.
    + rewrite <- Efs in *.
      destruct (filter _ (combine (ex_strings failex) (ex_freqs failex))) as [|fr0 frr] eqn:Efresh.
      * injection H as <- _ _ _. exact Hnow.
      * destruct (Z.leb _ _ || Z.ltb _ _).
        -- eapply IH; [exact HF1|exact H].
        -- destruct (take_sample samples1 (fr0 :: frr)) as [[pk rest]|err] eqn:Et; cbn [bind] in H; [|discriminate].
           destruct (take_sample_nonempty _ _ _ _ HF1 Et) as [_ HFr].
           eapply IH; [exact HFr|exact H].
Qed.

(* well-formed stored examples: every stored pair would be kept by clean *)
Definition wf_all (ct : chartab) (o : ropts) (all : examples) : Prop :=
  length (ex_strings all) = length (ex_freqs all) /\
  forall sf, In sf (combine (ex_strings all) (ex_freqs all)) -> kept ct o (Some (fst sf), snd sf) = true.

Lemma combine_nil_l {A B} (l1 : list A) (l2 : list B) : length l1 = length l2 -> combine l1 l2 = [] -> l1 = [].
Proof. destruct l1, l2; simpl; intros; try reflexivity; try discriminate. Qed.

(* the loop's guarantee: when the last check reported no failure, every stored example is matched
   (per the match oracle) by one of the expressions of the last batch extraction *)
Theorem loop_result_covers ct o e stripped gt mt all merged rex re_freqs :
  wf_all ct o all ->
  checked_result ct o e stripped gt mt all (merged, rex, re_freqs, []) ->
  forall s, In s (ex_strings all) -> exists r, In r rex /\ lookup_match mt r s = Some true.
Proof.
  intros [Hlen Hkept] (ex0 & smp & smp' & fails & maxN & HF & Hb & Hs & Hlast) s Hin.
  destruct (sample_non_matches_spec _ _ _ _ _ _ _ _ _ HF Hs) as (Hsub & _ & Hempty).
  assert (Hf : fails = []).
  { destruct fails as [|p fails]; [reflexivity|]. exfalso.
    symmetry in Hlast.
    assert (Hk2 : kept ct o (Some (fst p), snd p) = true) by (apply Hkept; apply Hsub; left; reflexivity).
    pose proof (clean_empty_none_kept ct o _ Hlast (Some (fst p), snd p) ltac:(left; reflexivity)) as Hk.
    congruence. }
  specialize (Hempty Hf).
  destruct rex as [|r0 rex0].
  - cbn [find_non_matches] in Hempty. injection Hempty as Hc _.
    rewrite (combine_nil_l _ _ Hlen Hc) in Hin. destruct Hin.
  - eapply find_non_matches_complete; [discriminate|exact Hlen|exact Hempty|exact Hin].
Qed.

(* ------------------------------------------------------------------ the whole run *)
Lemma map_nth_seq {T} (l : list T) d : map (fun i => nth i l d) (seq 0 (length l)) = l.
Proof.
  induction l as [|x l IH]; [reflexivity|]. cbn [length seq map nth]. f_equal.
  rewrite <- seq_shift, map_map. exact IH.
Qed.

Lemma filter_true {T} (f : T -> bool) l : (forall x, In x l -> f x = true) -> filter f l = l.
Proof.
  induction l as [|x l IH]; intro H; [reflexivity|]. cbn [filter]. rewrite (H x (or_introl eq_refl)).
  f_equal. apply IH. intros y Hy. apply H. right; exact Hy.
Qed.

Definition no_pruning (o : ropts) : Prop := o_max_patterns o = None /\ o_min_strings o <= 1.

Lemma find_bad_patterns_none o freqs : no_pruning o -> find_bad_patterns o freqs = [].
Proof.
  intros [H1 H2]. unfold find_bad_patterns. rewrite H1.
  destruct (Z.ltb_spec 1 (o_min_strings o)); [lia|reflexivity].
Qed.

(* C03 at the level of the loop: for every oracle (group splits, matches, non-empty sample selections),
   every option set without pruning, in the perl dialect: if the run ends with a check that reported no
   failure, every example that clean keeps is matched by one of the returned expressions *)
Theorem run_extractor_covers ct o gt mt samples items lo :
  run_extractor ct o gt mt samples items = Ok lo ->
  ne_samples samples -> 0 <= z_max_sampled_attempts o ->
  no_pruning o -> o_dialect_out o = false ->
  wf_all ct o (fst (clean ct o items)) ->
  lo_none lo = false -> lo_last_failures lo = [] ->
  forall s, In s (ex_strings (fst (clean ct o items))) ->
  exists r, In r (lo_rex lo) /\ lookup_match mt r s = Some true.
Proof.
  unfold run_extractor. intros H HF Hmsa Hnp Hperl.
  destruct (clean ct o items) as [all stripped]. cbn [fst]. intros Hwf.
  destruct (sample_non_matches o mt samples [] all (z_do_all o)) as [[[picked rf0] samples1]|err] eqn:Es; cbn [bind] in H; [|discriminate].
  destruct (sample_non_matches_spec _ _ _ _ _ _ _ _ _ HF Es) as (_ & HF1 & _).
  set (ex := fst (clean ct o (map (fun sf : str * Z => (Some (fst sf), snd sf)) picked))) in *.
  set (e := norm_extras (thin_extras (o_extra o) (ex_strings ex))) in *.
  destruct (ex_strings ex) as [|x0 xs] eqn:Eex.
  - inversion H; subst lo. cbn [lo_none]. discriminate.
  - destruct (extract_loop _ ct o e stripped gt mt all samples1 ex 1) as [r|err] eqn:El; cbn [bind] in H; [|discriminate].
    destruct r as [[[[[[merged rex] re_freqs] lastfail] ex'] samples2] passes].
    rewrite (find_bad_patterns_none o re_freqs Hnp) in H. cbn [mem_nat existsb negb] in H.
    rewrite filter_true in H by reflexivity. rewrite Hperl in H. cbn [bind] in H.
    inversion H; subst lo. cbn [lo_none lo_last_failures lo_rex]. intros _ Hlast s Hs. subst lastfail.
    rewrite map_nth_seq.
    eapply loop_result_covers; [exact Hwf| |exact Hs].
    eapply (extract_loop_checked _ ct o e stripped gt mt all samples1 ex 1); [exact HF1|exact El].
Qed.

(* ------------------------------------------------------------------ clean produces well-formed examples *)
Definition headed (ct : chartab) (s : str) : Prop := match s with [] => True | c :: _ => ct_space ct c = false end.

Lemma lstrip_headed ct s : headed ct (lstrip_ct ct s).
Proof. induction s as [|c s IH]; cbn [lstrip_ct]; [exact I|]. destruct (ct_space ct c) eqn:E; [exact IH|exact E]. Qed.

Lemma lstrip_of_headed ct s : headed ct s -> lstrip_ct ct s = s.
Proof. destruct s as [|c s]; [reflexivity|]. cbn [headed lstrip_ct]. intros ->. reflexivity. Qed.

Lemma lstrip_suffix ct s : exists p, s = p ++ lstrip_ct ct s.
Proof.
  induction s as [|c s [p IH]]; [exists []; reflexivity|]. cbn [lstrip_ct].
  destruct (ct_space ct c); [exists (c :: p); cbn; f_equal; exact IH|exists []; reflexivity].
Qed.

(* the last character of an lstrip-ed reversal: rstrip keeps the head of a headed string *)
Lemma headed_rev_lstrip_rev ct s : headed ct s -> headed ct (rev (lstrip_ct ct (rev s))).
Proof.
  intro Hh. destruct s as [|c s]; [exact I|]. cbn [headed] in Hh.
  destruct (lstrip_suffix ct (rev (c :: s))) as [p Hp].
  remember (lstrip_ct ct (rev (c :: s))) as t eqn:Et.
  assert (Hrev : c :: s = rev t ++ rev p).
  { rewrite <- rev_app_distr, <- Hp, rev_involutive. reflexivity. }
  destruct (rev t) as [|d t'] eqn:Ert.
  - exact I.
  - cbn [app] in Hrev. inversion Hrev; subst d. exact Hh.
Qed.

Lemma strip_idem ct s : strip_ct ct (strip_ct ct s) = strip_ct ct s.
Proof.
  unfold strip_ct. set (a := lstrip_ct ct s). set (b := rev (lstrip_ct ct (rev a))).
  assert (Hb : headed ct b) by (apply headed_rev_lstrip_rev; apply lstrip_headed).
  rewrite (lstrip_of_headed ct b Hb). subst b. rewrite rev_involutive.
  rewrite (lstrip_of_headed ct _ (lstrip_headed ct (rev a))). reflexivity.
Qed.

(* invariant of clean's fold: equal lengths, positive counts, and every stored string in final form *)
Definition final_form (ct : chartab) (o : ropts) (t : str) : Prop :=
  (if o_strip o then strip_ct ct t else t) = t /\ (o_remove_empties o = true -> t <> []).

Definition store_ok (ct : chartab) (o : ropts) (strings : list str) (freqs : list Z) : Prop :=
  length strings = length freqs /\
  forall t f, In (t, f) (combine strings freqs) -> 0 < f /\ final_form ct o t.

Lemma counter_add_ok ct o t n strings freqs :
  store_ok ct o strings freqs -> 0 < n -> final_form ct o t ->
  store_ok ct o (fst (counter_add t n strings freqs)) (snd (counter_add t n strings freqs)).
Proof.
  revert freqs; induction strings as [|u strings IH]; intros freqs [Hlen Hall] Hn Hf.
  - cbn [counter_add]. split; [reflexivity|]. intros t' f' [E|[]]. injection E as <- <-. split; assumption.
  - destruct freqs as [|f freqs]; [discriminate|]. cbn [counter_add].
    destruct (str_eqb t u) eqn:E.
    + cbn [fst snd]. split; [exact Hlen|]. intros t' f' [E'|Hin].
      * injection E' as <- <-. destruct (Hall u f (or_introl eq_refl)) as [Hpos Hff]. split; [lia|exact Hff].
      * apply Hall. right. exact Hin.
    + assert (Hrest : store_ok ct o strings freqs).
      { split; [simpl in Hlen; lia|]. intros t' f' Hin. apply Hall. right. exact Hin. }
      specialize (IH freqs Hrest Hn Hf).
      destruct (counter_add t n strings freqs) as [ss fs]. cbn [fst snd] in *. destruct IH as [IHlen IHall].
      split; [simpl; lia|]. intros t' f' [E'|Hin]; [injection E' as <- <-; apply Hall; left; reflexivity|apply IHall; exact Hin].
Qed.

Lemma clean_step_ok ct o st it :
  (0 <= snd it) -> store_ok ct o (fst (fst st)) (snd (fst st)) ->
  store_ok ct o (fst (fst (clean_step ct o st it))) (snd (fst (clean_step ct o st it))).
Proof.
  destruct st as [[strings freqs] stripped]. cbn [fst snd]. intros Hnn Hok. unfold clean_step.
  destruct (fst it) as [s|]; [|exact Hok].
  destruct (Z.eqb_spec (snd it) 0); [exact Hok|].
  set (t := if o_strip o then strip_ct ct s else s).
  destruct (o_remove_empties o && match t with [] => true | _ => false end) eqn:Erm; [exact Hok|].
  assert (Hf : final_form ct o t).
  { split.
    - subst t. destruct (o_strip o); [apply strip_idem|reflexivity].
    - intros Hr Ht. rewrite Hr, Ht in Erm. discriminate. }
  pose proof (counter_add_ok ct o t (snd it) strings freqs Hok ltac:(lia) Hf) as H.
  destruct (counter_add t (snd it) strings freqs) as [ss fs]. exact H.
Qed.

(* clean yields well-formed stored examples whenever no frequency is negative *)
Theorem clean_wf ct o items : (forall it, In it items -> 0 <= snd it) -> wf_all ct o (fst (clean ct o items)).
Proof.
  intro Hnn. rewrite clean_unfold.
  assert (H : forall st, store_ok ct o (fst (fst st)) (snd (fst st)) ->
              store_ok ct o (fst (fst (fold_left (clean_step ct o) items st))) (snd (fst (fold_left (clean_step ct o) items st)))).
  { induction items as [|it items IH]; intros st Hst; [exact Hst|]. cbn [fold_left].
    apply IH; [intros it' Hin; apply Hnn; right; exact Hin|].
    apply clean_step_ok; [apply Hnn; left; reflexivity|exact Hst]. }
  specialize (H ([], [], false) ltac:(split; [reflexivity|intros t f []])).
  destruct (fold_left (clean_step ct o) items ([], [], false)) as [[strings freqs] stripped]. cbn [fst snd ex_strings ex_freqs] in *.
  destruct H as [Hlen Hall]. split; [exact Hlen|].
  intros [t f] Hin. destruct (Hall t f Hin) as [Hpos [Hform Hne]]. unfold kept. cbn [fst snd].
  apply andb_true_iff. split.
  - apply negb_true_iff. apply Z.eqb_neq. lia.
  - apply negb_true_iff.
    match goal with |- context [is_nil ?x] => replace x with t by (symmetry; exact Hform) end.
    destruct (o_remove_empties o) eqn:Er; [|reflexivity].
    specialize (Hne eq_refl). destruct t; [congruence|reflexivity].
Qed.

(* hence the full statement, with the hypothesis on the input rather than on clean's output *)
Theorem run_extractor_covers_input ct o gt mt samples items lo :
  run_extractor ct o gt mt samples items = Ok lo ->
  (forall it, In it items -> 0 <= snd it) ->
  ne_samples samples -> 0 <= z_max_sampled_attempts o ->
  no_pruning o -> o_dialect_out o = false ->
  lo_none lo = false -> lo_last_failures lo = [] ->
  forall s, In s (ex_strings (fst (clean ct o items))) ->
  exists r, In r (lo_rex lo) /\ lookup_match mt r s = Some true.
Proof.
  intros H Hnn HF Hm Hnp Hd. eapply run_extractor_covers; try eassumption. apply clean_wf. exact Hnn.
Qed.

(* ------------------------------------------------------------------ counting and anchoring for the run *)
Lemma extract_loop_shape fuel ct o e stripped gt mt all : forall samples ex attempt merged rex rf lf ex' smp' passes,
  extract_loop fuel ct o e stripped gt mt all samples ex attempt = Ok (merged, rex, rf, lf, ex', smp', passes) ->
  length rex = length merged /\ (length merged <= length (ex_strings ex'))%nat /\ Forall anchored rex.
Proof.
  induction fuel as [|fuel IH]; intros samples ex attempt merged rex rf lf ex' smp' passes H.
  - cbn [extract_loop] in H. discriminate.
  - cbn [extract_loop] in H.
    destruct (batch_extract ct o e stripped gt ex) as [[m1 r1]|err] eqn:Eb; cbn [bind] in H; [|discriminate].
    pose proof (batch_extract_shape _ _ _ _ _ _ _ _ Eb) as (Hl1 & Hl2 & Ha).
    destruct (sample_non_matches _ _ _ _ _ _) as [[[fails re_freqs] samples1]|err]; cbn [bind] in H; [|discriminate].
    set (failex := fst (clean ct o (map (fun sf : str * Z => (Some (fst sf), snd sf)) fails))) in *.
    destruct (ex_strings failex) as [|fs0 fsr] eqn:Efs.
    + inversion H; subst. repeat split; assumption.
    + rewrite <- Efs in *.
      destruct (filter _ (combine (ex_strings failex) (ex_freqs failex))) as [|fr0 frr] eqn:Efresh.
      * inversion H; subst. repeat split; assumption.
      * destruct (Z.leb _ _ || Z.ltb _ _).
        -- eapply IH; exact H.
        -- destruct (take_sample samples1 (fr0 :: frr)) as [ps|err]; cbn [bind] in H; [|discriminate].
           eapply IH; exact H.
Qed.

(* C13: every returned expression is anchored, and there are never more expressions than working examples
   (distinct strings); an input with nothing to keep returns nothing *)
Theorem run_extractor_shape ct o gt mt samples items lo :
  run_extractor ct o gt mt samples items = Ok lo ->
  Forall anchored (lo_rex lo) /\
  (length (lo_rex lo) <= length (ex_strings (lo_examples lo)))%nat /\
  (ex_strings (fst (clean ct o items)) = [] -> lo_rex lo = [] /\ lo_none lo = true).
Proof.
  unfold run_extractor. intro H.
  destruct (clean ct o items) as [all stripped] eqn:Ec. cbn [fst].
  destruct (sample_non_matches o mt samples [] all (z_do_all o)) as [[[picked rf0] samples1]|err] eqn:Es; cbn [bind] in H; [|discriminate].
  set (ex := fst (clean ct o (map (fun sf : str * Z => (Some (fst sf), snd sf)) picked))) in *.
  set (e := norm_extras (thin_extras (o_extra o) (ex_strings ex))) in *.
  destruct (ex_strings ex) as [|x0 xs] eqn:Eex.
  - inversion H; subst lo. cbn. repeat split; try constructor; try lia; reflexivity.
  - destruct (extract_loop _ ct o e stripped gt mt all samples1 ex 1) as [r|err] eqn:El; cbn [bind] in H; [|discriminate].
    destruct r as [[[[[[merged rex] re_freqs] lastfail] ex'] samples2] passes].
    eapply extract_loop_shape in El as (Hl1 & Hl2 & Ha).
    set (keep := filter _ (seq 0 (length rex))) in *.
    assert (Hkeep : (length keep <= length rex)%nat).
    { subst keep. etransitivity; [apply filter_length_le|]. rewrite seq_length. lia. }
    assert (Hempty : ex_strings all = [] -> False).
    { intro Hall. pose proof (sample_non_matches_incl _ _ _ _ _ _ _ _ _ Es) as Hi. rewrite Hall in Hi. cbn [combine] in Hi.
      destruct picked as [|x pk]; [|destruct (Hi x (or_introl eq_refl))].
      subst ex. cbn in Eex. discriminate. }
    destruct (o_dialect_out o).
    + destruct (mapM _ _) as [final|err] eqn:Ef; cbn [bind] in H; [|discriminate].
      inversion H; subst lo. cbn [lo_rex lo_examples lo_none]. split; [|split].
      * apply Forall_forall. intros r Hr. destruct (mapM_In _ _ _ _ Ef Hr) as [fs [_ Hfs]]. eapply vrle2re_anchored. exact Hfs.
      * rewrite (mapM_length _ _ _ Ef), map_length. lia.
      * intro Hall. destruct (Hempty Hall).
    + cbn [bind] in H. inversion H; subst lo. cbn [lo_rex lo_examples lo_none]. split; [|split].
      * apply Forall_forall. intros r Hr. apply in_map_iff in Hr as [i [<- Hi]].
        subst keep. apply filter_In in Hi as [Hi _]. apply in_seq in Hi.
        rewrite Forall_forall in Ha. apply Ha. apply nth_In. lia.
      * rewrite map_length. lia.
      * intro Hall. destruct (Hempty Hall).
Qed.
