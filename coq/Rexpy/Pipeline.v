(* Executable model of rexpy's Extractor: clean, categories, coarse classification, run-length
   encoding, VRLEs, fragment refinement, rendering, and the sample / extract / check / extend loop.
   Library behaviour enters as explicit oracle tables recorded from the real run:
     - groups:  (tagged regex text, example) -> the capture-group strings re.match delivers
     - matches: (regex text, example) -> whether re.match succeeds
     - samples: the index lists chosen by successive random.sample calls. *)
From Coq Require Import ZArith List Bool Ascii String.
From Tdda Require Import Base.Sexp Base.Str Base.Sort Generated.Consts Rexpy.Chars.
Import ListNotations.
Open Scope Z_scope.

(* ------------------------------------------------------------------ results with error codes *)
Inductive res (A : Type) := Ok (a : A) | Err (e : Z).
Arguments Ok {A} a. Arguments Err {A} e.
Definition bind {A B} (r : res A) (f : A -> res B) : res B :=
  match r with Ok a => f a | Err e => Err e end.
Notation "'do' x <- r ; k" := (bind r (fun x => k)) (at level 200, x pattern, r at level 100, k at level 200).

Fixpoint mapM {A B} (f : A -> res B) (l : list A) : res (list B) :=
  match l with
  | [] => Ok []
  | x :: l' => do y <- f x; do ys <- mapM f l'; Ok (y :: ys)
  end.

(* error codes *)
Definition E_NO_GROUPS : Z := 1.      (* group oracle has no entry for (regex, example) *)
Definition E_NO_MATCH : Z := 2.       (* match oracle has no entry *)
Definition E_NO_SAMPLE : Z := 3.      (* sample oracle exhausted / index out of range *)
Definition E_BAD_CODE : Z := 4.       (* Cats[c] KeyError *)
Definition E_GROUP_COUNT : Z := 5.    (* number of groups differs from the number of fragments *)
Definition E_FUEL : Z := 6.           (* the extraction loop did not end within the model's bound (never: PipelineProofs.run_extractor_fuel) *)

(* ------------------------------------------------------------------ options *)
Record ropts := {
  o_tag : bool;
  o_extra : str;                (* extra_letters as given ('' = none) *)
  o_full_escape : bool;
  o_remove_empties : bool;
  o_strip : bool;
  o_vlf : bool;                 (* variableLengthFrags *)
  o_max_patterns : option Z;
  o_min_strings : Z;            (* min_strings_per_pattern *)
  o_dialect_out : bool;         (* portable / grep: final expressions re-rendered with OutCats; perl: not *)
  z_do_all : option Z;
  z_do_all_exceptions : Z;
  z_max_sampled_attempts : Z;
  z_max_punc_in_group : Z;
  z_max_strings_in_group : Z }.

(* ------------------------------------------------------------------ category codes *)
Definition cA : Z := 65.  Definition ca : Z := 97.  Definition cL : Z := 76.  Definition cUL : Z := 7736.
Definition cB : Z := 66.  Definition cb : Z := 98.  Definition cM : Z := 77.  Definition cUM : Z := 7746.
Definition cD : Z := 68.  Definition ch : Z := 104. Definition cH : Z := 72.  Definition cX : Z := 88.
Definition cN : Z := 78.  Definition cn : Z := 110. Definition cC : Z := 67.  Definition cUC : Z := gen_rexpy_unic.
Definition cWS : Z := 32. Definition cP : Z := gen_rexpy_code_punc. Definition cO : Z := 42.
Definition cAny : Z := gen_rexpy_code_any.

(* Categories.__init__: normalised extra letters ('_.-' order, '-' last) *)
Definition norm_extras (e : str) : str := filter (fun c => memc c e) [95; 46; 45].
Definition has_us (e : str) : bool := memc 95 e.
Definition el_inc (e : str) : str := filter (fun c => negb (Z.eqb c 95)) e.
Definition el_exc (e : str) : str := if has_us e then [] else [95].

(* Extractor.thin_extras *)
Definition thin_extras (e : str) (strings : list str) : str :=
  match e with
  | [] | [_] => e
  | _ => filter (fun L => existsb (fun s => memc L s) strings) e
  end.

(* the set of characters each category's regular expression matches (e = normalised extras) *)
Definition punct_sem (e : str) (c : Z) : bool :=
  between 33 126 c && negb (is_upper c || is_lower c || is_09 c) && negb (memc c e).

Definition cat_sem (ct : chartab) (out : bool) (e : str) (code c : Z) : bool :=
  if Z.eqb code cA then is_upper c
  else if Z.eqb code ca then is_lower c
  else if Z.eqb code cL then is_upper c || is_lower c
  else if Z.eqb code cUL then is_word ct c && negb (is_09 c) && negb (Z.eqb c 95)
  else if Z.eqb code cB then is_upper c || memc c e
  else if Z.eqb code cb then is_lower c || memc c e
  else if Z.eqb code cM then is_upper c || is_lower c || memc c e
  else if Z.eqb code cUM then
    match e with
    | [] => is_word ct c && negb (is_09 c) && negb (Z.eqb c 95)
    | _ => (is_word ct c && negb (is_09 c) && negb (memc c (el_exc e))) || memc c (el_inc e)
    end
  else if Z.eqb code cD then (if out then is_09 c else ct_decimal ct c)
  else if Z.eqb code ch then is_09 c || between 97 102 c
  else if Z.eqb code cH then is_09 c || between 65 70 c
  else if Z.eqb code cX then is_09 c || between 97 102 c || between 65 70 c
  else if Z.eqb code cN then is_upper c || is_09 c || memc c e
  else if Z.eqb code cn then is_lower c || is_09 c || memc c e
  else if Z.eqb code cC then is_upper c || is_lower c || is_09 c || memc c e
  else if Z.eqb code cUC then (is_word ct c && negb (memc c (el_exc e))) || memc c (el_inc e)
  else if Z.eqb code cWS then ct_space ct c
  else if Z.eqb code cP then punct_sem e c
  else if Z.eqb code cO then negb (between 33 126 c) && negb (ct_space ct c)
  else if Z.eqb code cAny then true
  else false.

(* the regular-expression text of each category: literal ones come from the generated table *)
Definition lookup_cat (code : Z) (kind : str) : option str :=
  match List.find (fun r => Z.eqb (snd (fst (fst r))) code && str_eqb (snd (fst r)) kind) gen_rexpy_categories with
  | Some r => Some (snd r)
  | None => None
  end.

Definition fmt_el (template e : str) : str := replace (s2l "%s") e template.

Definition u_alnum_re (e : str) (digits : bool) : str :=
  let r := s2l "[^\W" ++ (if digits then [] else s2l "0-9") ++ escaped_bracket true (el_exc e) ++ [93] in
  let inc := el_inc e in
  let i := if Nat.eqb (List.length inc) 2 then escaped_bracket false inc else escape false inc in
  match inc with [] => r | _ => [40] ++ r ++ [124] ++ i ++ [41] end.

Definition punct_chars (e : str) : str := filter (punct_sem e) (map Z.of_nat (seq 32 95)).

Definition cat_re (out : bool) (e : str) (code : Z) : option str :=
  if Z.eqb code cUC then Some (u_alnum_re e true)
  else if Z.eqb code cP then Some (escaped_bracket false (punct_chars e))
  else if Z.eqb code cUM then
    match e with
    | [] => Some (s2l "[^\W0-9_]")
    | [95] => Some (s2l "[^\W0-9]")
    | _ => Some (u_alnum_re e false)
    end
  else if Z.eqb code cD && out then Some (s2l "[0-9]")
  else if (Z.eqb code cB || Z.eqb code cb || Z.eqb code cM) && (match e with [] => true | _ => false end) then None
  else match lookup_cat code (s2l "lit") with
       | Some t => Some t
       | None => match lookup_cat code (s2l "fmt_el") with
                 | Some t => Some (fmt_el t e)
                 | None => None
                 end
       end.

(* ------------------------------------------------------------------ coarse classification, RLE *)
Definition coarse_char (ct : chartab) (e : str) (c : Z) : Z :=
  if cat_sem ct false e cUC c then cUC
  else if ct_space ct c then cWS
  else if punct_sem e c then cP
  else cO.

Fixpoint rle_aux (last n : Z) (s : str) : list (Z * Z) :=
  match s with
  | [] => [(last, n)]
  | c :: s' => if Z.eqb c last then rle_aux last (n + 1) s' else (last, n) :: rle_aux c 1 s'
  end.
Definition run_length_encode (s : str) : list (Z * Z) :=
  match s with [] => [] | c :: s' => rle_aux c 1 s' end.

Definition max_groups : Z := gen_rexpy_max_groups.
Definition rle_coarse (ct : chartab) (e : str) (s : str) : list (Z * Z) :=
  let rle := run_length_encode (map (coarse_char ct e) s) in
  if Z.leb (Z.of_nat (List.length rle)) max_groups then rle
  else run_length_encode (map (fun _ => cAny) s).

Definition signature (rle : list (Z * Z)) : str := map fst rle.

(* ------------------------------------------------------------------ VRLEs *)
Definition vfrag := (Z * Z * option Z)%type.     (* (category code, min, max or None) *)
Definition vf_code (v : vfrag) : Z := fst (fst v).
Definition vf_min (v : vfrag) : Z := snd (fst v).
Definition vf_max (v : vfrag) : option Z := snd v.

Fixpoint rle_eqb (a b : list (Z * Z)) : bool :=
  match a, b with
  | [], [] => true
  | (c, n) :: a', (d, m) :: b' => Z.eqb c d && Z.eqb n m && rle_eqb a' b'
  | _, _ => false
  end.

Fixpoint dedup_by {T} (eqb : T -> T -> bool) (l : list T) : list T :=
  match l with
  | [] => []
  | x :: l' => x :: filter (fun y => negb (eqb x y)) (dedup_by eqb l')
  end.

(* distinct signatures in first-occurrence order *)
Definition sigs_of (rles : list (list (Z * Z))) : list str := dedup_by str_eqb (map signature rles).

Fixpoint zmin_l (l : list Z) (d : Z) : Z := match l with [] => d | x :: r => Z.min x (zmin_l r x) end.
Fixpoint zmax_l (l : list Z) (d : Z) : Z := match l with [] => d | x :: r => Z.max x (zmax_l r x) end.
Definition list_min (l : list Z) : Z := match l with [] => 0 | x :: r => fold_left Z.min r x end.
Definition list_max (l : list Z) : Z := match l with [] => 0 | x :: r => fold_left Z.max r x end.

Definition max_vrle_range : Z := gen_rexpy_max_vrle_range.

Definition vrle_of_sig (rles : list (list (Z * Z))) (sig : str) : list vfrag :=
  let group := filter (fun r => str_eqb (signature r) sig) rles in
  map (fun i => let counts := map (fun r => snd (nth i r (0, 0))) group in
                let m := list_min counts in let M := list_max counts in
                let cat := nth i sig 0 in
                if Z.leb (M - m) max_vrle_range then (cat, m, Some M) else (cat, 1, None))
      (seq 0 (List.length sig)).

(* none_to_m1 key order: tuples of (cat, m, M or -1), compared lexicographically *)
Definition vf_key (v : vfrag) : Z * Z * Z := (vf_code v, vf_min v, match vf_max v with Some M => M | None => -1 end).
Definition key_cmp (a b : Z * Z * Z) : comparison :=
  match Z.compare (fst (fst a)) (fst (fst b)) with
  | Eq => match Z.compare (snd (fst a)) (snd (fst b)) with
          | Eq => Z.compare (snd a) (snd b)
          | c => c
          end
  | c => c
  end.
Fixpoint vrle_leb (a b : list vfrag) : bool :=
  match a, b with
  | [], _ => true
  | _ :: _, [] => false
  | x :: a', y :: b' => match key_cmp (vf_key x) (vf_key y) with
                        | Lt => true
                        | Gt => false
                        | Eq => vrle_leb a' b'
                        end
  end.

Definition to_vrles (rles : list (list (Z * Z))) : list (list vfrag) :=
  isort vrle_leb (map (vrle_of_sig rles) (sigs_of rles)).

(* ------------------------------------------------------------------ refined fragments, rendering *)
(* what a fragment repeats: an escaped literal string, a raw (unescaped) character, a category, or a
   bracket expression over a set of punctuation characters *)
Inductive atom := ALit (s : str) | ARaw (c : Z) | AClass (code : Z) | ABracket (chars : str).
Record frag := { f_atom : atom; f_min : Z; f_max : option Z }.
(* the 'fixed' label of rexpy's 4-tuples: everything but a category code *)
Definition f_fixed (f : frag) : bool := match f_atom f with AClass _ => false | _ => true end.

Definition capture_group (s : str) : str :=
  if startswith [40] s && endswith [41] s then s else [40] ++ s ++ [41].

Definition opt_Z_eqb (a : option Z) (b : Z) : bool := match a with Some x => Z.eqb x b | None => false end.

Definition quantify (regex : str) (m : Z) (M : option Z) : str :=
  match M with
  | None => if Z.eqb m 0 then regex ++ [42] else regex ++ [43]
  | Some M' =>
    if Z.eqb m M' then
      (if Z.eqb m 1 then regex
       else if Z.eqb m 2 && Nat.eqb (List.length regex) 1 then regex ++ regex
       else regex ++ [123] ++ dec_of_Z m ++ [125])
    else if Z.eqb m 0 && Z.eqb M' 1 then regex ++ [63]
    else regex ++ [123] ++ dec_of_Z m ++ [44] ++ dec_of_Z M' ++ [125]
  end.

(* the regular-expression text of an atom (c if fixed, else Cats[c].re_string) *)
Definition atom_text (out full : bool) (e : str) (a : atom) : res str :=
  match a with
  | ALit s => Ok (escape full s)
  | ARaw c => Ok [c]
  | AClass code => match cat_re out e code with Some r => Ok r | None => Err E_BAD_CODE end
  | ABracket chars => Ok (escaped_bracket false chars)
  end.

(* Extractor.fragment2re (as_re = True) *)
Definition fragment2re (out full : bool) (e : str) (tagged : bool) (f : frag) : res str :=
  do regex <- atom_text out full e (f_atom f);
  let part := quantify regex (f_min f) (f_max f) in
  Ok (if tagged && negb (f_fixed f) then capture_group part else part).

(* Extractor.vrle2re *)
Definition vrle2re (out full : bool) (e : str) (stripped : bool) (tagged : bool) (fs : list frag) : res str :=
  do parts <- mapM (fragment2re out full e tagged) fs;
  let ws := if stripped then s2l "\s*" else [] in
  Ok ([94] ++ ws ++ List.concat parts ++ ws ++ [36]).

Definition frag_of_vfrag (v : vfrag) : frag :=
  {| f_atom := AClass (vf_code v); f_min := vf_min v; f_max := vf_max v |}.

(* ------------------------------------------------------------------ analyse / refine *)
Inductive tri := TNone | TFalse | TSome (v : list (Z * Z * Z)).   (* (key, min, max) *)

Definition widen (r : Z * Z) (v : Z * Z * Z) : option (Z * Z * Z) :=
  let '(c, m, M) := v in
  let n := snd r in
  if Z.eqb (fst r) c then
    Some (if Z.leb m n && Z.leb n M then v else if Z.ltb n m then (c, n, M) else (c, m, n))
  else None.

Fixpoint widen_all (rle : list (Z * Z)) (vrle : list (Z * Z * Z)) : option (list (Z * Z * Z)) :=
  match rle, vrle with
  | r :: rle', v :: vrle' =>
    match widen r v with
    | Some x => match widen_all rle' vrle' with Some xs => Some (x :: xs) | None => None end
    | None => None
    end
  | _, _ => Some []
  end.

(* rexpy.expand_or_falsify_vrle ('fixed' only labels the entries: kept outside) *)
Definition expand_or_falsify (rle : list (Z * Z)) (t : tri) (vl : bool) : tri :=
  match t with
  | TFalse => TFalse
  | TNone => TSome (map (fun r => (fst r, snd r, snd r)) rle)
  | TSome vrle =>
    let lr := List.length rle in let lv := List.length vrle in
    if Nat.eqb lr lv then
      match widen_all rle vrle with Some out => TSome out | None => TFalse end
    else if negb vl then TFalse
    else
      let lc := Nat.min lr lv in
      match widen_all (firstn lc rle) (firstn lc vrle) with
      | None => TFalse
      | Some out =>
        if Nat.eqb lv lc then TSome (out ++ map (fun r => (fst r, 0, snd r)) (skipn lc rle))
        else TSome (out ++ map (fun v => let '(c, _, M) := v in (c, 0, M)) (skipn lc vrle))
      end
  end.

(* Extractor.fine_class *)
Definition fine_class (ct : chartab) (e : str) (c : Z) : Z :=
  if ct_decimal ct c then cD
  else if is_lower c then ca
  else if is_upper c then cA
  else if memc c e then cB
  else cUM.

Definition is_false (t : tri) : bool := match t with TFalse => true | _ => false end.

(* Extractor.rle_fc_c *)
Definition rle_fc_c (ct : chartab) (e : str) (vl : bool) (s : str) (code : Z) (fc_in c_in : tri) : tri * tri :=
  if negb (Z.eqb code cUC) || (is_false fc_in && is_false c_in) then (TFalse, TFalse)
  else (expand_or_falsify (run_length_encode (map (fine_class ct e) s)) fc_in vl,
        expand_or_falsify (run_length_encode s) c_in vl).

(* per-fragment accumulator of analyse_fragments *)
Record acc := { a_chars : str; a_strings : list str; a_n : Z; a_fc : tri; a_c : tri }.
Definition acc0 : acc := {| a_chars := []; a_strings := []; a_n := 0; a_fc := TNone; a_c := TNone |}.

Definition acc_step (ct : chartab) (e : str) (vl : bool) (cap : Z) (code : Z) (a : acc) (g : str) : acc :=
  let strings := if Z.leb (a_n a) cap then (if mem_str g (a_strings a) then a_strings a else a_strings a ++ [g])
                 else a_strings a in
  let n := if Z.leb (a_n a) cap then Z.of_nat (List.length strings) else a_n a in
  let '(fc, c) := rle_fc_c ct e vl g code (a_fc a) (a_c a) in
  {| a_chars := add_chars g (a_chars a); a_strings := strings; a_n := n; a_fc := fc; a_c := c |}.

Fixpoint zip_with {A B C} (f : A -> B -> C) (l1 : list A) (l2 : list B) : list C :=
  match l1, l2 with
  | x :: l1', y :: l2' => f x y :: zip_with f l1' l2'
  | _, _ => []
  end.

(* plusify_vrle *)
Definition plusify (fixed : bool) (v : Z * Z * Z) : frag :=
  let '(c, m, M) := v in
  {| f_atom := if fixed then ARaw c else AClass c; f_min := m;
     f_max := if Z.leb (M - m) max_vrle_range then Some M else None |}.

Definition general_order (e : str) : list Z :=
  match e with [] => gen_rexpy_general_order_plain | _ => gen_rexpy_general_order_extras end.

Definition tri_nonempty (t : tri) : option (list (Z * Z * Z)) :=
  match t with TSome (x :: l) => Some (x :: l) | _ => None end.

(* one fragment of refine_fragments: returns the output fragments and the new group count *)
(* the refinement of a fragment that is not one constant string *)
Definition refine_rest (ct : chartab) (max_punc : Z) (e : str) (n_groups : Z) (v : vfrag) (a : acc) : list frag * Z :=
  let c := vf_code v in
  let single m M at_ := ([{| f_atom := at_; f_min := m; f_max := M |}], n_groups) in
  let plain code := ([{| f_atom := AClass code; f_min := vf_min v; f_max := vf_max v |}], n_groups) in
  match a_chars a with
  | [ch1] => single (vf_min v) (vf_max v) (ALit [ch1])
  | _ =>
    if Z.eqb c cUC then
      match tri_nonempty (a_c a) with
      | Some rlec => (map (plusify true) rlec, n_groups)
      | None =>
        let general :=
          match List.find (fun code => forallb (cat_sem ct false e code) (a_chars a)) (general_order e) with
          | Some code => plain code
          | None => plain c
          end in
        match tri_nonempty (a_fc a) with
        | Some rlefc =>
          if Z.leb (n_groups + Z.of_nat (List.length rlefc) - 1) max_groups
          then (map (plusify false) rlefc, n_groups + Z.of_nat (List.length rlefc) - 1)
          else general
        | None => general
        end
      end
    else if Z.eqb c cP && Z.leb (Z.of_nat (List.length (a_chars a))) max_punc then
      single (vf_min v) (vf_max v) (ABracket (a_chars a))
    else plain c
  end.

Definition refine_one (ct : chartab) (max_punc : Z) (e : str) (n_groups : Z) (v : vfrag) (a : acc) : list frag * Z :=
  match a_strings a with
  | [s] => ([{| f_atom := ALit s; f_min := 1; f_max := Some 1 |}], n_groups)
  | _ => refine_rest ct max_punc e n_groups v a
  end.

Fixpoint refine_all (ct : chartab) (max_punc : Z) (e : str) (n_groups : Z) (vs : list vfrag) (accs : list acc) : list frag :=
  match vs, accs with
  | v :: vs', a :: accs' =>
    let '(fs, n') := refine_one ct max_punc e n_groups v a in fs ++ refine_all ct max_punc e n' vs' accs'
  | _, _ => []
  end.

(* ------------------------------------------------------------------ oracle tables *)
Definition groups_table := list (str * str * list str).
Definition match_table := list (str * str * bool).

Definition lookup_groups (t : groups_table) (regex ex : str) : option (list str) :=
  match List.find (fun r => str_eqb (fst (fst r)) regex && str_eqb (snd (fst r)) ex) t with
  | Some r => Some (snd r) | None => None end.
Definition lookup_match (t : match_table) (regex ex : str) : option bool :=
  match List.find (fun r => str_eqb (fst (fst r)) regex && str_eqb (snd (fst r)) ex) t with
  | Some r => Some (snd r) | None => None end.

(* ------------------------------------------------------------------ batch_extract *)
Record examples := { ex_strings : list str; ex_freqs : list Z }.

Definition refine_vrle (ct : chartab) (o : ropts) (e : str) (stripped : bool) (gt : groups_table)
           (strings : list str) (rles : list (list (Z * Z))) (vrle : list vfrag) : res (list frag) :=
  do regex <- vrle2re false (o_full_escape o) e stripped true (map frag_of_vfrag vrle);
  let sig := map vf_code vrle in
  let mine := map fst (filter (fun sr => str_eqb (signature (snd sr)) sig) (combine strings rles)) in
  do groups <- mapM (fun ex => match lookup_groups gt regex ex with
                               | Some gs => if Nat.eqb (List.length gs) (List.length vrle) then Ok gs else Err E_GROUP_COUNT
                               | None => Err E_NO_GROUPS
                               end) mine;
  let step accs gs := zip_with (fun va g => acc_step ct e (o_vlf o) (z_max_strings_in_group o) (vf_code (fst va)) (snd va) g)
                               (combine vrle accs) gs in
  let accs := fold_left step groups (map (fun _ => acc0) vrle) in
  Ok (refine_all ct (z_max_punc_in_group o) e (Z.of_nat (List.length vrle)) vrle accs).

Definition len_leb {T} (a b : list T) : bool := Nat.leb (List.length a) (List.length b).

(* returns the refined patterns (merged order) and their expressions *)
Definition batch_extract (ct : chartab) (o : ropts) (e : str) (stripped : bool) (gt : groups_table)
           (ex : examples) : res (list (list frag) * list str) :=
  let strings := ex_strings ex in
  let rles := map (rle_coarse ct e) strings in
  let vrles := to_vrles (dedup_by rle_eqb rles) in
  do refined <- mapM (refine_vrle ct o e stripped gt strings rles) vrles;
  let merged := match refined with [_] => refined | _ => isort len_leb refined end in
  do rex <- mapM (vrle2re false (o_full_escape o) e stripped (o_tag o)) merged;
  Ok (merged, rex).

(* ------------------------------------------------------------------ clean *)
Fixpoint counter_add (s : str) (n : Z) (strings : list str) (freqs : list Z) : list str * list Z :=
  match strings, freqs with
  | t :: strings', f :: freqs' =>
    if str_eqb s t then (strings, (f + n) :: freqs')
    else let '(ss, fs) := counter_add s n strings' freqs' in (t :: ss, f :: fs)
  | _, _ => ([s], [n])
  end.

(* Extractor.clean: items are (string or None, frequency); returns the examples and whether any
   kept string had to be stripped *)
Definition clean (ct : chartab) (o : ropts) (items : list (option str * Z)) : examples * bool :=
  let step (st : list str * list Z * bool) (it : option str * Z) :=
    let '(strings, freqs, stripped) := st in
    match fst it with
    | None => st
    | Some s =>
      if Z.eqb (snd it) 0 then st else
      let t := if o_strip o then strip_ct ct s else s in
      if o_remove_empties o && (match t with [] => true | _ => false end) then st
      else let '(ss, fs) := counter_add t (snd it) strings freqs in
           (ss, fs, stripped || negb (Nat.eqb (List.length t) (List.length s)))
    end in
  let '(strings, freqs, stripped) := fold_left step items ([], [], false) in
  ({| ex_strings := strings; ex_freqs := freqs |}, stripped).

Definition items_of (ex : examples) : list (option str * Z) :=
  map (fun sf => (Some (fst sf), snd sf)) (combine (ex_strings ex) (ex_freqs ex)).

(* ------------------------------------------------------------------ checking, sampling *)
(* Extractor.find_non_matches: failures (with frequencies) and the first-match frequencies *)
Definition first_matching (mt : match_table) (rexes : list str) (s : str) : res (option nat) :=
  (fix go (rs : list str) (j : nat) : res (option nat) :=
     match rs with
     | [] => Ok None
     | r :: rs' => match lookup_match mt r s with
                   | None => Err E_NO_MATCH
                   | Some true => Ok (Some j)
                   | Some false => go rs' (S j)
                   end
     end) rexes O.

Definition find_non_matches (mt : match_table) (rexes : list str) (all : examples)
  : res (list (str * Z) * list Z) :=
  let pairs := combine (ex_strings all) (ex_freqs all) in
  match rexes with
  | [] => Ok (pairs, [])
  | _ =>
    do firsts <- mapM (fun sf => first_matching mt rexes (fst sf)) pairs;
    let failures := map fst (filter (fun pf => match snd pf with None => true | Some _ => false end) (combine pairs firsts)) in
    let re_freqs := map (fun j => fold_right Z.add 0
                           (map (fun pf => match snd pf with
                                           | Some k => if Nat.eqb k j then snd (fst pf) else 0
                                           | None => 0 end) (combine pairs firsts)))
                        (seq 0 (List.length rexes)) in
    Ok (failures, re_freqs)
  end.

(* one random.sample(z, k): the oracle supplies the chosen indices *)
Definition take_sample {T} (samples : list (list nat)) (z : list T) : res (list T * list (list nat)) :=
  match samples with
  | [] => Err E_NO_SAMPLE
  | idx :: rest =>
    do picked <- mapM (fun i => match nth_error z i with Some x => Ok x | None => Err E_NO_SAMPLE end) idx;
    Ok (picked, rest)
  end.

(* Extractor.sample_non_matches *)
Definition sample_non_matches (o : ropts) (mt : match_table) (samples : list (list nat)) (rexes : list str)
           (all : examples) (maxN : option Z) : res (list (str * Z) * list Z * list (list nat)) :=
  do fr <- find_non_matches mt rexes all;
  let '(failures, re_freqs) := fr in
  let n := Z.of_nat (List.length failures) in
  match maxN with
  | Some mx =>
    if Z.ltb mx n && Z.ltb (z_do_all_exceptions o) n then
      do ps <- take_sample samples failures;
      Ok (fst ps, re_freqs, snd ps)
    else Ok (failures, re_freqs, samples)
  | None => Ok (failures, re_freqs, samples)
  end.

(* Extractor.find_bad_patterns: indices to delete *)
Definition neg_freq_leb (a b : nat * Z) : bool := Z.leb (snd b) (snd a).
Definition find_bad_patterns (o : ropts) (freqs : list Z) : list nat :=
  let n := List.length freqs in
  let by_rank := match o_max_patterns o with
                 | Some M => if Z.ltb M (Z.of_nat n)
                             then skipn (Z.to_nat M) (map fst (isort neg_freq_leb (combine (seq 0 n) freqs)))
                             else []
                 | None => []
                 end in
  let too_few := if Z.ltb 1 (o_min_strings o)
                 then map fst (filter (fun kv => Z.ltb (snd kv) (o_min_strings o)) (combine (seq 0 n) freqs))
                 else [] in
  by_rank ++ too_few.

Definition mem_nat (n : nat) (l : list nat) : bool := existsb (Nat.eqb n) l.

(* ------------------------------------------------------------------ the extraction loop *)
Record loop_out := {
  lo_rex : list str;              (* results.rex (None is represented by lo_none) *)
  lo_none : bool;
  lo_examples : examples;         (* self.examples afterwards *)
  lo_passes : Z;
  lo_samples_left : nat;
  lo_last_failures : list str }.  (* failures reported by the last check *)

(* Extractor.extract's `while True` loop: sampled attempts first, then unsampled passes until a check adds nothing.
   The fuel is the model's bound on the number of passes; running out is reported as E_FUEL, and
   PipelineProofs.run_extractor_fuel proves it cannot happen with the fuel run_extractor supplies. *)
Fixpoint extract_loop (fuel : nat) (ct : chartab) (o : ropts) (e : str) (stripped : bool)
         (gt : groups_table) (mt : match_table) (all : examples)
         (samples : list (list nat)) (ex : examples) (attempt : Z)
  : res (list (list frag) * list str * list Z * list str * examples * list (list nat) * Z) :=
  match fuel with
  | O => Err E_FUEL
  | S fuel' =>
    do br <- batch_extract ct o e stripped gt ex;
    let '(merged, rex) := br in
    let maxN := if Z.ltb (z_max_sampled_attempts o) attempt then None else Some (z_do_all_exceptions o) in
    do chk <- sample_non_matches o mt samples rex all maxN;
    let '(fails, re_freqs, samples1) := chk in
    let failex := fst (clean ct o (map (fun sf => (Some (fst sf), snd sf)) fails)) in
    let now := (merged, rex, re_freqs, ex_strings failex) in
    match ex_strings failex with
    | [] => Ok (now, ex, samples1, attempt)
    | _ =>
      let fresh := filter (fun sf => negb (mem_str (fst sf) (ex_strings ex)))
                          (combine (ex_strings failex) (ex_freqs failex)) in
      match fresh with
      | [] => Ok (now, ex, samples1, attempt)
      | _ =>
        if Z.leb (Z.of_nat (List.length fresh)) (z_do_all_exceptions o) || Z.ltb (z_max_sampled_attempts o) attempt then
          let ex' := {| ex_strings := ex_strings ex ++ map fst fresh; ex_freqs := ex_freqs ex ++ map snd fresh |} in
          extract_loop fuel' ct o e stripped gt mt all samples1 ex' (attempt + 1)
        else
          do ps <- take_sample samples1 fresh;
          let ex' := {| ex_strings := ex_strings ex ++ map fst (fst ps); ex_freqs := ex_freqs ex ++ map snd (fst ps) |} in
          extract_loop fuel' ct o e stripped gt mt all (snd ps) ex' (attempt + 1)
      end
    end
  end.

(* Extractor.__init__ + extract(): items are the raw (string or None, frequency) inputs *)
Definition run_extractor (ct : chartab) (o : ropts) (gt : groups_table) (mt : match_table)
           (samples : list (list nat)) (items : list (option str * Z)) : res loop_out :=
  let '(all, stripped) := clean ct o items in
  do first <- sample_non_matches o mt samples [] all (z_do_all o);
  let '(picked, _, samples1) := first in
  let ex := fst (clean ct o (map (fun sf => (Some (fst sf), snd sf)) picked)) in
  let e := norm_extras (thin_extras (o_extra o) (ex_strings ex)) in
  match ex_strings ex with
  | [] => Ok {| lo_rex := []; lo_none := true; lo_examples := ex; lo_passes := 0;
                lo_samples_left := List.length samples1; lo_last_failures := [] |}
  | _ =>
    do r <- extract_loop (Z.to_nat (z_max_sampled_attempts o) + List.length (ex_strings all) + 2) ct o e stripped gt mt all samples1 ex 1;
    let '(merged, rex, re_freqs, lastfail, ex', samples2, passes) := r in
    let bad := find_bad_patterns o re_freqs in
    let keep := filter (fun i => negb (mem_nat i bad)) (seq 0 (List.length rex)) in
    let merged' := map (fun i => nth i merged []) keep in
    let rex' := map (fun i => nth i rex []) keep in
    do final <- (if o_dialect_out o then mapM (vrle2re true (o_full_escape o) e stripped (o_tag o)) merged' else Ok rex');
    Ok {| lo_rex := final; lo_none := false; lo_examples := ex'; lo_passes := passes;
          lo_samples_left := List.length samples2; lo_last_failures := lastfail |}
  end.
