(* Executable checks of the hypotheses the coverage theorems make about the group-split oracle
   (no proofs here: this file is extracted). *)
From Coq Require Import ZArith List Bool.
From Tdda Require Import Base.Sexp Base.Str Generated.Consts Rexpy.Chars Rexpy.Pipeline.
Import ListNotations.
Open Scope Z_scope.

Definition count_okb (m : Z) (M : option Z) (n : nat) : bool :=
  match M with
  | None => Z.eqb m 0 || Nat.leb 1 n
  | Some M' => Z.leb m (Z.of_nat n) && Z.leb (Z.of_nat n) M'
  end.


Definition pos_okb (ct : chartab) (e : str) (v : vfrag) (g : str) : bool :=
  forallb (cat_sem ct false e (vf_code v)) g && count_okb (vf_min v) (vf_max v) (length g).


Fixpoint forall2b {A B} (f : A -> B -> bool) (l1 : list A) (l2 : list B) : bool :=
  match l1, l2 with
  | [], [] => true
  | a :: l1', b :: l2' => f a b && forall2b f l1' l2'
  | _, _ => false
  end.


(* the group split of one example is acceptable: the groups concatenate to the example and each satisfies
   the coarse fragment it was captured by *)
Definition split_okb (ct : chartab) (e : str) (vrle : list vfrag) (ex : str) (gs : list str) : bool :=
  str_eqb (List.concat gs) ex && forall2b (pos_okb ct e) vrle gs.


(* the examples of a VRLE, as refine_vrle selects them *)
Definition mine_of (strings : list str) (rles : list (list (Z * Z))) (vrle : list vfrag) : list str :=
  map fst (filter (fun sr => str_eqb (signature (snd sr)) (map vf_code vrle)) (combine strings rles)).


(* executable form of oracle_ok for the splits a batch extraction actually looks up *)
Definition vrle_oracle_okb (ct : chartab) (o : ropts) (e : str) (stripped : bool) (gt : groups_table)
           (strings : list str) (rles : list (list (Z * Z))) (vrle : list vfrag) : bool :=
  match vrle2re false (o_full_escape o) e stripped true (map frag_of_vfrag vrle) with
  | Err _ => true
  | Ok regex => forallb (fun ex => match lookup_groups gt regex ex with
                                   | Some gs => split_okb ct e vrle ex gs
                                   | None => true end) (mine_of strings rles vrle)
  end.

Definition batch_oracle_okb (ct : chartab) (o : ropts) (e : str) (stripped : bool) (gt : groups_table) (ex : examples) : bool :=
  let strings := ex_strings ex in
  let rles := map (rle_coarse ct e) strings in
  forallb (vrle_oracle_okb ct o e stripped gt strings rles) (to_vrles (dedup_by rle_eqb rles)).

