(* Extractor.clean computes a counter: the stored strings are the distinct cleaned forms of the kept items, and the
   stored frequency of each is the total of its items' counts.  Consequently the stored (string, frequency) pairs of
   two inputs that are permutations of each other - a list in any order, or the items of a frequency dictionary
   in any order - are permutations of each other, and so are those of a list and its frequency dictionary. *)
From Coq Require Import ZArith List Bool Lia Permutation.
From Tdda Require Import Base.Sexp Base.Str Base.Sort Generated.Consts Rexpy.Chars Rexpy.Pipeline Rexpy.PipelineProofs Rexpy.LoopProofs Rexpy.PermProofs.
Import ListNotations.
Open Scope Z_scope.

(* ------------------------------------------------------------------ association lists held as two lists *)
Fixpoint get (t : str) (ss : list str) (fs : list Z) : Z :=
  match ss, fs with
  | u :: ss', f :: fs' => if str_eqb t u then f else get t ss' fs'
  | _, _ => 0
  end.

Lemma str_eqb_refl s : str_eqb s s = true. Proof. apply str_eqb_eq. reflexivity. Qed.
Lemma str_eqb_sym a b : str_eqb a b = str_eqb b a.
Proof.
  destruct (str_eqb a b) eqn:E1, (str_eqb b a) eqn:E2; try reflexivity.
  - apply str_eqb_eq in E1. subst. rewrite str_eqb_refl in E2. discriminate.
  - apply str_eqb_eq in E2. subst. rewrite str_eqb_refl in E1. discriminate.
Qed.

Lemma counter_add_keys t n ss : forall fs, length ss = length fs ->
  fst (counter_add t n ss fs) = if mem_str t ss then ss else ss ++ [t].
Proof.
  induction ss as [|u ss IH]; intros [|f fs] Hl; try discriminate; cbn [counter_add mem_str]; [reflexivity|].
  destruct (str_eqb t u) eqn:E; cbn [orb fst]; [reflexivity|].
  specialize (IH fs ltac:(cbn in Hl; lia)). destruct (counter_add t n ss fs) as [ss' fs']. cbn [fst] in *. rewrite IH.
  destruct (mem_str t ss); reflexivity.
Qed.

Lemma counter_add_get t n u ss : forall fs, length ss = length fs ->
  get u (fst (counter_add t n ss fs)) (snd (counter_add t n ss fs)) = get u ss fs + (if str_eqb u t then n else 0).
Proof.
  induction ss as [|v ss IH]; intros [|f fs] Hl; try discriminate; cbn [counter_add fst snd get].
  - destruct (str_eqb u t); lia.
  - destruct (str_eqb t v) eqn:E.
    + cbn [fst snd get]. apply str_eqb_eq in E. subst v. destruct (str_eqb u t); lia.
    + specialize (IH fs ltac:(cbn in Hl; lia)). destruct (counter_add t n ss fs) as [ss' fs']. cbn [fst snd get] in *.
      destruct (str_eqb u v) eqn:E2; [|exact IH].
      apply str_eqb_eq in E2. subst v. rewrite str_eqb_sym, E. lia.
Qed.

Lemma in_combine_get ss : forall fs t f, length ss = length fs -> NoDup ss ->
  (In (t, f) (combine ss fs) <-> In t ss /\ f = get t ss fs).
Proof.
  induction ss as [|u ss IH]; intros [|g fs] t f Hl Hnd; try discriminate; cbn [combine get In].
  - tauto.
  - inversion Hnd as [|? ? Hnu Hnd']; subst. specialize (IH fs t f ltac:(cbn in Hl; lia) Hnd').
    destruct (str_eqb t u) eqn:E.
    + apply str_eqb_eq in E. subst u. split.
      * intros [H|H]; [injection H as <-; split; [left; reflexivity|reflexivity]|].
        apply in_combine_l in H. contradiction.
      * intros [_ ->]. left. reflexivity.
    + assert (t <> u) by (intro; subst; rewrite str_eqb_refl in E; discriminate). split.
      * intros [H0|H0]; [injection H0 as -> _; congruence|]. apply IH in H0 as [H1 H2]. split; [right; exact H1|exact H2].
      * intros [[H0|H0] H1]; [congruence|]. right. apply IH. split; assumption.
Qed.

Lemma combine_NoDup {A B} (l1 : list A) : forall (l2 : list B), NoDup l1 -> NoDup (combine l1 l2).
Proof.
  induction l1 as [|x l1 IH]; intros [|y l2] H; cbn [combine]; try constructor.
  - inversion H; subst. intro Hin. apply in_combine_l in Hin. contradiction.
  - inversion H; subst. apply IH. assumption.
Qed.

Lemma map_fst_combine {A B} (l1 : list A) : forall (l2 : list B), length l1 = length l2 -> map fst (combine l1 l2) = l1.
Proof. induction l1 as [|x l1 IH]; intros [|y l2] H; try discriminate; cbn; [reflexivity|]. f_equal. apply IH. cbn in H. lia. Qed.

(* ------------------------------------------------------------------ clean as a fold over normalised items *)
(* what clean does with one item: None = discarded, Some (t, n, changed) = count n more of the cleaned form t *)
Definition norm (ct : chartab) (o : ropts) (it : option str * Z) : option (str * Z * bool) :=
  match fst it with
  | None => None
  | Some s => if Z.eqb (snd it) 0 then None else
              let t := clean_form ct o s in
              if o_remove_empties o && is_nil t then None
              else Some (t, snd it, negb (Nat.eqb (length t) (length s)))
  end.

Fixpoint omap {A B} (f : A -> option B) (l : list A) : list B :=
  match l with [] => [] | x :: l' => match f x with Some y => y :: omap f l' | None => omap f l' end end.

Lemma omap_app {A B} (f : A -> option B) l1 l2 : omap f (l1 ++ l2) = omap f l1 ++ omap f l2.
Proof. induction l1 as [|x l1 IH]; cbn [omap app]; [reflexivity|]. destruct (f x); cbn [app]; rewrite IH; reflexivity. Qed.

Lemma omap_perm {A B} (f : A -> option B) l l' : Permutation l l' -> Permutation (omap f l) (omap f l').
Proof.
  induction 1 as [|x l l' _ IH|x y l|l l' l'' _ IH1 _ IH2]; cbn [omap].
  - constructor.
  - destruct (f x); [apply perm_skip|]; exact IH.
  - destruct (f x), (f y); try apply perm_swap; apply Permutation_refl.
  - eapply perm_trans; eassumption.
Qed.

Lemma In_omap {A B} (f : A -> option B) l y : In y (omap f l) <-> exists x, In x l /\ f x = Some y.
Proof.
  induction l as [|x l IH]; cbn [omap]; [split; [intros []|intros [x [[] _]]]|].
  destruct (f x) as [z|] eqn:E.
  - cbn [In]. rewrite IH. split.
    + intros [<-|[x' [H1 H2]]]; [exists x; split; [left; reflexivity|exact E]|exists x'; split; [right; exact H1|exact H2]].
    + intros [x' [[<-|H1] H2]]; [left; congruence|right; exists x'; split; assumption].
  - rewrite IH. split; intros [x' [H1 H2]].
    + exists x'. split; [right; exact H1|exact H2].
    + destruct H1 as [<-|H1]; [congruence|exists x'; split; assumption].
Qed.

Definition nstep (st : list str * list Z * bool) (x : str * Z * bool) : list str * list Z * bool :=
  let '(ss, fs) := counter_add (fst (fst x)) (snd (fst x)) (fst (fst st)) (snd (fst st)) in (ss, fs, snd st || snd x).

Lemma clean_step_norm ct o st it :
  clean_step ct o st it = match norm ct o it with Some x => nstep st x | None => st end.
Proof.
  destruct st as [[ss fs] b]. unfold clean_step, norm, clean_form. destruct (fst it) as [s|]; [|reflexivity].
  destruct (Z.eqb (snd it) 0); [reflexivity|]. cbv zeta. unfold is_nil.
  destruct (o_remove_empties o && _); [reflexivity|]. unfold nstep. cbn [fst snd]. reflexivity.
Qed.

Lemma clean_fold_norm ct o items : forall st,
  fold_left (clean_step ct o) items st = fold_left nstep (omap (norm ct o) items) st.
Proof.
  induction items as [|it items IH]; intro st; cbn [fold_left omap]; [reflexivity|].
  rewrite IH, clean_step_norm. destruct (norm ct o it); reflexivity.
Qed.

(* ------------------------------------------------------------------ the counter invariant *)
Definition total (t : str) (L : list (str * Z * bool)) : Z :=
  fold_right Z.add 0 (map (fun x => snd (fst x)) (filter (fun x => str_eqb t (fst (fst x))) L)).

Lemma total_app t L1 L2 : total t (L1 ++ L2) = total t L1 + total t L2.
Proof.
  unfold total. rewrite filter_app, map_app. induction (map _ (filter _ L1)) as [|a l IH]; cbn [app fold_right]; lia.
Qed.

Definition counter_inv (L : list (str * Z * bool)) (st : list str * list Z * bool) : Prop :=
  length (fst (fst st)) = length (snd (fst st)) /\ NoDup (fst (fst st)) /\
  (forall t, In t (fst (fst st)) <-> In t (map (fun x => fst (fst x)) L)) /\
  (forall t, get t (fst (fst st)) (snd (fst st)) = total t L) /\
  snd st = existsb snd L.

Lemma existsb_app_local {T} (f : T -> bool) l1 l2 : existsb f (l1 ++ l2) = existsb f l1 || existsb f l2.
Proof. induction l1 as [|x l1 IH]; cbn [existsb app]; [reflexivity|]. rewrite IH. destruct (f x); reflexivity. Qed.

Lemma nstep_inv L st x : counter_inv L st -> counter_inv (L ++ [x]) (nstep st x).
Proof.
  destruct st as [[ss fs] b]. destruct x as [[t n] c]. unfold counter_inv, nstep. cbn [fst snd].
  intros (Hl & Hnd & Hk & Hg & Hb).
  pose proof (counter_add_keys t n ss fs Hl) as K. pose proof (fun u => counter_add_get t n u ss fs Hl) as G.
  pose proof (counter_add_lengths t n ss fs Hl) as Ln.
  destruct (counter_add t n ss fs) as [ss' fs']. cbn [fst snd] in *.
  split; [exact Ln|]. split; [|split; [|split]].
  - rewrite K. destruct (mem_str t ss) eqn:E; [exact Hnd|].
    apply NoDup_snoc_local; [exact Hnd|]. intro Hc. apply mem_str_In in Hc. congruence.
  - intro u. rewrite K, map_app, in_app_iff. cbn [map In fst].
    destruct (mem_str t ss) eqn:E.
    + apply mem_str_In in E. rewrite Hk. split; [intro H; left; exact H|].
      intros [H|[<-|[]]]; [exact H|apply Hk; exact E].
    + rewrite in_app_iff, Hk. cbn [In]. tauto.
  - intro u. rewrite G, Hg, total_app. f_equal. unfold total. cbn [filter fst snd map fold_right].
    destruct (str_eqb u t); cbn [map fold_right fst snd]; lia.
  - rewrite existsb_app_local. cbn [existsb snd]. rewrite Hb, orb_false_r. reflexivity.
Qed.

Lemma nfold_inv L2 : forall L1 st, counter_inv L1 st -> counter_inv (L1 ++ L2) (fold_left nstep L2 st).
Proof.
  induction L2 as [|x L2 IH]; intros L1 st H; cbn [fold_left]; [rewrite app_nil_r; exact H|].
  replace (L1 ++ x :: L2) with ((L1 ++ [x]) ++ L2) by (rewrite <- app_assoc; reflexivity).
  apply IH. apply nstep_inv. exact H.
Qed.

Lemma counter_inv_nil : counter_inv [] ([], [], false).
Proof. unfold counter_inv. cbn. repeat split; try constructor; intros []. Qed.

(* the specification of clean *)
Theorem clean_counter ct o items :
  let L := omap (norm ct o) items in
  let ex := fst (clean ct o items) in
  length (ex_strings ex) = length (ex_freqs ex) /\ NoDup (ex_strings ex) /\
  (forall t, In t (ex_strings ex) <-> In t (map (fun x => fst (fst x)) L)) /\
  (forall t f, In (t, f) (combine (ex_strings ex) (ex_freqs ex)) <-> In t (map (fun x => fst (fst x)) L) /\ f = total t L) /\
  snd (clean ct o items) = existsb snd L.
Proof.
  cbv zeta. rewrite clean_unfold, clean_fold_norm.
  pose proof (nfold_inv (omap (norm ct o) items) [] _ counter_inv_nil) as H. cbn [app] in H.
  destruct (fold_left nstep _ _) as [[ss fs] b]. destruct H as (Hl & Hnd & Hk & Hg & Hb). cbn [fst snd ex_strings ex_freqs] in *.
  split; [exact Hl|]. split; [exact Hnd|]. split; [exact Hk|]. split; [|exact Hb].
  intros t f. rewrite (in_combine_get ss fs t f Hl Hnd), Hk, Hg. reflexivity.
Qed.

(* ------------------------------------------------------------------ order of the input *)
Lemma sum_perm l l' : Permutation l l' -> fold_right Z.add 0 l = fold_right Z.add 0 l'.
Proof. induction 1; cbn [fold_right]; lia. Qed.

Lemma total_perm t L L' : Permutation L L' -> total t L = total t L'.
Proof. intro H. unfold total. apply sum_perm, Permutation_map, filter_perm. exact H. Qed.

Lemma existsb_perm {T} (f : T -> bool) l l' : Permutation l l' -> existsb f l = existsb f l'.
Proof.
  induction 1 as [|x l l' _ IH|x y l|l l' l'' _ IH1 _ IH2]; cbn [existsb]; try reflexivity.
  - rewrite IH. reflexivity.
  - destruct (f x), (f y); reflexivity.
  - congruence.
Qed.

Definition pairs (ex : examples) : list (str * Z) := combine (ex_strings ex) (ex_freqs ex).

(* two inputs with the same normalised items up to order (in particular: permutations of each other) store the same
   (string, frequency) pairs up to order, and agree on whether anything was stripped *)
Theorem clean_norm_perm ct o items items' :
  Permutation (omap (norm ct o) items) (omap (norm ct o) items') ->
  Permutation (pairs (fst (clean ct o items))) (pairs (fst (clean ct o items'))) /\
  Permutation (ex_strings (fst (clean ct o items))) (ex_strings (fst (clean ct o items'))) /\
  snd (clean ct o items) = snd (clean ct o items').
Proof.
  intro Hp. destruct (clean_counter ct o items) as (Hl & Hnd & Hk & Hp1 & Hb).
  destruct (clean_counter ct o items') as (Hl' & Hnd' & Hk' & Hp1' & Hb').
  assert (Hpairs : Permutation (pairs (fst (clean ct o items))) (pairs (fst (clean ct o items')))).
  { unfold pairs. apply NoDup_Permutation; try (apply combine_NoDup; assumption).
    intros [t f]. rewrite Hp1, Hp1', (total_perm t _ _ Hp). split; intros [H1 H2]; (split; [|exact H2]);
      (eapply Permutation_in; [|exact H1]); apply Permutation_map; [exact Hp|apply Permutation_sym; exact Hp]. }
  split; [exact Hpairs|]. split.
  - rewrite <- (map_fst_combine _ _ Hl), <- (map_fst_combine _ _ Hl'). apply Permutation_map. exact Hpairs.
  - rewrite Hb, Hb'. apply existsb_perm. exact Hp.
Qed.

Corollary clean_perm ct o items items' : Permutation items items' ->
  Permutation (pairs (fst (clean ct o items))) (pairs (fst (clean ct o items'))) /\
  Permutation (ex_strings (fst (clean ct o items))) (ex_strings (fst (clean ct o items'))) /\
  snd (clean ct o items) = snd (clean ct o items').
Proof. intro H. apply clean_norm_perm. apply omap_perm. exact H. Qed.

(* repeating an example k more times changes the stored strings not at all (only its frequency) *)
Theorem clean_repeat_strings ct o items it k :
  In it items ->
  forall t, In t (ex_strings (fst (clean ct o (items ++ repeat it k)))) <-> In t (ex_strings (fst (clean ct o items))).
Proof.
  intros Hin t. destruct (clean_counter ct o items) as (_ & _ & Hk & _). destruct (clean_counter ct o (items ++ repeat it k)) as (_ & _ & Hk' & _).
  rewrite Hk, Hk', omap_app, map_app, in_app_iff. split; [|intro H; left; exact H].
  intros [H|H]; [exact H|]. apply in_map_iff in H as [x [<- Hx]]. apply In_omap in Hx as [it' [Hr Hn]].
  apply repeat_spec in Hr. subst it'. apply in_map_iff. exists x. split; [reflexivity|]. apply In_omap. exists it. split; assumption.
Qed.

