From Coq Require Import ZArith List Bool Arith Lia Sorted.
From Tdda Require Import Base.Sexp Base.Str Rexpy.Coverage.
Import ListNotations.
Open Scope Z_scope.

Definition weight (dedup : bool) (r : example_row) : Z := if dedup then 1 else er_freq r.

Definition live_weight (rows : list (bool * example_row)) (dedup : bool) : Z :=
  fold_right Z.add 0 (map (fun lr : bool * example_row => if fst lr then weight dedup (snd lr) else 0) rows).

Definition sum_incr (dedup : bool) (cs : list cov) : Z :=
  fold_right Z.add 0 (map (fun c => if dedup then c_incr_uniq c else c_incr c) cs).

Lemma live_total_unfold rows p d :
  live_total rows p d =
  fold_right Z.add 0 (map (fun lr : bool * example_row => if fst lr && nth p (er_match (snd lr)) false then weight d (snd lr) else 0) rows).
Proof. reflexivity. Qed.

(* the rows zeroed when pattern p is selected weigh exactly its current total *)
Lemma kill_weight p rows d : live_weight (kill p rows) d + live_total rows p d = live_weight rows d.
Proof.
  unfold live_weight, kill. rewrite live_total_unfold.
  induction rows as [|[l r] rows IH]; [reflexivity|]. cbn [map fold_right fst snd].
  destruct l; cbn [andb fst snd]; [|lia].
  destruct (nth p (er_match r) false); cbn [fst snd]; lia.
Qed.

Lemma sum_incr_app d a b : sum_incr d (a ++ b) = sum_incr d a + sum_incr d b.
Proof. unfold sum_incr. rewrite map_app. induction (map _ a) as [|x l IH]; simpl; lia. Qed.

(* accounting: what has been credited plus what is still live is constant *)
Theorem accounting_proof d fuel : forall np sd full rows done,
  let r := greedy fuel np sd full rows done in
  sum_incr d (fst r) + live_weight (snd r) d = sum_incr d done + live_weight rows d.
Proof.
  induction fuel as [|f IH]; intros np sd full rows done; cbn [greedy]; [reflexivity|].
  destruct (Nat.leb np (length done)); [reflexivity|].
  destruct (Z.ltb 0 (zmax_l (totals_of rows np sd))); [|reflexivity].
  destruct (mem_natb _ _); [reflexivity|].
  cbv zeta in IH. rewrite IH. rewrite sum_incr_app.
  pose proof (kill_weight (first_ge (totals_of rows np sd) (zmax_l (totals_of rows np sd)) 0) rows d) as Hk.
  unfold sum_incr at 2. destruct d; cbn [map fold_right c_incr c_incr_uniq]; lia.
Qed.

(* corollary for a whole run: if at the end no live example is matched by any expression ... *)
Definition nothing_left (rows : list (bool * example_row)) : Prop :=
  forall lr, In lr rows -> fst lr = true -> forall p, nth p (er_match (snd lr)) false = false.

Definition matched_by_some (np : nat) (r : example_row) : bool := existsb (fun p => nth p (er_match r) false) (seq 0 np).

Lemma live_weight_start rows d : live_weight (start rows) d = fold_right Z.add 0 (map (weight d) rows).
Proof. unfold live_weight, start. rewrite map_map. reflexivity. Qed.

(* ---------------------------------------------------------------- non-increasing *)

Lemma zmax_l_ge l x : In x l -> x <= zmax_l l.
Proof. induction l as [|y l IH]; simpl; [tauto|]. intros [<-|H]; [lia|]. specialize (IH H). lia. Qed.

Lemma zmax_l_pointwise (l1 l2 : list Z) :
  length l1 = length l2 -> (forall i, nth i l1 0 <= nth i l2 0) -> zmax_l l1 <= zmax_l l2.
Proof.
  revert l2; induction l1 as [|x l1 IH]; intros [|y l2] Hl H; simpl in *; try discriminate.
  assert (x <= y) by (apply (H O)).
  assert (zmax_l l1 <= zmax_l l2) by (apply IH; [lia|intro i; apply (H (S i))]). lia.
Qed.

Lemma first_ge_spec l t : forall i0, 0 < t -> zmax_l l = t ->
  exists k, first_ge l t i0 = (i0 + k)%nat /\ (k < length l)%nat /\ nth k l 0 = t.
Proof.
  induction l as [|x l IH]; intros i0 Ht Hm; simpl in *; [lia|].
  destruct (Z.ltb_spec x t).
  - assert (zmax_l l = t) by lia. destruct (IH (S i0) Ht H0) as [k (H1 & H2 & H3)].
    exists (S k). repeat split; [lia|lia|exact H3].
  - exists O. repeat split; [lia|lia|]. simpl. lia.
Qed.

Definition nonneg (rows : list (bool * example_row)) : Prop := forall lr, In lr rows -> 0 <= er_freq (snd lr).

Lemma nonneg_kill p rows : nonneg rows -> nonneg (kill p rows).
Proof.
  unfold nonneg, kill. intros H lr Hin. apply in_map_iff in Hin as [lr0 [<- Hin]].
  destruct (fst lr0 && nth p (er_match (snd lr0)) false); cbn [snd]; apply H; exact Hin.
Qed.

Lemma live_total_kill_le p q rows d : nonneg rows -> live_total (kill p rows) q d <= live_total rows q d.
Proof.
  intro Hn. rewrite !live_total_unfold. unfold kill.
  induction rows as [|[l r] rows IH]; [simpl; lia|]. cbn [map fold_right fst snd].
  assert (0 <= weight d r) by (unfold weight; destruct d; [lia|apply (Hn (l, r)); left; reflexivity]).
  assert (IH' : nonneg rows) by (intros lr Hin; apply Hn; right; exact Hin). specialize (IH IH').
  destruct l; cbn [andb fst snd].
  - destruct (nth p (er_match r) false); cbn [fst snd andb]; destruct (nth q (er_match r) false); lia.
  - lia.
Qed.

Lemma nth_totals rows np d p : (p < np)%nat -> nth p (totals_of rows np d) 0 = live_total rows p d.
Proof.
  intro H. unfold totals_of.
  rewrite (nth_indep _ 0 (live_total rows 0%nat d)) by (rewrite map_length, seq_length; exact H).
  rewrite (map_nth (fun p => live_total rows p d) (seq 0 np) 0%nat p). rewrite seq_nth by exact H. reflexivity.
Qed.

Lemma totals_length rows np d : length (totals_of rows np d) = np.
Proof. unfold totals_of. rewrite map_length, seq_length. reflexivity. Qed.

Definition key (sd : bool) (c : cov) : Z := if sd then c_incr_uniq c else c_incr c.

(* a list whose elements never increase *)
Fixpoint nonincreasing (l : list Z) : Prop :=
  match l with
  | [] => True
  | x :: r => (forall y, In y r -> y <= x) /\ nonincreasing r
  end.

Lemma nonincreasing_app l x : nonincreasing l -> (forall y, In y l -> x <= y) -> nonincreasing (l ++ [x]).
Proof.
  induction l as [|a l IH]; simpl; intros Hn Hx; [split; [intros y []|exact I]|].
  destruct Hn as [Ha Hn]. split.
  - intros y Hy. apply in_app_or in Hy as [Hy|[<-|[]]]; [apply Ha; exact Hy|apply Hx; left; reflexivity].
  - apply IH; [exact Hn|]. intros y Hy. apply Hx. right; exact Hy.
Qed.

Theorem nonincreasing_proof fuel : forall np sd full rows done,
  nonneg rows ->
  nonincreasing (map (key sd) done) ->
  (forall c, In c done -> zmax_l (totals_of rows np sd) <= key sd c) ->
  nonincreasing (map (key sd) (fst (greedy fuel np sd full rows done))).
Proof.
  induction fuel as [|f IH]; intros np sd full rows done Hnn Hs Hb; cbn [greedy]; [exact Hs|].
  destruct (Nat.leb np (length done)); [exact Hs|].
  destruct (Z.ltb_spec 0 (zmax_l (totals_of rows np sd))) as [Hpos|]; [|exact Hs].
  destruct (mem_natb _ _); [exact Hs|].
  set (t := zmax_l (totals_of rows np sd)) in *.
  destruct (first_ge_spec (totals_of rows np sd) t O Hpos eq_refl) as [k (Hk1 & Hk2 & Hk3)].
  rewrite totals_length in Hk2. simpl in Hk1. rewrite Hk1.
  assert (Hkey : live_total rows k sd = t) by (rewrite <- (nth_totals rows np sd k Hk2); exact Hk3).
  apply IH.
  - apply nonneg_kill. exact Hnn.
  - rewrite map_app. cbn [map]. apply nonincreasing_app; [exact Hs|].
    intros y Hy. apply in_map_iff in Hy as [c [<- Hc]].
    unfold key at 1. cbn [c_incr c_incr_uniq].
    replace (if sd then live_total rows k true else live_total rows k false) with (live_total rows k sd)
      by (destruct sd; reflexivity).
    rewrite Hkey. apply Hb. exact Hc.
  - intros c Hc.
    assert (Hle : zmax_l (totals_of (kill k rows) np sd) <= t).
    { apply zmax_l_pointwise; [rewrite !totals_length; reflexivity|]. intro i.
      destruct (Nat.lt_ge_cases i np) as [Hi|Hi].
      - rewrite !nth_totals by exact Hi. apply live_total_kill_le. exact Hnn.
      - rewrite !nth_overflow by (rewrite totals_length; exact Hi). lia. }
    apply in_app_or in Hc as [Hc|[<-|[]]].
    + specialize (Hb c Hc). lia.
    + unfold key. cbn [c_incr c_incr_uniq].
      replace (if sd then live_total rows k true else live_total rows k false) with (live_total rows k sd)
        by (destruct sd; reflexivity).
      lia.
Qed.

Lemma NoDup_app_one {T} (l : list T) x : NoDup l -> ~ In x l -> NoDup (l ++ [x]).
Proof.
  induction l as [|y l IH]; intros Hnd Hx; simpl; [constructor; [intros []|constructor]|].
  inversion Hnd; subst. constructor.
  - intro Hin. apply in_app_or in Hin as [Hin|[<-|[]]]; [contradiction|apply Hx; left; reflexivity].
  - apply IH; [assumption|]. intro Hin. apply Hx. right; exact Hin.
Qed.

(* the listed expressions are distinct: an expression is credited at most once *)
Theorem selected_distinct_proof fuel : forall np sd full rows done,
  NoDup (map c_rex done) -> NoDup (map c_rex (fst (greedy fuel np sd full rows done))).
Proof.
  induction fuel as [|f IH]; intros np sd full rows done Hnd; cbn [greedy]; [exact Hnd|].
  destruct (Nat.leb np (length done)); [exact Hnd|].
  destruct (Z.ltb 0 _); [|exact Hnd].
  destruct (mem_natb _ _) eqn:Em; [exact Hnd|].
  apply IH. rewrite map_app. cbn [map c_rex].
  apply NoDup_app_one; [exact Hnd|].
  intro Hin. unfold mem_natb in Em. assert (existsb (Nat.eqb (first_ge (totals_of rows np sd) (zmax_l (totals_of rows np sd)) 0)) (map c_rex done) = true).
  { apply existsb_exists. eexists. split; [exact Hin|]. apply Nat.eqb_refl. }
  congruence.
Qed.

(* ---------------------------------------------------------------- the loop exhausts the matches *)

Definition positive (rows : list (bool * example_row)) : Prop := forall lr, In lr rows -> 0 < er_freq (snd lr).

Definition no_live_match (rows : list (bool * example_row)) (p : nat) : Prop :=
  forall lr, In lr rows -> fst lr = true -> nth p (er_match (snd lr)) false = false.

Definition nothing_left_np (np : nat) (rows : list (bool * example_row)) : Prop :=
  forall p, (p < np)%nat -> no_live_match rows p.

Lemma positive_kill p rows : positive rows -> positive (kill p rows).
Proof.
  unfold positive, kill. intros H lr Hin. apply in_map_iff in Hin as [lr0 [<- Hin]].
  destruct (fst lr0 && nth p (er_match (snd lr0)) false); cbn [snd]; apply H; exact Hin.
Qed.

Lemma kill_no_live_match p rows : no_live_match (kill p rows) p.
Proof.
  unfold no_live_match, kill. intros lr Hin Hl. apply in_map_iff in Hin as [[l r] [<- Hin]]. cbn [fst snd] in *.
  destruct l; cbn [andb] in *.
  - destruct (nth p (er_match r) false) eqn:E; cbn [fst snd] in *; [discriminate|exact E].
  - discriminate.
Qed.

Lemma kill_preserves_no_live_match p q rows : no_live_match rows q -> no_live_match (kill p rows) q.
Proof.
  unfold no_live_match, kill. intros H lr Hin Hl. apply in_map_iff in Hin as [lr0 [<- Hin]].
  destruct (fst lr0 && nth p (er_match (snd lr0)) false) eqn:E; cbn [fst snd] in *; [discriminate|].
  apply H; assumption.
Qed.

Lemma live_total_zero_no_match rows p d : positive rows -> live_total rows p d <= 0 -> no_live_match rows p.
Proof.
  intros Hp. rewrite live_total_unfold. unfold no_live_match.
  induction rows as [|[l r] rows IH]; intros Ht lr Hin Hl; [destruct Hin|].
  cbn [map fold_right fst snd] in Ht.
  assert (Hw : 0 < weight d r) by (unfold weight; destruct d; [lia|apply (Hp (l, r)); left; reflexivity]).
  assert (Hrest : 0 <= fold_right Z.add 0
            (map (fun lr : bool * example_row => if fst lr && nth p (er_match (snd lr)) false then weight d (snd lr) else 0) rows)).
  { clear -Hp. assert (Hp' : positive rows) by (intros x Hx; apply Hp; right; exact Hx). clear Hp.
    induction rows as [|[l0 r0] rows IH]; [simpl; lia|]. cbn [map fold_right fst snd].
    assert (0 < weight d r0) by (unfold weight; destruct d; [lia|apply (Hp' (l0, r0)); left; reflexivity]).
    assert (0 <= fold_right Z.add 0 (map (fun lr : bool * example_row => if fst lr && nth p (er_match (snd lr)) false then weight d (snd lr) else 0) rows))
      by (apply IH; intros x Hx; apply Hp'; right; exact Hx).
    destruct (l0 && nth p (er_match r0) false); lia. }
  destruct Hin as [<-|Hin]; cbn [fst snd] in *.
  - subst l. cbn [andb] in Ht. destruct (nth p (er_match r) false); [lia|reflexivity].
  - apply IH; try assumption.
    + intros x Hx. apply Hp. right; exact Hx.
    + destruct (l && nth p (er_match r) false); lia.
Qed.

Lemma zmax_nonpos_all l : zmax_l l <= 0 -> forall x, In x l -> x <= 0.
Proof. intros H x Hx. pose proof (zmax_l_ge l x Hx). lia. Qed.

Lemma all_selected done np : NoDup (map c_rex done) -> (np <= length done)%nat ->
  (forall c, In c done -> (c_rex c < np)%nat) -> forall p, (p < np)%nat -> In p (map c_rex done).
Proof.
  intros Hnd Hlen Hlt p Hp.
  assert (Hincl : incl (seq 0 np) (map c_rex done)).
  { apply (NoDup_length_incl (l := map c_rex done) (l' := seq 0 np) Hnd).
    - rewrite seq_length, map_length. exact Hlen.
    - intros x Hx. apply in_map_iff in Hx as [c [<- Hc]]. apply in_seq. specialize (Hlt c Hc). lia. }
  apply Hincl. apply in_seq. lia.
Qed.

Theorem exhausted_proof fuel : forall np sd full rows done,
  positive rows ->
  (S np <= fuel + length done)%nat ->
  NoDup (map c_rex done) ->
  (forall c, In c done -> (c_rex c < np)%nat /\ no_live_match rows (c_rex c)) ->
  nothing_left_np np (snd (greedy fuel np sd full rows done)).
Proof.
  induction fuel as [|f IH]; intros np sd full rows done Hpos Hf Hnd Hinv.
  - (* no fuel: every expression has been selected *)
    cbn [greedy snd]. simpl in Hf.
    intros p Hp. assert (Hin : In p (map c_rex done)).
    { apply (all_selected done np Hnd); [lia| |exact Hp]. intros c Hc. apply Hinv. exact Hc. }
    apply in_map_iff in Hin as [c [<- Hc]]. apply Hinv. exact Hc.
  - cbn [greedy]. destruct (Nat.leb_spec np (length done)) as [Hle|Hlt].
    + cbn [snd]. intros p Hp. assert (Hin : In p (map c_rex done)).
      { apply (all_selected done np Hnd); [lia| |exact Hp]. intros c Hc. apply Hinv. exact Hc. }
      apply in_map_iff in Hin as [c [<- Hc]]. apply Hinv. exact Hc.
    + destruct (Z.ltb_spec 0 (zmax_l (totals_of rows np sd))) as [Hpos0|Hnon].
      * set (t := zmax_l (totals_of rows np sd)) in *.
        destruct (first_ge_spec (totals_of rows np sd) t O Hpos0 eq_refl) as [k (Hk1 & Hk2 & Hk3)].
        rewrite totals_length in Hk2. simpl in Hk1. rewrite Hk1.
        assert (Hkey : live_total rows k sd = t) by (rewrite <- (nth_totals rows np sd k Hk2); exact Hk3).
        destruct (mem_natb k (map c_rex done)) eqn:Em.
        -- (* impossible: a selected expression has no live match left, so its total is 0 *)
           exfalso. unfold mem_natb in Em. apply existsb_exists in Em as [x [Hx Hxe]]. apply Nat.eqb_eq in Hxe. subst x.
           apply in_map_iff in Hx as [c [Hc1 Hc2]]. destruct (Hinv c Hc2) as [_ Hnl]. rewrite Hc1 in Hnl.
           assert (live_total rows k sd <= 0).
           { rewrite live_total_unfold. clear -Hnl. induction rows as [|[l r] rows IH]; [simpl; lia|].
             cbn [map fold_right fst snd].
             assert (fold_right Z.add 0 (map (fun lr : bool * example_row => if fst lr && nth k (er_match (snd lr)) false then weight sd (snd lr) else 0) rows) <= 0)
               by (apply IH; intros lr Hin Hl; apply Hnl; [right; exact Hin|exact Hl]).
             destruct l; cbn [andb]; [|lia].
             assert (Hm : nth k (er_match r) false = false) by (apply (Hnl (true, r)); [left; reflexivity|reflexivity]).
             rewrite Hm. lia. }
           lia.
        -- apply IH.
           ++ apply positive_kill. exact Hpos.
           ++ rewrite app_length. simpl. lia.
           ++ rewrite map_app. cbn [map c_rex]. apply NoDup_app_one; [exact Hnd|].
              intro Hin. unfold mem_natb in Em.
              assert (existsb (Nat.eqb k) (map c_rex done) = true)
                by (apply existsb_exists; exists k; split; [exact Hin|apply Nat.eqb_refl]).
              congruence.
           ++ intros c Hc. apply in_app_or in Hc as [Hc|[<-|[]]].
              ** destruct (Hinv c Hc) as [H1 H2]. split; [exact H1|]. apply kill_preserves_no_live_match. exact H2.
              ** cbn [c_rex]. split; [exact Hk2|apply kill_no_live_match].
      * cbn [snd]. intros p Hp. apply (live_total_zero_no_match rows p sd Hpos).
        apply (zmax_nonpos_all _ Hnon). rewrite <- (nth_totals rows np sd p Hp).
        apply nth_In. rewrite totals_length. exact Hp.
Qed.

Lemma greedy_rows_same fuel : forall np sd full rows done,
  map snd (snd (greedy fuel np sd full rows done)) = map snd rows.
Proof.
  induction fuel as [|f IH]; intros np sd full rows done; cbn [greedy]; [reflexivity|].
  destruct (Nat.leb np (length done)); [reflexivity|].
  destruct (Z.ltb 0 _); [|reflexivity]. destruct (mem_natb _ _); [reflexivity|].
  rewrite IH. unfold kill. rewrite map_map. apply map_ext. intros [l r]. cbn [fst snd].
  destruct (l && nth _ (er_match r) false); reflexivity.
Qed.

(* The figures of a whole run: the incremental counts sum to the total number of examples
   (with or without repeats) when every example is matched by some expression. *)
Theorem incr_sum_total_proof rows np sd d :
  (forall r, In r rows -> 0 < er_freq r) ->
  (forall r, In r rows -> matched_by_some np r = true) ->
  sum_incr d (incremental rows np sd) = n_examples rows d.
Proof.
  intros Hpos Hall. unfold incremental.
  assert (Hpos' : positive (start rows)).
  { intros lr Hin. unfold start in Hin. apply in_map_iff in Hin as [r [<- Hr]]. apply Hpos. exact Hr. }
  assert (Hnl : nothing_left_np np (snd (greedy (S np) np sd rows (start rows) []))).
  { apply (exhausted_proof (S np) np sd rows (start rows) [] Hpos'); [simpl; lia|constructor|intros c []]. }
  pose proof (accounting_proof d (S np) np sd rows (start rows) []) as Hacc. cbv zeta in Hacc.
  pose proof (greedy_rows_same (S np) np sd rows (start rows) []) as Hsame.
  remember (greedy (S np) np sd rows (start rows) []) as R eqn:ER. clear ER.
  assert (Hlw : live_weight (snd R) d = 0).
  { assert (Hdead : forall lr, In lr (snd R) -> fst lr = false).
    { intros lr Hin. destruct (fst lr) eqn:El; [|reflexivity]. exfalso.
      assert (Hr : In (snd lr) rows).
      { assert (H : In (snd lr) (map snd (snd R))) by (apply in_map; exact Hin).
        rewrite Hsame in H. unfold start in H. rewrite map_map in H. cbn [snd] in H. rewrite map_id in H. exact H. }
      specialize (Hall _ Hr). unfold matched_by_some in Hall. apply existsb_exists in Hall as [p [Hp Hm]].
      apply in_seq in Hp. rewrite (Hnl p) in Hm; [discriminate|lia|exact Hin|exact El]. }
    unfold live_weight. clear -Hdead. induction (snd R) as [|lr l IH]; [reflexivity|]. cbn [map fold_right].
    rewrite (Hdead lr (or_introl eq_refl)). rewrite IH; [reflexivity|]. intros x Hx. apply Hdead. right; exact Hx. }
  rewrite Hlw in Hacc. rewrite live_weight_start in Hacc.
  change (sum_incr d []) with 0 in Hacc. rewrite Z.add_0_r, Z.add_0_l in Hacc. rewrite Hacc.
  unfold n_examples, weight. destruct d; [|reflexivity].
  clear. induction rows as [|r rows IH]; [reflexivity|]. cbn [map fold_right length]. rewrite IH. lia.
Qed.

Theorem incr_nonincreasing_proof rows np sd :
  (forall r, In r rows -> 0 <= er_freq r) ->
  nonincreasing (map (key sd) (incremental rows np sd)).
Proof.
  intro Hnn. unfold incremental. apply nonincreasing_proof.
  - intros lr Hin. unfold start in Hin. apply in_map_iff in Hin as [r [<- Hr]]. apply Hnn. exact Hr.
  - exact I.
  - intros c [].
Qed.

Theorem coverage_exact_proof rows np dedup p : (p < np)%nat ->
  nth p (coverage rows np dedup) 0 =
  fold_right Z.add 0 (map (fun r => if nth p (er_match r) false then weight dedup r else 0) rows).
Proof.
  intro H. unfold coverage.
  rewrite (nth_indep _ 0 ((fun p => fold_right Z.add 0 (map (fun r => if nth p (er_match r) false then if dedup then 1 else er_freq r else 0) rows)) O))
    by (rewrite map_length, seq_length; exact H).
  rewrite (map_nth (fun p => fold_right Z.add 0 (map (fun r => if nth p (er_match r) false then if dedup then 1 else er_freq r else 0) rows)) (seq 0 np) O p).
  rewrite seq_nth by exact H. reflexivity.
Qed.

(* ---------------------------------------------------------------- each example is credited once *)

(* the first listed expression that matches the example *)
Definition first_match (order : list nat) (r : example_row) : option nat :=
  List.find (fun p => nth p (er_match r) false) order.

Definition credit (d : bool) (order : list nat) (rows : list example_row) (p : nat) : Z :=
  fold_right Z.add 0 (map (fun r => match first_match order r with
                                    | Some q => if Nat.eqb q p then weight d r else 0
                                    | None => 0 end) rows).

Lemma first_match_app order p r :
  first_match (order ++ [p]) r =
  match first_match order r with
  | Some q => Some q
  | None => if nth p (er_match r) false then Some p else None
  end.
Proof.
  unfold first_match. induction order as [|q order IH]; cbn [app List.find].
  - destruct (nth p (er_match r) false); reflexivity.
  - destruct (nth q (er_match r) false); [reflexivity|exact IH].
Qed.

Lemma first_match_in order r q : first_match order r = Some q -> In q order.
Proof. unfold first_match. intro H. apply List.find_some in H. tauto. Qed.

(* live rows are exactly those no selected expression matches *)
Definition live_inv (rows : list (bool * example_row)) (order : list nat) : Prop :=
  forall lr, In lr rows -> (fst lr = true <-> first_match order (snd lr) = None).

Lemma live_inv_kill rows order p : live_inv rows order -> live_inv (kill p rows) (order ++ [p]).
Proof.
  unfold live_inv, kill. intros H lr Hin. apply in_map_iff in Hin as [[l r] [<- Hin]].
  specialize (H _ Hin). cbn [fst snd] in *.
  destruct l, (nth p (er_match r) false) eqn:En; cbn [andb fst snd]; rewrite first_match_app, ?En.
  - destruct H as [H _]. rewrite (H eq_refl). split; congruence.
  - destruct H as [H _]. rewrite (H eq_refl). split; congruence.
  - destruct (first_match order r); [split; congruence|]. destruct H as [_ H]. specialize (H eq_refl). discriminate.
  - destruct (first_match order r); [split; congruence|]. destruct H as [_ H]. specialize (H eq_refl). discriminate.
Qed.

Lemma live_total_credit rows order p d : live_inv rows order -> ~ In p order ->
  live_total rows p d = credit d (order ++ [p]) (map snd rows) p.
Proof.
  intros Hinv Hnp. rewrite live_total_unfold. unfold credit. rewrite map_map.
  assert (Hext : forall lr, In lr rows ->
     (if fst lr && nth p (er_match (snd lr)) false then weight d (snd lr) else 0) =
     match first_match (order ++ [p]) (snd lr) with Some q => if Nat.eqb q p then weight d (snd lr) else 0 | None => 0 end).
  { intros [l r] Hin. specialize (Hinv _ Hin). cbn [fst snd] in *. rewrite first_match_app.
    destruct (first_match order r) as [q|] eqn:Eq.
    - destruct l; [destruct Hinv as [Hi _]; specialize (Hi eq_refl); discriminate|]. cbn [andb].
      destruct (Nat.eqb_spec q p) as [->|]; [|reflexivity]. exfalso. apply Hnp. eapply first_match_in. exact Eq.
    - destruct l; [|destruct Hinv as [_ Hi]; specialize (Hi eq_refl); discriminate]. cbn [andb].
      destruct (nth p (er_match r) false); [rewrite Nat.eqb_refl; reflexivity|reflexivity]. }
  clear Hinv. induction rows as [|lr rows IH]; [reflexivity|]. cbn [map fold_right].
  rewrite Hext by (left; reflexivity). rewrite IH; [reflexivity|]. intros x Hx. apply Hext. right; exact Hx.
Qed.

Lemma credit_app_other d order p rows q : q <> p -> credit d (order ++ [p]) rows q = credit d order rows q.
Proof.
  intro Hne. unfold credit. induction rows as [|r rows IH]; [reflexivity|]. cbn [map fold_right]. rewrite IH. f_equal.
  rewrite first_match_app. destruct (first_match order r) as [x|]; [reflexivity|].
  destruct (nth p (er_match r) false); [|reflexivity].
  destruct (Nat.eqb_spec p q); [congruence|reflexivity].
Qed.

Theorem credit_proof fuel : forall np sd full rows done,
  live_inv rows (map c_rex done) ->
  NoDup (map c_rex done) ->
  (forall c, In c done -> c_incr c = credit false (map c_rex done) (map snd rows) (c_rex c) /\
                          c_incr_uniq c = credit true (map c_rex done) (map snd rows) (c_rex c)) ->
  let res := fst (greedy fuel np sd full rows done) in
  forall c, In c res -> c_incr c = credit false (map c_rex res) (map snd rows) (c_rex c) /\
                        c_incr_uniq c = credit true (map c_rex res) (map snd rows) (c_rex c).
Proof.
  induction fuel as [|f IH]; intros np sd full rows done Hinv Hnd Hc; cbn [greedy]; [exact Hc|].
  destruct (Nat.leb np (length done)); [exact Hc|].
  destruct (Z.ltb 0 _); [|exact Hc].
  destruct (mem_natb _ _) eqn:Em; [exact Hc|].
  set (p := first_ge (totals_of rows np sd) (zmax_l (totals_of rows np sd)) 0) in *.
  assert (Hnp : ~ In p (map c_rex done)).
  { intro Hin. unfold mem_natb in Em.
    assert (existsb (Nat.eqb p) (map c_rex done) = true) by (apply existsb_exists; eexists; split; [exact Hin|apply Nat.eqb_refl]).
    congruence. }
  assert (Hrows : map snd (kill p rows) = map snd rows).
  { unfold kill. rewrite map_map. apply map_ext. intros [l r]. cbn [fst snd]. destruct (l && _); reflexivity. }
  cbv zeta in IH. intros c Hin. rewrite <- Hrows. revert c Hin. apply IH.
  - rewrite map_app. cbn [map c_rex]. apply live_inv_kill. exact Hinv.
  - rewrite map_app. cbn [map c_rex]. apply NoDup_app_one; assumption.
  - intros c Hin. rewrite map_app. cbn [map c_rex]. rewrite Hrows.
    apply in_app_or in Hin as [Hin|[<-|[]]].
    + assert (c_rex c <> p) by (intro E; apply Hnp; rewrite <- E; apply in_map; exact Hin).
      rewrite !credit_app_other by assumption. apply Hc. exact Hin.
    + cbn [c_rex c_incr c_incr_uniq]. split; apply live_total_credit; assumption.
Qed.

(* every listed figure is the weight of the examples whose first matching listed expression it is *)
Theorem incr_credit_proof rows np sd :
  let res := incremental rows np sd in
  forall c, In c res -> c_incr c = credit false (map c_rex res) rows (c_rex c) /\
                        c_incr_uniq c = credit true (map c_rex res) rows (c_rex c).
Proof.
  unfold incremental.
  pose proof (credit_proof (S np) np sd rows (start rows) []) as H. cbv zeta in H.
  assert (Hs : map snd (start rows) = rows).
  { unfold start. rewrite map_map. cbn [snd]. apply map_id. }
  rewrite Hs in H. apply H.
  - intros lr Hin. unfold start in Hin. apply in_map_iff in Hin as [r [<- _]]. cbn. tauto.
  - constructor.
  - intros c [].
Qed.

Theorem selected_distinct_run rows np sd : NoDup (map c_rex (incremental rows np sd)).
Proof. unfold incremental. apply selected_distinct_proof. constructor. Qed.
