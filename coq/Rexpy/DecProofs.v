(* Decimal rendering (Chars.dec_of_Z, Python's '%d' % n): digits only, and reading them back gives the number. *)
From Coq Require Import ZArith List Bool Lia.
From Tdda Require Import Base.Sexp Base.Str Rexpy.Chars.
Import ListNotations.
Open Scope Z_scope.

(* decimal rendering is injective on the non-negative integers: reading the digits back gives the number *)
Definition undec (s : str) : Z := fold_left (fun a c => a * 10 + (c - 48)) s 0.

Lemma dec_digits_undec fuel : forall n acc, 0 <= n < 10 ^ Z.of_nat fuel ->
  fold_left (fun a c => a * 10 + (c - 48)) (dec_digits fuel n acc) 0 = fold_left (fun a c => a * 10 + (c - 48)) acc n.
Proof.
  induction fuel as [|f IH]; intros n acc Hn.
  - cbn [dec_digits]. change (10 ^ Z.of_nat 0) with 1 in Hn. replace n with 0 by lia. reflexivity.
  - cbn [dec_digits]. destruct (Z.ltb_spec n 10) as [Hlt|Hge].
    + cbn [fold_left]. f_equal. rewrite Z.mod_small by lia. lia.
    + rewrite IH.
      * cbn [fold_left]. f_equal. pose proof (Z.div_mod n 10 ltac:(lia)). lia.
      * rewrite Nat2Z.inj_succ, Z.pow_succ_r in Hn by lia. split; [apply Z.div_pos; lia|]. apply Z.div_lt_upper_bound; lia.
Qed.

Lemma undec_dec n : 0 <= n -> undec (dec_of_Z n) = n.
Proof.
  intro Hn. unfold undec, dec_of_Z. replace (Z.ltb n 0) with false by (symmetry; apply Z.ltb_ge; lia).
  rewrite dec_digits_undec; [reflexivity|]. split; [exact Hn|].
  destruct (Z.eq_dec n 0) as [->|Hnz]; [cbn; lia|].
  rewrite Nat2Z.inj_succ, Z2Nat.id by (apply Z.log2_nonneg).
  pose proof (Z.log2_spec n ltac:(lia)) as [_ Hu].
  eapply Z.lt_le_trans; [exact Hu|]. apply Z.pow_le_mono_l. lia.
Qed.

Lemma dec_of_Z_inj a b : 0 <= a -> 0 <= b -> dec_of_Z a = dec_of_Z b -> a = b.
Proof. intros Ha Hb H. rewrite <- (undec_dec a Ha), <- (undec_dec b Hb), H. reflexivity. Qed.


Lemma dec_digits_all09 fuel : forall n acc, 0 <= n -> forallb is_09 acc = true -> forallb is_09 (dec_digits fuel n acc) = true.
Proof.
  induction fuel as [|f IH]; intros n acc Hn Ha; cbn [dec_digits]; [exact Ha|].
  assert (Hd : is_09 (48 + n mod 10) = true).
  { unfold is_09, between. pose proof (Z.mod_pos_bound n 10 ltac:(lia)). apply andb_true_iff. split; apply Z.leb_le; lia. }
  destruct (Z.ltb n 10).
  - cbn [forallb]. rewrite Hd, Ha. reflexivity.
  - apply IH; [apply Z.div_pos; lia|]. cbn [forallb]. rewrite Hd, Ha. reflexivity.
Qed.

Lemma dec_digits_nonempty fuel n acc : dec_digits (S fuel) n acc <> [].
Proof.
  revert n acc. induction fuel as [|f IH]; intros n acc; cbn [dec_digits].
  - destruct (Z.ltb n 10); discriminate.
  - destruct (Z.ltb n 10); [discriminate|]. apply IH.
Qed.

Lemma dec_of_Z_digits n : 0 <= n -> forallb is_09 (dec_of_Z n) = true /\ dec_of_Z n <> [].
Proof.
  intro Hn. unfold dec_of_Z. replace (Z.ltb n 0) with false by (symmetry; apply Z.ltb_ge; lia). split.
  - apply dec_digits_all09; [exact Hn|reflexivity].
  - apply dec_digits_nonempty.
Qed.
