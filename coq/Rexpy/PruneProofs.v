(* Pruning (Extractor.find_bad_patterns, max_patterns / min_strings_per_pattern): what survives.
   kept o freqs = the indices of the expressions that remain, in order. *)
From Coq Require Import ZArith List Bool Arith Lia Permutation.
From Tdda Require Import Base.Sexp Base.Str Base.Sort Rexpy.Pipeline.
Import ListNotations.
Open Scope Z_scope.

Definition kept (o : ropts) (freqs : list Z) : list nat :=
  filter (fun i => negb (mem_nat i (find_bad_patterns o freqs))) (seq 0 (length freqs)).

Lemma insert_perm {T} (leb : T -> T -> bool) x l : Permutation (x :: l) (insert leb x l).
Proof.
  induction l as [|y l IH]; simpl; [reflexivity|].
  destruct (leb x y); [reflexivity|].
  eapply perm_trans; [apply perm_swap|]. apply perm_skip. exact IH.
Qed.

Lemma isort_perm {T} (leb : T -> T -> bool) l : Permutation l (isort leb l).
Proof.
  induction l as [|x l IH]; simpl; [reflexivity|].
  eapply perm_trans; [apply perm_skip; exact IH|]. apply insert_perm.
Qed.

Lemma map_fst_combine {A B} (a : list A) (b : list B) : length a = length b -> map fst (combine a b) = a.
Proof.
  revert b; induction a as [|x a IH]; intros [|y b] H; simpl in *; try discriminate; [reflexivity|].
  f_equal. apply IH. lia.
Qed.

Lemma mem_nat_In i l : mem_nat i l = true <-> In i l.
Proof.
  unfold mem_nat. rewrite existsb_exists. split.
  - intros [x [Hx He]]. apply Nat.eqb_eq in He. subst. exact Hx.
  - intro H. exists i. split; [exact H|apply Nat.eqb_refl].
Qed.

(* the ranking is a permutation of the indices *)
Lemma ranking_perm freqs :
  Permutation (seq 0 (length freqs))
              (map fst (isort neg_freq_leb (combine (seq 0 (length freqs)) freqs))).
Proof.
  rewrite <- (map_fst_combine (seq 0 (length freqs)) freqs) at 1 by (rewrite seq_length; reflexivity).
  apply Permutation_map. apply isort_perm.
Qed.

(* the order of the result: pruning only removes *)
Lemma kept_sublist o freqs : exists f, kept o freqs = filter f (seq 0 (length freqs)).
Proof. eexists. reflexivity. Qed.

Lemma kept_increasing o freqs : forall i, In i (kept o freqs) -> (i < length freqs)%nat.
Proof. intros i H. apply filter_In in H as [H _]. apply in_seq in H. lia. Qed.

(* every kept expression counts at least min_strings_per_pattern strings *)
Lemma kept_min_strings o freqs i :
  1 < o_min_strings o -> In i (kept o freqs) -> o_min_strings o <= nth i freqs 0.
Proof.
  intros Hm H. apply filter_In in H as [Hi Hb]. apply in_seq in Hi. apply negb_true_iff in Hb.
  destruct (Z.ltb_spec (nth i freqs 0) (o_min_strings o)) as [Hlt|]; [|lia]. exfalso.
  assert (Hin : In i (find_bad_patterns o freqs)).
  { unfold find_bad_patterns. apply in_or_app. right.
    destruct (Z.ltb_spec 1 (o_min_strings o)); [|lia].
    apply in_map_iff. exists (i, nth i freqs 0). split; [reflexivity|]. apply filter_In. split.
    - assert (Hc : nth_error (combine (seq 0 (length freqs)) freqs) i = Some (i, nth i freqs 0)).
      { clear -Hi. assert (G : forall s fs k, (k < length fs)%nat ->
                              nth_error (combine (seq s (length fs)) fs) k = Some ((s + k)%nat, nth k fs 0)).
        { intros s fs. revert s. induction fs as [|f fs IH]; intros s k Hk; simpl in *; [lia|].
          destruct k as [|k]; simpl; [f_equal; f_equal; lia|]. rewrite IH by lia. f_equal. f_equal. lia. }
        rewrite (G 0%nat freqs i) by lia. reflexivity. }
      eapply nth_error_In. exact Hc.
    - cbn [snd]. apply Z.ltb_lt. exact Hlt. }
  apply mem_nat_In in Hin. congruence.
Qed.

(* ... and every expression that counts that many and is within the max_patterns best is kept: with only
   min_strings_per_pattern set, the kept ones are EXACTLY those that count enough *)
Lemma kept_min_strings_exact o freqs i :
  o_max_patterns o = None -> (i < length freqs)%nat ->
  (In i (kept o freqs) <-> (o_min_strings o <= 1 \/ o_min_strings o <= nth i freqs 0)).
Proof.
  intros HM Hi. unfold kept. rewrite filter_In, in_seq, negb_true_iff.
  unfold find_bad_patterns. rewrite HM. cbn [app].
  destruct (Z.ltb_spec 1 (o_min_strings o)) as [Hm|Hm].
  - split.
    + intros [_ Hb]. right. destruct (Z.ltb_spec (nth i freqs 0) (o_min_strings o)) as [Hlt|]; [|lia]. exfalso.
      assert (Hin : In i (map fst (filter (fun kv : nat * Z => snd kv <? o_min_strings o)
                                          (combine (seq 0 (length freqs)) freqs)))).
      { apply in_map_iff. exists (i, nth i freqs 0). split; [reflexivity|]. apply filter_In. split.
        - assert (G : forall s fs k, (k < length fs)%nat ->
                              nth_error (combine (seq s (length fs)) fs) k = Some ((s + k)%nat, nth k fs 0)).
          { intros s fs. revert s. induction fs as [|f fs IH]; intros s k Hk; simpl in *; [lia|].
            destruct k as [|k]; simpl; [f_equal; f_equal; lia|]. rewrite IH by lia. f_equal. f_equal. lia. }
          eapply nth_error_In. rewrite (G 0%nat freqs i Hi). reflexivity.
        - cbn [snd]. apply Z.ltb_lt. exact Hlt. }
      apply mem_nat_In in Hin. congruence.
    + intros [H|H]; [lia|]. split; [lia|].
      destruct (mem_nat i _) eqn:E; [|reflexivity]. exfalso.
      apply mem_nat_In in E. apply in_map_iff in E as [[j v] [Hj Hf]]. cbn [fst] in Hj. subst j.
      apply filter_In in Hf as [Hc Hv]. cbn [snd] in Hv. apply Z.ltb_lt in Hv.
      assert (G : forall s fs k v, In (k, v) (combine (seq s (length fs)) fs) -> v = nth (k - s) fs 0 /\ (s <= k)%nat).
      { intros s fs. revert s. induction fs as [|f fs IH]; intros s k v0 Hin; simpl in *; [contradiction|].
        destruct Hin as [Heq|Hin]; [inversion Heq; subst; rewrite Nat.sub_diag; split; [reflexivity|lia]|].
        apply IH in Hin as [-> Hle]. split; [|lia]. replace (k - s)%nat with (S (k - S s)) by lia. reflexivity. }
      apply G in Hc as [-> _]. rewrite Nat.sub_0_r in Hv. lia.
  - split; [intros _; left; lia|]. intros _. split; [lia|]. reflexivity.
Qed.

(* never more than max_patterns expressions *)
Lemma filter_out_length (bad l : list nat) :
  NoDup l -> NoDup bad -> incl bad l ->
  length (filter (fun i => negb (mem_nat i bad)) l) = (length l - length bad)%nat.
Proof.
  revert bad. induction l as [|x l IH]; intros bad Hl Hb Hinc.
  - destruct bad as [|b bad]; [reflexivity|]. exfalso. apply (Hinc b). left. reflexivity.
  - inversion Hl as [|? ? Hx Hl']; subst. cbn [filter].
    destruct (mem_nat x bad) eqn:E; cbn [negb].
    + apply mem_nat_In in E. apply in_split in E as [b1 [b2 ->]].
      assert (Hb' : NoDup (b1 ++ b2)) by (eapply NoDup_remove_1; exact Hb).
      assert (Hnx : ~ In x (b1 ++ b2)) by (eapply NoDup_remove_2; exact Hb).
      rewrite (filter_ext_in _ (fun i => negb (mem_nat i (b1 ++ b2)))).
      * rewrite (IH (b1 ++ b2) Hl' Hb').
        { rewrite !app_length. cbn [length]. lia. }
        intros y Hy. assert (Hy' : In y (b1 ++ x :: b2)).
        { apply in_app_or in Hy as [Hy|Hy]; apply in_or_app; [left; exact Hy|right; right; exact Hy]. }
        apply Hinc in Hy' as [->|Hy']; [contradiction|exact Hy'].
      * intros y Hy. f_equal.
        destruct (mem_nat y (b1 ++ x :: b2)) eqn:E1, (mem_nat y (b1 ++ b2)) eqn:E2; try reflexivity.
        -- apply mem_nat_In in E1. apply in_app_or in E1 as [E1|[E1|E1]].
           ++ assert (In y (b1 ++ b2)) by (apply in_or_app; left; exact E1). apply mem_nat_In in H. congruence.
           ++ subst y. contradiction.
           ++ assert (In y (b1 ++ b2)) by (apply in_or_app; right; exact E1). apply mem_nat_In in H. congruence.
        -- apply mem_nat_In in E2. assert (In y (b1 ++ x :: b2)).
           { apply in_app_or in E2 as [E2|E2]; apply in_or_app; [left; exact E2|right; right; exact E2]. }
           apply mem_nat_In in H. congruence.
    + cbn [length]. assert (Hnx : ~ In x bad) by (intro H; apply mem_nat_In in H; congruence).
      rewrite (IH bad Hl' Hb).
      * assert (length bad <= length l)%nat.
        { apply NoDup_incl_length; [exact Hb|]. intros y Hy. destruct (Hinc y Hy) as [->|H]; [contradiction|exact H]. }
        lia.
      * intros y Hy. destruct (Hinc y Hy) as [->|H]; [contradiction|exact H].
Qed.

Lemma NoDup_app_r {A} (a b : list A) : NoDup (a ++ b) -> NoDup b.
Proof. induction a as [|x a IH]; simpl; intro H; [exact H|]. inversion H; subst. apply IH. assumption. Qed.

Lemma filter_len_le {A} (f : A -> bool) l : (length (filter f l) <= length l)%nat.
Proof. induction l as [|x l IH]; simpl; [lia|]. destruct (f x); simpl; lia. Qed.

Lemma kept_max_patterns o freqs M :
  o_max_patterns o = Some M -> 0 <= M -> (length (kept o freqs) <= Z.to_nat M)%nat.
Proof.
  intros HM H0. unfold kept.
  set (n := length freqs).
  destruct (Z.ltb_spec M (Z.of_nat n)) as [Hlt|Hge].
  - (* the ranked tail alone already removes n - M distinct indices *)
    set (rank := map fst (isort neg_freq_leb (combine (seq 0 n) freqs))).
    set (tail := skipn (Z.to_nat M) rank).
    assert (Hperm : Permutation (seq 0 n) rank) by (apply ranking_perm).
    assert (Hnd : NoDup rank) by (eapply Permutation_NoDup; [exact Hperm|apply seq_NoDup]).
    assert (Hlen : length rank = n) by (rewrite <- (Permutation_length Hperm), seq_length; reflexivity).
    assert (Htnd : NoDup tail).
    { unfold tail. rewrite <- (firstn_skipn (Z.to_nat M) rank) in Hnd. apply NoDup_app_r in Hnd. exact Hnd. }
    assert (Htinc : incl tail (seq 0 n)).
    { intros y Hy. eapply Permutation_in; [apply Permutation_sym; exact Hperm|].
      unfold tail in Hy. rewrite <- (firstn_skipn (Z.to_nat M) rank). apply in_or_app. right. exact Hy. }
    assert (Htlen : length tail = (n - Z.to_nat M)%nat) by (unfold tail; rewrite skipn_length, Hlen; reflexivity).
    (* kept is included in the filter that removes the tail only *)
    assert (Hle : (length (filter (fun i => negb (mem_nat i (find_bad_patterns o freqs))) (seq 0 n))
                   <= length (filter (fun i => negb (mem_nat i tail)) (seq 0 n)))%nat).
    { generalize (seq 0 n). intro l. induction l as [|x l IH]; [simpl; lia|]. cbn [filter].
      assert (Himp : mem_nat x tail = true -> mem_nat x (find_bad_patterns o freqs) = true).
      { intro E. apply mem_nat_In in E. apply mem_nat_In. unfold find_bad_patterns. rewrite HM.
        fold n. destruct (Z.ltb_spec M (Z.of_nat n)); [|lia]. apply in_or_app. left. exact E. }
      destruct (mem_nat x (find_bad_patterns o freqs)) eqn:E1, (mem_nat x tail) eqn:E2; cbn [negb length]; try lia;
        try (specialize (Himp eq_refl); discriminate). }
    rewrite (filter_out_length tail (seq 0 n) (seq_NoDup n 0) Htnd Htinc) in Hle.
    rewrite seq_length, Htlen in Hle. lia.
  - (* nothing to rank away: there are at most M expressions anyway *)
    etransitivity; [apply filter_len_le|]. rewrite seq_length. fold n. lia.
Qed.

Example kept_example :
  kept {| o_tag := false; o_extra := []; o_full_escape := false; o_remove_empties := false; o_strip := false;
          o_vlf := false; o_max_patterns := Some 2; o_min_strings := 2; o_dialect_out := false;
          z_do_all := None; z_do_all_exceptions := 4000; z_max_sampled_attempts := 2;
          z_max_punc_in_group := 5; z_max_strings_in_group := 10 |} [4; 1; 2; 1; 3] = [0%nat; 4%nat].
Proof. vm_compute. reflexivity. Qed.

(* the counts the loop hands to the pruning are one per expression (so that `kept` is about the expressions) *)
Local Opaque seq.
Lemma find_non_matches_freqs_length mt rexes all fails re_freqs :
  rexes <> [] -> find_non_matches mt rexes all = Ok (fails, re_freqs) -> length re_freqs = length rexes.
Proof.
  intros Hne H. unfold find_non_matches in H. destruct rexes as [|r rs]; [contradiction|].
  destruct (mapM _ _) as [firsts|err]; cbn [bind] in H; [|discriminate].
  assert (G : forall (f : nat -> Z) n, length (map f (seq 0 n)) = n) by (intros; rewrite map_length, seq_length; reflexivity).
  injection H as _ Hf. rewrite <- Hf. rewrite G. reflexivity.
Qed.
Local Transparent seq.

(* run_extractor's own filter is `kept` whenever there is one count per expression *)
Lemma keep_is_kept o freqs n :
  n = length freqs ->
  filter (fun i => negb (mem_nat i (find_bad_patterns o freqs))) (seq 0 n) = kept o freqs.
Proof. intros ->. reflexivity. Qed.
