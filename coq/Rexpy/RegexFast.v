(* The polynomial matcher used by the extracted model (reachable positions) decides exactly what the
   backtracking matcher of the theorems (match_items) decides. *)
From Coq Require Import ZArith List Bool Lia Arith.
From Tdda Require Import Base.Sexp Base.Str Rexpy.Chars Rexpy.Pipeline Rexpy.OracleCheck Rexpy.Regex.
Import ListNotations.

Lemma existsb_nodup (f : nat -> bool) l : existsb f (nodup Nat.eq_dec l) = existsb f l.
Proof.
  destruct (existsb f l) eqn:E.
  - apply existsb_exists in E as [x [Hx Hf]]. apply existsb_exists. exists x. split; [apply nodup_In; exact Hx|exact Hf].
  - destruct (existsb f (nodup Nat.eq_dec l)) eqn:E2; [|reflexivity].
    apply existsb_exists in E2 as [x [Hx Hf]]. apply nodup_In in Hx.
    assert (existsb f l = true) by (apply existsb_exists; exists x; split; assumption). congruence.
Qed.

Lemma existsb_flat_map {A B} (f : B -> bool) (g : A -> list B) l :
  existsb f (flat_map g l) = existsb (fun a => existsb f (g a)) l.
Proof. induction l as [|a l IH]; [reflexivity|]. cbn [flat_map existsb]. rewrite existsb_app, IH. reflexivity. Qed.

Lemma existsb_map {A B} (f : B -> bool) (g : A -> B) l : existsb f (map g l) = existsb (fun a => f (g a)) l.
Proof. induction l as [|a l IH]; [reflexivity|]. cbn [map existsb]. rewrite IH. reflexivity. Qed.

Lemma existsb_filter {A} (f p : A -> bool) l : existsb f (filter p l) = existsb (fun a => p a && f a) l.
Proof.
  induction l as [|a l IH]; [reflexivity|]. cbn [filter existsb]. destruct (p a); cbn [existsb andb orb]; rewrite IH; reflexivity.
Qed.

Lemma existsb_ext_in {A} (f g : A -> bool) l : (forall a, In a l -> f a = g a) -> existsb f l = existsb g l.
Proof.
  induction l as [|a l IH]; intro H; [reflexivity|]. cbn [existsb]. rewrite (H a (or_introl eq_refl)). f_equal.
  apply IH. intros x Hx. apply H. right. exact Hx.
Qed.

Lemma take_while_le (p : Z -> bool) s : (take_while p s <= List.length s)%nat.
Proof. induction s as [|c s IH]; cbn [take_while List.length]; [lia|]. destruct (p c); lia. Qed.

Lemma skipn_add {A} (a b : nat) (l : list A) : skipn (a + b) l = skipn b (skipn a l).
Proof.
  revert l. induction a as [|a IH]; intro l; [reflexivity|]. destruct l as [|x l]; cbn [Nat.add skipn].
  - destruct b; reflexivity.
  - apply IH.
Qed.

Section Fast.
Variable ct : chartab.
Variable s : str.

Definition bounded (ps : list nat) : Prop := forall p, In p ps -> (p <= List.length s)%nat.

Lemma step_bounded it ps : bounded ps -> bounded (step_positions ct s it ps).
Proof.
  intros Hb q Hq. unfold step_positions in Hq. apply nodup_In in Hq. apply in_flat_map in Hq as [p [Hp Hq]].
  apply in_map_iff in Hq as [k [<- Hk]]. apply filter_In in Hk as [Hk _]. apply in_seq in Hk.
  pose proof (take_while_le (sem_cset ct (i_set it)) (skipn p s)) as Ht. rewrite skipn_length in Ht.
  specialize (Hb p Hp). lia.
Qed.

Lemma step_spec it rest ps :
  existsb (fun q => match_items ct rest (skipn q s)) (step_positions ct s it ps)
  = existsb (fun p => match_items ct (it :: rest) (skipn p s)) ps.
Proof.
  unfold step_positions. rewrite existsb_nodup, existsb_flat_map. apply existsb_ext_in. intros p _.
  rewrite existsb_map, existsb_filter. cbn [match_items]. apply existsb_ext_in. intros k _.
  rewrite skipn_add. reflexivity.
Qed.

Lemma fast_from items : forall ps, bounded ps ->
  existsb (Nat.eqb (List.length s)) (fold_left (fun ps it => step_positions ct s it ps) items ps)
  = existsb (fun p => match_items ct items (skipn p s)) ps.
Proof.
  induction items as [|it rest IH]; intros ps Hb.
  - cbn [fold_left match_items]. apply existsb_ext_in. intros p Hp. specialize (Hb p Hp).
    destruct (Nat.eqb_spec (List.length s) p) as [E|E].
    + subst p. rewrite skipn_all. reflexivity.
    + destruct (skipn p s) as [|c r] eqn:Es; [|reflexivity].
      assert (Hl : List.length (skipn p s) = O) by (rewrite Es; reflexivity). rewrite skipn_length in Hl. lia.
  - cbn [fold_left]. rewrite IH by (apply step_bounded; exact Hb). apply step_spec.
Qed.
End Fast.

Theorem match_fast_spec ct items s : match_fast ct items s = match_items ct items s.
Proof.
  unfold match_fast. rewrite fast_from.
  - cbn [existsb skipn]. apply orb_false_r.
  - intros p [<-|[]]. lia.
Qed.

Theorem re_fast_match_spec ct text s : re_fast_match ct text s = re_model_match ct text s.
Proof.
  unfold re_fast_match, re_model_match. destruct (parse_regex text) as [items|]; [|reflexivity].
  rewrite match_fast_spec. destruct (drop_final_newline s); [rewrite match_fast_spec|]; reflexivity.
Qed.

Theorem re_fast_fullmatch_spec ct text s : re_fast_fullmatch ct text s = re_model_fullmatch ct text s.
Proof.
  unfold re_fast_fullmatch, re_model_fullmatch. destruct (parse_regex text); [rewrite match_fast_spec|]; reflexivity.
Qed.
