(* C08 - database discovery is sound and verification notices violating rows. *)
From Coq Require Import ZArith List Bool.
From Tdda Require Import Base.Sexp Base.Str Generated.Consts Constraints.Model Constraints.ModelProofs Constraints.SqlText
  Constraints.Detect Constraints.ClosureDetect.
Import ListNotations.
Open Scope Z_scope.

(* soundness: the shared discovery/verification logic is closed (same theorem as C01, any calculator
   that returns the aggregates of Constraints/Model.v, which the correspondence checks for SQLite) *)
Theorem C08_db_closure : forall p c rex ks, well_typed c ->
  (forall oks, rex = Some oks -> forallb (fun b => b) oks = true) ->
  discover c rex = Some ks -> forall k, In k ks -> verify p (Some c) k = true.
Proof. exact closure_proof. Qed.
Print Assumptions C08_db_closure.

(* the expressions embedded in the REGEXP statement survive SQL literal quoting, whatever they contain *)
Theorem C08_sql_literal_roundtrip : forall s rest,
  match rest with c :: _ => Z.eqb c q = false | [] => True end ->
  match sql_literal s ++ rest with
  | c :: body => Z.eqb c q = true /\ sql_lex_body (S (length body)) body = Some (s, rest)
  | [] => False
  end.
Proof. exact sql_literal_roundtrip_proof. Qed.
Print Assumptions C08_sql_literal_roundtrip.

(* one added row that breaks a constraint makes verification report it *)
Theorem C08_perturb_min : forall p c b v,
  well_formed (add_row c (Some v)) -> sat_min b v = false ->
  verify p (Some (add_row c (Some v))) (CMin (Some b)) = false.
Proof. exact perturb_min_proof. Qed.
Print Assumptions C08_perturb_min.

Theorem C08_perturb_max : forall p c b v,
  well_formed (add_row c (Some v)) -> sat_max b v = false ->
  verify p (Some (add_row c (Some v))) (CMax (Some b)) = false.
Proof. exact perturb_max_proof. Qed.
Print Assumptions C08_perturb_max.

Theorem C08_perturb_sign : forall p c s v,
  well_formed (add_row c (Some v)) -> numeric (add_row c (Some v)) -> sat_sign s v = false ->
  verify p (Some (add_row c (Some v))) (CSign (Some s)) = false.
Proof. exact perturb_sign_proof. Qed.
Print Assumptions C08_perturb_sign.

Theorem C08_perturb_length : forall p c n v, c_type c = TString ->
  (str_len v < n -> verify p (Some (add_row c (Some v))) (CMinLen (Some n)) = false) /\
  (n < str_len v -> verify p (Some (add_row c (Some v))) (CMaxLen (Some n)) = false).
Proof. exact perturb_length_proof. Qed.
Print Assumptions C08_perturb_length.

Theorem C08_perturb_null : forall p c,
  verify p (Some (add_row c None)) (CMaxNulls (Some (null_count c))) = false.
Proof. exact perturb_null_proof. Qed.
Print Assumptions C08_perturb_null.

Theorem C08_perturb_duplicate : forall p c v, In v (non_nulls c) ->
  verify p (Some (add_row c (Some v))) (CNoDup (Some true)) = false.
Proof. exact perturb_duplicate_proof. Qed.
Print Assumptions C08_perturb_duplicate.

(* table level: a whole table (any number of columns) verified with the constraints discovered from it counts no
   failure; and whenever some row breaks some constraint of some column (the perturbation theorems above give
   verify = false for that constraint) the overall failure count of the verification is positive *)
Theorem C08_db_table_no_failures : forall p fields, Forall self_discovered fields ->
  v_failures (verify_dataset p (as_fields fields)) = 0.
Proof. intros p fields H. exact (proj1 (closure_dataset_proof p fields H)). Qed.
Print Assumptions C08_db_table_no_failures.

Theorem C08_violation_is_counted : forall p (fs : list (option column * list constr)) f k,
  In f fs -> In k (snd f) -> verify p (fst f) k = false -> 0 < v_failures (verify_dataset p fs).
Proof. exact one_failure_is_counted_proof. Qed.
Print Assumptions C08_violation_is_counted.
