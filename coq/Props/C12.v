(* C12 - gentest: the generated test fails when the command behaves differently, each change being reported by
   the check for that stream, file or status, and keeps passing when nothing has changed. *)
From Coq Require Import ZArith List Bool.
From Tdda Require Import Base.Sexp Base.Str RefTest.CheckStrings Gentest.Script Gentest.ScriptProofs.
Import ListNotations.
Open Scope Z_scope.

Theorem C12_changed_exit_fails : forall cs ce subs ref new,
  out_exit new <> out_exit ref -> In (CExit, false) (run_generated cs ce subs ref new).
Proof. exact changed_exit_fails_proof. Qed.
Print Assumptions C12_changed_exit_fails.

(* a stream changes: a different number of lines, or some line differs from a reference line that contains none of
   the derived ignore-substrings (host, user, directory, plausible dates: the exclusions are the tool's design) *)
Theorem C12_changed_stdout_fails : forall ce subs ref new,
  text_changed (subs s_stdout) (splitlines (out_stdout new)) (splitlines (univ_nl (out_stdout ref))) ->
  In (CStdout, false) (run_generated true ce subs ref new).
Proof. exact changed_stdout_fails_proof. Qed.
Print Assumptions C12_changed_stdout_fails.

Theorem C12_changed_stderr_fails : forall cs subs ref new,
  text_changed (subs s_stderr) (splitlines (out_stderr new)) (splitlines (univ_nl (out_stderr ref))) ->
  In (CStderr, false) (run_generated cs true subs ref new).
Proof. exact changed_stderr_fails_proof. Qed.
Print Assumptions C12_changed_stderr_fails.

(* a checked file: missing, or a binary file with different bytes, or a text file with an unexcused change *)
Theorem C12_changed_file_fails : forall cs ce subs ref new f,
  In f (out_files ref) ->
  (match find_file (fst (fst f)) (out_files new) with
   | None => True
   | Some g =>
     match snd f, snd g with
     | Some rc, Some nc =>
       if snd (fst f) then text_changed (subs (fst (fst f))) (splitlines (univ_nl nc)) (splitlines (univ_nl rc))
       else nc <> rc
     | _, _ => True
     end
   end) ->
  In (CFile (fst (fst f)), false) (run_generated cs ce subs ref new).
Proof. exact changed_file_fails_proof. Qed.
Print Assumptions C12_changed_file_fails.

(* only the affected checks fail: when streams and files are as before, every check other than the exit status passes *)
Theorem C12_unaffected_checks_pass : forall cs ce subs ref new,
  out_stdout new = out_stdout ref -> out_stderr new = out_stderr ref -> out_files new = out_files ref ->
  NoDup (map (fun f : str * bool * option str => fst (fst f)) (out_files ref)) ->
  (forall f, In f (out_files ref) -> snd f <> None) ->
  forall c ok, In (c, ok) (run_generated cs ce subs ref new) -> c <> CExit -> ok = true.
Proof. exact unaffected_checks_proof. Qed.
Print Assumptions C12_unaffected_checks_pass.

Example C12_example :
  let ref := {| out_exit := 0; out_stdout := [97; 10; 98; 10]; out_stderr := []; out_files := [([102], false, Some [1; 2])] |} in
  let new := {| out_exit := 0; out_stdout := [97; 10; 99; 10]; out_stderr := []; out_files := [([102], false, Some [1; 2])] |} in
  text_changed [] (splitlines (out_stdout new)) (splitlines (univ_nl (out_stdout ref))) /\
  map snd (run_generated true true (fun _ => []) ref new) = [true; true; false; true; true].
Proof. split; [right; vm_compute; reflexivity|vm_compute; reflexivity]. Qed.
