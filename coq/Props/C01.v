(* C01 - discovered constraints are satisfied by the data they came from. *)
From Coq Require Import ZArith List Bool.
From Tdda Require Import Base.Sexp Base.Str Generated.Consts Constraints.Model Constraints.ModelProofs.
Import ListNotations.
Open Scope Z_scope.

(* For every well-typed column (any length, any null pattern, any values), with strict or sloppy type
   checking and whatever epsilon: every constraint discovered from the column verifies on it.  The
   hypothesis on rex is property C03 (each example matched by a returned expression). *)
Theorem C01_closure : forall p c rex ks, well_typed c ->
  (forall oks, rex = Some oks -> forallb (fun b => b) oks = true) ->
  discover c rex = Some ks ->
  forall k, In k ks -> verify p (Some c) k = true.
Proof. exact closure_proof. Qed.
Print Assumptions C01_closure.

(* hence a whole verification of discovered constraints counts no failure for that field *)
Theorem C01_field_totals : forall p col ks,
  let r := verify_field p col ks in
  fr_failures r = count_false (map (verify p col) ks).
Proof. intros p col ks. apply (field_totals_spec_proof p col ks). Qed.
Print Assumptions C01_field_totals.

Example C01_inhabited :
  let c := {| c_type := TReal; c_cells := [Some VNegInf; None; Some (VNum 5); Some VPosInf] |} in
  match discover c None with
  | Some ks => forallb (verify {| p_strict := true |} (Some c)) ks = true /\ length ks = 4%nat
  | None => False
  end.
Proof. vm_compute. split; reflexivity. Qed.
