(* C01 - discovered constraints are satisfied by the data they came from. *)
From Coq Require Import ZArith List Bool.
From Tdda Require Import Base.Sexp Base.Str Generated.Consts Constraints.Model Constraints.ModelProofs
  Constraints.Detect Constraints.ClosureDetect.
Import ListNotations.
Open Scope Z_scope.

(* For every well-typed column (any length, any null pattern, any values), with strict or sloppy type
   checking and whatever epsilon: every constraint discovered from the column verifies on it.  The
   hypothesis on rex is property C03 (each example matched by a returned expression). *)
Theorem C01_closure : forall p c rex ks, well_typed c ->
  (forall oks, rex = Some oks -> forallb (fun b => b) oks = true) ->
  discover c rex = Some ks ->
  forall k, In k ks -> verify p (Some c) k = true.
Proof. exact closure_proof. Qed.
Print Assumptions C01_closure.

(* hence a whole verification of discovered constraints counts no failure for that field *)
Theorem C01_field_totals : forall p col ks,
  let r := verify_field p col ks in
  fr_failures r = count_false (map (verify p col) ks).
Proof. intros p col ks. apply (field_totals_spec_proof p col ks). Qed.
Print Assumptions C01_field_totals.

Example C01_inhabited :
  let c := {| c_type := TReal; c_cells := [Some VNegInf; None; Some (VNum 5); Some VPosInf] |} in
  match discover c None with
  | Some ks => forallb (verify {| p_strict := true |} (Some c)) ks = true /\ length ks = 4%nat
  | None => False
  end.
Proof. vm_compute. split; reflexivity. Qed.

(* ... and detection on it reports no failing records: for a whole dataset (any number of fields, any number
   of records) whose constraints are those discovered from its own columns, no flag column is produced, every
   record has n_failures = 0, no record fails and all of them pass; so no output file is written. *)
Theorem C01_detect_no_failing_records : forall p fields nrows, Forall self_discovered fields ->
  let d := detect p fields nrows in
  d_columns d = [] /\ d_nfailures d = repeat 0 nrows /\ d_failing d = 0 /\ d_passing d = Z.of_nat nrows.
Proof. exact closure_detect_proof. Qed.
Print Assumptions C01_detect_no_failing_records.

Theorem C01_detect_writes_no_file : forall p fields nrows existed, Forall self_discovered fields ->
  outfile_after existed (d_failing (detect p fields nrows)) = false.
Proof. exact closure_detect_no_file_proof. Qed.
Print Assumptions C01_detect_writes_no_file.

(* whole-dataset verification (any number of fields): no failure is counted, overall or in any field, and
   every discovered constraint is counted as a pass *)
Theorem C01_dataset_no_failures : forall p fields, Forall self_discovered fields ->
  let v := verify_dataset p (as_fields fields) in
  v_failures v = 0 /\
  v_passes v = Z.of_nat (length (flat_map (@snd column (list constr)) fields)) /\
  forall r, In r (v_fields v) -> fr_failures r = 0.
Proof. exact closure_dataset_proof. Qed.
Print Assumptions C01_dataset_no_failures.

(* the hypothesis is met by a concrete column (with nulls and both infinities) *)
Example C01_self_discovered_inhabited :
  let c := {| c_type := TReal; c_cells := [Some VNegInf; None; Some (VNum 5); Some VPosInf] |} in
  exists ks, self_discovered (c, ks) /\ length ks = 4%nat.
Proof.
  cbv zeta. eexists. split; [split; [split|exists None; split; [discriminate|vm_compute; reflexivity]]|reflexivity].
  - intros u v Hu Hv. cbn in Hu, Hv.
    repeat match goal with H : _ \/ _ |- _ => destruct H as [<-|H] end; try reflexivity; contradiction.
  - intros _ v Hv. cbn in Hv.
    repeat match goal with H : _ \/ _ |- _ => destruct H as [<-|H] end; try reflexivity; contradiction.
Qed.
