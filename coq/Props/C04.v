(* C04 - text comparison passes exactly when texts agree modulo declared exclusions.
   Statements only; proofs in RefTest/CheckStringsProofs.v. *)
From Coq Require Import ZArith List Bool Permutation.
From Tdda Require Import Base.Sexp Base.Str Generated.Consts RefTest.CheckStrings RefTest.CheckStringsProofs.
Import ListNotations.

(* T: the line boundaries and whitespace set are those of the running interpreter *)
Theorem C04_tables_pinned :
  py_linebreaks = [10; 11; 12; 13; 28; 29; 30; 133; 8232; 8233]%Z /\
  py_isspace_ranges = [(9, 13); (28, 32); (133, 133); (160, 160); (5760, 5760); (8192, 8202);
                       (8232, 8233); (8239, 8239); (8287, 8287); (12288, 12288)]%Z.
Proof. split; reflexivity. Qed.
Print Assumptions C04_tables_pinned.

(* The rule of the property.  prep = drop one final empty line, then drop the lines containing a
   remove-substring; a pair is unexcused when it differs after the requested stripping, the reference
   line holds no ignore-substring and the pattern recursion does not excuse it.  For every option
   record, every pattern oracle and all line lists on which the recursion terminates:
   PASS  <->  same number of lines and (no unexcused pair, or at most max_permutation_cases
              unexcused pairs whose two sides are permutations of each other). *)
Theorem C04_check_strings_spec : forall o orc A E,
  no_divergence o orc A E ->
  length (prep o A) = length (prep o E) ->
  (r_verdict (check_strings o orc A E) = Pass <-> Spec o orc A E).
Proof. exact check_strings_spec_proof. Qed.
Print Assumptions C04_check_strings_spec.

Theorem C04_length_mismatch_fails : forall o orc A E,
  length (prep o A) <> length (prep o E) ->
  r_verdict (check_strings o orc A E) <> Pass.
Proof. exact length_mismatch_fails_proof. Qed.
Print Assumptions C04_length_mismatch_fails.

(* identical content passes under every option combination and every pattern oracle *)
Theorem C04_refl_passes : forall o orc A, r_verdict (check_strings o orc A A) = Pass.
Proof. exact refl_passes_proof. Qed.
Print Assumptions C04_refl_passes.

(* any difference not excused by an option fails *)
Theorem C04_unexcused_fails : forall o orc A E,
  no_divergence o orc A E -> o_maxperm o = O -> U o orc A E <> [] ->
  r_verdict (check_strings o orc A E) <> Pass.
Proof. exact unexcused_fails_proof. Qed.
Print Assumptions C04_unexcused_fails.

(* with no options at all: pass iff the line lists are equal (up to one final empty line) *)
Theorem C04_plain_sensitive : forall o orc A E, plain o ->
  (r_verdict (check_strings o orc A E) = Pass <-> drop_last_empty A = drop_last_empty E).
Proof. exact plain_sensitive_proof. Qed.
Print Assumptions C04_plain_sensitive.

(* entry points: text-mode reading (universal newlines) does not change the line list *)
Theorem C04_splitlines_univ_nl : forall s, splitlines (univ_nl s) = splitlines s.
Proof. exact splitlines_univ_nl_proof. Qed.
Print Assumptions C04_splitlines_univ_nl.

Theorem C04_string_vs_own_file_passes : forall o orc s,
  r_verdict (check_string_against_file o orc s s) = Pass.
Proof. exact string_vs_own_file_passes_proof. Qed.
Print Assumptions C04_string_vs_own_file_passes.

Theorem C04_file_vs_copy_passes : forall o orc s, r_verdict (check_file o orc s s) = Pass.
Proof. exact file_vs_copy_passes_proof. Qed.
Print Assumptions C04_file_vs_copy_passes.

(* non-vacuity: a concrete pair that meets the hypotheses of the spec theorem, with a real
   difference, an excused pair (oracle: pattern 0 = \d+ on "a 12"/"a 34") and a permutation *)
Example C04_spec_inhabited :
  let o := {| o_lstrip := false; o_rstrip := true; o_isub := []; o_npat := 1; o_rem := [[111]];
              o_maxperm := 2; o_preproc := false; o_apath := false |} in
  let orc := [ (O, [97;32;51;52], Some (3%nat, [97;32], [])); (O, [97;32;49;50], Some (3%nat, [97;32], []));
               (O, [97;32], None); (O, [], None); (O, [120], None); (O, [121], None) ] in
  let A := [[97;32;49;50]; [120]; [121]; [111]] in
  let E := [[97;32;51;52]; [121]; [120]] in
  no_divergence o orc A E /\ length (prep o A) = length (prep o E) /\
  r_verdict (check_strings o orc A E) = Pass /\
  r_verdict (check_strings {| o_lstrip := false; o_rstrip := true; o_isub := []; o_npat := 1;
                              o_rem := [[111]]; o_maxperm := 1; o_preproc := false; o_apath := false |}
                           orc A E) = Fail.
Proof. vm_compute. repeat split; reflexivity. Qed.
