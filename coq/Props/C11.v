(* C11 - gentest: for a repeatable command the generated test exists, compiles and passes.
   Theorems about the logic core; process execution and the file system are exercised by the harness. *)
From Coq Require Import ZArith List Bool.
From Tdda Require Import Base.Sexp Base.Str RefTest.CheckStrings Gentest.DateLike Gentest.Quote Gentest.QuoteProofs
     Gentest.Script Gentest.ScriptProofs.
Import ListNotations.
Open Scope Z_scope.

(* "whatever text the outputs contain": the date detector gives a verdict for every triple of numbers the regular
   expression can deliver (no ValueError path is left: poss_datetime is None where datetime() would raise), and the
   verdict is exact: one of the three readings is a real date in the plausible range *)
Theorem C11_is_date_like_total : forall range n1 n2 n3,
  is_date_like_num range n1 n2 n3 = true <-> some_reading range n1 n2 n3.
Proof. exact is_date_like_num_spec_proof. Qed.
Print Assumptions C11_is_date_like_total.

(* "a syntactically valid script": an ignore-pattern that ends with '$' and contains no line break is written as
   a raw literal that the Python lexer reads back as exactly that pattern *)
Theorem C11_quote_raw_roundtrip : forall s0,
  let s := s0 ++ [36] in
  no_nl s ->
  match quote_raw s with
  | QRaw t => forall rest, lex_raw_literal (t ++ rest) = Some (s, rest)
  | QRepr => True
  end.
Proof. exact quote_raw_roundtrip_proof. Qed.
Print Assumptions C11_quote_raw_roundtrip.

(* no two generated tests share a name (a later def would silently replace an earlier one), and none takes the
   name of a fixed test (no_exception, exit_code, stdout, stderr) *)
Theorem C11_test_names_distinct : forall idc basenames ns,
  test_names idc reserved_names 1 basenames = Some ns -> NoDup (reserved_names ++ ns).
Proof.
  intros idc bs ns H. eapply test_names_distinct_proof; [|exact H].
  repeat constructor; cbn; intuition discriminate.
Qed.
Print Assumptions C11_test_names_distinct.

(* ... and naming never gives up: for every list of output files a name is found for each (the re-qualification loop
   of test_name needs at most as many rounds as there are names already taken - decimal rendering is injective, so the
   candidates are distinct and cannot all be taken) *)
Theorem C11_test_names_total : forall idc basenames,
  exists ns, test_names idc reserved_names 1 basenames = Some ns /\ length ns = length basenames.
Proof. intros idc bs. apply test_names_total. discriminate. Qed.
Print Assumptions C11_test_names_total.

(* "that script passes when run straight afterwards": when the command behaves as it did, every generated
   check passes - for every set of derived ignore-substrings, every text and every file content *)
Theorem C11_unchanged_passes : forall cs ce subs ref,
  NoDup (map (fun f : str * bool * option str => fst (fst f)) (out_files ref)) ->
  (forall f, In f (out_files ref) -> snd f <> None) ->
  forall c ok, In (c, ok) (run_generated cs ce subs ref ref) -> ok = true.
Proof. exact unchanged_passes_proof. Qed.
Print Assumptions C11_unchanged_passes.

(* generation deletes only plain files inside the reference directory and the previous script *)
Theorem C11_deletes_only_own : forall refdir script existing f,
  In f (deleted_by_generation refdir script existing) ->
  (is_prefix refdir f = true /\ length f <> length refdir) \/ f = script.
Proof.
  intros refdir script existing f H. unfold deleted_by_generation in H. apply filter_In in H as [_ H].
  apply orb_true_iff in H as [H|H]; apply andb_true_iff in H as [H1 H2].
  - left. split; [exact H1|]. apply negb_true_iff in H2. apply Nat.eqb_neq in H2. exact H2.
  - right. apply Nat.eqb_eq in H1. clear -H1 H2. revert script H1 H2.
    induction f as [|a f IH]; intros [|b s] Hl Hp; try discriminate; [reflexivity|].
    cbn [is_prefix] in Hp. apply andb_true_iff in Hp as [Hab Hp]. apply str_eqb_eq in Hab. subst.
    f_equal. apply IH; [simpl in Hl; congruence|exact Hp].
Qed.
Print Assumptions C11_deletes_only_own.

Example C11_examples :
  is_date_like_num None 10 2 0 = false /\ is_date_like_num None 31 2 2020 = false /\ is_date_like_num None 29 2 2020 = true /\
  quote_raw [94; 97; 39; 36] = QRaw [114; 34; 94; 97; 39; 36; 34] /\
  test_names (fun c => Z.leb 97 c && Z.leb c 122 || Z.eqb c 95 || Z.leb 48 c && Z.leb c 57) reserved_names 1
             [[97;32;98;50]; [97;45;98]; [97;95;98]; [115;116;100;111;117;116]]
    = Some [[97;95;98;50]; [97;95;98]; [97;95;98;51]; [115;116;100;111;117;116;52]].
Proof. vm_compute. repeat split. Qed.
