(* C07 - discovery reports exact statistics of the data (constraints are tight). *)
From Coq Require Import ZArith List Bool.
From Tdda Require Import Base.Sexp Base.Str Generated.Consts Constraints.Model Constraints.ModelProofs Constraints.AllowedProofs.
Import ListNotations.
Open Scope Z_scope.

Theorem C07_max_categories_pinned : max_categories = 20.
Proof. reflexivity. Qed.
Print Assumptions C07_max_categories_pinned.

Theorem C07_disc_min_attained : forall c, well_formed c ->
  match d_min c with
  | [] => has_rows c = false \/ is_str c = true \/ non_nulls c = []
  | [CMin (Some b)] => b_value b = b_fuzzed b /\ In (b_value b) (non_nulls c) /\
                       forall v, In v (non_nulls c) -> vleb (b_value b) v = true
  | _ => False
  end.
Proof. exact disc_min_attained_proof. Qed.
Print Assumptions C07_disc_min_attained.

Theorem C07_disc_max_attained : forall c, well_formed c ->
  match d_max c with
  | [] => has_rows c = false \/ is_str c = true \/ non_nulls c = []
  | [CMax (Some b)] => b_value b = b_fuzzed b /\ In (b_value b) (non_nulls c) /\
                       forall v, In v (non_nulls c) -> vleb v (b_value b) = true
  | _ => False
  end.
Proof. exact disc_max_attained_proof. Qed.
Print Assumptions C07_disc_max_attained.

Theorem C07_disc_lengths : forall c,
  match d_min_length c with
  | [] => has_rows c = false \/ is_str c = false \/ non_nulls c = []
  | [CMinLen (Some m)] => (exists v, In v (non_nulls c) /\ str_len v = m) /\
                          forall v, In v (non_nulls c) -> m <= str_len v
  | _ => False
  end /\
  match d_max_length c with
  | [] => has_rows c = false \/ is_str c = false \/ non_nulls c = []
  | [CMaxLen (Some m)] => (exists v, In v (non_nulls c) /\ str_len v = m) /\
                          forall v, In v (non_nulls c) -> str_len v <= m
  | _ => False
  end.
Proof. exact disc_lengths_proof. Qed.
Print Assumptions C07_disc_lengths.

Theorem C07_disc_sign_holds : forall c s, well_formed c -> numeric c ->
  In (CSign (Some s)) (d_sign c) -> forall v, In v (non_nulls c) -> sat_sign s v = true.
Proof. exact disc_sign_holds_proof. Qed.
Print Assumptions C07_disc_sign_holds.

Theorem C07_disc_sign_strongest : forall c s s', well_formed c -> numeric c ->
  In (CSign (Some s)) (d_sign c) -> stronger s' s = true ->
  exists v, In v (non_nulls c) /\ sat_sign s' v = false.
Proof. exact disc_sign_strongest_proof. Qed.
Print Assumptions C07_disc_sign_strongest.

Theorem C07_disc_max_nulls : forall c,
  d_max_nulls c = if has_rows c && (Z.eqb (null_count c) 0 || Z.eqb (null_count c) 1)
                  then [CMaxNulls (Some (null_count c))] else [].
Proof. exact disc_max_nulls_proof. Qed.
Print Assumptions C07_disc_max_nulls.

Theorem C07_disc_no_duplicates_iff : forall c,
  d_no_duplicates c = [CNoDup (Some true)] <->
  has_rows c = true /\ counts_distinct (c_type c) = true /\
  (1 < Z.of_nat (length (non_nulls c))) /\ NoDupV (non_nulls c).
Proof. exact disc_no_duplicates_iff_proof. Qed.
Print Assumptions C07_disc_no_duplicates_iff.

(* allowed_values: what is listed is exactly the set of distinct non-null strings, each once, between 1 and
   MAX_CATEGORIES of them *)
Theorem C07_disc_allowed_values_tight : forall c k, all_strings (non_nulls c) -> In k (d_allowed c) ->
  exists vs, k = CAllowed (Some vs) /\ (forall s, In s vs <-> In (VStr s) (non_nulls c)) /\ NoDup vs /\
             1 <= Z.of_nat (length vs) <= max_categories.
Proof. exact discovered_allowed_values_tight. Qed.
Print Assumptions C07_disc_allowed_values_tight.

Theorem C07_disc_nothing_for_empty : forall c rex, c_cells c = [] -> c_type c <> TOther ->
  exists t, discover c rex = Some ([CType (Some [t])] ++ d_rex c rex) /\ t = c_type c.
Proof. exact disc_nothing_for_empty_proof. Qed.
Print Assumptions C07_disc_nothing_for_empty.

Example C07_example :
  discover {| c_type := TInt; c_cells := [Some (VNum 3); None; Some (VNum 0); Some (VNum 3)] |} None =
  Some [CType (Some [TInt]); CMin (Some (exact_bound (VNum 0))); CMax (Some (exact_bound (VNum 3)));
        CSign (Some SNonNegative); CMaxNulls (Some 1)].
Proof. vm_compute. reflexivity. Qed.
