(* C02 - verification verdicts equal the documented meaning of each constraint kind.
   Statements only; proofs in Constraints/ModelProofs.v.  well_formed = the non-null values of a
   column share one coarse type (number / string / date), which every pandas column does. *)
From Coq Require Import ZArith List Bool.
From Tdda Require Import Base.Sexp Base.Str Generated.Consts Constraints.Model Constraints.ModelProofs Constraints.AllowedProofs
  Constraints.Detect Constraints.ClosureDetect.
Import ListNotations.
Open Scope Z_scope.

Theorem C02_constants_pinned :
  gen_max_categories = 20 /\
  gen_signs = [[112;111;115;105;116;105;118;101]; [110;111;110;45;110;101;103;97;116;105;118;101];
               [122;101;114;111]; [110;111;110;45;112;111;115;105;116;105;118;101];
               [110;101;103;97;116;105;118;101]; [110;117;108;108]] /\
  gen_precisions = [[111;112;101;110]; [99;108;111;115;101;100]; [102;117;122;122;121]] /\
  gen_epsilon_default_hex = [48;120;48;46;48;112;43;48].
Proof. repeat split; reflexivity. Qed.
Print Assumptions C02_constants_pinned.

(* min / max: satisfied exactly when every non-null value has the bound's coarse type and meets the
   bound - closed: >=, open: >, fuzzy: >= bound or >= the epsilon-adjusted bound; dates always closed *)
Theorem C02_verify_min_spec : forall p c b, well_formed c ->
  (verify p (Some c) (CMin (Some b)) = true <->
   forall v, In v (non_nulls c) -> coarse_of v = coarse_of (b_value b) /\ sat_min b v = true).
Proof. exact verify_min_spec_proof. Qed.
Print Assumptions C02_verify_min_spec.

Theorem C02_verify_max_spec : forall p c b, well_formed c ->
  (verify p (Some c) (CMax (Some b)) = true <->
   forall v, In v (non_nulls c) -> coarse_of v = coarse_of (b_value b) /\ sat_max b v = true).
Proof. exact verify_max_spec_proof. Qed.
Print Assumptions C02_verify_max_spec.

(* a zero bound is never fuzzy *)
Theorem C02_fuzzy_zero : forall b v, b_value b = VNum 0 -> b_fuzzed b = VNum 0 -> b_prec b = PFuzzy ->
  sat_min b v = vleb (VNum 0) v /\ sat_max b v = vleb v (VNum 0).
Proof. exact fuzzy_zero_proof. Qed.
Print Assumptions C02_fuzzy_zero.

Theorem C02_verify_sign_spec : forall p c s, well_formed c -> numeric c ->
  (verify p (Some c) (CSign (Some s)) = true <-> forall v, In v (non_nulls c) -> sat_sign s v = true).
Proof. exact verify_sign_spec_proof. Qed.
Print Assumptions C02_verify_sign_spec.

Theorem C02_verify_min_length_spec : forall p c n, c_type c = TString ->
  (verify p (Some c) (CMinLen (Some n)) = true <-> forall v, In v (non_nulls c) -> n <= str_len v).
Proof. exact verify_min_length_spec_proof. Qed.
Print Assumptions C02_verify_min_length_spec.

Theorem C02_verify_max_length_spec : forall p c n, c_type c = TString ->
  (verify p (Some c) (CMaxLen (Some n)) = true <-> forall v, In v (non_nulls c) -> str_len v <= n).
Proof. exact verify_max_length_spec_proof. Qed.
Print Assumptions C02_verify_max_length_spec.

Theorem C02_verify_max_nulls_spec : forall p c n,
  verify p (Some c) (CMaxNulls (Some n)) = true <-> null_count c <= n.
Proof. exact verify_max_nulls_spec_proof. Qed.
Print Assumptions C02_verify_max_nulls_spec.

Theorem C02_verify_no_duplicates_spec : forall p c,
  verify p (Some c) (CNoDup (Some true)) = true <-> NoDupV (non_nulls c).
Proof. exact verify_no_duplicates_spec_proof. Qed.
Print Assumptions C02_verify_no_duplicates_spec.

Theorem C02_verify_type_spec : forall p c ts,
  verify p (Some c) (CType (Some ts)) = type_meaning (p_strict p) c ts.
Proof. exact verify_type_spec_proof. Qed.
Print Assumptions C02_verify_type_spec.

(* allowed_values on a string column: passes exactly when every non-null value is one of the allowed values; the
   verifier's short cut (more distinct values than allowed values => fail unseen) is exact by pigeonhole *)
Theorem C02_verify_allowed_values_spec : forall p c vs, all_strings (non_nulls c) ->
  verify p (Some c) (CAllowed (Some vs)) = forallb (fun v => mem_str (str_of v) vs) (non_nulls c).
Proof. exact verify_allowed_spec. Qed.
Print Assumptions C02_verify_allowed_values_spec.

Theorem C02_verify_rex_spec : forall p c oks,
  verify p (Some c) (CRex (Some oks)) = (ctype_eqb (c_type c) TString && forallb (fun b => b) oks).
Proof. exact verify_rex_spec_proof. Qed.
Print Assumptions C02_verify_rex_spec.

Theorem C02_missing_field_fails : forall p k, verify p None k = false.
Proof. exact missing_field_fails_proof. Qed.
Print Assumptions C02_missing_field_fails.

Theorem C02_null_value_passes : forall p c k, null_valued k = true -> verify p (Some c) k = true.
Proof. exact null_value_passes_proof. Qed.
Print Assumptions C02_null_value_passes.

(* totals = counts of the verdicts, per field and overall *)
Theorem C02_field_totals_spec : forall p col ks,
  let r := verify_field p col ks in
  fr_verdicts r = map (verify p col) ks /\
  fr_passes r = count_true (map (verify p col) ks) /\
  fr_failures r = count_false (map (verify p col) ks) /\
  fr_passes r + fr_failures r = Z.of_nat (length ks).
Proof. exact field_totals_spec_proof. Qed.
Print Assumptions C02_field_totals_spec.

Theorem C02_dataset_totals_spec : forall p fields,
  let v := verify_dataset p fields in
  v_fields v = map (fun f => verify_field p (fst f) (snd f)) fields /\
  v_passes v = fold_right Z.add 0 (map fr_passes (v_fields v)) /\
  v_failures v = fold_right Z.add 0 (map fr_failures (v_fields v)).
Proof. exact dataset_totals_spec_proof. Qed.
Print Assumptions C02_dataset_totals_spec.

(* adding a constraint (null-valued or not) changes no other verdict *)
Theorem C02_null_constraint_irrelevant : forall p col ks1 ks2 k,
  map (verify p col) (ks1 ++ k :: ks2) =
  map (verify p col) ks1 ++ verify p col k :: map (verify p col) ks2.
Proof. exact null_constraint_irrelevant_proof. Qed.
Print Assumptions C02_null_constraint_irrelevant.

(* non-vacuity: a well-formed numeric column with a fuzzy negative bound *)
Example C02_example :
  let c := {| c_type := TInt; c_cells := [Some (VNum (-3)); None; Some (VNum 5)] |} in
  verify {| p_strict := false |} (Some c)
         (CMin (Some {| b_value := VNum (-2); b_fuzzed := VNum (-3); b_prec := PFuzzy |})) = true /\
  verify {| p_strict := false |} (Some c)
         (CMin (Some {| b_value := VNum (-2); b_fuzzed := VNum (-3); b_prec := PClosed |})) = false.
Proof. vm_compute. split; reflexivity. Qed.

(* the overall failure total is 0 exactly when every verdict of every field - present or missing - is a pass;
   hence one failed constraint anywhere gives a positive overall total (no cancellation between fields) *)
Theorem C02_dataset_failures_zero_iff : forall p (fs : list (option column * list constr)),
  v_failures (verify_dataset p fs) = 0 <->
  forall f k, In f fs -> In k (snd f) -> verify p (fst f) k = true.
Proof. exact dataset_failures_zero_iff_proof. Qed.
Print Assumptions C02_dataset_failures_zero_iff.

Theorem C02_one_failure_is_counted : forall p (fs : list (option column * list constr)) f k,
  In f fs -> In k (snd f) -> verify p (fst f) k = false -> 0 < v_failures (verify_dataset p fs).
Proof. exact one_failure_is_counted_proof. Qed.
Print Assumptions C02_one_failure_is_counted.
