(* C02 - placeholder; replaced once Constraints/ModelProofs.v exists *)
From Coq Require Import ZArith List Bool.
From Tdda Require Import Generated.Consts Constraints.Model.
Import ListNotations.
Theorem C02_constants_pinned : gen_max_categories = 20%Z.
Proof. reflexivity. Qed.
Print Assumptions C02_constants_pinned.
