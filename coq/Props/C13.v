(* C13 placeholder - replaced when PipelineProofs.v is in place *)
From Coq Require Import ZArith List Bool.
From Tdda Require Import Base.Sexp Base.Str Rexpy.Chars Rexpy.Pipeline.
Import ListNotations.
Theorem C13_capture_group_example : capture_group [40; 97; 41] = [40; 97; 41] /\ capture_group [97] = [40; 97; 41].
Proof. split; reflexivity. Qed.
Print Assumptions C13_capture_group_example.
