(* C13 - every expression rexpy returns is anchored, there are never more expressions than distinct
   examples (none for an empty input), and tagging changes only the grouping. *)
From Coq Require Import ZArith List Bool.
From Tdda Require Import Base.Sexp Base.Str Rexpy.Chars Rexpy.Pipeline Rexpy.PipelineProofs Rexpy.Sem
     Rexpy.OracleCheck Rexpy.RefineProofs Rexpy.BatchProofs Rexpy.Regex Rexpy.RegexProofs Rexpy.PruneProofs.
Import ListNotations.
Open Scope Z_scope.

(* for every run of the model: each returned expression is ^...$; there are at most as many expressions as
   stored (distinct) working examples; an input in which clean keeps nothing returns no expression *)
Theorem C13_shape : forall ct o gt mt samples items lo,
  run_extractor ct o gt mt samples items = Ok lo ->
  Forall anchored (lo_rex lo) /\
  (length (lo_rex lo) <= length (ex_strings (lo_examples lo)))%nat /\
  (ex_strings (fst (clean ct o items)) = [] -> lo_rex lo = [] /\ lo_none lo = true).
Proof. exact run_extractor_shape. Qed.
Print Assumptions C13_shape.

(* tagging: the fragments chosen by a batch extraction do not depend on the tag option ... *)
Theorem C13_fragments_tag_independent : forall ct o e stripped gt ex t merged rex,
  batch_extract ct o e stripped gt ex = Ok (merged, rex) ->
  exists rex', batch_extract ct (with_tag o t) e stripped gt ex = Ok (merged, rex') \/
               (exists err, mapM (vrle2re false (o_full_escape o) e stripped t) merged = Err err).
Proof. exact batch_fragments_tag_independent. Qed.
Print Assumptions C13_fragments_tag_independent.

(* ... and a tagged fragment is exactly the untagged one inside one pair of capturing parentheses
   (constant fragments are never wrapped) *)
Theorem C13_tag_only_wraps : forall out full e f r,
  fragment2re out full e false f = Ok r ->
  fragment2re out full e true f = Ok (if f_fixed f then r else capture_group r).
Proof. exact fragment_tag_only_wraps. Qed.
Print Assumptions C13_tag_only_wraps.

(* every refined pattern of a batch extraction matches at least one of the working examples (at the level of what
   its fragments denote; hypotheses as for C03_batch_covers, checked executably on every real run) *)
Theorem C13_each_matches_some : forall ct o e stripped gt ex merged rex,
  batch_extract ct o e stripped gt ex = Ok (merged, rex) ->
  table_ok ct -> 1 <= z_max_strings_in_group o ->
  batch_oracle_okb ct o e stripped gt ex = true ->
  forall fs, In fs merged -> exists s, In s (ex_strings ex) /\ matches_frags ct false e fs s.
Proof. exact batch_each_matches_some. Qed.
Print Assumptions C13_each_matches_some.

Example C13_capture_group_example : capture_group [40; 97; 41] = [40; 97; 41] /\ capture_group [97] = [40; 97; 41].
Proof. split; reflexivity. Qed.

(* at the level of the TEXT (Rexpy/Regex.v): every expression of one batch extraction compiles (parses in the modelled
   fragment of the syntax) and matches one of the working examples - for every set of extra letters *)
Theorem C13_text_each_matches_some : forall ct o e stripped gt ex merged rex,
  batch_extract ct o e stripped gt ex = Ok (merged, rex) ->
  table_ok ct -> 1 <= z_max_strings_in_group o ->
  batch_oracle_okb ct o e stripped gt ex = true ->
  batch_renderable ct o e stripped gt ex = true ->
  forall text, In text rex -> exists s, In s (ex_strings ex) /\ re_model_fullmatch ct text s = Some true.
Proof. exact batch_text_each_matches. Qed.
Print Assumptions C13_text_each_matches_some.

(* tagging changes only the grouping: the tagged and the untagged text of a pattern accept the same strings *)
Theorem C13_tag_same_language : forall out ct e full frags t0 t1 s,
  In e extras8 -> forallb (frag_renderable e) frags = true ->
  vrle2re out full e false false frags = Ok t0 ->
  vrle2re out full e false true frags = Ok t1 ->
  re_model_fullmatch ct t0 s = re_model_fullmatch ct t1 s.
Proof. exact tag_same_language. Qed.
Print Assumptions C13_tag_same_language.

(* under the portable and grep dialects the patterns are rendered again for output ([0-9] for the digit class):
   each returned text still matches one of the working examples when their decimal digits are ASCII
   (without that: Props/C03.v C03_portable_refuted, the known finding c13-portable-digits) *)
Theorem C13_portable_each_matches_some : forall ct o e stripped gt ex merged rex prex,
  batch_extract ct o e stripped gt ex = Ok (merged, rex) ->
  table_ok ct -> 1 <= z_max_strings_in_group o ->
  batch_oracle_okb ct o e stripped gt ex = true ->
  batch_renderable ct o e stripped gt ex = true ->
  mapM (vrle2re true (o_full_escape o) e stripped (o_tag o)) merged = Ok prex ->
  (forall s, In s (ex_strings ex) -> ascii_decimals ct s) ->
  forall text, In text prex -> exists s, In s (ex_strings ex) /\ re_model_fullmatch ct text s = Some true.
Proof. exact batch_portable_each_matches. Qed.
Print Assumptions C13_portable_each_matches_some.

(* max_patterns / min_strings_per_pattern (Extractor.find_bad_patterns; run_extractor keeps exactly the expressions whose
   index passes this filter, in their order).  For every list of counts: pruning only removes; with min_strings_per_pattern
   above 1 every kept expression counts at least that many strings - and, when max_patterns is not set, the kept ones are
   EXACTLY those that do; with max_patterns = M at most M expressions remain. *)
Theorem C13_pruning_only_removes : forall o freqs i, In i (kept o freqs) -> (i < length freqs)%nat.
Proof. exact kept_increasing. Qed.
Print Assumptions C13_pruning_only_removes.

Theorem C13_pruning_min_strings : forall o freqs i,
  1 < o_min_strings o -> In i (kept o freqs) -> o_min_strings o <= nth i freqs 0.
Proof. exact kept_min_strings. Qed.
Print Assumptions C13_pruning_min_strings.

Theorem C13_pruning_min_strings_exact : forall o freqs i,
  o_max_patterns o = None -> (i < length freqs)%nat ->
  (In i (kept o freqs) <-> (o_min_strings o <= 1 \/ o_min_strings o <= nth i freqs 0)).
Proof. exact kept_min_strings_exact. Qed.
Print Assumptions C13_pruning_min_strings_exact.

Theorem C13_pruning_max_patterns : forall o freqs M,
  o_max_patterns o = Some M -> 0 <= M -> (length (kept o freqs) <= Z.to_nat M)%nat.
Proof. exact kept_max_patterns. Qed.
Print Assumptions C13_pruning_max_patterns.

(* the counts handed to the pruning are one per expression, and run_extractor's filter is this `kept` *)
Theorem C13_pruning_counts_per_expression : forall mt rexes all fails re_freqs,
  rexes <> [] -> find_non_matches mt rexes all = Ok (fails, re_freqs) -> length re_freqs = length rexes.
Proof. exact find_non_matches_freqs_length. Qed.
Print Assumptions C13_pruning_counts_per_expression.
