(* C15 - failed text/binary assertions leave faithful artefacts; passing ones none. *)
From Coq Require Import ZArith List Bool.
From Tdda Require Import Base.Sexp Base.Str RefTest.CheckStrings RefTest.CheckStringsProofs RefTest.Artefacts RefTest.ArtefactsProofs
     RefTest.ReconProofs.
Import ListNotations.
Open Scope Z_scope.

(* For all pairs of byte strings: equal files report nothing; otherwise the reported lengths are
   exact and the reported offset is the first differing byte (= length of the common prefix; = the
   shorter length when one file is a prefix of the other). *)
Theorem C15_binary_offset_exact : forall actual expected,
  match check_binary actual expected with
  | None => actual = expected
  | Some b =>
    actual <> expected /\
    bi_actual_len b = length actual /\ bi_expected_len b = length expected /\
    firstn (bi_offset b) actual = firstn (bi_offset b) expected /\
    (bi_offset b <= Nat.min (length actual) (length expected))%nat /\
    ((bi_offset b < length actual)%nat -> (bi_offset b < length expected)%nat ->
     nth (bi_offset b) actual 0 <> nth (bi_offset b) expected 0)
  end.
Proof. exact binary_offset_exact_proof. Qed.
Print Assumptions C15_binary_offset_exact.

Theorem C15_pass_writes_nothing : forall c, fc_failed c = false ->
  written c = [] /\ names_raw_pair c = false /\ names_post_pair c = false.
Proof. exact pass_writes_nothing_proof. Qed.
Print Assumptions C15_pass_writes_nothing.

Theorem C15_named_files_exist : forall c,
  (names_raw_pair c = true -> (fc_apath c = true \/ In ActualRaw (written c)) /\
                              (fc_epath c = true \/ In ExpectedRaw (written c))) /\
  (names_post_pair c = true -> In PostActual (written c) /\ In PostExpected (written c)).
Proof. exact named_files_exist_proof. Qed.
Print Assumptions C15_named_files_exist.

Theorem C15_postprocessed_written : forall c,
  fc_failed c = true -> fc_recon c = true -> fc_create c = true ->
  In PostActual (written c) /\ In PostExpected (written c) /\ names_post_pair c = true.
Proof. exact postprocessed_written_proof. Qed.
Print Assumptions C15_postprocessed_written.

Theorem C15_raw_actual_written_iff : forall c, fc_failed c = true -> fc_create c = true ->
  (In ActualRaw (written c) <-> fc_apath c = false).
Proof. exact raw_actual_written_iff_proof. Qed.
Print Assumptions C15_raw_actual_written_iff.

(* The post-processed pair (FilesComparison.reconstruct): for every option set, pattern oracle and texts that compare
   equally many kept lines without divergence, when a reconstruction is made the two texts have the same number of
   lines and the places where they differ are, in order, exactly the unexcused differences (normalised lines) - removed
   lines and excused differences appear as one marker line that is the same on both sides. *)
Theorem C15_postprocessed_pair_differs_exactly : forall o orc A E r,
  no_divergence o orc A E ->
  length (prep o A) = length (prep o E) ->
  r_recon (check_strings o orc A E) = Some r ->
  length (fst r) = length (snd r) /\
  diffpairs r = map (fun p => (norm o (fst p), norm o (snd p))) (U o orc A E).
Proof. exact recon_shows_unexcused. Qed.
Print Assumptions C15_postprocessed_pair_differs_exactly.

(* ... and at the level of reconstruct itself, for ANY removal masks and ignore lists *)
Theorem C15_reconstruct_differs_exactly : forall arem erem aign eign fuel a e ia ie,
  (length a + length e < fuel)%nat ->
  length (kept_lines arem a ia) = length (kept_lines erem e ie) ->
  let r := reconstruct fuel a e ia ie arem erem aign eign in
  length (fst r) = length (snd r) /\
  diffpairs r = map (fun q => (snd (fst q), snd (snd q)))
                    (filter (shown aign eign) (combine (kept_lines arem a ia) (kept_lines erem e ie))).
Proof. exact reconstruct_differs_exactly. Qed.
Print Assumptions C15_reconstruct_differs_exactly.

(* When the two sides keep DIFFERENT numbers of lines the statement is false of the faithful model (and of the code:
   known finding c15-postprocessed-pair-different-line-counts): with ignore_substrings ["A"] and the texts of
   ReconProofs.c15_A / c15_E the assertion fails, no pattern diverges, a post-processed pair is written, and that pair
   differs on a pair of lines whose difference is excused. *)
Theorem C15_different_line_counts_refuted :
  exists o orc A E r,
    existsb (diverging o orc) (combine (prep o A) (prep o E)) = false /\
    length (prep o A) <> length (prep o E) /\
    r_verdict (check_strings o orc A E) = Fail /\
    r_recon (check_strings o orc A E) = Some r /\
    exists p, In p (diffpairs r) /\ differs o p = true /\ excused o orc p = true.
Proof. exact different_line_counts_refuted_proof. Qed.
Print Assumptions C15_different_line_counts_refuted.

Example C15_binary_example :
  check_binary [1;2;3;4] [1;2;9;4;5] =
  Some {| bi_offset := 2; bi_actual_len := 4; bi_expected_len := 5 |}.
Proof. vm_compute. reflexivity. Qed.
