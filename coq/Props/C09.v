(* C09 - .tdda files round-trip: the dictionary level (which keys survive, in which order). *)
From Coq Require Import ZArith List Bool.
From Tdda Require Import Base.Sexp Base.Str Generated.Consts Constraints.Serialise Constraints.SerialiseProofs
  Constraints.Json Constraints.JsonProofs Constraints.JsonRoundTrip.
Import ListNotations.
Open Scope Z_scope.

(* T: the kinds and their preferred order are those of the source *)
Theorem C09_standard_kinds_pinned :
  gen_standard_field_constraints =
  [[116;121;112;101]; [109;105;110]; [109;105;110;95;108;101;110;103;116;104]; [109;97;120];
   [109;97;120;95;108;101;110;103;116;104]; [115;105;103;110]; [109;97;120;95;110;117;108;108;115];
   [110;111;95;100;117;112;108;105;99;97;116;101;115];
   [97;108;108;111;119;101;100;95;118;97;108;117;101;115]; [114;101;120];
   [116;114;97;110;115;102;111;114;109]].
Proof. reflexivity. Qed.
Print Assumptions C09_standard_kinds_pinned.

(* for any value type and any field dictionary: write, load, write again = write *)
Theorem C09_dump_load_dump : forall (V : Type) (f : @fieldc V),
  dump_field (load_field (dump_field (load_field f))) = dump_field (load_field f).
Proof. intros V. exact (@dump_load_dump_field_proof V). Qed.
Print Assumptions C09_dump_load_dump.

(* unknown kinds and keys beginning with # are ignored without affecting other constraints *)
Theorem C09_unknown_keys_ignored : forall (V : Type) (f : @fieldc V) k v, known k = false ->
  dump_field (load_field (f ++ [(k, v)])) = dump_field (load_field f) /\
  dump_field (load_field ((k, v) :: f)) = dump_field (load_field f).
Proof. intros V. exact (@unknown_keys_ignored_proof V). Qed.
Print Assumptions C09_unknown_keys_ignored.

(* the written form depends only on the surviving kind -> value map, not on the order in the file *)
Theorem C09_dump_depends_on_known : forall (V : Type) (f g : @fieldc V),
  (forall k, known k = true -> klookup k f = klookup k g) ->
  dump_field (load_field f) = dump_field (load_field g).
Proof. intros V. exact (@dump_depends_on_known_proof V). Qed.
Print Assumptions C09_dump_depends_on_known.

Example C09_hash_keys_unknown : @known [35;110;111;116;101] = false /\ @known [109;105;110] = true.
Proof. split; reflexivity. Qed.

(* ------------------------------------------------------------------ the TEXT of the file (Constraints/Json.v)
   to_json = strip_lines(json.dumps(d, indent=4, ensure_ascii=False)) + newline; load = json.loads with OrderedDict.
   The model's printer and strict parser are compared with CPython's json on every text tdda writes, on random
   values and on damaged / hand-written texts (harness/props/c09.py json_layer). *)

(* strings: any string (field names, values, regular expressions with backslashes and quotes, control characters,
   any code point) is read back exactly from its quoted, escaped form, whatever follows *)
Theorem C09_string_text_round_trip : forall s rest,
  scan_str (flat_map esc_char s ++ 34 :: rest) = Some (s, rest).
Proof. exact scan_str_quote. Qed.
Print Assumptions C09_string_text_round_trip.

(* number tokens as the scanner reads them (int and float forms, exponents, NaN and the infinities) are read back
   whole when followed by a comma or a newline *)
Theorem C09_number_text_round_trip : forall tok rest,
  scan_num tok = Some (tok, []) -> delim rest -> scan_num (tok ++ rest) = Some (tok, rest).
Proof. exact scan_num_app. Qed.
Print Assumptions C09_number_text_round_trip.

(* values of any nesting depth, at any indentation: the scanner reads the printed value back and stops at its end *)
Theorem C09_value_text_round_trip : forall f v ind rest,
  (depth v < f)%nat -> wf v -> delim rest -> parse_val f (print ind v ++ rest) = Some (v, rest).
Proof. exact parse_print. Qed.
Print Assumptions C09_value_text_round_trip.

(* the text to_json returns is valid JSON for exactly the value written ... *)
Theorem C09_text_is_valid_json : forall v, wf v -> parse_json (to_json_text v) = Some v.
Proof. exact parse_to_json_text. Qed.
Print Assumptions C09_text_is_valid_json.

(* ... and has no trailing whitespace on any line (str.rstrip's notion of whitespace), ending in one newline *)
Theorem C09_no_trailing_whitespace : forall v, wf v ->
  exists body, to_json_text v = body ++ [10] /\ clean None body.
Proof. exact to_json_text_no_trailing_ws. Qed.
Print Assumptions C09_no_trailing_whitespace.

(* wf is decidable, and is evaluated on every dictionary tdda writes (extraction entry 34) *)
Theorem C09_wf_decidable : forall v, wfb v = true -> wf v.
Proof. exact wfb_wf. Qed.
Print Assumptions C09_wf_decidable.

(* end to end: a constraint set written as text and read back (parse, OrderedDict, key filtering) is load (dump d) ... *)
Theorem C09_reread_written : forall md d,
  dataset_ok d -> match md with Some m => val_ok m | None => True end ->
  reread (written md d) = Some (load (dump d)).
Proof. exact reread_written. Qed.
Print Assumptions C09_reread_written.

(* ... and for a loaded set, what is read back serialises to the IDENTICAL TEXT *)
Theorem C09_same_text_after_reload : forall md (d0 : @dataset jv),
  dataset_ok (load d0) -> match md with Some m => val_ok m | None => True end ->
  exists d', reread (written md (load d0)) = Some d' /\ written md d' = written md (load d0).
Proof. exact written_reread_written. Qed.
Print Assumptions C09_same_text_after_reload.

(* the premises are satisfiable by a non-trivial set: a unicode field name, a regular expression with a backslash
   and a quote, a float needing 17 digits, a precision dictionary, an unknown kind and a # comment that vanish *)
Definition ex_dataset : @dataset jv :=
  [([233; 32; 34; 113], [([116; 121; 112; 101], JStr [114; 101; 97; 108]);
                         ([35; 110], JStr [120]);
                         ([109; 105; 110], JObj [([118; 97; 108; 117; 101], JNum [48; 46; 51; 48; 48; 48; 48; 48; 48; 48; 48; 48; 48; 48; 48; 48; 48; 48; 48; 52]);
                                                 ([112; 114; 101; 99; 105; 115; 105; 111; 110], JStr [102; 117; 122; 122; 121])]);
                         ([119; 104; 97; 116], JNull);
                         ([114; 101; 120], JArr [JStr [94; 92; 100; 43; 34; 36]; JStr [94; 10; 9; 1; 36]])])].

Example C09_round_trip_example :
  wfb (json_of_dataset None (dump (load ex_dataset))) = true /\
  reread (written None (load ex_dataset)) = Some (load ex_dataset) /\
  List.length (snd (hd ([], []) (load ex_dataset))) = 3%nat.
Proof. vm_compute. repeat split. Qed.
