(* C09 - .tdda files round-trip: the dictionary level (which keys survive, in which order). *)
From Coq Require Import ZArith List Bool.
From Tdda Require Import Base.Sexp Base.Str Generated.Consts Constraints.Serialise Constraints.SerialiseProofs.
Import ListNotations.
Open Scope Z_scope.

(* T: the kinds and their preferred order are those of the source *)
Theorem C09_standard_kinds_pinned :
  gen_standard_field_constraints =
  [[116;121;112;101]; [109;105;110]; [109;105;110;95;108;101;110;103;116;104]; [109;97;120];
   [109;97;120;95;108;101;110;103;116;104]; [115;105;103;110]; [109;97;120;95;110;117;108;108;115];
   [110;111;95;100;117;112;108;105;99;97;116;101;115];
   [97;108;108;111;119;101;100;95;118;97;108;117;101;115]; [114;101;120];
   [116;114;97;110;115;102;111;114;109]].
Proof. reflexivity. Qed.
Print Assumptions C09_standard_kinds_pinned.

(* for any value type and any field dictionary: write, load, write again = write *)
Theorem C09_dump_load_dump : forall (V : Type) (f : @fieldc V),
  dump_field (load_field (dump_field (load_field f))) = dump_field (load_field f).
Proof. intros V. exact (@dump_load_dump_field_proof V). Qed.
Print Assumptions C09_dump_load_dump.

(* unknown kinds and keys beginning with # are ignored without affecting other constraints *)
Theorem C09_unknown_keys_ignored : forall (V : Type) (f : @fieldc V) k v, known k = false ->
  dump_field (load_field (f ++ [(k, v)])) = dump_field (load_field f) /\
  dump_field (load_field ((k, v) :: f)) = dump_field (load_field f).
Proof. intros V. exact (@unknown_keys_ignored_proof V). Qed.
Print Assumptions C09_unknown_keys_ignored.

(* the written form depends only on the surviving kind -> value map, not on the order in the file *)
Theorem C09_dump_depends_on_known : forall (V : Type) (f g : @fieldc V),
  (forall k, known k = true -> klookup k f = klookup k g) ->
  dump_field (load_field f) = dump_field (load_field g).
Proof. intros V. exact (@dump_depends_on_known_proof V). Qed.
Print Assumptions C09_dump_depends_on_known.

Example C09_hash_keys_unknown : @known [35;110;111;116;101] = false /\ @known [109;105;110] = true.
Proof. split; reflexivity. Qed.
