(* C05 - DataFrame comparison passes exactly when the checked structure and values agree.
   Statements are about check_dataframe (RefTest/FrameCmp.v), the model of
   PandasComparison.check_dataframe, for all frames, option records and type-matching levels.
   Cells are tokens that are equal exactly when pandas' eq holds after rounding (an oracle). *)
From Coq Require Import ZArith List Bool.
From Tdda Require Import Base.Sexp Base.Str RefTest.FrameCmp RefTest.FrameCmpProofs.
Import ListNotations.
Open Scope Z_scope.

(* when every selected column is a reference column (otherwise the real code raises KeyError, and so does
   the model), the comparison returns a verdict - never an internal error - and that verdict is "same"
   exactly when: every type-checked column exists with a matching type at the requested level, no checked
   extra column, the relative order of the order-checked columns agrees, the row counts agree, and every
   value-checked column exists and agrees cell by cell (nulls equal to nulls) *)
Theorem C05_check_dataframe_spec : forall isd o df ref,
  selections_in_ref o ref ->
  exists v, check_dataframe isd o df ref = Done v /\
    (v_same v = true <-> structure_ok isd o df ref /\ nrows df = nrows ref /\ values_ok o df ref).
Proof. exact check_dataframe_spec_proof. Qed.
Print Assumptions C05_check_dataframe_spec.

(* a copy of a frame always passes *)
Theorem C05_copy_passes : forall isd o df,
  flag_in (d_types o) df -> flag_in (d_data o) df ->
  exists v, check_dataframe isd o df df = Done v /\ v_same v = true.
Proof. exact copy_passes_proof. Qed.
Print Assumptions C05_copy_passes.

(* a renamed/missing, retyped, extra or moved column, a different row count or one differing checked value
   always gives the verdict "different" (an assertion failure), never an internal error *)
Theorem C05_difference_fails : forall isd o df ref,
  selections_in_ref o ref ->
  ( (exists c, In c (resolve (d_types o) ref) /\ has df c = false) \/
    (exists c a r, In c (resolve (d_types o) ref) /\ lookup df c = Some a /\ lookup ref c = Some r /\
                   types_match isd (d_level o) (eff_dtype a) (eff_dtype r) = false) \/
    (exists c, In c (resolve (d_extra o) df) /\ has df c = true /\ has ref c = false) \/
    (d_order o <> FNone /\
     filter (fun c => mem_str c (resolve (d_order o) ref) && has ref c) (names df) <>
     filter (fun c => mem_str c (resolve (d_order o) ref) && has df c) (names ref)) \/
    nrows df <> nrows ref \/
    (exists c a r, In c (resolve (d_data o) ref) /\ lookup df c = Some a /\ lookup ref c = Some r /\
                   ~ cells_agree (c_cells a) (c_cells r)) ) ->
  exists v, check_dataframe isd o df ref = Done v /\ v_same v = false.
Proof. exact difference_fails_proof. Qed.
Print Assumptions C05_difference_fails.

(* non-vacuity: two frames differing in one cell of the second column; selecting only the first passes *)
Example C05_example :
  let a := [ {| c_name := [97]; c_dtype := [105]; c_cells := [Some 1; None] |};
             {| c_name := [98]; c_dtype := [102]; c_cells := [Some 5; Some 6] |} ] in
  let r := [ {| c_name := [97]; c_dtype := [105]; c_cells := [Some 1; None] |};
             {| c_name := [98]; c_dtype := [102]; c_cells := [Some 5; Some 7] |} ] in
  let all := {| d_data := FAll; d_types := FAll; d_order := FAll; d_extra := FAll; d_level := 0 |} in
  let only_a := {| d_data := FList [[97]]; d_types := FAll; d_order := FAll; d_extra := FAll; d_level := 0 |} in
  (match check_dataframe is_09_ascii all a r with Done v => v_same v = false /\ v_ndiff v = 1 | KeyErr => False end) /\
  (match check_dataframe is_09_ascii only_a a r with Done v => v_same v = true | KeyErr => False end) /\
  selections_in_ref only_a r.
Proof.
  cbv zeta. split; [vm_compute; split; reflexivity|]. split; [vm_compute; reflexivity|].
  split; intros c Hc; cbn in Hc; repeat (destruct Hc as [<-|Hc]; [reflexivity|]); destruct Hc.
Qed.
