(* C06 - detection flags exactly the violating records and agrees with verification. *)
From Coq Require Import ZArith List Bool.
From Tdda Require Import Base.Sexp Base.Str Generated.Consts Constraints.Model Constraints.ModelProofs
  Constraints.Detect Constraints.DetectProofs Constraints.ClosureDetect.
Import ListNotations.
Open Scope Z_scope.

Theorem C06_flags_only_for_failures : forall p c k fl,
  flags_of p c k = Some fl -> verify p (Some c) k = false.
Proof. exact flags_only_for_failures_proof. Qed.
Print Assumptions C06_flags_only_for_failures.

(* ... and every failing constraint has one (a constraint that cannot apply to a field of this type flags all
   its records) *)
Theorem C06_flags_for_every_failure : forall p c k,
  verify p (Some c) k = false -> flags_of p c k <> None.
Proof. exact flags_for_every_failure_proof. Qed.
Print Assumptions C06_flags_for_every_failure.

Theorem C06_min_flag_false_iff : forall c b i,
  coarse_eqb (col_coarse c) (coarse_of (b_value b)) = true ->
  match detect_flags c (CMin (Some b)) with
  | Some fl => nth_error fl i = Some (Some false) <->
               exists v, nth_error (c_cells c) i = Some (Some v) /\ sat_min b v = false
  | None => False
  end.
Proof. exact min_flag_false_iff_proof. Qed.
Print Assumptions C06_min_flag_false_iff.

Theorem C06_max_flag_false_iff : forall c b i,
  coarse_eqb (col_coarse c) (coarse_of (b_value b)) = true ->
  match detect_flags c (CMax (Some b)) with
  | Some fl => nth_error fl i = Some (Some false) <->
               exists v, nth_error (c_cells c) i = Some (Some v) /\ sat_max b v = false
  | None => False
  end.
Proof. exact max_flag_false_iff_proof. Qed.
Print Assumptions C06_max_flag_false_iff.

Theorem C06_type_flags_all : forall c ts i, (i < length (c_cells c))%nat ->
  match detect_flags c (CType (Some ts)) with
  | Some fl => nth_error fl i = Some (Some false)
  | None => False
  end.
Proof. exact type_flags_all_proof. Qed.
Print Assumptions C06_type_flags_all.

Theorem C06_max_nulls_flags : forall c n i,
  match detect_flags c (CMaxNulls (Some n)) with
  | Some fl => nth_error fl i = Some (Some false) <-> nth_error (c_cells c) i = Some None
  | None => False
  end.
Proof. exact max_nulls_flags_proof. Qed.
Print Assumptions C06_max_nulls_flags.

Theorem C06_no_duplicates_flags : forall c i,
  match detect_flags c (CNoDup (Some true)) with
  | Some fl => nth_error fl i = Some (Some false) <->
               exists v, nth_error (c_cells c) i = Some (Some v) /\ duplicated c v = true
  | None => False
  end.
Proof. exact no_duplicates_flags_proof. Qed.
Print Assumptions C06_no_duplicates_flags.

Theorem C06_null_flag_only_type_or_nulls : forall c k fl i,
  detect_flags c k = Some fl -> nth_error (c_cells c) i = Some None -> nth_error fl i = Some (Some false) ->
  (exists ts, k = CType (Some ts)) \/ (exists n, k = CMaxNulls (Some n)) \/ fl = all_false c.
Proof. exact null_flag_only_type_or_nulls_proof. Qed.
Print Assumptions C06_null_flag_only_type_or_nulls.

Theorem C06_nfail_is_count_false : forall cols n i, (i < n)%nat ->
  nth i (row_failures cols n) 0 = Z.of_nat (length (filter (is_false_at i) cols)).
Proof. exact nfail_is_count_false_proof. Qed.
Print Assumptions C06_nfail_is_count_false.

Theorem C06_partition : forall p fields nrows,
  let d := detect p fields nrows in
  d_passing d + d_failing d = Z.of_nat nrows /\ 0 <= d_failing d /\
  d_failing d <= Z.of_nat (length (d_nfailures d)).
Proof. exact partition_proof. Qed.
Print Assumptions C06_partition.

Theorem C06_outfile_iff_failure : forall before failures, 0 <= failures ->
  (outfile_after before failures = true <-> failures > 0).
Proof. exact outfile_iff_failure_proof. Qed.
Print Assumptions C06_outfile_iff_failure.

Example C06_example :
  let c := {| c_type := TInt; c_cells := [Some (VNum 1); None; Some (VNum 5); Some (VNum 5)] |} in
  d_nfailures (detect {| p_strict := false |}
                      [(c, [CMax (Some {| b_value := VNum 3; b_fuzzed := VNum 3; b_prec := PClosed |});
                            CNoDup (Some true); CMaxNulls (Some 0)])] 4) = [0; 1; 2; 2].
Proof. vm_compute. reflexivity. Qed.

(* dataset level (any number of fields, constraints and records): detection produces no flag column exactly
   when verification of the same fields with the same constraints counts no failure *)
Theorem C06_detect_agrees_with_verify : forall p fields nrows,
  d_columns (detect p fields nrows) = [] <-> v_failures (verify_dataset p (as_fields fields)) = 0.
Proof. exact detect_agrees_with_verify_proof. Qed.
Print Assumptions C06_detect_agrees_with_verify.
