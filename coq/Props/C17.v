(* C17 - the command line gives the same constraints and verdicts as the library: the flag layer. *)
From Coq Require Import ZArith List Bool.
From Tdda Require Import Base.Sexp Base.Str Constraints.Cli.
Import ListNotations.

Theorem C17_contradictory_options_exit : forall f,
  detect_params f = None <->
  (df_per_constraint f = true /\ df_no_per_constraint f = true) \/
  (nonempty_fields (df_output_fields f) = true /\ df_no_output_fields f = true).
Proof. exact contradictory_options_exit_proof. Qed.
Print Assumptions C17_contradictory_options_exit.

Theorem C17_detect_translation : forall f p, detect_params f = Some p ->
  dp_per_constraint p = negb (df_no_per_constraint f) /\
  dp_write_all p = df_write_all f /\ dp_index p = df_index f /\ dp_ints p = df_ints f /\
  dp_interleave p = df_interleave f /\ dp_ascii p = df_ascii f /\ dp_tc p = df_tc f /\ dp_eps p = df_eps f /\
  dp_output_fields p = match df_output_fields f with
                       | Some l => Some l
                       | None => if df_no_output_fields f then None else Some []
                       end.
Proof. exact detect_translation_proof. Qed.
Print Assumptions C17_detect_translation.

Theorem C17_verify_translation : forall f p, verify_params f = Some p ->
  vp_report p = (if vf_all f then RAll else if vf_fields f then RFields else RAll) /\
  vp_ascii p = vf_ascii f /\ vp_tc p = vf_tc f /\ vp_eps p = vf_eps f.
Proof. exact verify_translation_proof. Qed.
Print Assumptions C17_verify_translation.

(* --all with --fields, and --rex with --norex, contradict each other: exit status 1, and only then *)
Theorem C17_verify_contradiction : forall f, verify_params f = None <-> (vf_all f = true /\ vf_fields f = true).
Proof. exact verify_contradiction_proof. Qed.
Print Assumptions C17_verify_contradiction.

Theorem C17_discover_contradiction : forall rex norex,
  (discover_params rex norex = None <-> (rex = true /\ norex = true)) /\
  (forall b, discover_params rex norex = Some b -> b = rex).
Proof. exact discover_contradiction_proof. Qed.
Print Assumptions C17_discover_contradiction.
