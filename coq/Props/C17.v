(* C17 - the command line gives the same constraints and verdicts as the library: the flag layer. *)
From Coq Require Import ZArith List Bool.
From Coq Require Import ZArith.
From Tdda Require Import Base.Sexp Base.Str Constraints.Cli Constraints.Model Constraints.ModelProofs
  Constraints.Detect Constraints.ClosureDetect.
Import ListNotations.

Theorem C17_contradictory_options_exit : forall f,
  detect_params f = None <->
  (df_per_constraint f = true /\ df_no_per_constraint f = true) \/
  (nonempty_fields (df_output_fields f) = true /\ df_no_output_fields f = true).
Proof. exact contradictory_options_exit_proof. Qed.
Print Assumptions C17_contradictory_options_exit.

Theorem C17_detect_translation : forall f p, detect_params f = Some p ->
  dp_per_constraint p = negb (df_no_per_constraint f) /\
  dp_write_all p = df_write_all f /\ dp_index p = df_index f /\ dp_ints p = df_ints f /\
  dp_interleave p = df_interleave f /\ dp_ascii p = df_ascii f /\ dp_tc p = df_tc f /\ dp_eps p = df_eps f /\
  dp_output_fields p = match df_output_fields f with
                       | Some l => Some l
                       | None => if df_no_output_fields f then None else Some []
                       end.
Proof. exact detect_translation_proof. Qed.
Print Assumptions C17_detect_translation.

Theorem C17_verify_translation : forall f p, verify_params f = Some p ->
  vp_report p = (if vf_all f then RAll else if vf_fields f then RFields else RAll) /\
  vp_ascii p = vf_ascii f /\ vp_tc p = vf_tc f /\ vp_eps p = vf_eps f.
Proof. exact verify_translation_proof. Qed.
Print Assumptions C17_verify_translation.

(* --all with --fields, and --rex with --norex, contradict each other: exit status 1, and only then *)
Theorem C17_verify_contradiction : forall f, verify_params f = None <-> (vf_all f = true /\ vf_fields f = true).
Proof. exact verify_contradiction_proof. Qed.
Print Assumptions C17_verify_contradiction.

Theorem C17_discover_contradiction : forall rex norex,
  (discover_params rex norex = None <-> (rex = true /\ norex = true)) /\
  (forall b, discover_params rex norex = Some b -> b = rex).
Proof. exact discover_contradiction_proof. Qed.
Print Assumptions C17_discover_contradiction.

(* "constraints discovered from a file verify against that file with no failures": whatever non-contradictory
   verify / detect flags are given (the type-checking flag selects strict or sloppy checking, absent = sloppy),
   verifying a table with the constraints discovered from its own columns counts no failure, and detection
   flags no record and writes no output file.  (The table is the frame the command line loaded: that the
   command line and the library see the same frame is what the subprocess correspondence checks.) *)
Definition params_of_tc (tc : option bool) : params :=
  {| p_strict := match tc with Some b => b | None => false end |}.

Theorem C17_discovered_verify_no_failures : forall f vp fields,
  verify_params f = Some vp -> Forall self_discovered fields ->
  v_failures (verify_dataset (params_of_tc (vp_tc vp)) (as_fields fields)) = 0%Z.
Proof. intros f vp fields _ H. exact (proj1 (closure_dataset_proof _ fields H)). Qed.
Print Assumptions C17_discovered_verify_no_failures.

Theorem C17_discovered_detect_no_records : forall tc fields nrows existed, Forall self_discovered fields ->
  d_failing (detect (params_of_tc tc) fields nrows) = 0%Z /\
  outfile_after existed (d_failing (detect (params_of_tc tc) fields nrows)) = false.
Proof.
  intros tc fields nrows existed H. split.
  - exact (proj1 (proj2 (proj2 (closure_detect_proof _ fields nrows H)))).
  - exact (closure_detect_no_file_proof _ fields nrows existed H).
Qed.
Print Assumptions C17_discovered_detect_no_records.
