(* C16 - CSVW date/time formats are translated to the parsing format that names the
   same fields in the same order with the same separators.  Statements only. *)
From Coq Require Import ZArith List Bool.
From Tdda Require Import Base.Sexp Base.Str Generated.Consts Serial.DateFmt Serial.DateFmtProofs.
Import ListNotations.
Open Scope Z_scope.

(* T: the replacement chain the theorems are about is the one in the source *)
Theorem C16_chain_pinned :
  map fst csvw_replace_chain =
  [[100;100]; [100]; [77;77]; [77]; [121;121;121;121]; [121;121]; [72;72]; [109;109];
   [83;83;83]; [83;83]; [83]; [115;115]] /\
  re_iso8601_source =
  [94;37;89;45;37;109;45;37;100;40;91;84;32;93;37;72;58;37;77;58;37;83;40;92;46;37;102;41;63;41;63;36].
Proof. split; reflexivity. Qed.
Print Assumptions C16_chain_pinned.

(* Every format built from the documented fields d dd M MM yy yyyy HH mm ss S SS SSS joined
   by the separators - / . : space T - any number of fields, any order - is translated
   field by field (or to the ISO8601 marker when the field-wise translation is one of the
   ISO layouts). *)
Theorem C16_translate_correct : forall t rest,
  translate (render csvw_of t rest) =
  if mem_str (render strf_of t rest) iso_strings then s_ISO8601 else render strf_of t rest.
Proof. exact translate_correct_proof. Qed.
Print Assumptions C16_translate_correct.

(* the separators are exactly the characters no replacement pattern mentions *)
Theorem C16_separators_inert : forall s, chain_blocks csvw_replace_chain (sep_char s) = true.
Proof. exact sep_blocks. Qed.
Print Assumptions C16_separators_inert.

Theorem C16_passthrough : forall fmt, existsb (Z.eqb pct) fmt = true -> translate fmt = fmt.
Proof. exact translate_passthrough. Qed.
Print Assumptions C16_passthrough.

(* non-vacuity / a concrete instance: dd/MM/yyyy HH:mm:ss.SSS *)
Example C16_example :
  translate (render csvw_of Tdd [(SSlash, TMM); (SSlash, Tyyyy); (SSpace, THH); (SColon, Tmm);
                                  (SColon, Tss); (SDot, TSSS)]) =
  [37;100;47;37;109;47;37;89;32;37;72;58;37;77;58;37;83;46;37;102].
Proof. vm_compute. reflexivity. Qed.
Example C16_example_iso :
  translate (render csvw_of Tyyyy [(SDash, TMM); (SDash, Tdd)]) = s_ISO8601.
Proof. vm_compute. reflexivity. Qed.
