(* C14 - rexpy results depend only on the multiset of examples and the seed: generator protocol. *)
From Coq Require Import ZArith List Bool.
From Coq Require Import Permutation.
From Tdda Require Import Base.Sexp Base.Str Rexpy.Chars Rexpy.Pipeline Rexpy.Prng Rexpy.PipelineProofs Rexpy.PermProofs Rexpy.CleanProofs Rexpy.RunPermProofs.
Import ListNotations.

(* for every generator (state type, seeding function, sample transition), seed, numbers of samples
   drawn by the constructor and by extract(), and initial state: the global generator is left as found *)
Theorem C14_global_state_restored : forall (G : Type) (seed_state : Z -> G) (advance : G -> G) n k1 k2 g,
  fst (fst (extractor_run G seed_state advance (Some n) k1 k2 g)) = g.
Proof. exact global_state_restored_proof. Qed.
Print Assumptions C14_global_state_restored.

(* ... and the states the samples are drawn from depend on the seed only *)
Theorem C14_seeded_reproducible : forall (G : Type) (seed_state : Z -> G) (advance : G -> G) n k1 k2 g g',
  snd (fst (extractor_run G seed_state advance (Some n) k1 k2 g)) =
  snd (fst (extractor_run G seed_state advance (Some n) k1 k2 g')).
Proof. exact seeded_reproducible_proof. Qed.
Print Assumptions C14_seeded_reproducible.

(* one batch extraction (analysis of the working examples into refined patterns and their expressions) gives the
   same patterns and expressions whatever the order of the working examples, for every character table, option
   set, extra letters and group-split oracle.  max_strings_in_group >= 1 is needed (cap_zero_order_matters) *)
Open Scope Z_scope.
Theorem C14_batch_order_independent : forall ct o e stripped gt ex ex' r,
  1 <= z_max_strings_in_group o -> Permutation (ex_strings ex) (ex_strings ex') ->
  batch_extract ct o e stripped gt ex = Ok r -> batch_extract ct o e stripped gt ex' = Ok r.
Proof. exact batch_extract_perm. Qed.
Print Assumptions C14_batch_order_independent.

(* the frequencies play no part in the batch *)
Theorem C14_batch_ignores_frequencies : forall ct o e stripped gt ex fs,
  batch_extract ct o e stripped gt ex = batch_extract ct o e stripped gt {| ex_strings := ex_strings ex; ex_freqs := fs |}.
Proof. exact batch_extract_freqs. Qed.
Print Assumptions C14_batch_ignores_frequencies.

(* the coarse patterns are a function of the set of run-length encodings *)
Theorem C14_vrles_order_independent : forall L L', Permutation L L' -> to_vrles L = to_vrles L'.
Proof. exact to_vrles_perm. Qed.
Print Assumptions C14_vrles_order_independent.

(* THE WHOLE RUN (Extractor.__init__ + extract(), Rexpy/Pipeline.v run_extractor), for every character table, option
   set, oracle tables and sample selections: when the number of distinct stored strings does not exceed
   do_all_exceptions (4000 by default; nothing is then sampled), any reordering of the input items - list order,
   or key order of a frequency dictionary - gives the same list of expressions. *)
Theorem C14_run_order_independent : forall ct o gt mt samples samples' items items' lo,
  Permutation items items' ->
  (forall it, In it items -> 0 <= snd it) ->
  1 <= z_max_strings_in_group o ->
  Z.of_nat (length (ex_strings (fst (clean ct o items)))) <= z_do_all_exceptions o ->
  run_extractor ct o gt mt samples items = Ok lo ->
  exists lo', run_extractor ct o gt mt samples' items' = Ok lo' /\ lo_rex lo' = lo_rex lo /\ lo_none lo' = lo_none lo /\
              lo_passes lo' = lo_passes lo.
Proof. exact run_extractor_perm. Qed.
Print Assumptions C14_run_order_independent.

(* ... repeating an example changes nothing (no pruning option: those are defined by frequencies) *)
Theorem C14_run_repeat_independent : forall ct o gt mt samples samples' items it k lo,
  (forall x, In x items -> 0 <= snd x) -> In it items ->
  no_pruning o -> 1 <= z_max_strings_in_group o ->
  Z.of_nat (length (ex_strings (fst (clean ct o items)))) <= z_do_all_exceptions o ->
  run_extractor ct o gt mt samples items = Ok lo ->
  exists lo', run_extractor ct o gt mt samples' (items ++ repeat it k) = Ok lo' /\ lo_rex lo' = lo_rex lo /\
              lo_none lo' = lo_none lo /\ lo_passes lo' = lo_passes lo.
Proof. exact run_extractor_repeat. Qed.
Print Assumptions C14_run_repeat_independent.

(* ... and a list gives what any frequency dictionary with the same non-zero keys gives *)
Theorem C14_run_list_or_dict : forall ct o gt mt samples samples' (l : list (option str)) (d : list (option str * Z)) lo,
  (forall kv, In kv d -> 0 <= snd kv) ->
  (forall s, In s l <-> exists n, In (s, n) d /\ n <> 0) ->
  no_pruning o -> 1 <= z_max_strings_in_group o ->
  Z.of_nat (length (ex_strings (fst (clean ct o (list_items l))))) <= z_do_all_exceptions o ->
  run_extractor ct o gt mt samples (list_items l) = Ok lo ->
  exists lo', run_extractor ct o gt mt samples' d = Ok lo' /\ lo_rex lo' = lo_rex lo /\
              lo_none lo' = lo_none lo /\ lo_passes lo' = lo_passes lo.
Proof. exact run_extractor_list_or_dict. Qed.
Print Assumptions C14_run_list_or_dict.

(* clean is a counter: stored pairs of permuted inputs are permutations of each other *)
Theorem C14_clean_order_independent : forall ct o items items', Permutation items items' ->
  Permutation (pairs (fst (clean ct o items))) (pairs (fst (clean ct o items'))) /\
  Permutation (ex_strings (fst (clean ct o items))) (ex_strings (fst (clean ct o items'))) /\
  snd (clean ct o items) = snd (clean ct o items').
Proof. exact clean_perm. Qed.
Print Assumptions C14_clean_order_independent.
Close Scope Z_scope.

Example C14_trace_example :
  trace_of unit (fun _ => tt) (fun g => g) (Some 7%Z) 1 2 tt =
  [EGet; ESeed 7%Z; ESample; ESet; EGet; ESeed 7%Z; ESample; ESample; ESet].
Proof. reflexivity. Qed.
