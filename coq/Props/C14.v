(* C14 - rexpy results depend only on the multiset of examples and the seed: generator protocol. *)
From Coq Require Import ZArith List Bool.
From Coq Require Import Permutation.
From Tdda Require Import Base.Str Rexpy.Chars Rexpy.Pipeline Rexpy.Prng Rexpy.PermProofs.
Import ListNotations.

(* for every generator (state type, seeding function, sample transition), seed, numbers of samples
   drawn by the constructor and by extract(), and initial state: the global generator is left as found *)
Theorem C14_global_state_restored : forall (G : Type) (seed_state : Z -> G) (advance : G -> G) n k1 k2 g,
  fst (fst (extractor_run G seed_state advance (Some n) k1 k2 g)) = g.
Proof. exact global_state_restored_proof. Qed.
Print Assumptions C14_global_state_restored.

(* ... and the states the samples are drawn from depend on the seed only *)
Theorem C14_seeded_reproducible : forall (G : Type) (seed_state : Z -> G) (advance : G -> G) n k1 k2 g g',
  snd (fst (extractor_run G seed_state advance (Some n) k1 k2 g)) =
  snd (fst (extractor_run G seed_state advance (Some n) k1 k2 g')).
Proof. exact seeded_reproducible_proof. Qed.
Print Assumptions C14_seeded_reproducible.

(* one batch extraction (analysis of the working examples into refined patterns and their expressions) gives the
   same patterns and expressions whatever the order of the working examples, for every character table, option
   set, extra letters and group-split oracle.  max_strings_in_group >= 1 is needed (cap_zero_order_matters) *)
Open Scope Z_scope.
Theorem C14_batch_order_independent : forall ct o e stripped gt ex ex' r,
  1 <= z_max_strings_in_group o -> Permutation (ex_strings ex) (ex_strings ex') ->
  batch_extract ct o e stripped gt ex = Ok r -> batch_extract ct o e stripped gt ex' = Ok r.
Proof. exact batch_extract_perm. Qed.
Print Assumptions C14_batch_order_independent.

(* the frequencies play no part in the batch *)
Theorem C14_batch_ignores_frequencies : forall ct o e stripped gt ex fs,
  batch_extract ct o e stripped gt ex = batch_extract ct o e stripped gt {| ex_strings := ex_strings ex; ex_freqs := fs |}.
Proof. exact batch_extract_freqs. Qed.
Print Assumptions C14_batch_ignores_frequencies.

(* the coarse patterns are a function of the set of run-length encodings *)
Theorem C14_vrles_order_independent : forall L L', Permutation L L' -> to_vrles L = to_vrles L'.
Proof. exact to_vrles_perm. Qed.
Print Assumptions C14_vrles_order_independent.
Close Scope Z_scope.

Example C14_trace_example :
  trace_of unit (fun _ => tt) (fun g => g) (Some 7%Z) 1 2 tt =
  [EGet; ESeed 7%Z; ESample; ESet; EGet; ESeed 7%Z; ESample; ESample; ESet].
Proof. reflexivity. Qed.
