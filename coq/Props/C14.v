(* C14 - rexpy results depend only on the multiset of examples and the seed: generator protocol. *)
From Coq Require Import ZArith List Bool.
From Tdda Require Import Rexpy.Prng.
Import ListNotations.

(* for every generator (state type, seeding function, sample transition), seed, numbers of samples
   drawn by the constructor and by extract(), and initial state: the global generator is left as found *)
Theorem C14_global_state_restored : forall (G : Type) (seed_state : Z -> G) (advance : G -> G) n k1 k2 g,
  fst (fst (extractor_run G seed_state advance (Some n) k1 k2 g)) = g.
Proof. exact global_state_restored_proof. Qed.
Print Assumptions C14_global_state_restored.

(* ... and the states the samples are drawn from depend on the seed only *)
Theorem C14_seeded_reproducible : forall (G : Type) (seed_state : Z -> G) (advance : G -> G) n k1 k2 g g',
  snd (fst (extractor_run G seed_state advance (Some n) k1 k2 g)) =
  snd (fst (extractor_run G seed_state advance (Some n) k1 k2 g')).
Proof. exact seeded_reproducible_proof. Qed.
Print Assumptions C14_seeded_reproducible.

Example C14_trace_example :
  trace_of unit (fun _ => tt) (fun g => g) (Some 7%Z) 1 2 tt =
  [EGet; ESeed 7%Z; ESample; ESet; EGet; ESeed 7%Z; ESample; ESample; ESet].
Proof. reflexivity. Qed.
