(* C18 placeholder - replaced when CoverageProofs.v is in place *)
From Coq Require Import ZArith List Bool.
From Tdda Require Import Base.Sexp Base.Str Rexpy.Coverage.
Import ListNotations.
Theorem C18_terminate_example : terminate [97] = [94; 97; 36] /\ terminate [94; 97; 36] = [94; 97; 36].
Proof. split; reflexivity. Qed.
Print Assumptions C18_terminate_example.
