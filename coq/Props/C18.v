(* C18 - rexpy coverage figures equal true match counts and account for all examples.
   rows = the stored distinct examples with their frequencies and, per expression, whether the
   terminated expression matches the example (re.match: an oracle; any table is allowed). *)
From Coq Require Import ZArith List Bool.
From Tdda Require Import Base.Sexp Base.Str Rexpy.Coverage Rexpy.CoverageProofs.
Import ListNotations.
Open Scope Z_scope.

(* each expression's coverage = the number of examples it matches, counting or ignoring repeats *)
Theorem C18_coverage_exact : forall rows np dedup p, (p < np)%nat ->
  nth p (coverage rows np dedup) 0 =
  fold_right Z.add 0 (map (fun r => if nth p (er_match r) false then weight dedup r else 0) rows).
Proof. exact coverage_exact_proof. Qed.
Print Assumptions C18_coverage_exact.

(* the incremental counts sum to the total number of examples (both ways of counting, whichever
   way the list is ordered) when every example is matched by some expression (C03) *)
Theorem C18_incr_sum_total : forall rows np sort_dedup dedup,
  (forall r, In r rows -> 0 < er_freq r) ->
  (forall r, In r rows -> matched_by_some np r = true) ->
  sum_incr dedup (incremental rows np sort_dedup) = n_examples rows dedup.
Proof. exact incr_sum_total_proof. Qed.
Print Assumptions C18_incr_sum_total.

(* expressions are listed in non-increasing order of newly explained examples *)
Theorem C18_incr_nonincreasing : forall rows np sort_dedup,
  (forall r, In r rows -> 0 <= er_freq r) ->
  nonincreasing (map (key sort_dedup) (incremental rows np sort_dedup)).
Proof. exact incr_nonincreasing_proof. Qed.
Print Assumptions C18_incr_nonincreasing.

(* each example is credited to exactly one expression: the first listed one that matches it *)
Theorem C18_incr_credit : forall rows np sort_dedup,
  let res := incremental rows np sort_dedup in
  forall c, In c res -> c_incr c = credit false (map c_rex res) rows (c_rex c) /\
                        c_incr_uniq c = credit true (map c_rex res) rows (c_rex c).
Proof. exact incr_credit_proof. Qed.
Print Assumptions C18_incr_credit.

(* no expression is listed twice *)
Theorem C18_selected_distinct : forall rows np sort_dedup, NoDup (map c_rex (incremental rows np sort_dedup)).
Proof. exact selected_distinct_run. Qed.
Print Assumptions C18_selected_distinct.

(* the reported number of examples: sum of the frequencies, or the number of distinct examples *)
Theorem C18_n_examples : forall rows,
  n_examples rows false = fold_right Z.add 0 (map er_freq rows) /\
  n_examples rows true = Z.of_nat (length rows).
Proof. intro rows. split; reflexivity. Qed.
Print Assumptions C18_n_examples.

(* non-vacuity: three examples, two expressions; the second expression explains only the example
   the first does not *)
Example C18_example :
  let rows := [ {| er_freq := 2; er_match := [true; true] |};
                {| er_freq := 1; er_match := [true; false] |};
                {| er_freq := 5; er_match := [false; true] |} ] in
  coverage rows 2 false = [3; 7] /\ coverage rows 2 true = [2; 2] /\
  map (fun c => (c_rex c, c_incr c)) (incremental rows 2 false) = [(1%nat, 7); (0%nat, 1)] /\
  (forall r, In r rows -> matched_by_some 2 r = true).
Proof. vm_compute. repeat split; try reflexivity. intros r [<-|[<-|[<-|[]]]]; reflexivity. Qed.
