(* C03 - every example string is matched by one of the regular expressions rexpy returns.
   Statements are about run_extractor (Rexpy/Pipeline.v), the model of Extractor.__init__ + extract(),
   for every character table, option record, oracle tables (group splits, matches, sample selections)
   and input list.  "Matched" is what the match oracle (CPython re.match, recorded per run) says. *)
From Coq Require Import ZArith List Bool.
From Tdda Require Import Base.Sexp Base.Str Rexpy.Chars Rexpy.Pipeline Rexpy.PipelineProofs Rexpy.Sem
     Rexpy.OracleCheck Rexpy.RefineProofs Rexpy.BatchProofs Rexpy.LoopProofs Rexpy.Regex Rexpy.RegexFast Rexpy.RegexProofs.
Import ListNotations.
Open Scope Z_scope.

(* Whenever the run ends with a check that reported no failure (lo_last_failures = []; the harness observes
   this on every real run), every example that clean keeps - nulls, zero counts and, under remove_empties,
   empty strings being the explicit discards - is matched by one of the returned expressions.
   Hypotheses: frequencies are not negative; every random.sample selection is non-empty (k >= 1);
   no pruning option (max_patterns / min_strings_per_pattern) and the perl dialect, for which the
   returned expressions are the checked ones. *)
Theorem C03_loop_covers : forall ct o gt mt samples items lo,
  run_extractor ct o gt mt samples items = Ok lo ->
  (forall it, In it items -> 0 <= snd it) ->
  ne_samples samples -> 0 <= z_max_sampled_attempts o ->
  no_pruning o -> o_dialect_out o = false ->
  lo_none lo = false -> lo_last_failures lo = [] ->
  forall s, In s (ex_strings (fst (clean ct o items))) ->
  exists r, In r (lo_rex lo) /\ lookup_match mt r s = Some true.
Proof. exact run_extractor_covers_input. Qed.
Print Assumptions C03_loop_covers.

(* The explicit discards are exactly: nulls, zero counts, empties when empties are removed: if clean keeps
   nothing it kept no item, and every stored example would be kept again (so the check's failures are real). *)
Theorem C03_clean_keeps : forall ct o items,
  (ex_strings (fst (clean ct o items)) = [] -> forall it, In it items -> kept ct o it = false) /\
  ((forall it, In it items -> 0 <= snd it) -> wf_all ct o (fst (clean ct o items))).
Proof. intros ct o items. split; [apply clean_empty_none_kept|apply clean_wf]. Qed.
Print Assumptions C03_clean_keeps.

(* The check itself: when find_non_matches reports no failure, every stored example is matched. *)
Theorem C03_check_complete : forall mt rexes all re_freqs,
  rexes <> [] -> length (ex_strings all) = length (ex_freqs all) ->
  find_non_matches mt rexes all = Ok ([], re_freqs) ->
  forall s, In s (ex_strings all) -> exists r, In r rexes /\ lookup_match mt r s = Some true.
Proof. exact find_non_matches_complete. Qed.
Print Assumptions C03_check_complete.

(* One batch extraction covers its own working examples, whatever they are: every working example is matched -
   at the level of what each fragment denotes (a literal string, a raw character, the character set of a category,
   a bracket set; min/max read as the rendered quantifier) - by one of the refined patterns returned.
   Hypotheses: ASCII digits are decimal digits in the character table (true of the interpreter's: py_table_ok);
   max_strings_in_group >= 1; and the group-split oracle is sane on this run (checked executably for every real
   run by batch_oracle_okb: the groups re.match delivers concatenate to the example and each group consists of
   characters of its coarse category, within the coarse fragment's count bounds). *)
Theorem C03_batch_covers : forall ct o e stripped gt ex merged rex,
  batch_extract ct o e stripped gt ex = Ok (merged, rex) ->
  table_ok ct -> 1 <= z_max_strings_in_group o ->
  batch_oracle_okb ct o e stripped gt ex = true ->
  forall s, In s (ex_strings ex) -> exists fs, In fs merged /\ matches_frags ct false e fs s.
Proof. exact batch_covers_checked. Qed.
Print Assumptions C03_batch_covers.

(* the heart of it: the fragments refined for a VRLE match every example they were refined from, for ANY split
   into groups that respects the coarse fragments (so the argument does not depend on how the regular-expression
   engine resolves ambiguous splits) *)
Theorem C03_refine_covers : forall ct mp e vl cap vrle (groups : list (list str)),
  table_ok ct -> 1 <= cap ->
  (forall gs, In gs groups -> Forall2 (pos_ok ct e) vrle gs) ->
  let accs := fold_left (fold_step ct e vl cap vrle) groups (map (fun _ => acc0) vrle) in
  forall gs, In gs groups ->
    matches_frags ct false e (refine_all ct mp e (Z.of_nat (length vrle)) vrle accs) (List.concat gs).
Proof. exact refine_covers. Qed.
Print Assumptions C03_refine_covers.

Theorem C03_interpreter_tables_ok : table_ok py_chartab.
Proof. exact py_table_ok. Qed.
Print Assumptions C03_interpreter_tables_ok.

(* AT THE LEVEL OF THE TEXT.  Rexpy/Regex.v models the regular-expression syntax rexpy writes (parser from text to
   quantified character sets - literals, escapes, bracket expressions, the (a|b) alternations of extra letters, capture
   groups - and a backtracking matcher proved sound and complete for its specification; compared with CPython re on
   every evaluated pair).  For every set of extra letters Categories can hold (extras8) and any pattern whose fragments
   are renderable (known categories; non-negative counts), the text rendered for it - escaped or not, with or without
   \s* padding and capture groups - parses, and the model's reading of the text accepts every string the pattern
   matches fragment by fragment. *)
Theorem C03_rendered_text_matches : forall out ct e full stripped tagged frags text s,
  In e extras8 ->
  forallb (frag_renderable e) frags = true ->
  vrle2re out full e stripped tagged frags = Ok text ->
  matches_frags ct out e frags s ->
  re_model_fullmatch ct text s = Some true.
Proof. exact rendered_text_matches. Qed.
Print Assumptions C03_rendered_text_matches.

(* ... and exactly those (no padding): the text denotes what the pattern denotes *)
Theorem C03_rendered_text_exact : forall out ct e full tagged frags text s,
  In e extras8 -> forallb (frag_renderable e) frags = true ->
  vrle2re out full e false tagged frags = Ok text ->
  (re_model_fullmatch ct text s = Some true <-> matches_frags ct out e frags s).
Proof. exact rendered_text_exact. Qed.
Print Assumptions C03_rendered_text_exact.

(* the extra letters of a run are always one of extras8 *)
Theorem C03_extras_normalised : forall x, In (norm_extras x) extras8.
Proof. exact norm_extras_in8. Qed.
Print Assumptions C03_extras_normalised.

(* ... so one batch extraction covers its working examples as TEXT: each is matched by one of the expressions *)
Theorem C03_batch_text_covers : forall ct o e stripped gt ex merged rex,
  batch_extract ct o e stripped gt ex = Ok (merged, rex) ->
  table_ok ct -> 1 <= z_max_strings_in_group o ->
  batch_oracle_okb ct o e stripped gt ex = true ->
  batch_renderable ct o e stripped gt ex = true ->
  forall s, In s (ex_strings ex) -> exists text, In text rex /\ re_model_fullmatch ct text s = Some true.
Proof. exact batch_text_covers. Qed.
Print Assumptions C03_batch_text_covers.

(* The portable and grep dialects RETURN the patterns rendered again with the output categories (out = true: the
   digit class becomes [0-9]); the two theorems above hold for that rendering too (out is universally quantified),
   with the fragment semantics in which a digit is an ASCII digit.  So the returned expressions cover the working
   examples exactly when the examples' decimal digits are ASCII ... *)
Theorem C03_batch_portable_covers : forall ct o e stripped gt ex merged rex prex,
  batch_extract ct o e stripped gt ex = Ok (merged, rex) ->
  table_ok ct -> 1 <= z_max_strings_in_group o ->
  batch_oracle_okb ct o e stripped gt ex = true ->
  batch_renderable ct o e stripped gt ex = true ->
  mapM (vrle2re true (o_full_escape o) e stripped (o_tag o)) merged = Ok prex ->
  (forall s, In s (ex_strings ex) -> ascii_decimals ct s) ->
  forall s, In s (ex_strings ex) -> exists text, In text prex /\ re_model_fullmatch ct text s = Some true.
Proof. exact batch_portable_covers. Qed.
Print Assumptions C03_batch_portable_covers.

(* ... the portable text accepts nothing the internal one rejects ... *)
Theorem C03_portable_text_within : forall ct e full tagged frags text s,
  In e extras8 -> forallb (frag_renderable e) frags = true ->
  (forall c, is_09 c = true -> ct_decimal ct c = true) ->
  vrle2re true full e false tagged frags = Ok text ->
  re_model_fullmatch ct text s = Some true -> matches_frags ct false e frags s.
Proof. exact portable_text_within. Qed.
Print Assumptions C03_portable_text_within.

(* ... and without the hypothesis on digits the full statement is FALSE of the faithful model and of the code:
   the witness is the known finding c03-portable-digits (U+0663 U+0664 under Python's character tables). *)
Theorem C03_portable_refuted :
  exists frags text s,
    vrle2re true false [] false false frags = Ok text /\
    forallb (frag_renderable []) frags = true /\
    matches_frags py_chartab false [] frags s /\
    re_model_fullmatch py_chartab text s = Some false.
Proof. exact portable_gap_refuted. Qed.
Print Assumptions C03_portable_refuted.

(* the extracted model evaluates expressions with a polynomial matcher (reachable positions; the backtracking
   one is exponential on a?-?a?-?...): it decides exactly the same thing, for every expression and string *)
Theorem C03_fast_matcher_equiv : forall ct text s,
  re_fast_match ct text s = re_model_match ct text s /\ re_fast_fullmatch ct text s = re_model_fullmatch ct text s.
Proof. intros ct text s. split; [apply re_fast_match_spec|apply re_fast_fullmatch_spec]. Qed.
Print Assumptions C03_fast_matcher_equiv.

(* the model's matcher decides its specification (a string is accepted iff it splits into runs each within its
   character set and count) *)
Theorem C03_matcher_spec : forall ct items s, match_items ct items s = true <-> lang ct items s.
Proof. exact match_items_spec. Qed.
Print Assumptions C03_matcher_spec.

(* The extraction loop (Extractor.extract: sampled attempts, then unsampled passes until a check adds nothing) always
   ends: for every input, option set and oracle, the model's bound on the number of passes -
   max_sampled_attempts + number of stored strings + 2 - is never what stops a run.  (Each unsampled pass that
   does not stop adds a stored string that the working examples did not have.) *)
Theorem C03_loop_terminates : forall ct o gt mt samples items, run_extractor ct o gt mt samples items <> Err E_FUEL.
Proof. exact run_extractor_fuel. Qed.
Print Assumptions C03_loop_terminates.

(* ... and when it ends, every stored string that the last check found unmatched is one of the working examples
   (no string outside the working set is left unmatched; C03_batch_covers is about the working set itself) *)
Theorem C03_last_failures_are_working_examples : forall ct o gt mt samples items lo,
  run_extractor ct o gt mt samples items = Ok lo ->
  forall s, In s (lo_last_failures lo) -> In s (ex_strings (lo_examples lo)).
Proof. exact run_extractor_last_failures. Qed.
Print Assumptions C03_last_failures_are_working_examples.

(* the bracket for the punctuation set {^, -} no longer starts with a bare caret (the [^-] defect) *)
Example C03_escaped_bracket_caret : escaped_bracket false [94; 45] = [91; 92; 94; 45; 93].
Proof. reflexivity. Qed.

From Coq Require Import String.
Open Scope string_scope.
(* non-vacuity: a two-example run through the model with its recorded oracle tables *)
Example C03_run_example :
  let o := {| o_tag := false; o_extra := []; o_full_escape := false; o_remove_empties := false; o_strip := false;
              o_vlf := false; o_max_patterns := None; o_min_strings := 1; o_dialect_out := false;
              z_do_all := Some 100; z_do_all_exceptions := 4000; z_max_sampled_attempts := 2;
              z_max_punc_in_group := 5; z_max_strings_in_group := 10 |} in
  let tagged := s2l "^([^\W_]{2,3})$" in
  let rex := s2l "^[a-z]{2,3}$" in
  match run_extractor py_chartab o [(tagged, s2l "ab", [s2l "ab"]); (tagged, s2l "cde", [s2l "cde"])]
                      [(rex, s2l "ab", true); (rex, s2l "cde", true)] [] [(Some (s2l "ab"), 1); (Some (s2l "cde"), 1)] with
  | Ok lo => lo_rex lo = [rex] /\ lo_last_failures lo = [] /\ lo_none lo = false
  | Err _ => False
  end.
Proof. vm_compute. repeat split. Qed.
