(* C03 - every example string is matched by one of the regular expressions rexpy returns.
   Statements are about run_extractor (Rexpy/Pipeline.v), the model of Extractor.__init__ + extract(),
   for every character table, option record, oracle tables (group splits, matches, sample selections)
   and input list.  "Matched" is what the match oracle (CPython re.match, recorded per run) says. *)
From Coq Require Import ZArith List Bool.
From Tdda Require Import Base.Sexp Base.Str Rexpy.Chars Rexpy.Pipeline Rexpy.PipelineProofs.
Import ListNotations.
Open Scope Z_scope.

(* Whenever the run ends with a check that reported no failure (lo_last_failures = []; the harness observes
   this on every real run), every example that clean keeps - nulls, zero counts and, under remove_empties,
   empty strings being the explicit discards - is matched by one of the returned expressions.
   Hypotheses: frequencies are not negative; every random.sample selection is non-empty (k >= 1);
   no pruning option (max_patterns / min_strings_per_pattern) and the perl dialect, for which the
   returned expressions are the checked ones. *)
Theorem C03_loop_covers : forall ct o gt mt samples items lo,
  run_extractor ct o gt mt samples items = Ok lo ->
  (forall it, In it items -> 0 <= snd it) ->
  ne_samples samples -> 0 <= z_max_sampled_attempts o ->
  no_pruning o -> o_dialect_out o = false ->
  lo_none lo = false -> lo_last_failures lo = [] ->
  forall s, In s (ex_strings (fst (clean ct o items))) ->
  exists r, In r (lo_rex lo) /\ lookup_match mt r s = Some true.
Proof. exact run_extractor_covers_input. Qed.
Print Assumptions C03_loop_covers.

(* The explicit discards are exactly: nulls, zero counts, empties when empties are removed: if clean keeps
   nothing it kept no item, and every stored example would be kept again (so the check's failures are real). *)
Theorem C03_clean_keeps : forall ct o items,
  (ex_strings (fst (clean ct o items)) = [] -> forall it, In it items -> kept ct o it = false) /\
  ((forall it, In it items -> 0 <= snd it) -> wf_all ct o (fst (clean ct o items))).
Proof. intros ct o items. split; [apply clean_empty_none_kept|apply clean_wf]. Qed.
Print Assumptions C03_clean_keeps.

(* The check itself: when find_non_matches reports no failure, every stored example is matched. *)
Theorem C03_check_complete : forall mt rexes all re_freqs,
  rexes <> [] -> length (ex_strings all) = length (ex_freqs all) ->
  find_non_matches mt rexes all = Ok ([], re_freqs) ->
  forall s, In s (ex_strings all) -> exists r, In r rexes /\ lookup_match mt r s = Some true.
Proof. exact find_non_matches_complete. Qed.
Print Assumptions C03_check_complete.

(* the bracket for the punctuation set {^, -} no longer starts with a bare caret (the [^-] defect) *)
Example C03_escaped_bracket_caret : escaped_bracket false [94; 45] = [91; 92; 94; 45; 93].
Proof. reflexivity. Qed.

From Coq Require Import String.
Open Scope string_scope.
(* non-vacuity: a two-example run through the model with its recorded oracle tables *)
Example C03_run_example :
  let o := {| o_tag := false; o_extra := []; o_full_escape := false; o_remove_empties := false; o_strip := false;
              o_vlf := false; o_max_patterns := None; o_min_strings := 1; o_dialect_out := false;
              z_do_all := Some 100; z_do_all_exceptions := 4000; z_max_sampled_attempts := 2;
              z_max_punc_in_group := 5; z_max_strings_in_group := 10 |} in
  let tagged := s2l "^([^\W_]{2,3})$" in
  let rex := s2l "^[a-z]{2,3}$" in
  match run_extractor py_chartab o [(tagged, s2l "ab", [s2l "ab"]); (tagged, s2l "cde", [s2l "cde"])]
                      [(rex, s2l "ab", true); (rex, s2l "cde", true)] [] [(Some (s2l "ab"), 1); (Some (s2l "cde"), 1)] with
  | Ok lo => lo_rex lo = [rex] /\ lo_last_failures lo = [] /\ lo_none lo = false
  | Err _ => False
  end.
Proof. vm_compute. repeat split. Qed.
