(* C03 placeholder - replaced when PipelineProofs.v is in place *)
From Coq Require Import ZArith List Bool.
From Tdda Require Import Base.Sexp Base.Str Rexpy.Chars Rexpy.Pipeline.
Import ListNotations.
Theorem C03_escaped_bracket_caret_example : escaped_bracket false [94; 45] = [91; 92; 94; 45; 93].
Proof. reflexivity. Qed.
Print Assumptions C03_escaped_bracket_caret_example.
