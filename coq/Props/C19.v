(* C19 - tagged runs execute exactly the tagged tests; listing runs none.
   Statements only; every proof is `exact <lemma>` from RefTest/*Proofs.v. *)
From Coq Require Import ZArith List Bool.
From Tdda Require Import Base.Sexp Base.Str Base.Sort Generated.Consts
  RefTest.Argv RefTest.ArgvProofs RefTest.Tagged RefTest.TaggedProofs.
Import ListNotations.
Open Scope Z_scope.

(* T: the flag spellings the property names are the ones the code scans for *)
Theorem C19_flag_spellings :
  argv_char_tagged = 49 /\ argv_char_check = 48 /\ argv_char_regen = 87 /\
  argv_tag_flags = [[45;45;116;97;103;103;101;100]; [45;45;105;115;116;97;103;103;101;100]] /\
  argv_check_options = [[45;48]; [45;45;105;115;116;97;103;103;101;100]].
Proof. repeat split; reflexivity. Qed.
Print Assumptions C19_flag_spellings.

(* The scanner removes exactly the tdda flags (order of everything else preserved) and
   reports tagged/check/regenerate/quiet, for every command line in the domain. *)
Theorem C19_strip_spec : forall prog rest,
  in_domain prog rest = true ->
  set_flags (prog :: rest) = Some (spec_result prog rest).
Proof. exact strip_spec_proof. Qed.
Print Assumptions C19_strip_spec.

(* The whole run = scanner composed with the (tag-filtering) loader. *)
Theorem C19_run_spec : forall rs prog rest,
  in_domain prog rest = true ->
  forallb (fun f => mem_str f unittest_flags) (filter is_dash_arg (run_args prog rest)) = true ->
  names_contiguous (run_args prog rest) = true ->
  run_module rs (prog :: rest) =
  select (ar_tagged (spec_result prog rest)) (ar_check (spec_result prog rest))
    (match filter (fun a => negb (is_dash_arg a)) (run_args prog rest) with
     | [] => isort class_leb (resolve rs)
     | names => lookup_names names (resolve rs)
     end).
Proof. exact run_spec_proof. Qed.
Print Assumptions C19_run_spec.

(* Under the tagged option the executed tests are exactly those carrying the tag
   themselves or through their class ... *)
Theorem C19_tagged_selection_exact : forall cs cn n,
  In (cn, n) (selected_cases true false cs) <->
  exists c m, In c cs /\ tc_name c = cn /\ In m (tc_methods c) /\ fst m = n /\ eff_tagged c m = true.
Proof. exact tagged_selection_exact_proof. Qed.
Print Assumptions C19_tagged_selection_exact.

(* ... each once *)
Theorem C19_tagged_selection_once : forall cs,
  NoDup (map tc_name cs) ->
  (forall c, In c cs -> NoDup (map fst (tc_methods c))) ->
  NoDup (selected_cases true false cs).
Proof. exact tagged_selection_once_proof. Qed.
Print Assumptions C19_tagged_selection_once.

(* without the option every test runs *)
Theorem C19_untagged_runs_all : forall cs,
  select false false cs =
  Ran (flat_map (fun c => map (fun m => (tc_name c, fst m)) (tc_methods c)) cs) [].
Proof. exact untagged_runs_all_proof. Qed.
Print Assumptions C19_untagged_runs_all.

(* list-tagged: no test executes; exactly the classes containing tagged tests are named *)
Theorem C19_list_runs_none : forall t cs,
  selected_cases t true cs = [] /\
  forall cn, In cn (listed_classes t true cs) <->
             exists c, In c cs /\ tc_name c = cn /\
                       exists m, In m (tc_methods c) /\ eff_tagged c m = true.
Proof. exact list_runs_none_proof. Qed.
Print Assumptions C19_list_runs_none.

(* non-vacuity: a concrete command line meets the hypotheses and gives the expected run.
   prog -v1 TA --tagged  on  class TA: test_a (tagged), test_b;  class TB: test_c *)
Example C19_domain_inhabited :
  let prog := [112] in
  let rest := [[45;118;49]; [84;65]; [45;45;116;97;103;103;101;100]] in
  let rs := [ {| rc_name := [84;65]; rc_base := None; rc_tagged := false;
                 rc_methods := [([116;95;98], false); ([116;95;97], true)] |};
              {| rc_name := [84;66]; rc_base := None; rc_tagged := false;
                 rc_methods := [([116;95;99], false)] |} ] in
  in_domain prog rest = true /\
  forallb (fun f => mem_str f unittest_flags) (filter is_dash_arg (run_args prog rest)) = true /\
  names_contiguous (run_args prog rest) = true /\
  run_module rs (prog :: rest) = Ran [([84;65], [116;95;97])] [].
Proof. vm_compute. repeat split; reflexivity. Qed.

(* Outside in_domain the statement is FALSE of the faithful model - and of the code (the recorded findings
   c19-tagging-option-after-write-kinds and c19-attached-option-value-scanned; witnesses by computation):
   --tagged written after -w <kind> is taken as another kind name, so the tagged loader is never installed ... *)
Theorem C19_tagged_after_write_kinds_refuted :
  exists argv r,
    argv = [[112; 114; 111; 103]; [45; 119]; [103; 114; 97; 112; 104]; [45; 45; 116; 97; 103; 103; 101; 100]] /\
    set_flags argv = Some r /\ ar_tagged r = false /\
    In (Some [45; 45; 116; 97; 103; 103; 101; 100]) (ar_kinds r).
Proof. eexists. eexists. split; [reflexivity|]. vm_compute. repeat split; auto. Qed.
Print Assumptions C19_tagged_after_write_kinds_refuted.

(* ... and the value attached to a unittest option (-ktest_c1) is scanned for the flag letters: tagged mode is
   switched on although no tagging option was given, and unittest receives -ktest_c *)
Theorem C19_attached_option_value_refuted :
  exists argv r,
    argv = [[112; 114; 111; 103]; [45; 107; 116; 101; 115; 116; 95; 99; 49]] /\
    set_flags argv = Some r /\ ar_tagged r = true /\
    ar_argv r = [[112; 114; 111; 103]; [45; 107; 116; 101; 115; 116; 95; 99]].
Proof. eexists. eexists. split; [reflexivity|]. vm_compute. repeat split. Qed.
Print Assumptions C19_attached_option_value_refuted.
