(* C19 - property theorems (statements only; proofs live in RefTest/*Proofs.v). *)
From Coq Require Import ZArith List Bool.
From Tdda Require Import Base.Sexp Base.Str Generated.Consts RefTest.Argv RefTest.Tagged.
Import ListNotations.
Open Scope Z_scope.

(* T: the flag spellings the property names are the ones the code scans for *)
Theorem C19_flag_spellings :
  argv_char_tagged = 49 /\ argv_char_check = 48 /\ argv_char_regen = 87 /\
  argv_tag_flags = [[45;45;116;97;103;103;101;100]; [45;45;105;115;116;97;103;103;101;100]] /\
  argv_check_options = [[45;48]; [45;45;105;115;116;97;103;103;101;100]].
Proof. repeat split; reflexivity. Qed.
Print Assumptions C19_flag_spellings.
