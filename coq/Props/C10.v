(* C10 - references are rewritten only on request; a regenerated reference passes. *)
From Coq Require Import ZArith List Bool.
From Tdda Require Import Base.Sexp Base.Str RefTest.Argv RefTest.CheckStrings RefTest.Artefacts
  RefTest.Regen RefTest.RegenProofs.
Import ListNotations.
Open Scope Z_scope.

(* an assertion in normal mode never creates, modifies or deletes any file, whatever its outcome
   (temporary artefacts are C15's subject and live in a separate component) *)
Theorem C10_normal_mode_preserves_fs : forall s x,
  match op_kind x with Some k => should_regenerate (st_table s) k = false | None => True end ->
  st_fs (fst (step s x)) = st_fs s.
Proof. exact normal_mode_preserves_fs_proof. Qed.
Print Assumptions C10_normal_mode_preserves_fs.

(* in any state of any history: files change only in a step that regenerates, and then only the
   step's own reference file *)
Theorem C10_only_regeneration_writes : forall s x,
  (snd (step s x) <> Regenerated -> st_fs (fst (step s x)) = st_fs s) /\
  (forall p, match op_ref x with Some r => str_eqb p r = false | None => True end ->
             fread p (st_fs (fst (step s x))) = fread p (st_fs s)).
Proof. exact only_regeneration_writes_proof. Qed.
Print Assumptions C10_only_regeneration_writes.

Theorem C10_assertions_keep_table : forall s x,
  op_kind x <> None -> st_table (fst (step s x)) = st_table s.
Proof. exact assertions_keep_table_proof. Qed.
Print Assumptions C10_assertions_keep_table.

(* after argv parsing from an empty table a kind regenerates iff it was named or all kinds were
   requested (ar_kinds = the kinds after -w/--w/--write split at commas, plus None for -W etc.) *)
Theorem C10_regen_only_selected : forall argv r k,
  set_flags argv = Some r ->
  should_regenerate (st_table (fst (step {| st_table := []; st_quiet := false; st_fs := [] |} (ParseArgv argv)))) k =
  (existsb (kind_eqb k) (ar_kinds r) || existsb (kind_eqb None) (ar_kinds r)).
Proof. exact regen_only_selected_proof. Qed.
Print Assumptions C10_regen_only_selected.

(* regenerate, then (after any history that leaves that reference alone) the same assertion on the
   same actual in normal mode passes - under every option set and pattern oracle *)
Theorem C10_regen_string_then_passes : forall s k o orc a r s2 o2 orc2,
  should_regenerate (st_table s) k = true ->
  fread r (st_fs s2) = fread r (st_fs (fst (step s (AssertString k o orc a r)))) ->
  should_regenerate (st_table s2) k = false ->
  snd (step s2 (AssertString k o2 orc2 a r)) = Passed.
Proof. exact regen_string_then_passes_proof. Qed.
Print Assumptions C10_regen_string_then_passes.

Theorem C10_regen_textfile_then_passes : forall s k o orc ap r c s2 o2 orc2,
  should_regenerate (st_table s) k = true ->
  fread ap (st_fs s) = Some c ->
  fread r (st_fs s2) = fread r (st_fs (fst (step s (AssertTextFile k o orc ap r)))) ->
  fread ap (st_fs s2) = Some c ->
  should_regenerate (st_table s2) k = false ->
  snd (step s2 (AssertTextFile k o2 orc2 ap r)) = Passed.
Proof. exact regen_textfile_then_passes_proof. Qed.
Print Assumptions C10_regen_textfile_then_passes.

Theorem C10_regen_binary_then_passes : forall s k ap r c s2,
  should_regenerate (st_table s) k = true ->
  fread ap (st_fs s) = Some c ->
  fread r (st_fs s2) = fread r (st_fs (fst (step s (AssertBinaryFile k ap r)))) ->
  fread ap (st_fs s2) = Some c ->
  should_regenerate (st_table s2) k = false ->
  snd (step s2 (AssertBinaryFile k ap r)) = Passed.
Proof. exact regen_binary_then_passes_proof. Qed.
Print Assumptions C10_regen_binary_then_passes.

(* every accepted spelling, concretely: --write table never regenerates graph; -W regenerates all *)
Example C10_spellings :
  let t argv := st_table (fst (step {| st_table := []; st_quiet := false; st_fs := [] |} (ParseArgv argv))) in
  let prog := [112] in let table := [116;97;98;108;101] in let graph := [103;114;97;112;104] in
  forallb (fun w => should_regenerate (t [prog; w; table]) (Some table) &&
                    negb (should_regenerate (t [prog; w; table]) (Some graph)) &&
                    negb (should_regenerate (t [prog; w; table]) None))
          [[45;119]; [45;45;119]; [45;45;119;114;105;116;101]] = true /\
  forallb (fun w => should_regenerate (t [prog; w]) (Some table) && should_regenerate (t [prog; w]) (Some graph))
          [[45;87]; [45;45;87]; [45;45;119;114;105;116;101;45;97;108;108]; [45;49;87]] = true.
Proof. vm_compute. split; reflexivity. Qed.
