From Coq Require Import ZArith List Bool Lia.
From Tdda Require Import Base.Sexp Base.Str Rexpy.Chars RefTest.CheckStrings RefTest.CheckStringsProofs
     RefTest.Artefacts RefTest.ArtefactsProofs Rexpy.DecProofs Gentest.Script.
Import ListNotations.
Open Scope Z_scope.

(* ------------------------------------------------------------------ test names are distinct *)
Lemma qualify_fresh fuel base names : forall q n q',
  qualify fuel base names q = Some (n, q') -> mem_str n names = false.
Proof.
  induction fuel as [|f IH]; intros q n q' H; [discriminate|]. cbn [qualify] in H.
  destruct (mem_str (base ++ dec_of_Z (q + 1)) names) eqn:E; [eapply IH; exact H|].
  injection H as <- _. exact E.
Qed.

Lemma test_name_fresh idc names q b n names' q' :
  test_name idc names q b = Some (n, names', q') -> mem_str n names = false /\ names' = names ++ [n].
Proof.
  unfold test_name. destruct (mem_str (sanitize idc b) names) eqn:E.
  - destruct (qualify _ _ names q) as [[n0 q0]|] eqn:Eq; [|discriminate]. intro H. injection H as <- <- _.
    split; [eapply qualify_fresh; exact Eq|reflexivity].
  - intro H. injection H as <- <- _. split; [exact E|reflexivity].
Qed.

Lemma NoDup_snoc {T} (l : list T) x : NoDup l -> ~ In x l -> NoDup (l ++ [x]).
Proof.
  induction l as [|y l IH]; intros Hnd Hx; simpl; [constructor; [intros []|constructor]|].
  inversion Hnd; subst. constructor.
  - intro Hin. apply in_app_or in Hin as [Hin|[<-|[]]]; [contradiction|apply Hx; left; reflexivity].
  - apply IH; [assumption|]. intro Hin. apply Hx. right; exact Hin.
Qed.

(* every generated test name is new: no two checks share a name, and none is one of the fixed test names *)
Theorem test_names_distinct_proof idc bs : forall names q ns,
  NoDup names -> test_names idc names q bs = Some ns -> NoDup (names ++ ns).
Proof.
  induction bs as [|b bs IH]; intros names q ns Hnd H; cbn [test_names] in H.
  - injection H as <-. rewrite app_nil_r. exact Hnd.
  - destruct (test_name idc names q b) as [[[n names'] q']|] eqn:Et; [|discriminate].
    destruct (test_names idc names' q' bs) as [ns'|] eqn:Er; [|discriminate]. injection H as <-.
    destruct (test_name_fresh _ _ _ _ _ _ _ Et) as [Hfresh ->].
    specialize (IH (names ++ [n]) q' ns').
    rewrite <- app_assoc in IH. cbn [app] in IH. apply IH; [|exact Er].
    apply NoDup_snoc; [exact Hnd|]. intro Hin. apply mem_str_In in Hin. congruence.
Qed.

(* ------------------------------------------------------------------ C11: nothing changed => every check passes *)
Lemma check_binary_refl x : check_binary x x = None.
Proof. unfold check_binary. rewrite str_eqb_refl. reflexivity. Qed.

Lemma file_check_refl subs f c : snd f = Some c -> file_check subs f f = true.
Proof.
  intro H. unfold file_check. rewrite H. destruct (snd (fst f)).
  - unfold passes. rewrite file_vs_copy_passes_proof. reflexivity.
  - rewrite check_binary_refl. reflexivity.
Qed.

Lemma find_file_self fs : NoDup (map (fun f : str * bool * option str => fst (fst f)) fs) ->
  forall f, In f fs -> find_file (fst (fst f)) fs = Some f.
Proof.
  induction fs as [|g fs IH]; intros Hnd f Hin; [destruct Hin|]. cbn [map] in Hnd. inversion Hnd; subst.
  cbn [find_file]. destruct Hin as [->|Hin]; [rewrite str_eqb_refl; reflexivity|].
  destruct (str_eqb (fst (fst g)) (fst (fst f))) eqn:E; [|apply IH; assumption].
  apply str_eqb_eq in E. exfalso. apply H1. rewrite E. apply in_map_iff. exists f. split; [reflexivity|exact Hin].
Qed.

Theorem unchanged_passes_proof cs ce subs ref :
  NoDup (map (fun f : str * bool * option str => fst (fst f)) (out_files ref)) ->
  (forall f, In f (out_files ref) -> snd f <> None) ->
  forall c ok, In (c, ok) (run_generated cs ce subs ref ref) -> ok = true.
Proof.
  intros Hnd Hpresent c ok Hin. unfold run_generated in Hin.
  repeat (apply in_app_or in Hin as [Hin|Hin]).
  - destruct Hin as [E|[E|[]]]; injection E as _ <-; [reflexivity|apply Z.eqb_refl].
  - destruct cs; [|destruct Hin]. destruct Hin as [E|[]]. injection E as _ <-.
    unfold passes. rewrite string_vs_own_file_passes_proof. reflexivity.
  - destruct ce; [|destruct Hin]. destruct Hin as [E|[]]. injection E as _ <-.
    unfold passes. rewrite string_vs_own_file_passes_proof. reflexivity.
  - apply in_map_iff in Hin as [f [E Hf]]. injection E as _ <-.
    rewrite (find_file_self _ Hnd f Hf). destruct (snd f) as [c0|] eqn:Ec; [|exfalso; apply (Hpresent f Hf); exact Ec].
    eapply file_check_refl. exact Ec.
Qed.

(* ------------------------------------------------------------------ C12: a change is reported by its own check *)
Theorem changed_exit_fails_proof cs ce subs ref new :
  out_exit new <> out_exit ref -> In (CExit, false) (run_generated cs ce subs ref new).
Proof.
  intro H. unfold run_generated. apply in_or_app. left. right. left. f_equal. apply Z.eqb_neq. exact H.
Qed.

Lemma existsb_false_iff_local {T} (f : T -> bool) l : (forall x, In x l -> f x = false) -> existsb f l = false.
Proof.
  induction l as [|x l IH]; intro H; [reflexivity|]. cbn [existsb]. rewrite (H x (or_introl eq_refl)).
  apply IH. intros y Hy. apply H. right; exact Hy.
Qed.

(* with the generated options no pattern recursion can diverge *)
Lemma gen_opts_can_ignore subs a e :
  can_ignore (gen_opts subs) [] a e =
  if existsb (fun s => contains s e) subs then TTrue else if str_eqb a e then TTrue else TFalse.
Proof.
  unfold can_ignore, gen_opts. cbn [o_isub o_npat]. destruct (existsb _ subs); [reflexivity|].
  unfold line_fuel. cbn [check_patterns seq]. destruct (str_eqb a e); reflexivity.
Qed.

Lemma gen_opts_no_divergence subs A E : no_divergence (gen_opts subs) [] A E.
Proof.
  unfold no_divergence. apply existsb_false_iff_local. intros p _. unfold diverging. rewrite gen_opts_can_ignore.
  destruct (existsb _ subs); [apply andb_false_r|]. destruct (str_eqb (fst p) (snd p)); apply andb_false_r.
Qed.

Lemma gen_opts_prep subs l : prep (gen_opts subs) l = drop_last_empty l.
Proof.
  unfold prep, is_removed, gen_opts. cbn [o_rem existsb negb].
  induction (drop_last_empty l) as [|x t IH]; [reflexivity|]. cbn [filter]. f_equal. exact IH.
Qed.

(* a differing pair of lines that no ignore-substring excuses (substrings are looked for in the reference line) *)
Definition line_unexcused (subs : list str) (a e : str) : bool :=
  negb (str_eqb a e) && negb (existsb (fun s => contains s e) subs).

Definition text_changed (subs : list str) (A E : list str) : Prop :=
  length (drop_last_empty A) <> length (drop_last_empty E) \/
  existsb (fun p => line_unexcused subs (fst p) (snd p)) (combine (drop_last_empty A) (drop_last_empty E)) = true.

Lemma gen_opts_unexcused subs p : unexcused (gen_opts subs) [] p = line_unexcused subs (fst p) (snd p).
Proof.
  unfold unexcused, differs, excused, norm, line_unexcused. rewrite gen_opts_can_ignore.
  unfold gen_opts. cbn [o_lstrip o_rstrip normalize].
  destruct (str_eqb (fst p) (snd p)); cbn [negb andb]; [reflexivity|].
  destruct (existsb _ subs); reflexivity.
Qed.

Theorem changed_text_fails_proof subs A E :
  text_changed subs A E -> r_verdict (check_strings (gen_opts subs) [] A E) <> Pass.
Proof.
  intros [Hlen|Hex].
  - apply length_mismatch_fails_proof. rewrite !gen_opts_prep. exact Hlen.
  - apply unexcused_fails_proof; [apply gen_opts_no_divergence|reflexivity|].
    unfold U. rewrite !gen_opts_prep.
    apply existsb_exists in Hex as [p [Hin Hp]]. intro Hnil.
    assert (In p (filter (unexcused (gen_opts subs) []) (combine (drop_last_empty A) (drop_last_empty E)))).
    { apply filter_In. split; [exact Hin|]. rewrite gen_opts_unexcused. exact Hp. }
    rewrite Hnil in H. destruct H.
Qed.

Definition s_stdout : str := [115;116;100;111;117;116].
Definition s_stderr : str := [115;116;100;101;114;114].

Theorem changed_stdout_fails_proof ce subs ref new :
  text_changed (subs s_stdout) (splitlines (out_stdout new)) (splitlines (univ_nl (out_stdout ref))) ->
  In (CStdout, false) (run_generated true ce subs ref new).
Proof.
  intro H. unfold run_generated. apply in_or_app. right. apply in_or_app. left. left. f_equal.
  unfold passes, check_string_against_file. pose proof (changed_text_fails_proof _ _ _ H) as Hv.
  fold s_stdout. destruct (r_verdict _); [congruence|reflexivity|reflexivity].
Qed.

Theorem changed_stderr_fails_proof cs subs ref new :
  text_changed (subs s_stderr) (splitlines (out_stderr new)) (splitlines (univ_nl (out_stderr ref))) ->
  In (CStderr, false) (run_generated cs true subs ref new).
Proof.
  intro H. unfold run_generated. apply in_or_app. right. apply in_or_app. right. apply in_or_app. left. left. f_equal.
  unfold passes, check_string_against_file. pose proof (changed_text_fails_proof _ _ _ H) as Hv.
  fold s_stderr. destruct (r_verdict _); [congruence|reflexivity|reflexivity].
Qed.

(* files: a missing file, a binary file with any different byte, a text file with an unexcused change *)
Theorem changed_file_fails_proof cs ce subs ref new f :
  In f (out_files ref) ->
  (match find_file (fst (fst f)) (out_files new) with
   | None => True
   | Some g =>
     match snd f, snd g with
     | Some rc, Some nc =>
       if snd (fst f) then text_changed (subs (fst (fst f))) (splitlines (univ_nl nc)) (splitlines (univ_nl rc))
       else nc <> rc
     | _, _ => True
     end
   end) ->
  In (CFile (fst (fst f)), false) (run_generated cs ce subs ref new).
Proof.
  intros Hf Hch. unfold run_generated. apply in_or_app. right. apply in_or_app. right. apply in_or_app. right.
  apply in_map_iff. exists f. split; [|exact Hf]. f_equal.
  destruct (find_file (fst (fst f)) (out_files new)) as [g|]; [|reflexivity].
  unfold file_check. destruct (snd f) as [rc|]; [|reflexivity]. destruct (snd g) as [nc|]; [|reflexivity].
  destruct (snd (fst f)).
  - unfold passes, check_file. pose proof (changed_text_fails_proof _ _ _ Hch) as Hv.
    destruct (r_verdict _); [congruence|reflexivity|reflexivity].
  - unfold check_binary. destruct (str_eqb rc nc) eqn:E; [|reflexivity]. apply str_eqb_eq in E. congruence.
Qed.

(* a check whose inputs did not change gives the same result as before: only the affected checks fail *)
Theorem unaffected_checks_proof cs ce subs ref new :
  out_stdout new = out_stdout ref -> out_stderr new = out_stderr ref -> out_files new = out_files ref ->
  NoDup (map (fun f : str * bool * option str => fst (fst f)) (out_files ref)) ->
  (forall f, In f (out_files ref) -> snd f <> None) ->
  forall c ok, In (c, ok) (run_generated cs ce subs ref new) -> c <> CExit -> ok = true.
Proof.
  intros Ho He Hf Hnd Hp c ok Hin Hc.
  assert (Hin' : In (c, ok) (run_generated cs ce subs ref ref) \/ c = CExit).
  { unfold run_generated in *. rewrite Ho, He, Hf in Hin.
    apply in_app_or in Hin as [[E|[E|[]]]|Hin].
    - left. apply in_or_app. left. left. exact E.
    - right. injection E as <- _. reflexivity.
    - left. apply in_or_app. right. exact Hin. }
  destruct Hin' as [Hin'|E]; [|contradiction].
  eapply unchanged_passes_proof; eassumption.
Qed.

(* ------------------------------------------------------------------ naming never gives up *)
Lemma map_NoDup_in {A B} (f : A -> B) l : (forall x y, In x l -> In y l -> f x = f y -> x = y) -> NoDup l -> NoDup (map f l).
Proof.
  induction l as [|a l IH]; intros Hinj Hnd; cbn [map]; [constructor|]. inversion Hnd; subst. constructor.
  - intro Hin. apply in_map_iff in Hin as [y [Hy Hin]]. assert (y = a) by (apply Hinj; [right; exact Hin|left; reflexivity|exact Hy]).
    subst. contradiction.
  - apply IH; [|assumption]. intros x y Hx Hy. apply Hinj; right; assumption.
Qed.

Lemma qualify_none fuel base names : forall q, qualify fuel base names q = None ->
  forall i, (i < fuel)%nat -> In (base ++ dec_of_Z (q + 1 + Z.of_nat i)) names.
Proof.
  induction fuel as [|f IH]; intros q H i Hi; [lia|]. cbn [qualify] in H.
  destruct (mem_str (base ++ dec_of_Z (q + 1)) names) eqn:E; [|discriminate].
  destruct i as [|i].
  - apply mem_str_In. replace (q + 1 + Z.of_nat 0) with (q + 1) by lia. exact E.
  - specialize (IH (q + 1) H i ltac:(lia)). replace (q + 1 + Z.of_nat (S i)) with (q + 1 + 1 + Z.of_nat i) by lia. exact IH.
Qed.

Lemma qualify_some base names q : 0 <= q -> exists n q', qualify (S (length names)) base names q = Some (n, q') /\ q <= q'.
Proof.
  intro Hq. destruct (qualify (S (length names)) base names q) as [[n q']|] eqn:E.
  - exists n, q'. split; [reflexivity|].
    clear -E. revert q E. generalize (S (length names)). induction n0 as [|f IH]; intros q E; [discriminate|].
    cbn [qualify] in E. destruct (mem_str _ names); [specialize (IH _ E); lia|]. injection E as _ <-. lia.
  - exfalso. pose proof (qualify_none _ _ _ _ E) as Hall.
    set (cands := map (fun i => base ++ dec_of_Z (q + 1 + Z.of_nat i)) (seq 0 (S (length names)))).
    assert (Hnd : NoDup cands).
    { unfold cands. apply map_NoDup_in; [|apply seq_NoDup].
      intros i j _ _ Hij. apply app_inv_head in Hij.
      assert (q + 1 + Z.of_nat i = q + 1 + Z.of_nat j) by (apply dec_of_Z_inj; [lia|lia|exact Hij]). lia. }
    assert (Hincl : incl cands names).
    { intros c Hc. unfold cands in Hc. apply in_map_iff in Hc as [i [<- Hi]]. apply in_seq in Hi. apply Hall. lia. }
    pose proof (NoDup_incl_length Hnd Hincl) as Hlen. unfold cands in Hlen. rewrite map_length, seq_length in Hlen.
    exact (Nat.nle_succ_diag_l _ Hlen).
Qed.

(* TestGenerator.test_name always terminates with a name: at most len(names) re-qualifications are needed *)
Theorem test_name_total idc names q b : 0 <= q ->
  exists n names' q', test_name idc names q b = Some (n, names', q') /\ q <= q'.
Proof.
  intro Hq. unfold test_name. destruct (mem_str (sanitize idc b) names).
  - destruct (qualify_some (sanitize idc b) names q Hq) as (n & q' & -> & Hle). exists n, (names ++ [n]), q'. split; [reflexivity|exact Hle].
  - exists (sanitize idc b), (names ++ [sanitize idc b]), q. split; [reflexivity|lia].
Qed.

Theorem test_names_total idc bs : forall names q, 0 <= q -> exists ns, test_names idc names q bs = Some ns /\ length ns = length bs.
Proof.
  induction bs as [|b bs IH]; intros names q Hq; cbn [test_names]; [exists []; split; reflexivity|].
  destruct (test_name_total idc names q b Hq) as (n & names' & q' & -> & Hle).
  destruct (IH names' q' ltac:(lia)) as (ns & -> & Hl). exists (n :: ns). split; [reflexivity|cbn; lia].
Qed.
