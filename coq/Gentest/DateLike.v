(* C11: the numeric branch of gentest.is_date_like.  The regular expression delivers three
   numbers (n1, n2, n3); the code tries dd/mm/yyyy, yyyy/mm/dd and mm/dd/yyyy in that order and
   builds a datetime for each plausible reading.  datetime(y, m, d) raises ValueError for dates
   that do not exist; poss_datetime returns None instead. *)
From Coq Require Import ZArith List Bool Lia.
From Tdda Require Import Base.Sexp.
Import ListNotations.
Open Scope Z_scope.

Definition leap (y : Z) : bool := (Z.eqb (y mod 4) 0 && negb (Z.eqb (y mod 100) 0)) || Z.eqb (y mod 400) 0.
Definition days_in_month (y m : Z) : Z :=
  if Z.eqb m 2 then (if leap y then 29 else 28)
  else if Z.eqb m 4 || Z.eqb m 6 || Z.eqb m 9 || Z.eqb m 11 then 30 else 31.

(* datetime.datetime(y, m, d): Some date, or None where Python raises ValueError *)
Definition date := (Z * Z * Z)%type.
Definition poss_datetime (y m d : Z) : option date :=
  if Z.leb 1 y && Z.leb y 9999 && Z.leb 1 m && Z.leb m 12 && Z.leb 1 d && Z.leb d (days_in_month y m)
  then Some (y, m, d) else None.

Definition date_leb (a b : date) : bool :=
  let '(y1, m1, d1) := a in let '(y2, m2, d2) := b in
  Z.ltb y1 y2 || (Z.eqb y1 y2 && (Z.ltb m1 m2 || (Z.eqb m1 m2 && Z.leb d1 d2))).

Definition in_range (range : option (date * date)) (d : date) : bool :=
  match range with None => true | Some (lo, hi) => date_leb lo d && date_leb d hi end.

Definition reading_ok (range : option (date * date)) (y m d : Z) : bool :=
  match poss_datetime y m d with Some dt => in_range range dt | None => false end.

(* is_date_like, numeric branch: does the line count as a (plausible) date? *)
Definition is_date_like_num (range : option (date * date)) (n1 n2 n3 : Z) : bool :=
  let day n := Z.leb 1 n && Z.leb n 31 in
  let month n := Z.leb 1 n && Z.leb n 12 in
  (day n1 && month n2 && reading_ok range n3 n2 n1)
  || (day n3 && month n2 && reading_ok range n1 n2 n3)
  || (day n2 && month n1 && reading_ok range n3 n1 n2).

(* the alphabetic branches: (D, M, Y) with M from the month table *)
Definition is_date_like_alpha (range : option (date * date)) (D M Y : Z) : bool :=
  Z.leb 1 D && Z.leb D 31 && reading_ok range Y M D.

(* a real date, in range, in one of the three orders *)
Definition some_reading (range : option (date * date)) (n1 n2 n3 : Z) : Prop :=
  (exists dt, poss_datetime n3 n2 n1 = Some dt /\ in_range range dt = true) \/
  (exists dt, poss_datetime n1 n2 n3 = Some dt /\ in_range range dt = true) \/
  (exists dt, poss_datetime n3 n1 n2 = Some dt /\ in_range range dt = true).

Lemma poss_datetime_bounds y m d dt : poss_datetime y m d = Some dt ->
  1 <= m <= 12 /\ 1 <= d <= 31 /\ 1 <= y <= 9999.
Proof.
  unfold poss_datetime. destruct (_ && _) eqn:E; [|discriminate]. intros _.
  repeat (apply andb_true_iff in E as [E ?]).
  assert (days_in_month y m <= 31).
  { unfold days_in_month. destruct (Z.eqb m 2); [destruct (leap y); lia|]. destruct (_ || _); lia. }
  lia.
Qed.

(* total, and exact: the line is taken for a date exactly when one of the three readings is a real date
   (in the plausible range, when one is given) *)
Theorem is_date_like_num_spec_proof range n1 n2 n3 :
  is_date_like_num range n1 n2 n3 = true <-> some_reading range n1 n2 n3.
Proof.
  unfold is_date_like_num, some_reading, reading_ok. split.
  - intro H. apply orb_true_iff in H as [H|H]; [apply orb_true_iff in H as [H|H]|].
    + left. apply andb_true_iff in H as [_ H]. destruct (poss_datetime n3 n2 n1) as [dt|]; [|discriminate]. eauto.
    + right; left. apply andb_true_iff in H as [_ H]. destruct (poss_datetime n1 n2 n3) as [dt|]; [|discriminate]. eauto.
    + right; right. apply andb_true_iff in H as [_ H]. destruct (poss_datetime n3 n1 n2) as [dt|]; [|discriminate]. eauto.
  - intros [[dt [H1 H2]]|[[dt [H1 H2]]|[dt [H1 H2]]]]; pose proof (poss_datetime_bounds _ _ _ _ H1) as (Hm & Hd & _);
      rewrite H1, H2.
    + replace (Z.leb 1 n1 && Z.leb n1 31 && (Z.leb 1 n2 && Z.leb n2 12)) with true by (symmetry; lia). reflexivity.
    + replace (Z.leb 1 n3 && Z.leb n3 31 && (Z.leb 1 n2 && Z.leb n2 12)) with true by (symmetry; lia).
      rewrite orb_true_r. reflexivity.
    + replace (Z.leb 1 n2 && Z.leb n2 31 && (Z.leb 1 n1 && Z.leb n1 12)) with true by (symmetry; lia).
      rewrite orb_true_r. reflexivity.
Qed.

(* (range? n1 n2 n3) -> (numeric verdict; poss_datetime for the three readings) *)
Definition sx_date (s : sexp) : date := (sx_Z (sx_nth 0 s), sx_Z (sx_nth 1 s), sx_Z (sx_nth 2 s)).
Definition datelike_entry (s : sexp) : sexp :=
  let range := sx_opt (fun r => (sx_date (sx_nth 0 r), sx_date (sx_nth 1 r))) (sx_nth 0 s) in
  let n1 := sx_Z (sx_nth 1 s) in let n2 := sx_Z (sx_nth 2 s) in let n3 := sx_Z (sx_nth 3 s) in
  L [of_bool (is_date_like_num range n1 n2 n3);
     of_bool (match poss_datetime n1 n2 n3 with Some _ => true | None => false end);
     of_bool (is_date_like_alpha range n1 n2 n3)].
