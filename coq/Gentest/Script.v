(* C11 / C12: what gentest generates and what the generated test checks.
   - test names (TestGenerator.test_name): sanitised base names made unique;
   - the generated test: exit status, stdout, stderr and one check per reference file, each a
     check_strings / binary comparison against what the first run produced, with the exclusions
     derived for a repeatable command (no patterns, no removals, only ignore-substrings);
   - which files generation may delete. *)
From Coq Require Import ZArith List Bool Lia.
From Tdda Require Import Base.Sexp Base.Str Rexpy.Chars RefTest.CheckStrings RefTest.Artefacts.
Import ListNotations.
Open Scope Z_scope.

(* ------------------------------------------------------------------ test names *)
Definition sanitize (idc : Z -> bool) (name : str) : str := map (fun c => if idc c then c else 95) name.

Definition reserved_names : list str :=
  [ [110;111;95;101;120;99;101;112;116;105;111;110];   (* no_exception *)
    [101;120;105;116;95;99;111;100;101];               (* exit_code *)
    [115;116;100;111;117;116];                         (* stdout *)
    [115;116;100;101;114;114] ].                       (* stderr *)

(* the while loop of test_name: fuel bounds the number of re-qualifications; None = fuel exhausted *)
Fixpoint qualify (fuel : nat) (base : str) (names : list str) (q : Z) : option (str * Z) :=
  match fuel with
  | O => None
  | S f => let cand := base ++ dec_of_Z (q + 1) in
           if mem_str cand names then qualify f base names (q + 1) else Some (cand, q + 1)
  end.

Definition test_name (idc : Z -> bool) (names : list str) (q : Z) (basename : str) : option (str * list str * Z) :=
  let base := sanitize idc basename in
  if mem_str base names then
    match qualify (S (length names)) base names q with
    | Some (n, q') => Some (n, names ++ [n], q')
    | None => None
    end
  else Some (base, names ++ [base], q).

Fixpoint test_names (idc : Z -> bool) (names : list str) (q : Z) (basenames : list str) : option (list str) :=
  match basenames with
  | [] => Some []
  | b :: bs => match test_name idc names q b with
               | Some (n, names', q') => match test_names idc names' q' bs with
                                         | Some ns => Some (n :: ns)
                                         | None => None
                                         end
               | None => None
               end
  end.

(* ------------------------------------------------------------------ the generated test *)
Record outputs := {
  out_exit : Z;
  out_stdout : str;
  out_stderr : str;
  out_files : list (str * bool * option str)    (* name, text?, content (None = the file is missing) *)
}.

(* the options of every generated text assertion for a repeatable command *)
Definition gen_opts (substrings : list str) : opts :=
  {| o_lstrip := false; o_rstrip := false; o_isub := substrings; o_npat := O; o_rem := [];
     o_maxperm := O; o_preproc := false; o_apath := false |}.

Inductive check := CNoException | CExit | CStdout | CStderr | CFile (name : str).

Definition passes (r : result) : bool := match r_verdict r with Pass => true | _ => false end.

Definition file_check (subs : list str) (ref new : str * bool * option str) : bool :=
  match snd ref, snd new with
  | Some rc, Some nc =>
    if snd (fst ref) then passes (check_file (gen_opts subs) [] nc rc)
    else match check_binary nc rc with None => true | Some _ => false end
  | _, _ => false      (* reference or actual file missing: the assertion errors *)
  end.

Fixpoint find_file (name : str) (fs : list (str * bool * option str)) : option (str * bool * option str) :=
  match fs with
  | [] => None
  | f :: fs' => if str_eqb (fst (fst f)) name then Some f else find_file name fs'
  end.

(* running the generated test on a later behaviour [new] of the command, references from [ref] *)
Definition run_generated (check_stdout check_stderr : bool) (subs : str -> list str) (ref new : outputs)
  : list (check * bool) :=
  [(CNoException, true); (CExit, Z.eqb (out_exit new) (out_exit ref))]
  ++ (if check_stdout then [(CStdout, passes (check_string_against_file (gen_opts (subs [115;116;100;111;117;116])) []
                                                                         (out_stdout new) (out_stdout ref)))] else [])
  ++ (if check_stderr then [(CStderr, passes (check_string_against_file (gen_opts (subs [115;116;100;101;114;114])) []
                                                                         (out_stderr new) (out_stderr ref)))] else [])
  ++ map (fun f => (CFile (fst (fst f)),
                    match find_file (fst (fst f)) (out_files new) with
                    | Some g => file_check (subs (fst (fst f))) f g
                    | None => false
                    end)) (out_files ref).

(* ------------------------------------------------------------------ what generation deletes *)
(* paths are lists of components; create_or_empty_ref_dir removes the plain files directly inside the
   reference directory and the old script; remove_extra_reference_files removes refdir/2..N *)
Definition path := list str.
Fixpoint is_prefix (p q : path) : bool :=
  match p, q with
  | [], _ => true
  | a :: p', b :: q' => str_eqb a b && is_prefix p' q'
  | _ :: _, [] => false
  end.

Definition deleted_by_generation (refdir script : path) (existing : list path) : list path :=
  filter (fun f => is_prefix refdir f && negb (Nat.eqb (length f) (length refdir)) || 
                   (Nat.eqb (length f) (length script) && is_prefix script f)) existing.

(* ------------------------------------------------------------------ wire *)
Definition is_ident_char_ascii (c : Z) : bool :=
  between 48 57 c || between 65 90 c || between 97 122 c || Z.eqb c 95 || Z.leb 128 c.
(* (idc-table basenames) -> names | () ; idc-table: the characters of the basenames that may appear in an identifier *)
Definition testnames_entry (s : sexp) : sexp :=
  let ok := sx_str (sx_nth 0 s) in
  of_opt of_strs (test_names (fun c => memc c ok) reserved_names 1 (sx_strs (sx_nth 1 s))).

Definition sx_file (s : sexp) : str * bool * option str :=
  (sx_str (sx_nth 0 s), sx_bool (sx_nth 1 s), sx_opt sx_str (sx_nth 2 s)).
Definition sx_outputs (s : sexp) : outputs :=
  {| out_exit := sx_Z (sx_nth 0 s); out_stdout := sx_str (sx_nth 1 s); out_stderr := sx_str (sx_nth 2 s);
     out_files := map sx_file (sx_list (sx_nth 3 s)) |}.
(* (check_stdout check_stderr subs-table ref new) -> ((kind name ok) ...) *)
Definition generated_entry (s : sexp) : sexp :=
  let table := map (fun r => (sx_str (sx_nth 0 r), sx_strs (sx_nth 1 r))) (sx_list (sx_nth 2 s)) in
  let subs name := match List.find (fun r => str_eqb (fst r) name) table with Some r => snd r | None => [] end in
  L (map (fun cb => L [match fst cb with
                       | CNoException => L [A 0] | CExit => L [A 1] | CStdout => L [A 2] | CStderr => L [A 3]
                       | CFile n => L [A 4; of_str n] end; of_bool (snd cb)])
         (run_generated (sx_bool (sx_nth 0 s)) (sx_bool (sx_nth 1 s)) subs (sx_outputs (sx_nth 3 s)) (sx_outputs (sx_nth 4 s)))).
