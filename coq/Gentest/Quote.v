(* C11: gentest.quote_raw and the Python lexer's reading of raw string literals.
   The generated script contains each ignore-pattern as a raw literal; the test only works if the
   literal denotes the pattern. *)
From Coq Require Import ZArith List Bool Lia.
From Tdda Require Import Base.Sexp Base.Str.
Import ListNotations.
Open Scope Z_scope.

Definition sq : Z := 39.   (* single quote *)
Definition dq : Z := 34.   (* double quote *)
Definition bs : Z := 92.
Definition memq (c : Z) (s : str) : bool := existsb (Z.eqb c) s.

Inductive quoted := QRaw (text : str) | QRepr.     (* repr(s) fallback is not modelled *)

Definition quote_raw (s : str) : quoted :=
  if negb (memq sq s) then QRaw ([114; sq] ++ s ++ [sq])
  else if negb (memq dq s) then QRaw ([114; dq] ++ s ++ [dq])
  else if negb (contains [sq; sq; sq] s) then QRaw ([114; sq; sq; sq] ++ s ++ [sq; sq; sq])
  else if negb (contains [dq; dq; dq] s) then QRaw ([114; dq; dq; dq] ++ s ++ [dq; dq; dq])
  else QRepr.

(* CPython's tokenizer on the body of a raw literal: a backslash keeps itself and protects the next
   character; single-quoted bodies may not contain a bare newline. esc = previous char was a protecting backslash *)
Fixpoint lex1 (q : Z) (esc : bool) (s : str) : option (str * str) :=
  match s with
  | [] => None
  | c :: r =>
    if esc then match lex1 q false r with Some (b, rest) => Some (c :: b, rest) | None => None end
    else if Z.eqb c q then Some ([], r)
    else if Z.eqb c 10 || Z.eqb c 13 then None
    else match lex1 q (Z.eqb c bs) r with Some (b, rest) => Some (c :: b, rest) | None => None end
  end.

Fixpoint lex3 (q : Z) (esc : bool) (s : str) : option (str * str) :=
  match s with
  | [] => None
  | c :: r =>
    if esc then match lex3 q false r with Some (b, rest) => Some (c :: b, rest) | None => None end
    else if startswith [q; q; q] s then Some ([], skipn 3 s)
    else match lex3 q (Z.eqb c bs) r with Some (b, rest) => Some (c :: b, rest) | None => None end
  end.

(* a whole raw literal (r + single- or triple-quoted body); returns the string value and the rest *)
Definition lex_raw_literal (t : str) : option (str * str) :=
  match t with
  | 114 :: q :: r =>
    if Z.eqb q sq || Z.eqb q dq then
      if startswith [q; q] r then lex3 q false (skipn 2 r) else lex1 q false r
    else None
  | _ => None
  end.

(* (s) -> (1 text) | (0) *)
Definition quote_entry (s : sexp) : sexp :=
  match quote_raw (sx_str s) with
  | QRaw t => L [A 1; of_str t;
                 of_opt of_str (match lex_raw_literal t with Some (b, []) => Some b | _ => None end)]
  | QRepr => L [A 0]
  end.
