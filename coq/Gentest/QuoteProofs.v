From Coq Require Import ZArith List Bool Lia.
From Tdda Require Import Base.Sexp Base.Str Gentest.Quote.
Import ListNotations.
Open Scope Z_scope.

(* protecting-backslash state after reading s *)
Fixpoint esc_after (esc : bool) (s : str) : bool :=
  match s with [] => esc | c :: r => esc_after (if esc then false else Z.eqb c bs) r end.

Lemma esc_after_app e s t : esc_after e (s ++ t) = esc_after (esc_after e s) t.
Proof. revert e; induction s as [|c s IH]; intro e; [reflexivity|]. cbn [app esc_after]. apply IH. Qed.

Lemma esc_after_last e s c : c <> bs -> esc_after e (s ++ [c]) = false.
Proof.
  intro Hc. rewrite esc_after_app. cbn [esc_after]. destruct (esc_after e s); [reflexivity|].
  apply Z.eqb_neq. exact Hc.
Qed.

Definition no_nl (s : str) : Prop := memq 10 s = false /\ memq 13 s = false.

Lemma memq_cons c d s : memq c (d :: s) = Z.eqb c d || memq c s.
Proof. reflexivity. Qed.

(* single-quoted body: if the quote does not occur in s, s has no newline, and s does not end inside an
   escape, the lexer returns exactly s *)
Lemma lex1_body q s rest : forall esc,
  memq q s = false -> no_nl s -> esc_after esc s = false ->
  lex1 q esc (s ++ q :: rest) = Some (s, rest).
Proof.
  induction s as [|c s IH]; intros esc Hq [Hn Hr] He.
  - cbn [esc_after] in He. subst esc. cbn [app lex1]. rewrite Z.eqb_refl. reflexivity.
  - rewrite memq_cons in Hq, Hn, Hr. apply orb_false_iff in Hq as [Hq1 Hq2].
    apply orb_false_iff in Hn as [Hn1 Hn2]. apply orb_false_iff in Hr as [Hr1 Hr2].
    cbn [app lex1 esc_after] in *. destruct esc.
    + rewrite (IH false Hq2 (conj Hn2 Hr2) He). reflexivity.
    + rewrite Z.eqb_sym in Hq1. rewrite Hq1. rewrite Z.eqb_sym in Hn1, Hr1. rewrite Hn1, Hr1. cbn [orb].
      rewrite (IH (Z.eqb c bs) Hq2 (conj Hn2 Hr2) He). reflexivity.
Qed.

(* triple-quoted body *)
Lemma startswith_qqq_app q s t : (3 <= length s)%nat -> startswith [q; q; q] (s ++ t) = startswith [q; q; q] s.
Proof.
  intro H. destruct s as [|a [|b [|c s]]]; simpl in H; try lia. cbn [app startswith].
  destruct (Z.eqb q a), (Z.eqb q b), (Z.eqb q c); reflexivity.
Qed.

Lemma lex3_body q s last rest : forall esc,
  contains [q; q; q] (s ++ [last]) = false -> last <> q -> last <> bs -> esc_after esc (s ++ [last]) = false ->
  lex3 q esc ((s ++ [last]) ++ [q; q; q] ++ rest) = Some (s ++ [last], rest).
Proof.
  induction s as [|c s IH]; intros esc Hc Hlq Hlb He.
  - cbn [app]. cbn [lex3]. destruct esc.
    + cbn [lex3 startswith]. rewrite !Z.eqb_refl. cbn [andb skipn]. reflexivity.
    + cbn [startswith]. replace (Z.eqb q last) with false by (symmetry; apply Z.eqb_neq; congruence). cbn [andb].
      replace (Z.eqb last bs) with false by (symmetry; apply Z.eqb_neq; exact Hlb).
      cbn [lex3 startswith]. rewrite !Z.eqb_refl. cbn [andb skipn]. reflexivity.
  - change ((c :: s) ++ [last]) with (c :: (s ++ [last])) in *.
    cbn [contains] in Hc. apply orb_false_iff in Hc as [Hc1 Hc2].
    change ((c :: s ++ [last]) ++ [q; q; q] ++ rest) with (c :: ((s ++ [last]) ++ [q; q; q] ++ rest)).
    cbn [lex3]. cbn [esc_after] in He. destruct esc.
    + rewrite (IH false Hc2 Hlq Hlb He). reflexivity.
    + assert (Hsw : startswith [q; q; q] (c :: (s ++ [last]) ++ [q; q; q] ++ rest) = false).
      { destruct s as [|d [|f s]].
        - cbn [app startswith]. destruct (Z.eqb q c); [|reflexivity]. cbn [andb].
          replace (Z.eqb q last) with false by (symmetry; apply Z.eqb_neq; congruence). reflexivity.
        - cbn [app startswith]. destruct (Z.eqb q c); [|reflexivity]. destruct (Z.eqb q d); [|reflexivity]. cbn [andb].
          replace (Z.eqb q last) with false by (symmetry; apply Z.eqb_neq; congruence). reflexivity.
        - change (c :: ((d :: f :: s) ++ [last]) ++ [q; q; q] ++ rest) with ((c :: d :: f :: s ++ [last]) ++ [q; q; q] ++ rest).
          rewrite startswith_qqq_app by (simpl; lia). exact Hc1. }
      rewrite Hsw. rewrite (IH (Z.eqb c bs) Hc2 Hlq Hlb He). reflexivity.
Qed.

(* the property: a pattern that ends with '$' and contains no line break is written as a raw literal that
   the Python lexer reads back as exactly that pattern (or quote_raw falls back to repr) *)
Theorem quote_raw_roundtrip_proof s0 :
  let s := s0 ++ [36] in
  no_nl s ->
  match quote_raw s with
  | QRaw t => forall rest, lex_raw_literal (t ++ rest) = Some (s, rest)
  | QRepr => True
  end.
Proof.
  intros s Hnl. unfold quote_raw.
  assert (He : forall e, esc_after e s = false) by (intro e; apply esc_after_last; unfold bs; lia).
  destruct (memq sq s) eqn:E1; cbn [negb].
  - destruct (memq dq s) eqn:E2; cbn [negb].
    + destruct (contains [sq; sq; sq] s) eqn:E3; cbn [negb].
      * destruct (contains [dq; dq; dq] s) eqn:E4; cbn [negb]; [exact I|].
        intro rest. cbn [app lex_raw_literal]. rewrite Z.eqb_refl, orb_true_r.
        change (dq :: dq :: dq :: s ++ [dq; dq; dq]) with ([dq; dq] ++ dq :: s ++ [dq; dq; dq]).
        cbn [app startswith]. rewrite !Z.eqb_refl. cbn [andb skipn].
        rewrite <- app_assoc. change (s ++ [dq; dq; dq] ++ rest) with (s ++ [dq; dq; dq] ++ rest).
        unfold s. apply lex3_body; try (unfold dq, bs; lia); [exact E4|apply He].
      * intro rest. cbn [app lex_raw_literal]. rewrite Z.eqb_refl. cbn [orb].
        cbn [startswith]. rewrite !Z.eqb_refl. cbn [andb skipn].
        rewrite <- app_assoc. unfold s. apply lex3_body; try (unfold sq, bs; lia); [exact E3|apply He].
    + intro rest. cbn [app lex_raw_literal]. rewrite Z.eqb_refl, orb_true_r.
      assert (Hnsw : startswith [dq; dq] ((s ++ [dq]) ++ rest) = false).
      { unfold s. destruct s0 as [|c s0'].
        - reflexivity.
        - cbn [app startswith]. cbn [memq existsb] in E2. fold (memq dq (s0' ++ [36])) in E2.
          apply orb_false_iff in E2 as [E2 _]. rewrite E2. reflexivity. }
      rewrite Hnsw. rewrite <- app_assoc. apply lex1_body; [exact E2|exact Hnl|apply He].
  - intro rest. cbn [app lex_raw_literal]. rewrite Z.eqb_refl. cbn [orb].
    assert (Hnsw : startswith [sq; sq] ((s ++ [sq]) ++ rest) = false).
    { unfold s. destruct s0 as [|c s0'].
      - reflexivity.
      - cbn [app startswith]. cbn [memq existsb] in E1. fold (memq sq (s0' ++ [36])) in E1.
        apply orb_false_iff in E1 as [E1 _]. rewrite E1. reflexivity. }
    rewrite Hnsw. rewrite <- app_assoc. apply lex1_body; [exact E1|exact Hnl|apply He].
Qed.
