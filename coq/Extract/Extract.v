From Tdda Require Import Base.Sexp Extract.Entry.
Require Extraction.
Require Import ExtrOcamlBasic.
Extraction "../ocaml/model.ml" dispatch.
