(* Entry points of the extracted model: one number per model function. *)
From Coq Require Import ZArith List.
From Tdda Require Import Base.Sexp RefTest.Argv RefTest.Tagged Serial.DateFmt RefTest.CheckStrings RefTest.Artefacts RefTest.Regen Constraints.Model Constraints.Detect Constraints.Serialise Constraints.Json Constraints.Cli Rexpy.Coverage Rexpy.Wire Rexpy.Prng Rexpy.Regex RefTest.FrameCmp Gentest.DateLike Gentest.Quote Gentest.Script.
Import ListNotations.
Open Scope Z_scope.

Definition dispatch (n : Z) (s : sexp) : sexp :=
  match n with
  | 1 => argv_entry s
  | 2 => tagged_entry s
  | 3 => translate_entry s
  | 4 => check_strings_entry s
  | 5 => splitlines_entry s
  | 6 => binary_entry s
  | 7 => artefacts_entry s
  | 8 => regen_entry s
  | 9 => verify_entry s
  | 10 => discover_entry s
  | 11 => detect_entry s
  | 12 => serialise_entry s
  | 13 => cli_entry s
  | 14 => coverage_entry s
  | 15 => terminate_entry s
  | 16 => rexpy_entry s
  | 17 => catsem_entry s
  | 18 => coarse_entry s
  | 19 => catre_entry s
  | 20 => escape_entry s
  | 21 => batch_entry s
  | 22 => prng_entry s
  | 23 => framecmp_entry s
  | 24 => typesmatch_entry s
  | 25 => datelike_entry s
  | 26 => quote_entry s
  | 27 => testnames_entry s
  | 28 => generated_entry s
  | 29 => oracle_entry s
  | 30 => regex_entry s
  | 31 => renderable_entry s
  | 32 => json_print_entry s
  | 33 => json_parse_entry s
  | 34 => json_wf_entry s
  | _ => L [A (-1)]
  end.
