(* C08: SQL string literals as built for the REGEXP verification, and single-row perturbations. *)
From Coq Require Import ZArith List Bool Lia.
From Tdda Require Import Base.Sexp Base.Str Generated.Consts Constraints.Model Constraints.ModelProofs.
Import ListNotations.
Open Scope Z_scope.

Definition q : Z := 39.   (* ' *)

Fixpoint sql_escape (s : str) : str :=
  match s with
  | [] => []
  | c :: r => if Z.eqb c q then q :: q :: sql_escape r else c :: sql_escape r
  end.
Definition sql_literal (s : str) : str := q :: sql_escape s ++ [q].

(* the SQL lexer's reading of a literal body (after the opening quote): content and the rest *)
Fixpoint sql_lex_body (fuel : nat) (s : str) : option (str * str) :=
  match fuel with
  | O => None
  | S f =>
    match s with
    | [] => None
    | c :: r =>
      if Z.eqb c q then
        match r with
        | c2 :: r2 => if Z.eqb c2 q then option_map (fun p => (q :: fst p, snd p)) (sql_lex_body f r2)
                      else Some ([], r)
        | [] => Some ([], [])
        end
      else option_map (fun p => (c :: fst p, snd p)) (sql_lex_body f r)
    end
  end.

Lemma sql_lex_escape s : forall rest fuel,
  (length (sql_escape s) + 1 <= fuel)%nat ->
  match rest with c :: _ => Z.eqb c q = false | [] => True end ->
  sql_lex_body fuel (sql_escape s ++ q :: rest) = Some (s, rest).
Proof.
  induction s as [|c s IH]; intros rest fuel Hf Hr.
  - cbn [sql_escape app length] in *. destruct fuel; [lia|]. cbn [sql_lex_body]. rewrite Z.eqb_refl.
    destruct rest as [|c2 r2]; [reflexivity|]. rewrite Hr. reflexivity.
  - cbn [sql_escape]. destruct (Z.eqb c q) eqn:E.
    + apply Z.eqb_eq in E. subst c.
      assert (Hl : length (sql_escape (q :: s)) = S (S (length (sql_escape s))))
        by (cbn [sql_escape]; rewrite Z.eqb_refl; reflexivity).
      rewrite Hl in Hf. cbn [app length] in *. destruct fuel as [|fuel]; [lia|].
      cbn [sql_lex_body]. rewrite !Z.eqb_refl.
      rewrite IH by (auto; lia). reflexivity.
    + assert (Hl : length (sql_escape (c :: s)) = S (length (sql_escape s)))
        by (cbn [sql_escape]; rewrite E; reflexivity).
      rewrite Hl in Hf. cbn [app length] in *. destruct fuel; [lia|]. cbn [sql_lex_body]. rewrite E.
      rewrite IH by (auto; lia). reflexivity.
Qed.

(* every expression survives the trip through the statement text *)
Theorem sql_literal_roundtrip_proof s rest :
  match rest with c :: _ => Z.eqb c q = false | [] => True end ->
  match sql_literal s ++ rest with
  | c :: body => Z.eqb c q = true /\ sql_lex_body (S (length body)) body = Some (s, rest)
  | [] => False
  end.
Proof.
  intro Hr. unfold sql_literal. cbn [app]. split; [reflexivity|].
  rewrite <- app_assoc. cbn [app]. apply sql_lex_escape; [|exact Hr].
  rewrite app_length. cbn [length]. lia.
Qed.

(* without escaping, an expression containing a quote ends the literal early *)
Example unescaped_quote_breaks :
  sql_lex_body 10 ([97; 39; 98] ++ [q]) = Some ([97], [98; 39]).
Proof. reflexivity. Qed.

(* ---------------------------------------------------------------- single-row perturbations *)

Definition add_row (c : column) (cell : option value) : column :=
  {| c_type := c_type c; c_cells := c_cells c ++ [cell] |}.

Lemma non_nulls_add_some c v : non_nulls (add_row c (Some v)) = non_nulls c ++ [v].
Proof. unfold non_nulls, add_row. cbn [c_cells]. rewrite flat_map_app. reflexivity. Qed.

Theorem perturb_min_proof p c b v :
  well_formed (add_row c (Some v)) -> sat_min b v = false ->
  verify p (Some (add_row c (Some v))) (CMin (Some b)) = false.
Proof.
  intros Hw Hs. destruct (verify p (Some (add_row c (Some v))) (CMin (Some b))) eqn:E; [|reflexivity].
  pose proof (proj1 (verify_min_spec_proof p _ b Hw) E) as E'.
  destruct (E' v) as [_ H]; [rewrite non_nulls_add_some; apply in_or_app; right; left; reflexivity|]. congruence.
Qed.

Theorem perturb_max_proof p c b v :
  well_formed (add_row c (Some v)) -> sat_max b v = false ->
  verify p (Some (add_row c (Some v))) (CMax (Some b)) = false.
Proof.
  intros Hw Hs. destruct (verify p (Some (add_row c (Some v))) (CMax (Some b))) eqn:E; [|reflexivity].
  pose proof (proj1 (verify_max_spec_proof p _ b Hw) E) as E'.
  destruct (E' v) as [_ H]; [rewrite non_nulls_add_some; apply in_or_app; right; left; reflexivity|]. congruence.
Qed.

Theorem perturb_sign_proof p c s v :
  well_formed (add_row c (Some v)) -> numeric (add_row c (Some v)) -> sat_sign s v = false ->
  verify p (Some (add_row c (Some v))) (CSign (Some s)) = false.
Proof.
  intros Hw Hn Hs. destruct (verify p (Some (add_row c (Some v))) (CSign (Some s))) eqn:E; [|reflexivity].
  pose proof (proj1 (verify_sign_spec_proof p _ s Hw Hn) E) as E'.
  rewrite (E' v) in Hs; [discriminate|]. rewrite non_nulls_add_some. apply in_or_app. right; left; reflexivity.
Qed.

Theorem perturb_length_proof p c n v : c_type c = TString ->
  (str_len v < n -> verify p (Some (add_row c (Some v))) (CMinLen (Some n)) = false) /\
  (n < str_len v -> verify p (Some (add_row c (Some v))) (CMaxLen (Some n)) = false).
Proof.
  intro Ht. split; intro Hl.
  - destruct (verify p (Some (add_row c (Some v))) (CMinLen (Some n))) eqn:E; [|reflexivity].
    pose proof (proj1 (verify_min_length_spec_proof p (add_row c (Some v)) n Ht) E v) as E'.
    rewrite non_nulls_add_some in E'.
    assert (n <= str_len v) by (apply E'; apply in_or_app; right; left; reflexivity). lia.
  - destruct (verify p (Some (add_row c (Some v))) (CMaxLen (Some n))) eqn:E; [|reflexivity].
    pose proof (proj1 (verify_max_length_spec_proof p (add_row c (Some v)) n Ht) E v) as E'.
    rewrite non_nulls_add_some in E'.
    assert (str_len v <= n) by (apply E'; apply in_or_app; right; left; reflexivity). lia.
Qed.

Theorem perturb_null_proof p c :
  verify p (Some (add_row c None)) (CMaxNulls (Some (null_count c))) = false.
Proof.
  cbn [verify]. apply Z.leb_gt. unfold null_count, add_row. cbn [c_cells].
  rewrite filter_app, app_length. cbn [filter length]. lia.
Qed.

Theorem perturb_duplicate_proof p c v : In v (non_nulls c) ->
  verify p (Some (add_row c (Some v))) (CNoDup (Some true)) = false.
Proof.
  intro Hin. destruct (verify p (Some (add_row c (Some v))) (CNoDup (Some true))) eqn:E; [|reflexivity].
  pose proof (proj1 (verify_no_duplicates_spec_proof p _) E) as E'. rewrite non_nulls_add_some in E'.
  exfalso. revert E'. generalize (non_nulls c) Hin. clear.
  induction l as [|x l IH]; intros Hin Hnd; [destruct Hin|]. cbn [app] in Hnd. inversion Hnd; subst.
  destruct Hin as [->|Hin].
  - assert (Hv : veqb v v = false) by (apply H1; apply in_or_app; right; left; reflexivity).
    unfold veqb in Hv. rewrite vleb_refl in Hv. discriminate.
  - apply IH; assumption.
Qed.
