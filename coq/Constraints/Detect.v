(* C06: per-record detection flags (tdda/constraints/pd/constraints.py detect_*_constraint,
   detection_field, write_detected_records) over the abstract columns of Constraints/Model.v. *)
From Coq Require Import ZArith List Bool.
From Tdda Require Import Base.Sexp Base.Str Base.Sort Generated.Consts Constraints.Model Constraints.ModelProofs.
Import ListNotations.
Open Scope Z_scope.

Definition flag := option bool.     (* Some true = ok, Some false = violates, None = null flag *)

Definition per_cell (f : value -> bool) (c : column) : list flag :=
  map (fun o => match o with None => None | Some v => Some (f v) end) (c_cells c).
Definition all_false (c : column) : list flag := map (fun _ => Some false) (c_cells c).

Definition col_coarse (c : column) : coarse :=
  match c_type c with TString => KString | TDate => KDateK | _ => KNumber end.

Definition duplicated (c : column) (v : value) : bool :=
  Nat.ltb 1 (length (filter (veqb v) (non_nulls c))).

(* the flag column written for a FAILING constraint; None = no column is written *)
Definition detect_flags (c : column) (k : constr) : option (list flag) :=
  match k with
  | CType (Some _) => Some (all_false c)
  | CMin (Some b) =>
    if negb (coarse_eqb (col_coarse c) (coarse_of (b_value b))) then Some (all_false c)
    else Some (per_cell (sat_min b) c)
  | CMax (Some b) =>
    if negb (coarse_eqb (col_coarse c) (coarse_of (b_value b))) then Some (all_false c)
    else Some (per_cell (sat_max b) c)
  | CMinLen (Some n) =>
    if ctype_eqb (c_type c) TString then Some (per_cell (fun v => Z.leb n (str_len v)) c) else Some (all_false c)
  | CMaxLen (Some n) =>
    if ctype_eqb (c_type c) TString then Some (per_cell (fun v => Z.leb (str_len v) n) c) else Some (all_false c)
  | CSign (Some s) =>
    match col_coarse c with
    | KNumber => match s with
                 | SNull => Some (map (fun o => match o with None => Some true | Some _ => Some false end) (c_cells c))
                 | _ => Some (per_cell (sat_sign s) c)
                 end
    | _ => Some (all_false c)   (* not a numeric field: every record is flagged *)
    end
  | CMaxNulls (Some _) => Some (map (fun o => match o with None => Some false | Some _ => Some true end) (c_cells c))
  | CNoDup (Some true) =>
    Some (map (fun o => match o with None => Some true | Some v => Some (negb (duplicated c v)) end) (c_cells c))
  | CAllowed (Some vs) => Some (per_cell (fun v => mem_str (str_of v) vs) c)
  | CRex (Some _) => None   (* needs the per-string oracle: handled by detect_rex_flags *)
  | _ => None
  end.

(* rex: oks = one bool per distinct non-null string in first-occurrence order *)
Fixpoint first_occurrences (l : list value) : list value :=
  match l with
  | [] => []
  | x :: l' => x :: filter (fun y => negb (veqb x y)) (first_occurrences l')
  end.
Fixpoint lookup_ok (v : value) (keys : list value) (oks : list bool) : bool :=
  match keys, oks with
  | k :: ks, b :: bs => if veqb v k then b else lookup_ok v ks bs
  | _, _ => true
  end.
Definition detect_rex_flags (c : column) (oks : list bool) : option (list flag) :=
  if ctype_eqb (c_type c) TString
  then Some (per_cell (fun v => lookup_ok v (first_occurrences (non_nulls c)) oks) c)
  else Some (all_false c).      (* not a string field: every record is flagged *)

Definition flags_of (p : params) (c : column) (k : constr) : option (list flag) :=
  if verify p (Some c) k then None
  else match k with
       | CRex (Some oks) => detect_rex_flags c oks
       | _ => detect_flags c k
       end.

(* rows: n_failures per record over the flag columns of all failing constraints *)
Fixpoint row_failures (cols : list (list flag)) (nrows : nat) : list Z :=
  match nrows with
  | O => []
  | S n =>
    Z.of_nat (length (filter (fun col => match col with Some false :: _ => true | _ => false end) cols))
    :: row_failures (map (@tl flag) cols) n
  end.

Record detection := {
  d_columns : list (list flag);
  d_nfailures : list Z;
  d_failing : Z;
  d_passing : Z
}.

Definition detect (p : params) (fields : list (column * list constr)) (nrows : nat) : detection :=
  let cols := flat_map (fun f => flat_map (fun k => match flags_of p (fst f) k with Some l => [l] | None => [] end)
                                          (snd f)) fields in
  let nf := row_failures cols nrows in
  let failing := Z.of_nat (length (filter (fun z => Z.ltb 0 z) nf)) in
  {| d_columns := cols; d_nfailures := nf; d_failing := failing; d_passing := Z.of_nat nrows - failing |}.

(* the output-file state: a detect run first empties and removes the path, then writes iff some constraint failed *)
Definition outfile_after (existed_before : bool) (failures : Z) : bool := Z.ltb 0 failures.

(* wire *)
Definition of_flag (f : flag) : sexp := match f with None => L [] | Some b => L [of_bool b] end.
Definition detect_entry (s : sexp) : sexp :=
  let p := {| p_strict := sx_bool (sx_nth 0 s) |} in
  let fields := map (fun f => (sx_column (sx_nth 0 f), map sx_constr (sx_list (sx_nth 1 f)))) (sx_list (sx_nth 1 s)) in
  let d := detect p fields (sx_nat (sx_nth 2 s)) in
  L [ L (map (fun col => L (map of_flag col)) (d_columns d)); L (map A (d_nfailures d));
      A (d_failing d); A (d_passing d) ].
