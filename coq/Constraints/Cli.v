(* C17: flag -> keyword translation of tdda verify / detect (tdda/constraints/flags.py). *)
From Coq Require Import ZArith List Bool.
From Tdda Require Import Base.Sexp Base.Str.
Import ListNotations.
Open Scope Z_scope.

Inductive report := RAll | RFields | RRecords.

Record vflags := { vf_all : bool; vf_fields : bool; vf_ascii : bool; vf_tc : option bool; vf_eps : option Z }.
Record vparams := { vp_report : report; vp_ascii : bool; vp_tc : option bool; vp_eps : option Z }.

(* None = the command exits with status 1 (--all and --fields contradict each other) *)
Definition verify_params (f : vflags) : option vparams :=
  if vf_all f && vf_fields f then None
  else Some {| vp_report := if vf_all f then RAll else if vf_fields f then RFields else RAll;
               vp_ascii := vf_ascii f; vp_tc := vf_tc f; vp_eps := vf_eps f |}.

(* tdda discover: -r / -R; None = exit status 1, Some inc_rex otherwise *)
Definition discover_params (rex norex : bool) : option bool :=
  if rex && norex then None else Some rex.

Record dflags := {
  df_ascii : bool; df_tc : option bool; df_eps : option Z;
  df_write_all : bool; df_per_constraint : bool; df_no_per_constraint : bool;
  df_no_output_fields : bool; df_output_fields : option (list str);
  df_interleave : bool; df_index : bool; df_ints : bool
}.

Record dparams := {
  dp_ascii : bool; dp_tc : option bool; dp_eps : option Z;
  dp_write_all : bool;            (* absent = false *)
  dp_per_constraint : bool;
  dp_index : bool; dp_ints : bool; dp_interleave : bool;
  dp_output_fields : option (list str)      (* None = keyword not passed *)
}.

(* --output-fields was given (with or without names) *)
Definition nonempty_fields (o : option (list str)) : bool :=
  match o with Some _ => true | None => false end.

(* None = the command exits with status 1 *)
Definition detect_params (f : dflags) : option dparams :=
  if df_per_constraint f && df_no_per_constraint f then None
  else if nonempty_fields (df_output_fields f) && df_no_output_fields f then None
  else Some {| dp_ascii := df_ascii f; dp_tc := df_tc f; dp_eps := df_eps f;
               dp_write_all := df_write_all f;
               dp_per_constraint := negb (df_no_per_constraint f);
               dp_index := df_index f; dp_ints := df_ints f; dp_interleave := df_interleave f;
               dp_output_fields := match df_output_fields f with
                                   | Some l => Some l
                                   | None => if df_no_output_fields f then None else Some []
                                   end |}.

(* wire *)
Definition sx_ob (s : sexp) : option bool := sx_opt sx_bool s.
Definition of_ob (o : option bool) : sexp := of_opt of_bool o.
Definition of_report (r : report) : sexp := A (match r with RAll => 0 | RFields => 1 | RRecords => 2 end).

Definition cli_entry (s : sexp) : sexp :=
  match sx_Z (sx_nth 0 s) with
  | 0 =>
    let f := {| vf_all := sx_bool (sx_nth 1 s); vf_fields := sx_bool (sx_nth 2 s); vf_ascii := sx_bool (sx_nth 3 s);
                vf_tc := sx_ob (sx_nth 4 s); vf_eps := sx_opt sx_Z (sx_nth 5 s) |} in
    match verify_params f with
    | None => L []
    | Some p => L [L [of_report (vp_report p); of_bool (vp_ascii p); of_ob (vp_tc p); of_opt A (vp_eps p)]]
    end
  | 2 => of_opt of_bool (discover_params (sx_bool (sx_nth 1 s)) (sx_bool (sx_nth 2 s)))
  | _ =>
    let f := {| df_ascii := sx_bool (sx_nth 1 s); df_tc := sx_ob (sx_nth 2 s); df_eps := sx_opt sx_Z (sx_nth 3 s);
                df_write_all := sx_bool (sx_nth 4 s); df_per_constraint := sx_bool (sx_nth 5 s);
                df_no_per_constraint := sx_bool (sx_nth 6 s); df_no_output_fields := sx_bool (sx_nth 7 s);
                df_output_fields := sx_opt sx_strs (sx_nth 8 s);
                df_interleave := sx_bool (sx_nth 9 s); df_index := sx_bool (sx_nth 10 s);
                df_ints := sx_bool (sx_nth 11 s) |} in
    match detect_params f with
    | None => L []
    | Some p => L [L [of_bool (dp_ascii p); of_ob (dp_tc p); of_opt A (dp_eps p); of_bool (dp_write_all p);
                      of_bool (dp_per_constraint p); of_bool (dp_index p); of_bool (dp_ints p);
                      of_bool (dp_interleave p); of_opt of_strs (dp_output_fields p)]]
    end
  end.

(* ---------------------------------------------------------------- theorems *)

Theorem contradictory_options_exit_proof f :
  detect_params f = None <->
  (df_per_constraint f = true /\ df_no_per_constraint f = true) \/
  (nonempty_fields (df_output_fields f) = true /\ df_no_output_fields f = true).
Proof.
  unfold detect_params.
  destruct (df_per_constraint f), (df_no_per_constraint f), (nonempty_fields (df_output_fields f)),
    (df_no_output_fields f); simpl; split; intro H; try discriminate; auto;
    destruct H as [[H1 H2]|[H1 H2]]; discriminate.
Qed.

(* the documented table: per-constraint flags are written unless switched off; all original fields are
   written unless a list is given or output fields are switched off; everything else passes through *)
Theorem detect_translation_proof f p : detect_params f = Some p ->
  dp_per_constraint p = negb (df_no_per_constraint f) /\
  dp_write_all p = df_write_all f /\ dp_index p = df_index f /\ dp_ints p = df_ints f /\
  dp_interleave p = df_interleave f /\ dp_ascii p = df_ascii f /\ dp_tc p = df_tc f /\ dp_eps p = df_eps f /\
  dp_output_fields p = match df_output_fields f with
                       | Some l => Some l
                       | None => if df_no_output_fields f then None else Some []
                       end.
Proof.
  unfold detect_params. destruct (_ && _); [discriminate|]. destruct (_ && _); [discriminate|].
  intro H. inversion H; subst; clear H. cbn. repeat split; reflexivity.
Qed.

Theorem verify_translation_proof f p : verify_params f = Some p ->
  vp_report p = (if vf_all f then RAll else if vf_fields f then RFields else RAll) /\
  vp_ascii p = vf_ascii f /\ vp_tc p = vf_tc f /\ vp_eps p = vf_eps f.
Proof. unfold verify_params. destruct (_ && _); [discriminate|]. intro H. inversion H; subst; clear H. cbn. repeat split; reflexivity. Qed.

(* every pair of options that contradict each other ends the command with status 1, and nothing else does *)
Theorem verify_contradiction_proof f : verify_params f = None <-> (vf_all f = true /\ vf_fields f = true).
Proof. unfold verify_params. destruct (vf_all f), (vf_fields f); cbn; split; intro H; try discriminate; auto; destruct H; discriminate. Qed.

Theorem discover_contradiction_proof rex norex :
  (discover_params rex norex = None <-> (rex = true /\ norex = true)) /\
  (forall b, discover_params rex norex = Some b -> b = rex).
Proof.
  unfold discover_params. destruct rex, norex; cbn; (split; [split; intro H; try discriminate; auto; destruct H; discriminate|]);
    intros b H; inversion H; reflexivity.
Qed.
