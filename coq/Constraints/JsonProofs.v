(* C09, text level: what json.loads reads from what to_json wrote is the value that was written. *)
From Coq Require Import ZArith List Bool Lia.
From Tdda Require Import Base.Sexp Base.Str Constraints.Json.
Import ListNotations.
Open Scope Z_scope.

Local Arguments Z.eqb : simpl nomatch.
Local Arguments Z.leb : simpl nomatch.
Local Arguments Z.ltb : simpl nomatch.

(* ------------------------------------------------------------------ A. strings *)
Lemma scan_plain c t : c <> 34 -> c <> 92 -> (0 <=? c) && (c <? 32) = false ->
  scan_str (c :: t) = cons_res c (scan_str t).
Proof.
  intros H1 H2 H3. cbn [scan_str]. apply Z.eqb_neq in H1, H2. rewrite H1, H2, H3. reflexivity.
Qed.

Lemma scan_esc e ch t : e <> 117 -> unescape e = Some ch -> scan_str (92 :: e :: t) = cons_res ch (scan_str t).
Proof.
  intros H1 H2. cbn [scan_str]. change (92 =? 34) with false. change (92 =? 92) with true. cbv iota.
  apply Z.eqb_neq in H1. rewrite H1, H2. reflexivity.
Qed.

Lemma scan_u a b c d u t : hex4 a b c d = Some u -> (55296 <=? u) && (u <=? 56319) = false ->
  scan_str (92 :: 117 :: a :: b :: c :: d :: t) = cons_res u (scan_str t).
Proof.
  intros H1 H2. cbn [scan_str]. change (92 =? 34) with false. change (92 =? 92) with true.
  change (117 =? 117) with true. cbv iota. rewrite H1, H2. reflexivity.
Qed.

Lemma hex_control : forallb (fun c => match hex4 48 48 (hexdigit (c / 16)) (hexdigit (c mod 16)) with
                                      | Some u => u =? c | None => false end)
                            (map Z.of_nat (seq 0 32)) = true.
Proof. vm_compute. reflexivity. Qed.

Lemma hex_control_c c : 0 <= c < 32 -> hex4 48 48 (hexdigit (c / 16)) (hexdigit (c mod 16)) = Some c.
Proof.
  intro H. pose proof (proj1 (forallb_forall _ _) hex_control c) as Hc.
  assert (Hin : In c (map Z.of_nat (seq 0 32))).
  { apply in_map_iff. exists (Z.to_nat c). split; [lia|]. apply in_seq. lia. }
  specialize (Hc Hin). cbv beta in Hc. destruct (hex4 48 48 _ _) as [u|]; [|discriminate]. apply Z.eqb_eq in Hc. congruence.
Qed.

Theorem scan_str_quote s : forall rest, scan_str (flat_map esc_char s ++ 34 :: rest) = Some (s, rest).
Proof.
  induction s as [|c s IH]; intro rest.
  - cbn [flat_map app scan_str]. change (34 =? 34) with true. reflexivity.
  - cbn [flat_map]. rewrite <- app_assoc. unfold esc_char.
    destruct (c =? 34) eqn:E34.
    { apply Z.eqb_eq in E34. subst c. cbn [app]. rewrite (scan_esc 34 34) by (try reflexivity; lia). rewrite IH. reflexivity. }
    destruct (c =? 92) eqn:E92.
    { apply Z.eqb_eq in E92. subst c. cbn [app]. rewrite (scan_esc 92 92) by (try reflexivity; lia). rewrite IH. reflexivity. }
    destruct (c =? 10) eqn:E10.
    { apply Z.eqb_eq in E10. subst c. cbn [app]. rewrite (scan_esc 110 10) by (try reflexivity; lia). rewrite IH. reflexivity. }
    destruct (c =? 13) eqn:E13.
    { apply Z.eqb_eq in E13. subst c. cbn [app]. rewrite (scan_esc 114 13) by (try reflexivity; lia). rewrite IH. reflexivity. }
    destruct (c =? 9) eqn:E9.
    { apply Z.eqb_eq in E9. subst c. cbn [app]. rewrite (scan_esc 116 9) by (try reflexivity; lia). rewrite IH. reflexivity. }
    destruct (c =? 8) eqn:E8.
    { apply Z.eqb_eq in E8. subst c. cbn [app]. rewrite (scan_esc 98 8) by (try reflexivity; lia). rewrite IH. reflexivity. }
    destruct (c =? 12) eqn:E12.
    { apply Z.eqb_eq in E12. subst c. cbn [app]. rewrite (scan_esc 102 12) by (try reflexivity; lia). rewrite IH. reflexivity. }
    destruct ((0 <=? c) && (c <? 32)) eqn:Ectl.
    { apply andb_true_iff in Ectl as [H0 H32]. apply Z.leb_le in H0. apply Z.ltb_lt in H32.
      cbn [app]. rewrite (scan_u 48 48 _ _ c) by (try (apply hex_control_c; lia); apply andb_false_iff; left; apply Z.leb_gt; lia).
      rewrite IH. reflexivity. }
    cbn [app]. apply Z.eqb_neq in E34, E92. rewrite scan_plain by assumption. rewrite IH. reflexivity.
Qed.

(* ------------------------------------------------------------------ B. number tokens *)
(* what may follow a value in a printed text: nothing, a comma or a newline *)
Definition delim (rest : str) : Prop := match rest with [] => True | c :: _ => c = 44 \/ c = 10 end.

Definition num_ok (tok : str) : Prop :=
  scan_num tok = Some (tok, []) \/ tok = lit_NaN \/ tok = lit_Inf \/ tok = 45 :: lit_Inf.

Lemma delim_nondigit rest : delim rest -> match rest with [] => True | c :: _ => is_digit c = false /\ c <> 46 /\ c <> 101 /\ c <> 69 end.
Proof. destruct rest as [|c r]; [auto|]. intros [->| ->]; repeat split; (reflexivity || lia). Qed.

Lemma span_digits_app t rest : match rest with [] => True | c :: _ => is_digit c = false end ->
  span_digits (t ++ rest) = (fst (span_digits t), snd (span_digits t) ++ rest).
Proof.
  intro Hr. induction t as [|c t IH].
  - cbn [app span_digits fst snd]. destruct rest as [|c r]; [reflexivity|]. cbn [span_digits]. rewrite Hr. reflexivity.
  - cbn [app span_digits]. destruct (is_digit c); [|reflexivity]. rewrite IH. destruct (span_digits t) as [a b]. reflexivity.
Qed.

Lemma scan_int_app s i r rest : match rest with [] => True | c :: _ => is_digit c = false end ->
  scan_int s = Some (i, r) -> scan_int (s ++ rest) = Some (i, r ++ rest).
Proof.
  intros Hr. unfold scan_int.
  assert (Hgen : forall (sg s1 : str),
    match s1 with
    | c :: t => if c =? 48 then Some (sg ++ [48], t)
                else let '(ds, r0) := span_digits s1 in match ds with [] => None | _ => Some (sg ++ ds, r0) end
    | [] => None
    end = Some (i, r) ->
    match s1 ++ rest with
    | c :: t => if c =? 48 then Some (sg ++ [48], t)
                else let '(ds, r0) := span_digits (s1 ++ rest) in match ds with [] => None | _ => Some (sg ++ ds, r0) end
    | [] => None
    end = Some (i, r ++ rest)).
  { intros sg s1 H. destruct s1 as [|c t]; [discriminate|]. cbn [app].
    destruct (c =? 48).
    - injection H as <- <-. reflexivity.
    - change (c :: t ++ rest) with ((c :: t) ++ rest). rewrite span_digits_app by exact Hr.
      destruct (span_digits (c :: t)) as [ds r0]. cbn [fst snd]. destruct ds; [discriminate|]. injection H as <- <-. reflexivity. }
  destruct s as [|c t]; [cbn; discriminate|]. cbn [app].
  destruct (c =? 45).
  - apply Hgen.
  - apply (Hgen [] (c :: t)).
Qed.

Lemma scan_frac_app s rest :
  match rest with [] => True | c :: _ => is_digit c = false /\ c <> 46 end ->
  scan_frac (s ++ rest) = (fst (scan_frac s), snd (scan_frac s) ++ rest).
Proof.
  intro Hr. destruct s as [|c t].
  - cbn [app scan_frac fst snd]. destruct rest as [|c r]; [reflexivity|]. destruct Hr as [_ Hr].
    cbn [scan_frac]. apply Z.eqb_neq in Hr. rewrite Hr. reflexivity.
  - cbn [app scan_frac]. destruct (c =? 46); [|reflexivity].
    rewrite span_digits_app by (destruct rest; [exact I|apply Hr]).
    destruct (span_digits t) as [ds r0]. cbn [fst snd]. destruct ds; reflexivity.
Qed.

Lemma scan_exp_app s rest :
  match rest with [] => True | c :: _ => is_digit c = false /\ c <> 101 /\ c <> 69 /\ c <> 43 /\ c <> 45 end ->
  scan_exp (s ++ rest) = (fst (scan_exp s), snd (scan_exp s) ++ rest).
Proof.
  intro Hr.
  assert (Hd : match rest with [] => True | c :: _ => is_digit c = false end) by (destruct rest; [exact I|apply Hr]).
  destruct s as [|e t].
  - cbn [app scan_exp fst snd]. destruct rest as [|c r]; [reflexivity|]. destruct Hr as (_ & H1 & H2 & _).
    cbn [scan_exp]. apply Z.eqb_neq in H1, H2. rewrite H1, H2. reflexivity.
  - cbn [app scan_exp]. destruct ((e =? 101) || (e =? 69)); [|reflexivity].
    destruct t as [|c t'].
    + cbn [app]. destruct rest as [|c r]; [reflexivity|]. destruct Hr as (Hdg & _ & _ & H3 & H4).
      apply Z.eqb_neq in H3, H4. rewrite H3, H4. cbn [orb span_digits]. rewrite Hdg. reflexivity.
    + cbn [app]. destruct ((c =? 43) || (c =? 45)).
      * rewrite span_digits_app by exact Hd. destruct (span_digits t') as [ds r0]. cbn [fst snd]. destruct ds; reflexivity.
      * change (c :: t' ++ rest) with ((c :: t') ++ rest). rewrite span_digits_app by exact Hd.
        destruct (span_digits (c :: t')) as [ds r0]. cbn [fst snd]. destruct ds; reflexivity.
Qed.

Lemma delim_all rest : delim rest ->
  match rest with [] => True | c :: _ => is_digit c = false /\ c <> 46 /\ c <> 101 /\ c <> 69 /\ c <> 43 /\ c <> 45 end.
Proof. destruct rest as [|c r]; [auto|]. intros [->| ->]; repeat split; (reflexivity || lia). Qed.

Theorem scan_num_app tok rest : scan_num tok = Some (tok, []) -> delim rest -> scan_num (tok ++ rest) = Some (tok, rest).
Proof.
  intros H Hd. apply delim_all in Hd. unfold scan_num in *.
  destruct (scan_int tok) as [[i r1]|] eqn:Ei; [|discriminate].
  rewrite (scan_int_app tok i r1 rest); [|destruct rest; [exact I|apply Hd]|exact Ei].
  rewrite scan_frac_app by (destruct rest; [exact I|split; apply Hd]).
  destruct (scan_frac r1) as [f r2]. cbn [fst snd].
  rewrite scan_exp_app by (destruct rest; [exact I|repeat split; apply Hd]).
  destruct (scan_exp r2) as [x r3]. cbn [fst snd]. injection H as H1 H2. subst r3. rewrite H1. reflexivity.
Qed.

(* a number token begins with a minus sign or a digit *)
Lemma scan_int_head s i r : scan_int s = Some (i, r) -> exists c t, s = c :: t /\ (c = 45 \/ is_digit c = true).
Proof.
  destruct s as [|c t]; [cbn; discriminate|]. intro H. exists c, t. split; [reflexivity|].
  unfold scan_int in H. destruct (c =? 45) eqn:E45; [left; apply Z.eqb_eq; exact E45|right].
  destruct (c =? 48) eqn:E48; [apply Z.eqb_eq in E48; subst c; reflexivity|].
  cbn [span_digits] in H. destruct (is_digit c); [reflexivity|discriminate].
Qed.

(* ------------------------------------------------------------------ C. values *)
Fixpoint depth (v : jv) : nat :=
  match v with
  | JArr l => S (fold_right (fun x m => Nat.max (depth x) m) O l)
  | JObj kvs => S (fold_right (fun kx m => Nat.max (depth (snd kx)) m) O kvs)
  | _ => O
  end.

(* well-formed: every number token is one the scanner reads back whole *)
Fixpoint wf (v : jv) : Prop :=
  match v with
  | JNum t => num_ok t
  | JArr l => fold_right (fun x P => wf x /\ P) True l
  | JObj kvs => fold_right (fun kx P => wf (snd kx) /\ P) True kvs
  | _ => True
  end.

Lemma print_items_eq ind xs :
  (fix items (l : list jv) : str :=
     match l with
     | [] => []
     | y :: ys => [44] ++ nl ind ++ print ind y ++ items ys
     end) xs = print_items ind xs.
Proof. induction xs as [|y ys IH]; [reflexivity|]. cbn [print_items]. rewrite <- IH. reflexivity. Qed.

Lemma print_members_eq ind kvs :
  (fix members (l : list (str * jv)) : str :=
     match l with
     | [] => []
     | (k', y) :: ys => [44] ++ nl ind ++ quote k' ++ [58; 32] ++ print ind y ++ members ys
     end) kvs = print_members ind kvs.
Proof. induction kvs as [|[k y] ys IH]; [reflexivity|]. cbn [print_members]. rewrite <- IH. reflexivity. Qed.

Lemma print_arr ind x xs :
  print ind (JArr (x :: xs)) = [91] ++ nl (S ind) ++ print (S ind) x ++ print_items (S ind) xs ++ nl ind ++ [93].
Proof. cbn [print]. rewrite print_items_eq. reflexivity. Qed.

Lemma print_obj ind k x kvs :
  print ind (JObj ((k, x) :: kvs)) =
  [123] ++ nl (S ind) ++ quote k ++ [58; 32] ++ print (S ind) x ++ print_members (S ind) kvs ++ nl ind ++ [125].
Proof. cbn [print]. rewrite print_members_eq. reflexivity. Qed.

Lemma skip_ws_nl k s : skip_ws (nl k ++ s) = skip_ws s.
Proof.
  unfold nl. cbn [app skip_ws]. change (is_ws 10) with true. cbv iota.
  induction (4 * k)%nat as [|n IH]; [reflexivity|]. cbn [repeat app skip_ws]. change (is_ws 32) with true. exact IH.
Qed.

(* the first character of a printed value *)
Definition starts_value (s : str) : Prop :=
  match s with
  | [] => False
  | c :: _ => is_ws c = false /\ c <> 93 /\ c <> 125 /\ c <> 44 /\ c <> 58
  end.

Lemma num_ok_head tok : num_ok tok -> exists c t, tok = c :: t /\
  (c = 45 \/ is_digit c = true \/ c = 78 \/ c = 73).
Proof.
  intros [H|[->|[->| ->]]].
  - unfold scan_num in H. destruct (scan_int tok) as [[i r]|] eqn:E; [|discriminate].
    destruct (scan_int_head _ _ _ E) as (c & t & -> & [Hc|Hc]); exists c, t; auto.
  - exists 78, [97; 78]. auto.
  - exists 73, [110; 102; 105; 110; 105; 116; 121]. auto.
  - exists 45, lit_Inf. auto.
Qed.

Lemma digit_range c : is_digit c = true -> 48 <= c <= 57.
Proof. unfold is_digit. intro H. apply andb_true_iff in H as [H1 H2]. apply Z.leb_le in H1, H2. lia. Qed.

Lemma print_starts ind v rest : wf v -> starts_value (print ind v ++ rest).
Proof.
  intro Hw. destruct v as [|[|]|t|s|[|x xs]|[|[k x] kvs]]; try (cbn; repeat split; (reflexivity || lia)).
  - cbn [print wf] in *. destruct (num_ok_head t Hw) as (c & t' & -> & Hc). cbn [app starts_value].
    destruct Hc as [->|[Hc|[->| ->]]]; try (repeat split; (reflexivity || lia)).
    apply digit_range in Hc. unfold is_ws. repeat split; try lia.
Qed.

Lemma skip_ws_starts s : starts_value s -> skip_ws s = s.
Proof. destruct s as [|c t]; [intros []|]. intros [H _]. cbn [skip_ws]. rewrite H. reflexivity. Qed.

Lemma delim_nl k s : delim (nl k ++ s).
Proof. right. reflexivity. Qed.

Lemma delim_items ind xs k s : delim (print_items ind xs ++ nl k ++ s).
Proof. destruct xs as [|y ys]; [apply delim_nl|left; reflexivity]. Qed.

Lemma delim_members ind kvs k s : delim (print_members ind kvs ++ nl k ++ s).
Proof. destruct kvs as [|[k' y] ys]; [apply delim_nl|left; reflexivity]. Qed.

Lemma elems_loop (pv : str -> option (jv * str)) ind k rest :
  forall xs x n, (List.length xs < n)%nat ->
  (forall v r, In v (x :: xs) -> delim r -> pv (print ind v ++ r) = Some (v, r)) ->
  (forall v, In v (x :: xs) -> wf v) ->
  parse_elems pv n (print ind x ++ print_items ind xs ++ nl k ++ 93 :: rest) = Some (x :: xs, rest).
Proof.
  induction xs as [|y ys IH]; intros x n Hn Hpv Hwf; (destruct n as [|n']; [inversion Hn|]); cbn [parse_elems].
  - rewrite (Hpv x) by (try (left; reflexivity); apply delim_items).
    cbn [print_items app]. rewrite skip_ws_nl. reflexivity.
  - rewrite (Hpv x) by (try (left; reflexivity); apply delim_items).
    cbn [print_items app skip_ws]. change (is_ws 44) with false. cbv iota.
    rewrite <- !app_assoc. rewrite skip_ws_nl.
    rewrite skip_ws_starts by (apply print_starts, Hwf; right; left; reflexivity).
    rewrite (IH y n').
    + reflexivity.
    + cbn [List.length] in Hn. lia.
    + intros v r Hv. apply Hpv. right. exact Hv.
    + intros v Hv. apply Hwf. right. exact Hv.
Qed.

Lemma quote_scan k s : scan_str (flat_map esc_char k ++ [34] ++ s) = Some (k, s).
Proof. apply scan_str_quote. Qed.

Lemma members_loop (pv : str -> option (jv * str)) ind c rest :
  forall kvs k x n, (List.length kvs < n)%nat ->
  (forall v r, In v (x :: map snd kvs) -> delim r -> pv (print ind v ++ r) = Some (v, r)) ->
  (forall v, In v (x :: map snd kvs) -> wf v) ->
  parse_members pv n (quote k ++ [58; 32] ++ print ind x ++ print_members ind kvs ++ nl c ++ 125 :: rest)
  = Some ((k, x) :: kvs, rest).
Proof.
  induction kvs as [|[k' y] ys IH]; intros k x n Hn Hpv Hwf; (destruct n as [|n']; [inversion Hn|]);
    unfold quote; cbn [parse_members app]; rewrite <- !app_assoc; rewrite quote_scan;
    cbn [app skip_ws]; change (is_ws 58) with false; cbv iota; cbn [skip_ws]; change (is_ws 32) with true; cbv iota.
  - rewrite skip_ws_starts by (apply print_starts, Hwf; left; reflexivity).
    rewrite (Hpv x) by (try (left; reflexivity); apply delim_members).
    cbn [print_members app]. rewrite skip_ws_nl. reflexivity.
  - rewrite skip_ws_starts by (apply print_starts, Hwf; left; reflexivity).
    rewrite (Hpv x) by (try (left; reflexivity); apply delim_members).
    cbn [print_members app skip_ws]. change (is_ws 44) with false. cbv iota.
    rewrite <- !app_assoc. rewrite skip_ws_nl.
    unfold quote. cbn [app skip_ws]. change (is_ws 34) with false. cbv iota. rewrite <- !app_assoc. cbn [app].
    pose proof (IH k' y n') as IH'. unfold quote in IH'. cbn [app] in IH'. rewrite <- !app_assoc in IH'. cbn [app] in IH'.
    rewrite IH'.
    + reflexivity.
    + cbn [List.length] in Hn. lia.
    + intros v r Hv. apply Hpv. right. exact Hv.
    + intros v Hv. apply Hwf. right. exact Hv.
Qed.

Lemma length_items ind xs s : (List.length xs <= List.length (print_items ind xs ++ s))%nat.
Proof.
  rewrite app_length. induction xs as [|y ys IH]; [cbn; lia|]. cbn [print_items].
  rewrite !app_length. cbn [List.length]. cbn [List.length] in IH. lia.
Qed.

Lemma length_members ind kvs s : (List.length kvs <= List.length (print_members ind kvs ++ s))%nat.
Proof.
  rewrite app_length. induction kvs as [|[k y] ys IH]; [cbn; lia|]. cbn [print_members].
  rewrite !app_length. cbn [List.length]. cbn [List.length] in IH. lia.
Qed.

Lemma depth_arr_in x l : In x l -> (depth x < depth (JArr l))%nat.
Proof.
  cbn [depth]. induction l as [|y ys IH]; [intros []|]. intros [->|H]; cbn [fold_right]; [lia|].
  specialize (IH H). lia.
Qed.

Lemma depth_obj_in x (kvs : list (str * jv)) : In x (map snd kvs) -> (depth x < depth (JObj kvs))%nat.
Proof.
  cbn [depth]. induction kvs as [|[k y] ys IH]; [intros []|]. cbn [map snd]. intros [->|H]; cbn [fold_right snd]; [lia|].
  specialize (IH H). lia.
Qed.

Lemma wf_arr_in x l : wf (JArr l) -> In x l -> wf x.
Proof.
  cbn [wf]. induction l as [|y ys IH]; [intros _ []|]. cbn [fold_right]. intros [H1 H2] [->|H]; [exact H1|exact (IH H2 H)].
Qed.

Lemma wf_obj_in x (kvs : list (str * jv)) : wf (JObj kvs) -> In x (map snd kvs) -> wf x.
Proof.
  cbn [wf]. induction kvs as [|[k y] ys IH]; [intros _ []|]. cbn [fold_right map snd]. intros [H1 H2] [->|H]; [exact H1|exact (IH H2 H)].
Qed.

(* what the scanner reads from the printed text of a value - at any indentation, followed by anything that can
   follow a value - is that value, and it stops exactly at its end *)
Theorem parse_print : forall f v ind rest, (depth v < f)%nat -> wf v -> delim rest ->
  parse_val f (print ind v ++ rest) = Some (v, rest).
Proof.
  induction f as [|f IH]; intros v ind rest Hd Hw Hr; [inversion Hd|].
  destruct v as [|[|]|t|s|[|x xs]|[|[k x] kvs]].
  - reflexivity.
  - reflexivity.
  - reflexivity.
  - cbn [print]. cbn [wf] in Hw. destruct Hw as [Hs|[->|[->| ->]]]; try reflexivity.
    pose proof Hs as Hs'. unfold scan_num in Hs'. destruct (scan_int t) as [[i r]|] eqn:Ei; [|discriminate].
    destruct (scan_int_head _ _ _ Ei) as (c & t' & -> & Hc). clear Hs' Ei.
    cbn [app parse_val].
    assert (Hne : (c =? 34) = false /\ (c =? 123) = false /\ (c =? 91) = false /\ (c =? 110) = false /\
                  (c =? 116) = false /\ (c =? 102) = false).
    { destruct Hc as [->|Hc]; [repeat split; reflexivity|]. apply digit_range in Hc. repeat split; apply Z.eqb_neq; lia. }
    destruct Hne as (H1 & H2 & H3 & H4 & H5 & H6). rewrite H1, H2, H3, H4, H5, H6.
    change (c :: t' ++ rest) with ((c :: t') ++ rest). rewrite (scan_num_app _ _ Hs Hr). reflexivity.
  - cbn [print]. unfold quote. cbn [app parse_val]. change (34 =? 34) with true. cbv iota.
    rewrite <- app_assoc. cbn [app]. rewrite scan_str_quote. reflexivity.
  - reflexivity.
  - rewrite print_arr. cbn [app parse_val]. change (91 =? 34) with false. change (91 =? 123) with false.
    change (91 =? 91) with true. cbv iota. rewrite <- !app_assoc. rewrite skip_ws_nl.
    assert (Hwx : wf x) by (apply (wf_arr_in x _ Hw); left; reflexivity).
    rewrite skip_ws_starts by (apply print_starts; exact Hwx).
    pose proof (print_starts (S ind) x (print_items (S ind) xs ++ nl ind ++ [93] ++ rest) Hwx) as Hst.
    destruct (print (S ind) x ++ print_items (S ind) xs ++ nl ind ++ [93] ++ rest) as [|c1 t1] eqn:Et; [destruct Hst|].
    destruct Hst as (_ & H93 & _). apply Z.eqb_neq in H93. cbv zeta. rewrite H93. rewrite <- Et.
    rewrite (elems_loop (parse_val f) (S ind) ind rest xs x).
    + reflexivity.
    + rewrite Et. rewrite <- Et. pose proof (length_items (S ind) xs (nl ind ++ [93] ++ rest)) as Hl.
      rewrite app_length. lia.
    + intros v r Hv Hdr. apply IH; [|apply (wf_arr_in v _ Hw Hv)|exact Hdr].
      pose proof (depth_arr_in v _ Hv). lia.
    + intros v Hv. apply (wf_arr_in v _ Hw Hv).
  - reflexivity.
  - rewrite print_obj. cbn [app parse_val]. change (123 =? 34) with false. change (123 =? 123) with true.
    cbv iota. rewrite <- !app_assoc. rewrite skip_ws_nl. cbn [app]. rewrite <- !app_assoc. cbn [app].
    match goal with
    | |- context [skip_ws (quote k ++ ?T)] =>
      change (skip_ws (quote k ++ T)) with (quote k ++ T);
      assert (Hh : exists t1, quote k ++ T = 34 :: t1) by (eexists; reflexivity);
      destruct Hh as [t1 Et]; rewrite Et; cbv zeta; change (34 =? 125) with false; cbv iota; rewrite <- Et
    end.
    pose proof (members_loop (parse_val f) (S ind) ind rest kvs k x) as ML. cbn [app] in ML. rewrite ML.
    + reflexivity.
    + pose proof (length_members (S ind) kvs (nl ind ++ 125 :: rest)) as Hl.
      rewrite app_length. cbn [List.length]. rewrite app_length. lia.
    + intros v r Hv Hdr. apply IH; [|apply (wf_obj_in v ((k, x) :: kvs) Hw Hv)|exact Hdr].
      pose proof (depth_obj_in v ((k, x) :: kvs) Hv). lia.
    + intros v Hv. apply (wf_obj_in v ((k, x) :: kvs) Hw Hv).
Qed.

(* ------------------------------------------------------------------ D. whole texts *)
Section JvInd.
Variable P : jv -> Prop.
Hypothesis Hn : P JNull.
Hypothesis Hb : forall b, P (JBool b).
Hypothesis Hnum : forall t, P (JNum t).
Hypothesis Hs : forall s, P (JStr s).
Hypothesis Ha : forall l, Forall P l -> P (JArr l).
Hypothesis Ho : forall kvs, Forall (fun kv : str * jv => P (snd kv)) kvs -> P (JObj kvs).
Fixpoint jv_ind' (v : jv) : P v :=
  match v with
  | JNull => Hn
  | JBool b => Hb b
  | JNum t => Hnum t
  | JStr s => Hs s
  | JArr l => Ha l ((fix go (l : list jv) : Forall P l :=
                       match l with [] => Forall_nil _ | x :: xs => Forall_cons _ (jv_ind' x) (go xs) end) l)
  | JObj kvs => Ho kvs ((fix go (l : list (str * jv)) : Forall (fun kv => P (snd kv)) l :=
                           match l with [] => Forall_nil _ | kv :: xs => Forall_cons _ (jv_ind' (snd kv)) (go xs) end) kvs)
  end.
End JvInd.

Lemma depth_le_length v : forall ind, (depth v <= List.length (print ind v))%nat.
Proof.
  induction v as [| | | |l IH|kvs IH] using jv_ind'; intro ind; try (cbn; lia).
  - destruct l as [|x xs]; [cbn; lia|]. rewrite print_arr. cbn [depth].
    rewrite !app_length. cbn [List.length].
    assert (H : (fold_right (fun x m => Nat.max (depth x) m) O (x :: xs)
                 <= List.length (print (S ind) x) + List.length (print_items (S ind) xs))%nat).
    { inversion IH as [|? ? Hx Hxs]; subst. cbn [fold_right]. specialize (Hx (S ind)).
      assert (H2 : (fold_right (fun x m => Nat.max (depth x) m) O xs <= List.length (print_items (S ind) xs))%nat).
      { clear Hx IH. induction Hxs as [|y ys Hy _ IHys]; [cbn; lia|]. cbn [fold_right print_items].
        rewrite !app_length. specialize (Hy (S ind)). lia. }
      lia. }
    lia.
  - destruct kvs as [|[k x] kvs]; [cbn; lia|]. rewrite print_obj. cbn [depth].
    rewrite !app_length. cbn [List.length].
    assert (H : (fold_right (fun kx m => Nat.max (depth (snd kx)) m) O ((k, x) :: kvs)
                 <= List.length (print (S ind) x) + List.length (print_members (S ind) kvs))%nat).
    { inversion IH as [|? ? Hx Hxs]; subst. cbn [fold_right snd]. cbn [snd] in Hx. specialize (Hx (S ind)).
      assert (H2 : (fold_right (fun kx m => Nat.max (depth (snd kx)) m) O kvs <= List.length (print_members (S ind) kvs))%nat).
      { clear Hx IH. induction Hxs as [|[k' y] ys Hy _ IHys]; [cbn; lia|]. cbn [fold_right print_members snd].
        rewrite !app_length. cbn [snd] in Hy. specialize (Hy (S ind)). lia. }
      lia. }
    lia.
Qed.

(* json.loads reads back the value from the printed text followed by the final newline *)
Theorem parse_json_print v : wf v -> parse_json (print 0 v ++ [10]) = Some v.
Proof.
  intro Hw. unfold parse_json. rewrite skip_ws_starts by (apply print_starts; exact Hw).
  rewrite parse_print; [reflexivity| |exact Hw|right; reflexivity].
  pose proof (depth_le_length v 0). rewrite app_length. lia.
Qed.

(* ------------------------------------------------------------------ E. no trailing whitespace: strip_lines changes nothing *)
(* state while reading a text: the last character of the current line (None at the start of a line) *)
Definition st_ok (st : option Z) : bool := match st with None => true | Some c => negb (py_space c) end.

Fixpoint lscan (st : option Z) (s : str) : option (option Z) :=
  match s with
  | [] => Some st
  | x :: s' => if x =? 10 then (if st_ok st then lscan None s' else None) else lscan (Some x) s'
  end.

Lemma lscan_app st a b : lscan st (a ++ b) = match lscan st a with Some st' => lscan st' b | None => None end.
Proof.
  revert st. induction a as [|x a IH]; intro st; [reflexivity|]. cbn [app lscan].
  destruct (x =? 10); [destruct (st_ok st); [apply IH|reflexivity]|apply IH].
Qed.

Definition clean (st : option Z) (s : str) : Prop := exists st', lscan st s = Some st' /\ st_ok st' = true.

Lemma rstrip_rev_ok cur : st_ok (match cur with [] => None | c :: _ => Some c end) = true -> rstrip_rev cur = cur.
Proof. destruct cur as [|c t]; [reflexivity|]. cbn. intro H. apply negb_true_iff in H. rewrite H. reflexivity. Qed.

Definition st_of (cur : str) : option Z := match cur with [] => None | c :: _ => Some c end.

Lemma split_nonempty c s cur : split_char_aux c s cur <> [].
Proof. revert cur. induction s as [|x s IH]; intro cur; cbn [split_char_aux]; [discriminate|]. destruct (x =? c); [discriminate|apply IH]. Qed.

Lemma strip_clean s : forall cur, clean (st_of cur) s ->
  join [10] (map rstrip (split_char_aux 10 s cur)) = rev cur ++ s.
Proof.
  induction s as [|x s IH]; intros cur [st' [Hl Hok]].
  - cbn [lscan] in Hl. injection Hl as <-. cbn [split_char_aux map join]. unfold rstrip. rewrite rev_involutive.
    rewrite rstrip_rev_ok by exact Hok. rewrite app_nil_r. reflexivity.
  - cbn [lscan] in Hl. cbn [split_char_aux]. destruct (x =? 10) eqn:Ex.
    + apply Z.eqb_eq in Ex. subst x. destruct (st_ok (st_of cur)) eqn:Hc; [|discriminate].
      cbn [map]. pose proof (split_nonempty 10 s []) as Hne.
      specialize (IH [] (ex_intro _ st' (conj Hl Hok))). cbn [rev app] in IH.
      destruct (split_char_aux 10 s []) as [|p ps] eqn:Es; [congruence|].
      cbn [map join] in *. destruct (map rstrip ps) as [|q qs] eqn:Em.
      * unfold rstrip at 1. rewrite rev_involutive. rewrite rstrip_rev_ok by exact Hc. cbn [join] in IH. rewrite IH. reflexivity.
      * unfold rstrip at 1. rewrite rev_involutive. rewrite rstrip_rev_ok by exact Hc. rewrite IH. reflexivity.
    + rewrite (IH (x :: cur)); [|exists st'; split; assumption]. cbn [rev]. rewrite <- app_assoc. reflexivity.
Qed.

Theorem strip_lines_clean s : clean None s -> strip_lines s = s.
Proof. intro H. unfold strip_lines, split_char. rewrite (strip_clean s []); [reflexivity|exact H]. Qed.

Lemma lscan_no_nl a : forall st, ~ In 10 a -> a <> [] -> lscan st a = Some (Some (last a 0)).
Proof.
  induction a as [|x a IH]; intros st Hn Hne; [congruence|]. cbn [lscan].
  assert (Hx : (x =? 10) = false) by (apply Z.eqb_neq; intro E; apply Hn; left; exact E). rewrite Hx.
  destruct a as [|y a']; [reflexivity|]. rewrite IH; [reflexivity|intro H; apply Hn; right; exact H|discriminate].
Qed.

Ltac Zify.zify_post_hook ::= Z.div_mod_to_equations.

Lemma esc_char_no_nl c : ~ In 10 (esc_char c).
Proof.
  unfold esc_char.
  destruct (c =? 34); [cbn; intuition lia|]. destruct (c =? 92); [cbn; intuition lia|].
  destruct (c =? 10) eqn:E10; [cbn; intuition lia|]. destruct (c =? 13); [cbn; intuition lia|].
  destruct (c =? 9); [cbn; intuition lia|]. destruct (c =? 8); [cbn; intuition lia|]. destruct (c =? 12); [cbn; intuition lia|].
  destruct ((0 <=? c) && (c <? 32)) eqn:Ec.
  - apply andb_true_iff in Ec as [H0 H32]. apply Z.leb_le in H0. apply Z.ltb_lt in H32.
    unfold hexdigit. cbn [In]. destruct (c / 16 <? 10) eqn:E1; destruct (c mod 16 <? 10) eqn:E2; intuition lia.
  - apply Z.eqb_neq in E10. cbn. intuition lia.
Qed.

Lemma quote_no_nl k : ~ In 10 (quote k).
Proof.
  unfold quote. cbn [In]. intros [H|H]; [lia|]. apply in_app_or in H as [H|H].
  - apply in_flat_map in H as [c [_ Hc]]. exact (esc_char_no_nl c Hc).
  - cbn in H. intuition lia.
Qed.

Lemma quote_last k : last (quote k) 0 = 34.
Proof. unfold quote. change (34 :: flat_map esc_char k ++ [34]) with ((34 :: flat_map esc_char k) ++ [34]). apply last_last. Qed.

Lemma lscan_quote st k : lscan st (quote k) = Some (Some 34).
Proof. rewrite lscan_no_nl; [rewrite quote_last; reflexivity|apply quote_no_nl|unfold quote; discriminate]. Qed.

Lemma lscan_spaces n : forall st s,
  lscan st (repeat 32 n ++ s) = lscan (match n with O => st | S _ => Some 32 end) s.
Proof.
  induction n as [|n IH]; intros st s; [reflexivity|]. cbn [repeat app lscan]. change (32 =? 10) with false. cbv iota.
  rewrite IH. destruct n; reflexivity.
Qed.

Lemma lscan_nl k st s : st_ok st = true -> exists st2, lscan st (nl k ++ s) = lscan st2 s.
Proof.
  intro H. unfold nl. cbn [app lscan]. change (10 =? 10) with true. cbv iota. rewrite H. rewrite lscan_spaces.
  eexists. reflexivity.
Qed.

(* the characters of a number token *)
Definition numchar (c : Z) : bool := is_digit c || (c =? 45) || (c =? 46) || (c =? 101) || (c =? 69) || (c =? 43).

Lemma span_digits_fst s : Forall (fun c => numchar c = true) (fst (span_digits s)).
Proof.
  induction s as [|c t IH]; [constructor|]. cbn [span_digits]. destruct (is_digit c) eqn:E; [|constructor].
  destruct (span_digits t) as [a b]. cbn [fst] in *. constructor; [unfold numchar; rewrite E; reflexivity|exact IH].
Qed.

Lemma scan_num_chars s tok r : scan_num s = Some (tok, r) -> Forall (fun c => numchar c = true) tok /\ tok <> [].
Proof.
  unfold scan_num. destruct (scan_int s) as [[i r1]|] eqn:Ei; [|discriminate].
  destruct (scan_frac r1) as [f r2] eqn:Ef. destruct (scan_exp r2) as [x r3] eqn:Ex. intro H. injection H as <- <-.
  assert (Hi : Forall (fun c => numchar c = true) i /\ i <> []).
  { unfold scan_int in Ei. destruct s as [|c t]; [discriminate|].
    assert (Hsg : forall sg : str, (sg = [45] \/ sg = []) -> forall s1,
              match s1 with
              | c0 :: t0 => if c0 =? 48 then Some (sg ++ [48], t0)
                            else let '(ds, r) := span_digits s1 in match ds with [] => None | _ => Some (sg ++ ds, r) end
              | [] => None
              end = Some (i, r1) -> Forall (fun c => numchar c = true) i /\ i <> []).
    { intros sg Hs s1 H. destruct s1 as [|c0 t0]; [discriminate|].
      assert (Hsgc : Forall (fun c => numchar c = true) sg) by (destruct Hs as [->| ->]; repeat constructor).
      destruct (c0 =? 48).
      - injection H as <- <-. split; [apply Forall_app; split; [exact Hsgc|repeat constructor]|destruct sg; discriminate].
      - pose proof (span_digits_fst (c0 :: t0)) as Hd. destruct (span_digits (c0 :: t0)) as [ds r]. cbn [fst] in Hd.
        destruct ds as [|d ds']; [discriminate|]. injection H as <- <-.
        split; [apply Forall_app; split; assumption|destruct sg; discriminate]. }
    destruct (c =? 45); [apply (Hsg [45] (or_introl eq_refl) t Ei)|apply (Hsg [] (or_intror eq_refl) (c :: t) Ei)]. }
  assert (Hf : Forall (fun c => numchar c = true) f).
  { unfold scan_frac in Ef. destruct r1 as [|c t]; [injection Ef as <- <-; constructor|].
    destruct (c =? 46) eqn:E46; [|injection Ef as <- <-; constructor].
    pose proof (span_digits_fst t) as Hd. destruct (span_digits t) as [ds r]. cbn [fst] in Hd.
    destruct ds; injection Ef as <- <-; [constructor|]. constructor; [reflexivity|exact Hd]. }
  assert (Hx : Forall (fun c => numchar c = true) x).
  { unfold scan_exp in Ex. destruct r2 as [|e t]; [injection Ex as <- <-; constructor|].
    destruct ((e =? 101) || (e =? 69)) eqn:Ee; [|injection Ex as <- <-; constructor].
    assert (He : numchar e = true).
    { unfold numchar. apply orb_true_iff in Ee as [E|E]; rewrite E; rewrite ?orb_true_r; reflexivity. }
    destruct t as [|c t'].
    - cbn [span_digits] in Ex. injection Ex as <- <-. constructor.
    - destruct ((c =? 43) || (c =? 45)) eqn:Es.
      + pose proof (span_digits_fst t') as Hd. destruct (span_digits t') as [ds r]. cbn [fst] in Hd.
        destruct ds; injection Ex as <- <-; [constructor|]. constructor; [exact He|]. cbn [app]. constructor; [|exact Hd].
        unfold numchar. apply orb_true_iff in Es as [E|E]; rewrite E; rewrite ?orb_true_r; reflexivity.
      + pose proof (span_digits_fst (c :: t')) as Hd. destruct (span_digits (c :: t')) as [ds r]. cbn [fst] in Hd.
        destruct ds; injection Ex as <- <-; [constructor|]. constructor; [exact He|exact Hd]. }
  destruct Hi as [Hi Hne]. split; [repeat (apply Forall_app; split); assumption|destruct i; [congruence|discriminate]].
Qed.

Lemma numchar_plain c : numchar c = true -> c <> 10 /\ py_space c = false.
Proof.
  unfold numchar, is_digit, py_space. intro H. split; [intro E; subst c; discriminate|].
  repeat (apply orb_true_iff in H as [H|H]); try (apply Z.eqb_eq in H; subst c; reflexivity).
  apply andb_true_iff in H as [H1 H2]. apply Z.leb_le in H1, H2.
  repeat (apply orb_false_iff; split); try (apply andb_false_iff; (left; apply Z.leb_gt; lia) || (right; apply Z.leb_gt; lia));
    apply Z.eqb_neq; lia.
Qed.

Lemma num_ok_text tok : num_ok tok -> ~ In 10 tok /\ tok <> [] /\ py_space (last tok 0) = false.
Proof.
  intros [H|[->|[->| ->]]]; try (split; [cbn; intuition lia|split; [discriminate|reflexivity]]).
  destruct (scan_num_chars _ _ _ H) as [Hc Hne]. rewrite Forall_forall in Hc. split; [|split; [exact Hne|]].
  - intro Hin. destruct (numchar_plain 10 (Hc 10 Hin)) as [E _]. congruence.
  - destruct tok as [|c t]; [congruence|]. apply numchar_plain, Hc.
    destruct (exists_last (l := c :: t)) as (l' & a & E); [discriminate|]. rewrite E. rewrite last_last.
    apply in_or_app. right. left. reflexivity.
Qed.

Definition ends_clean (v : jv) : Prop :=
  forall ind st, exists c, lscan st (print ind v) = Some (Some c) /\ py_space c = false.

Lemma lscan_items ind xs : Forall ends_clean xs ->
  forall c, py_space c = false -> exists c', lscan (Some c) (print_items ind xs) = Some (Some c') /\ py_space c' = false.
Proof.
  intro H. induction H as [|y ys Hy _ IH]; intros c Hc; [exists c; split; [reflexivity|exact Hc]|].
  cbn [print_items app lscan]. change (44 =? 10) with false. cbv iota.
  destruct (lscan_nl ind (Some 44) (print ind y ++ print_items ind ys) eq_refl) as [st2 E]. rewrite E. clear E.
  rewrite lscan_app. destruct (Hy ind st2) as [c1 [E1 H1]]. rewrite E1. apply IH. exact H1.
Qed.

Lemma lscan_members ind kvs : Forall (fun kv : str * jv => ends_clean (snd kv)) kvs ->
  forall c, py_space c = false -> exists c', lscan (Some c) (print_members ind kvs) = Some (Some c') /\ py_space c' = false.
Proof.
  intro H. induction H as [|[k y] ys Hy _ IH]; intros c Hc; [exists c; split; [reflexivity|exact Hc]|].
  cbn [print_members app lscan]. change (44 =? 10) with false. cbv iota.
  destruct (lscan_nl ind (Some 44) (quote k ++ 58 :: 32 :: print ind y ++ print_members ind ys) eq_refl) as [st2 E].
  rewrite E. clear E. rewrite lscan_app, lscan_quote. cbn [app lscan]. change (58 =? 10) with false. change (32 =? 10) with false.
  cbv iota. rewrite lscan_app. cbn [snd] in Hy. destruct (Hy ind (Some 32)) as [c1 [E1 H1]]. rewrite E1. apply IH. exact H1.
Qed.

Theorem print_ends_clean v : wf v -> ends_clean v.
Proof.
  induction v as [| | | |l IH|kvs IH] using jv_ind'; intros Hw ind st.
  - exists 108. split; reflexivity.
  - destruct b; [exists 101|exists 101]; split; reflexivity.
  - cbn [print]. cbn [wf] in Hw. destruct (num_ok_text t Hw) as (H1 & H2 & H3).
    exists (last t 0). split; [apply lscan_no_nl; assumption|exact H3].
  - exists 34. split; [apply lscan_quote|reflexivity].
  - destruct l as [|x xs]; [exists 93; split; reflexivity|]. rewrite print_arr.
    assert (Hall : Forall ends_clean (x :: xs)).
    { rewrite Forall_forall in *. intros y Hy. apply IH; [exact Hy|apply (wf_arr_in y _ Hw Hy)]. }
    inversion Hall as [|? ? Hx Hxs]; subst.
    cbn [app lscan]. change (91 =? 10) with false. cbv iota.
    destruct (lscan_nl (S ind) (Some 91) (print (S ind) x ++ print_items (S ind) xs ++ nl ind ++ [93]) eq_refl) as [st2 E].
    rewrite E. clear E. rewrite lscan_app. destruct (Hx (S ind) st2) as [c1 [E1 H1]]. rewrite E1.
    rewrite lscan_app. destruct (lscan_items (S ind) xs Hxs c1 H1) as [c2 [E2 H2]]. rewrite E2.
    destruct (lscan_nl ind (Some c2) [93]) as [st3 E3]; [cbn; rewrite H2; reflexivity|]. rewrite E3.
    exists 93. split; reflexivity.
  - destruct kvs as [|[k x] kvs]; [exists 125; split; reflexivity|]. rewrite print_obj.
    assert (Hall : Forall (fun kv : str * jv => ends_clean (snd kv)) ((k, x) :: kvs)).
    { rewrite Forall_forall in *. intros kv Hkv. apply IH; [exact Hkv|].
      apply (wf_obj_in (snd kv) _ Hw). apply in_map. exact Hkv. }
    inversion Hall as [|? ? Hx Hxs]; subst. cbn [snd] in Hx.
    cbn [app lscan]. change (123 =? 10) with false. cbv iota.
    destruct (lscan_nl (S ind) (Some 123) (quote k ++ 58 :: 32 :: print (S ind) x ++ print_members (S ind) kvs ++ nl ind ++ [125]) eq_refl) as [st2 E].
    rewrite E. clear E. rewrite lscan_app, lscan_quote. cbn [app lscan]. change (58 =? 10) with false. change (32 =? 10) with false.
    cbv iota. rewrite lscan_app. destruct (Hx (S ind) (Some 32)) as [c1 [E1 H1]]. rewrite E1.
    rewrite lscan_app. destruct (lscan_members (S ind) kvs Hxs c1 H1) as [c2 [E2 H2]]. rewrite E2.
    destruct (lscan_nl ind (Some c2) [125]) as [st3 E3]; [cbn; rewrite H2; reflexivity|]. rewrite E3.
    exists 125. split; reflexivity.
Qed.

(* the text to_json returns: strip_lines changes nothing in what json.dumps wrote ... *)
Theorem to_json_text_print v : wf v -> to_json_text v = print 0%nat v ++ [10].
Proof.
  intro Hw. unfold to_json_text. rewrite strip_lines_clean; [reflexivity|].
  destruct (print_ends_clean v Hw 0%nat None) as [c [E H]]. exists (Some c). split; [exact E|]. cbn. rewrite H. reflexivity.
Qed.

(* ... and json.loads gives back the value written: the text is valid JSON for exactly that value *)
Theorem parse_to_json_text v : wf v -> parse_json (to_json_text v) = Some v.
Proof. intro Hw. rewrite to_json_text_print by exact Hw. apply parse_json_print. exact Hw. Qed.

(* no line of the text ends in whitespace (Python's str.rstrip sense), and it ends with one newline *)
Theorem to_json_text_no_trailing_ws v : wf v ->
  exists body, to_json_text v = body ++ [10] /\ clean None body.
Proof.
  intro Hw. exists (print 0%nat v). split; [apply to_json_text_print; exact Hw|].
  destruct (print_ends_clean v Hw 0%nat None) as [c [E H]]. exists (Some c). split; [exact E|]. cbn. rewrite H. reflexivity.
Qed.

(* the decidable form of well-formedness (evaluated by the harness on every value tdda writes) *)
Lemma num_okb_ok tok : num_okb tok = true -> num_ok tok.
Proof.
  unfold num_okb, num_ok. intro H. repeat (apply orb_true_iff in H as [H|H]).
  - left. destruct (scan_num tok) as [[t [|c r]]|]; try discriminate. apply str_eqb_eq in H. subst t. reflexivity.
  - right. left. apply str_eqb_eq. exact H.
  - right. right. left. apply str_eqb_eq. exact H.
  - right. right. right. apply str_eqb_eq. exact H.
Qed.

Theorem wfb_wf v : wfb v = true -> wf v.
Proof.
  induction v as [| | | |l IH|kvs IH] using jv_ind'; cbn [wfb wf]; intro H; try exact I.
  - apply num_okb_ok. exact H.
  - induction IH as [|x xs Hx _ IHxs]; [exact I|]. cbn [forallb] in H. apply andb_true_iff in H as [H1 H2].
    cbn [fold_right]. split; [apply Hx; exact H1|apply IHxs; exact H2].
  - induction IH as [|kv xs Hx _ IHxs]; [exact I|]. cbn [forallb] in H. apply andb_true_iff in H as [H1 H2].
    cbn [fold_right]. split; [apply Hx; exact H1|apply IHxs; exact H2].
Qed.
