(* C09, text level: what json.loads reads from what to_json wrote is the value that was written. *)
From Coq Require Import ZArith List Bool Lia.
From Tdda Require Import Base.Sexp Base.Str Constraints.Json.
Import ListNotations.
Open Scope Z_scope.

Local Arguments Z.eqb : simpl nomatch.
Local Arguments Z.leb : simpl nomatch.
Local Arguments Z.ltb : simpl nomatch.

(* ------------------------------------------------------------------ A. strings *)
Lemma scan_plain c t : c <> 34 -> c <> 92 -> (0 <=? c) && (c <? 32) = false ->
  scan_str (c :: t) = cons_res c (scan_str t).
Proof.
  intros H1 H2 H3. cbn [scan_str]. apply Z.eqb_neq in H1, H2. rewrite H1, H2, H3. reflexivity.
Qed.

Lemma scan_esc e ch t : e <> 117 -> unescape e = Some ch -> scan_str (92 :: e :: t) = cons_res ch (scan_str t).
Proof.
  intros H1 H2. cbn [scan_str]. change (92 =? 34) with false. change (92 =? 92) with true. cbv iota.
  apply Z.eqb_neq in H1. rewrite H1, H2. reflexivity.
Qed.

Lemma scan_u a b c d u t : hex4 a b c d = Some u -> (55296 <=? u) && (u <=? 56319) = false ->
  scan_str (92 :: 117 :: a :: b :: c :: d :: t) = cons_res u (scan_str t).
Proof.
  intros H1 H2. cbn [scan_str]. change (92 =? 34) with false. change (92 =? 92) with true.
  change (117 =? 117) with true. cbv iota. rewrite H1, H2. reflexivity.
Qed.

Lemma hex_control : forallb (fun c => match hex4 48 48 (hexdigit (c / 16)) (hexdigit (c mod 16)) with
                                      | Some u => u =? c | None => false end)
                            (map Z.of_nat (seq 0 32)) = true.
Proof. vm_compute. reflexivity. Qed.

Lemma hex_control_c c : 0 <= c < 32 -> hex4 48 48 (hexdigit (c / 16)) (hexdigit (c mod 16)) = Some c.
Proof.
  intro H. pose proof (proj1 (forallb_forall _ _) hex_control c) as Hc.
  assert (Hin : In c (map Z.of_nat (seq 0 32))).
  { apply in_map_iff. exists (Z.to_nat c). split; [lia|]. apply in_seq. lia. }
  specialize (Hc Hin). cbv beta in Hc. destruct (hex4 48 48 _ _) as [u|]; [|discriminate]. apply Z.eqb_eq in Hc. congruence.
Qed.

Theorem scan_str_quote s : forall rest, scan_str (flat_map esc_char s ++ 34 :: rest) = Some (s, rest).
Proof.
  induction s as [|c s IH]; intro rest.
  - cbn [flat_map app scan_str]. change (34 =? 34) with true. reflexivity.
  - cbn [flat_map]. rewrite <- app_assoc. unfold esc_char.
    destruct (c =? 34) eqn:E34.
    { apply Z.eqb_eq in E34. subst c. cbn [app]. rewrite (scan_esc 34 34) by (try reflexivity; lia). rewrite IH. reflexivity. }
    destruct (c =? 92) eqn:E92.
    { apply Z.eqb_eq in E92. subst c. cbn [app]. rewrite (scan_esc 92 92) by (try reflexivity; lia). rewrite IH. reflexivity. }
    destruct (c =? 10) eqn:E10.
    { apply Z.eqb_eq in E10. subst c. cbn [app]. rewrite (scan_esc 110 10) by (try reflexivity; lia). rewrite IH. reflexivity. }
    destruct (c =? 13) eqn:E13.
    { apply Z.eqb_eq in E13. subst c. cbn [app]. rewrite (scan_esc 114 13) by (try reflexivity; lia). rewrite IH. reflexivity. }
    destruct (c =? 9) eqn:E9.
    { apply Z.eqb_eq in E9. subst c. cbn [app]. rewrite (scan_esc 116 9) by (try reflexivity; lia). rewrite IH. reflexivity. }
    destruct (c =? 8) eqn:E8.
    { apply Z.eqb_eq in E8. subst c. cbn [app]. rewrite (scan_esc 98 8) by (try reflexivity; lia). rewrite IH. reflexivity. }
    destruct (c =? 12) eqn:E12.
    { apply Z.eqb_eq in E12. subst c. cbn [app]. rewrite (scan_esc 102 12) by (try reflexivity; lia). rewrite IH. reflexivity. }
    destruct ((0 <=? c) && (c <? 32)) eqn:Ectl.
    { apply andb_true_iff in Ectl as [H0 H32]. apply Z.leb_le in H0. apply Z.ltb_lt in H32.
      cbn [app]. rewrite (scan_u 48 48 _ _ c) by (try (apply hex_control_c; lia); apply andb_false_iff; left; apply Z.leb_gt; lia).
      rewrite IH. reflexivity. }
    cbn [app]. apply Z.eqb_neq in E34, E92. rewrite scan_plain by assumption. rewrite IH. reflexivity.
Qed.

(* ------------------------------------------------------------------ B. number tokens *)
(* what may follow a value in a printed text: nothing, a comma or a newline *)
Definition delim (rest : str) : Prop := match rest with [] => True | c :: _ => c = 44 \/ c = 10 end.

Definition num_ok (tok : str) : Prop :=
  scan_num tok = Some (tok, []) \/ tok = lit_NaN \/ tok = lit_Inf \/ tok = 45 :: lit_Inf.

Lemma delim_nondigit rest : delim rest -> match rest with [] => True | c :: _ => is_digit c = false /\ c <> 46 /\ c <> 101 /\ c <> 69 end.
Proof. destruct rest as [|c r]; [auto|]. intros [->| ->]; repeat split; (reflexivity || lia). Qed.

Lemma span_digits_app t rest : match rest with [] => True | c :: _ => is_digit c = false end ->
  span_digits (t ++ rest) = (fst (span_digits t), snd (span_digits t) ++ rest).
Proof.
  intro Hr. induction t as [|c t IH].
  - cbn [app span_digits fst snd]. destruct rest as [|c r]; [reflexivity|]. cbn [span_digits]. rewrite Hr. reflexivity.
  - cbn [app span_digits]. destruct (is_digit c); [|reflexivity]. rewrite IH. destruct (span_digits t) as [a b]. reflexivity.
Qed.

Lemma scan_int_app s i r rest : match rest with [] => True | c :: _ => is_digit c = false end ->
  scan_int s = Some (i, r) -> scan_int (s ++ rest) = Some (i, r ++ rest).
Proof.
  intros Hr. unfold scan_int.
  assert (Hgen : forall (sg s1 : str),
    match s1 with
    | c :: t => if c =? 48 then Some (sg ++ [48], t)
                else let '(ds, r0) := span_digits s1 in match ds with [] => None | _ => Some (sg ++ ds, r0) end
    | [] => None
    end = Some (i, r) ->
    match s1 ++ rest with
    | c :: t => if c =? 48 then Some (sg ++ [48], t)
                else let '(ds, r0) := span_digits (s1 ++ rest) in match ds with [] => None | _ => Some (sg ++ ds, r0) end
    | [] => None
    end = Some (i, r ++ rest)).
  { intros sg s1 H. destruct s1 as [|c t]; [discriminate|]. cbn [app].
    destruct (c =? 48).
    - injection H as <- <-. reflexivity.
    - change (c :: t ++ rest) with ((c :: t) ++ rest). rewrite span_digits_app by exact Hr.
      destruct (span_digits (c :: t)) as [ds r0]. cbn [fst snd]. destruct ds; [discriminate|]. injection H as <- <-. reflexivity. }
  destruct s as [|c t]; [cbn; discriminate|]. cbn [app].
  destruct (c =? 45).
  - apply Hgen.
  - apply (Hgen [] (c :: t)).
Qed.

Lemma scan_frac_app s rest :
  match rest with [] => True | c :: _ => is_digit c = false /\ c <> 46 end ->
  scan_frac (s ++ rest) = (fst (scan_frac s), snd (scan_frac s) ++ rest).
Proof.
  intro Hr. destruct s as [|c t].
  - cbn [app scan_frac fst snd]. destruct rest as [|c r]; [reflexivity|]. destruct Hr as [_ Hr].
    cbn [scan_frac]. apply Z.eqb_neq in Hr. rewrite Hr. reflexivity.
  - cbn [app scan_frac]. destruct (c =? 46); [|reflexivity].
    rewrite span_digits_app by (destruct rest; [exact I|apply Hr]).
    destruct (span_digits t) as [ds r0]. cbn [fst snd]. destruct ds; reflexivity.
Qed.

Lemma scan_exp_app s rest :
  match rest with [] => True | c :: _ => is_digit c = false /\ c <> 101 /\ c <> 69 /\ c <> 43 /\ c <> 45 end ->
  scan_exp (s ++ rest) = (fst (scan_exp s), snd (scan_exp s) ++ rest).
Proof.
  intro Hr.
  assert (Hd : match rest with [] => True | c :: _ => is_digit c = false end) by (destruct rest; [exact I|apply Hr]).
  destruct s as [|e t].
  - cbn [app scan_exp fst snd]. destruct rest as [|c r]; [reflexivity|]. destruct Hr as (_ & H1 & H2 & _).
    cbn [scan_exp]. apply Z.eqb_neq in H1, H2. rewrite H1, H2. reflexivity.
  - cbn [app scan_exp]. destruct ((e =? 101) || (e =? 69)); [|reflexivity].
    destruct t as [|c t'].
    + cbn [app]. destruct rest as [|c r]; [reflexivity|]. destruct Hr as (Hdg & _ & _ & H3 & H4).
      apply Z.eqb_neq in H3, H4. rewrite H3, H4. cbn [orb span_digits]. rewrite Hdg. reflexivity.
    + cbn [app]. destruct ((c =? 43) || (c =? 45)).
      * rewrite span_digits_app by exact Hd. destruct (span_digits t') as [ds r0]. cbn [fst snd]. destruct ds; reflexivity.
      * change (c :: t' ++ rest) with ((c :: t') ++ rest). rewrite span_digits_app by exact Hd.
        destruct (span_digits (c :: t')) as [ds r0]. cbn [fst snd]. destruct ds; reflexivity.
Qed.

Lemma delim_all rest : delim rest ->
  match rest with [] => True | c :: _ => is_digit c = false /\ c <> 46 /\ c <> 101 /\ c <> 69 /\ c <> 43 /\ c <> 45 end.
Proof. destruct rest as [|c r]; [auto|]. intros [->| ->]; repeat split; (reflexivity || lia). Qed.

Theorem scan_num_app tok rest : scan_num tok = Some (tok, []) -> delim rest -> scan_num (tok ++ rest) = Some (tok, rest).
Proof.
  intros H Hd. apply delim_all in Hd. unfold scan_num in *.
  destruct (scan_int tok) as [[i r1]|] eqn:Ei; [|discriminate].
  rewrite (scan_int_app tok i r1 rest); [|destruct rest; [exact I|apply Hd]|exact Ei].
  rewrite scan_frac_app by (destruct rest; [exact I|split; apply Hd]).
  destruct (scan_frac r1) as [f r2]. cbn [fst snd].
  rewrite scan_exp_app by (destruct rest; [exact I|repeat split; apply Hd]).
  destruct (scan_exp r2) as [x r3]. cbn [fst snd]. injection H as H1 H2. subst r3. rewrite H1. reflexivity.
Qed.

(* a number token begins with a minus sign or a digit *)
Lemma scan_int_head s i r : scan_int s = Some (i, r) -> exists c t, s = c :: t /\ (c = 45 \/ is_digit c = true).
Proof.
  destruct s as [|c t]; [cbn; discriminate|]. intro H. exists c, t. split; [reflexivity|].
  unfold scan_int in H. destruct (c =? 45) eqn:E45; [left; apply Z.eqb_eq; exact E45|right].
  destruct (c =? 48) eqn:E48; [apply Z.eqb_eq in E48; subst c; reflexivity|].
  cbn [span_digits] in H. destruct (is_digit c); [reflexivity|discriminate].
Qed.

(* ------------------------------------------------------------------ C. values *)
Fixpoint depth (v : jv) : nat :=
  match v with
  | JArr l => S (fold_right (fun x m => Nat.max (depth x) m) O l)
  | JObj kvs => S (fold_right (fun kx m => Nat.max (depth (snd kx)) m) O kvs)
  | _ => O
  end.

(* well-formed: every number token is one the scanner reads back whole *)
Fixpoint wf (v : jv) : Prop :=
  match v with
  | JNum t => num_ok t
  | JArr l => fold_right (fun x P => wf x /\ P) True l
  | JObj kvs => fold_right (fun kx P => wf (snd kx) /\ P) True kvs
  | _ => True
  end.

Lemma print_items_eq ind xs :
  (fix items (l : list jv) : str :=
     match l with
     | [] => []
     | y :: ys => [44] ++ nl ind ++ print ind y ++ items ys
     end) xs = print_items ind xs.
Proof. induction xs as [|y ys IH]; [reflexivity|]. cbn [print_items]. rewrite <- IH. reflexivity. Qed.

Lemma print_members_eq ind kvs :
  (fix members (l : list (str * jv)) : str :=
     match l with
     | [] => []
     | (k', y) :: ys => [44] ++ nl ind ++ quote k' ++ [58; 32] ++ print ind y ++ members ys
     end) kvs = print_members ind kvs.
Proof. induction kvs as [|[k y] ys IH]; [reflexivity|]. cbn [print_members]. rewrite <- IH. reflexivity. Qed.

Lemma print_arr ind x xs :
  print ind (JArr (x :: xs)) = [91] ++ nl (S ind) ++ print (S ind) x ++ print_items (S ind) xs ++ nl ind ++ [93].
Proof. cbn [print]. rewrite print_items_eq. reflexivity. Qed.

Lemma print_obj ind k x kvs :
  print ind (JObj ((k, x) :: kvs)) =
  [123] ++ nl (S ind) ++ quote k ++ [58; 32] ++ print (S ind) x ++ print_members (S ind) kvs ++ nl ind ++ [125].
Proof. cbn [print]. rewrite print_members_eq. reflexivity. Qed.

Lemma skip_ws_nl k s : skip_ws (nl k ++ s) = skip_ws s.
Proof.
  unfold nl. cbn [app skip_ws]. change (is_ws 10) with true. cbv iota.
  induction (4 * k)%nat as [|n IH]; [reflexivity|]. cbn [repeat app skip_ws]. change (is_ws 32) with true. exact IH.
Qed.

(* the first character of a printed value *)
Definition starts_value (s : str) : Prop :=
  match s with
  | [] => False
  | c :: _ => is_ws c = false /\ c <> 93 /\ c <> 125 /\ c <> 44 /\ c <> 58
  end.

Lemma num_ok_head tok : num_ok tok -> exists c t, tok = c :: t /\
  (c = 45 \/ is_digit c = true \/ c = 78 \/ c = 73).
Proof.
  intros [H|[->|[->| ->]]].
  - unfold scan_num in H. destruct (scan_int tok) as [[i r]|] eqn:E; [|discriminate].
    destruct (scan_int_head _ _ _ E) as (c & t & -> & [Hc|Hc]); exists c, t; auto.
  - exists 78, [97; 78]. auto.
  - exists 73, [110; 102; 105; 110; 105; 116; 121]. auto.
  - exists 45, lit_Inf. auto.
Qed.

Lemma digit_range c : is_digit c = true -> 48 <= c <= 57.
Proof. unfold is_digit. intro H. apply andb_true_iff in H as [H1 H2]. apply Z.leb_le in H1, H2. lia. Qed.

Lemma print_starts ind v rest : wf v -> starts_value (print ind v ++ rest).
Proof.
  intro Hw. destruct v as [|[|]|t|s|[|x xs]|[|[k x] kvs]]; try (cbn; repeat split; (reflexivity || lia)).
  - cbn [print wf] in *. destruct (num_ok_head t Hw) as (c & t' & -> & Hc). cbn [app starts_value].
    destruct Hc as [->|[Hc|[->| ->]]]; try (repeat split; (reflexivity || lia)).
    apply digit_range in Hc. unfold is_ws. repeat split; try lia.
Qed.

Lemma skip_ws_starts s : starts_value s -> skip_ws s = s.
Proof. destruct s as [|c t]; [intros []|]. intros [H _]. cbn [skip_ws]. rewrite H. reflexivity. Qed.

Lemma delim_nl k s : delim (nl k ++ s).
Proof. right. reflexivity. Qed.

Lemma delim_items ind xs k s : delim (print_items ind xs ++ nl k ++ s).
Proof. destruct xs as [|y ys]; [apply delim_nl|left; reflexivity]. Qed.

Lemma delim_members ind kvs k s : delim (print_members ind kvs ++ nl k ++ s).
Proof. destruct kvs as [|[k' y] ys]; [apply delim_nl|left; reflexivity]. Qed.

Lemma elems_loop (pv : str -> option (jv * str)) ind k rest :
  forall xs x n, (List.length xs < n)%nat ->
  (forall v r, In v (x :: xs) -> delim r -> pv (print ind v ++ r) = Some (v, r)) ->
  (forall v, In v (x :: xs) -> wf v) ->
  parse_elems pv n (print ind x ++ print_items ind xs ++ nl k ++ 93 :: rest) = Some (x :: xs, rest).
Proof.
  induction xs as [|y ys IH]; intros x n Hn Hpv Hwf; (destruct n as [|n']; [inversion Hn|]); cbn [parse_elems].
  - rewrite (Hpv x) by (try (left; reflexivity); apply delim_items).
    cbn [print_items app]. rewrite skip_ws_nl. reflexivity.
  - rewrite (Hpv x) by (try (left; reflexivity); apply delim_items).
    cbn [print_items app skip_ws]. change (is_ws 44) with false. cbv iota.
    rewrite <- !app_assoc. rewrite skip_ws_nl.
    rewrite skip_ws_starts by (apply print_starts, Hwf; right; left; reflexivity).
    rewrite (IH y n').
    + reflexivity.
    + cbn [List.length] in Hn. lia.
    + intros v r Hv. apply Hpv. right. exact Hv.
    + intros v Hv. apply Hwf. right. exact Hv.
Qed.

Lemma quote_scan k s : scan_str (flat_map esc_char k ++ [34] ++ s) = Some (k, s).
Proof. apply scan_str_quote. Qed.

Lemma members_loop (pv : str -> option (jv * str)) ind c rest :
  forall kvs k x n, (List.length kvs < n)%nat ->
  (forall v r, In v (x :: map snd kvs) -> delim r -> pv (print ind v ++ r) = Some (v, r)) ->
  (forall v, In v (x :: map snd kvs) -> wf v) ->
  parse_members pv n (quote k ++ [58; 32] ++ print ind x ++ print_members ind kvs ++ nl c ++ 125 :: rest)
  = Some ((k, x) :: kvs, rest).
Proof.
  induction kvs as [|[k' y] ys IH]; intros k x n Hn Hpv Hwf; (destruct n as [|n']; [inversion Hn|]);
    unfold quote; cbn [parse_members app]; rewrite <- !app_assoc; rewrite quote_scan;
    cbn [app skip_ws]; change (is_ws 58) with false; cbv iota; cbn [skip_ws]; change (is_ws 32) with true; cbv iota.
  - rewrite skip_ws_starts by (apply print_starts, Hwf; left; reflexivity).
    rewrite (Hpv x) by (try (left; reflexivity); apply delim_members).
    cbn [print_members app]. rewrite skip_ws_nl. reflexivity.
  - rewrite skip_ws_starts by (apply print_starts, Hwf; left; reflexivity).
    rewrite (Hpv x) by (try (left; reflexivity); apply delim_members).
    cbn [print_members app skip_ws]. change (is_ws 44) with false. cbv iota.
    rewrite <- !app_assoc. rewrite skip_ws_nl.
    unfold quote. cbn [app skip_ws]. change (is_ws 34) with false. cbv iota. rewrite <- !app_assoc. cbn [app].
    pose proof (IH k' y n') as IH'. unfold quote in IH'. cbn [app] in IH'. rewrite <- !app_assoc in IH'. cbn [app] in IH'.
    rewrite IH'.
    + reflexivity.
    + cbn [List.length] in Hn. lia.
    + intros v r Hv. apply Hpv. right. exact Hv.
    + intros v Hv. apply Hwf. right. exact Hv.
Qed.

Lemma length_items ind xs s : (List.length xs <= List.length (print_items ind xs ++ s))%nat.
Proof.
  rewrite app_length. induction xs as [|y ys IH]; [cbn; lia|]. cbn [print_items].
  rewrite !app_length. cbn [List.length]. cbn [List.length] in IH. lia.
Qed.

Lemma length_members ind kvs s : (List.length kvs <= List.length (print_members ind kvs ++ s))%nat.
Proof.
  rewrite app_length. induction kvs as [|[k y] ys IH]; [cbn; lia|]. cbn [print_members].
  rewrite !app_length. cbn [List.length]. cbn [List.length] in IH. lia.
Qed.

Lemma depth_arr_in x l : In x l -> (depth x < depth (JArr l))%nat.
Proof.
  cbn [depth]. induction l as [|y ys IH]; [intros []|]. intros [->|H]; cbn [fold_right]; [lia|].
  specialize (IH H). lia.
Qed.

Lemma depth_obj_in x (kvs : list (str * jv)) : In x (map snd kvs) -> (depth x < depth (JObj kvs))%nat.
Proof.
  cbn [depth]. induction kvs as [|[k y] ys IH]; [intros []|]. cbn [map snd]. intros [->|H]; cbn [fold_right snd]; [lia|].
  specialize (IH H). lia.
Qed.

Lemma wf_arr_in x l : wf (JArr l) -> In x l -> wf x.
Proof.
  cbn [wf]. induction l as [|y ys IH]; [intros _ []|]. cbn [fold_right]. intros [H1 H2] [->|H]; [exact H1|exact (IH H2 H)].
Qed.

Lemma wf_obj_in x (kvs : list (str * jv)) : wf (JObj kvs) -> In x (map snd kvs) -> wf x.
Proof.
  cbn [wf]. induction kvs as [|[k y] ys IH]; [intros _ []|]. cbn [fold_right map snd]. intros [H1 H2] [->|H]; [exact H1|exact (IH H2 H)].
Qed.

(* what the scanner reads from the printed text of a value - at any indentation, followed by anything that can
   follow a value - is that value, and it stops exactly at its end *)
Theorem parse_print : forall f v ind rest, (depth v < f)%nat -> wf v -> delim rest ->
  parse_val f (print ind v ++ rest) = Some (v, rest).
Proof.
  induction f as [|f IH]; intros v ind rest Hd Hw Hr; [inversion Hd|].
  destruct v as [|[|]|t|s|[|x xs]|[|[k x] kvs]].
  - reflexivity.
  - reflexivity.
  - reflexivity.
  - cbn [print]. cbn [wf] in Hw. destruct Hw as [Hs|[->|[->| ->]]]; try reflexivity.
    pose proof Hs as Hs'. unfold scan_num in Hs'. destruct (scan_int t) as [[i r]|] eqn:Ei; [|discriminate].
    destruct (scan_int_head _ _ _ Ei) as (c & t' & -> & Hc). clear Hs' Ei.
    cbn [app parse_val].
    assert (Hne : (c =? 34) = false /\ (c =? 123) = false /\ (c =? 91) = false /\ (c =? 110) = false /\
                  (c =? 116) = false /\ (c =? 102) = false).
    { destruct Hc as [->|Hc]; [repeat split; reflexivity|]. apply digit_range in Hc. repeat split; apply Z.eqb_neq; lia. }
    destruct Hne as (H1 & H2 & H3 & H4 & H5 & H6). rewrite H1, H2, H3, H4, H5, H6.
    change (c :: t' ++ rest) with ((c :: t') ++ rest). rewrite (scan_num_app _ _ Hs Hr). reflexivity.
  - cbn [print]. unfold quote. cbn [app parse_val]. change (34 =? 34) with true. cbv iota.
    rewrite <- app_assoc. cbn [app]. rewrite scan_str_quote. reflexivity.
  - reflexivity.
  - rewrite print_arr. cbn [app parse_val]. change (91 =? 34) with false. change (91 =? 123) with false.
    change (91 =? 91) with true. cbv iota. rewrite <- !app_assoc. rewrite skip_ws_nl.
    assert (Hwx : wf x) by (apply (wf_arr_in x _ Hw); left; reflexivity).
    rewrite skip_ws_starts by (apply print_starts; exact Hwx).
    pose proof (print_starts (S ind) x (print_items (S ind) xs ++ nl ind ++ [93] ++ rest) Hwx) as Hst.
    destruct (print (S ind) x ++ print_items (S ind) xs ++ nl ind ++ [93] ++ rest) as [|c1 t1] eqn:Et; [destruct Hst|].
    destruct Hst as (_ & H93 & _). apply Z.eqb_neq in H93. cbv zeta. rewrite H93. rewrite <- Et.
    rewrite (elems_loop (parse_val f) (S ind) ind rest xs x).
    + reflexivity.
    + rewrite Et. rewrite <- Et. pose proof (length_items (S ind) xs (nl ind ++ [93] ++ rest)) as Hl.
      rewrite app_length. lia.
    + intros v r Hv Hdr. apply IH; [|apply (wf_arr_in v _ Hw Hv)|exact Hdr].
      pose proof (depth_arr_in v _ Hv). lia.
    + intros v Hv. apply (wf_arr_in v _ Hw Hv).
  - reflexivity.
  - rewrite print_obj. cbn [app parse_val]. change (123 =? 34) with false. change (123 =? 123) with true.
    cbv iota. rewrite <- !app_assoc. rewrite skip_ws_nl. cbn [app]. rewrite <- !app_assoc. cbn [app].
    match goal with
    | |- context [skip_ws (quote k ++ ?T)] =>
      change (skip_ws (quote k ++ T)) with (quote k ++ T);
      assert (Hh : exists t1, quote k ++ T = 34 :: t1) by (eexists; reflexivity);
      destruct Hh as [t1 Et]; rewrite Et; cbv zeta; change (34 =? 125) with false; cbv iota; rewrite <- Et
    end.
    pose proof (members_loop (parse_val f) (S ind) ind rest kvs k x) as ML. cbn [app] in ML. rewrite ML.
    + reflexivity.
    + pose proof (length_members (S ind) kvs (nl ind ++ 125 :: rest)) as Hl.
      rewrite app_length. cbn [List.length]. rewrite app_length. lia.
    + intros v r Hv Hdr. apply IH; [|apply (wf_obj_in v ((k, x) :: kvs) Hw Hv)|exact Hdr].
      pose proof (depth_obj_in v ((k, x) :: kvs) Hv). lia.
    + intros v Hv. apply (wf_obj_in v ((k, x) :: kvs) Hw Hv).
Qed.
