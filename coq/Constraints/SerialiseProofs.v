From Coq Require Import ZArith List Bool Lia.
From Tdda Require Import Base.Sexp Base.Str Base.Sort Generated.Consts Constraints.Serialise.
Import ListNotations.

Section Proofs.
Context {V : Type}.
Notation fieldc := (@fieldc V).

Lemma filter_all_id_local {T} (f : T -> bool) l : (forall x, In x l -> f x = true) -> filter f l = l.
Proof.
  induction l as [|y l IH]; simpl; intro H; [reflexivity|].
  rewrite (H y (or_introl eq_refl)). f_equal. apply IH. intros x Hx. apply H. right; exact Hx.
Qed.

Lemma standard_NoDup : NoDup gen_standard_field_constraints.
Proof.
  repeat constructor; simpl; intuition discriminate.
Qed.

Lemma klookup_load k (f : fieldc) : known k = true -> klookup k (load_field f) = klookup k f.
Proof.
  intro Hk. induction f as [|[k' v] f IH]; [reflexivity|]. cbn [load_field filter fst].
  destruct (known k') eqn:E; cbn [klookup].
  - destruct (str_eqb k k'); [reflexivity|exact IH].
  - destruct (str_eqb k k') eqn:Ek; [|exact IH]. apply str_eqb_eq in Ek. subst. congruence.
Qed.

Lemma dump_field_known (f : fieldc) kv : In kv (dump_field f) -> known (fst kv) = true.
Proof.
  unfold dump_field. rewrite in_flat_map. intros [k [Hk Hin]].
  destruct (klookup k f); [|destruct Hin]. destruct Hin as [<-|[]]. simpl.
  unfold known. apply mem_str_In. exact Hk.
Qed.

Lemma load_dump_id (f : fieldc) : load_field (dump_field f) = dump_field f.
Proof.
  unfold load_field. apply filter_all_id_local. intros kv Hin. apply (dump_field_known f kv Hin).
Qed.

(* lookup in a dumped field: the dump lists each standard key once *)
Lemma klookup_flat_map (f : fieldc) keys k : NoDup keys ->
  klookup k (flat_map (fun k0 => match klookup k0 f with Some v => [(k0, v)] | None => [] end) keys) =
  if mem_str k keys then klookup k f else None.
Proof.
  induction keys as [|k0 keys IH]; intro Hnd; [reflexivity|]. inversion Hnd; subst.
  cbn [flat_map mem_str]. destruct (str_eqb k k0) eqn:E.
  - apply str_eqb_eq in E. subst k0. cbn [orb].
    destruct (klookup k f) as [v|] eqn:El; cbn [app klookup].
    + rewrite str_eqb_refl. reflexivity.
    + rewrite IH by assumption.
      destruct (mem_str k keys) eqn:Em; [|reflexivity]. apply mem_str_In in Em. contradiction.
  - cbn [orb]. destruct (klookup k0 f) as [v|]; cbn [app klookup]; [rewrite E|]; apply IH; assumption.
Qed.

Lemma klookup_dump k (f : fieldc) : klookup k (dump_field f) = if known k then klookup k f else None.
Proof. unfold dump_field, known. apply klookup_flat_map. apply standard_NoDup. Qed.

Lemma dump_field_ext (f g : fieldc) : (forall k, known k = true -> klookup k f = klookup k g) ->
  dump_field f = dump_field g.
Proof.
  intro H. unfold dump_field.
  assert (G : forall keys, (forall k, In k keys -> known k = true) ->
    flat_map (fun k => match klookup k f with Some v => [(k, v)] | None => [] end) keys =
    flat_map (fun k => match klookup k g with Some v => [(k, v)] | None => [] end) keys).
  { induction keys as [|k keys IH]; intro Hk; [reflexivity|]. cbn [flat_map].
    rewrite (H k) by (apply Hk; left; reflexivity). f_equal. apply IH. intros k' Hk'. apply Hk. right; exact Hk'. }
  apply G. intros k Hk. unfold known. apply mem_str_In. exact Hk.
Qed.

(* writing, loading and writing again gives the same constraints in the same order *)
Theorem dump_load_dump_field_proof (f : fieldc) :
  dump_field (load_field (dump_field (load_field f))) = dump_field (load_field f).
Proof.
  apply dump_field_ext. intros k Hk.
  rewrite klookup_load by exact Hk. rewrite klookup_dump, Hk. reflexivity.
Qed.

(* unknown kinds and '#' keys do not affect the others *)
Theorem unknown_keys_ignored_proof (f : fieldc) k v : known k = false ->
  dump_field (load_field (f ++ [(k, v)])) = dump_field (load_field f) /\
  dump_field (load_field ((k, v) :: f)) = dump_field (load_field f).
Proof.
  intro Hk. unfold load_field. rewrite filter_app. cbn [filter fst]. rewrite Hk, app_nil_r. split; reflexivity.
Qed.

(* what is written for a loaded field depends only on the surviving key/value pairs *)
Theorem dump_depends_on_known_proof (f g : fieldc) :
  (forall k, known k = true -> klookup k f = klookup k g) ->
  dump_field (load_field f) = dump_field (load_field g).
Proof.
  intro H. apply dump_field_ext. intros k Hk. rewrite !klookup_load by exact Hk. apply H. exact Hk.
Qed.

End Proofs.
