(* C09, end to end at the level of the TEXT: a loaded constraint set, written with to_json and read back
   (json.loads with OrderedDict, then initialize_from_dict's key filtering), is the same set; writing it again
   gives the identical text.  Values are JSON values whose own text round trip is Json.v's (strings with every
   escape, number tokens, nested lists and dictionaries such as precision-qualified bounds). *)
From Coq Require Import ZArith List Bool Lia.
From Tdda Require Import Base.Sexp Base.Str Base.Sort Generated.Consts Constraints.Serialise Constraints.SerialiseProofs
  Constraints.Json Constraints.JsonProofs.
Import ListNotations.
Open Scope Z_scope.

Definition s_fields : str := [102; 105; 101; 108; 100; 115].
Definition s_meta : str := [99; 114; 101; 97; 116; 105; 111; 110; 95; 109; 101; 116; 97; 100; 97; 116; 97].

(* to_dict: optional creation metadata, then the fields *)
Definition json_of_dataset (md : option jv) (d : @dataset jv) : jv :=
  JObj ((match md with Some m => [(s_meta, m)] | None => [] end)
        ++ [(s_fields, JObj (map (fun nf => (fst nf, JObj (snd nf))) d))]).

(* initialize_from_dict reads in_constraints['fields'] *)
Definition dataset_of_json (v : jv) : option (@dataset jv) :=
  match v with
  | JObj top =>
    match klookup s_fields top with
    | Some (JObj fs) => Some (map (fun nf => (fst nf, match snd nf with JObj kvs => kvs | _ => [] end)) fs)
    | _ => None
    end
  | _ => None
  end.

Definition written (md : option jv) (d : @dataset jv) : str := to_json_text (json_of_dataset md (dump d)).
Definition reread (t : str) : option (@dataset jv) :=
  match parse_json t with
  | Some v => option_map load (dataset_of_json (od_norm v))
  | None => None
  end.

(* ------------------------------------------------------------------ distinct keys: the OrderedDict is the pair list *)
Lemma od_set_fresh k v d : ~ In k (map fst d) -> od_set k v d = d ++ [(k, v)].
Proof.
  induction d as [|[k' v'] d IH]; intro H; [reflexivity|]. cbn [od_set].
  destruct (str_eqb k k') eqn:E; [apply str_eqb_eq in E; subst; exfalso; apply H; left; reflexivity|].
  cbn [app]. rewrite IH; [reflexivity|]. intro Hin. apply H. right. exact Hin.
Qed.

Lemma od_of_pairs_gen kvs : forall acc, NoDup (map fst (acc ++ kvs)) ->
  fold_left (fun d kv => od_set (fst kv) (snd kv) d) kvs acc = acc ++ kvs.
Proof.
  induction kvs as [|[k v] kvs IH]; intros acc H; [rewrite app_nil_r; reflexivity|]. cbn [fold_left fst snd].
  rewrite od_set_fresh.
  - rewrite IH; [rewrite <- app_assoc; reflexivity|]. rewrite <- app_assoc. exact H.
  - rewrite map_app in H. cbn [map fst] in H. apply NoDup_remove_2 in H. intro Hin. apply H. apply in_or_app. left. exact Hin.
Qed.

Lemma od_of_pairs_nodup kvs : NoDup (map fst kvs) -> od_of_pairs kvs = kvs.
Proof. intro H. unfold od_of_pairs. apply (od_of_pairs_gen kvs []). exact H. Qed.

(* a value in canonical form: number tokens readable, and no dictionary inside it repeats a key *)
Definition val_ok (v : jv) : Prop := wf v /\ od_norm v = v.

Definition field_ok (f : @fieldc jv) : Prop := forall kv, In kv f -> val_ok (snd kv).
Definition dataset_ok (d : @dataset jv) : Prop :=
  NoDup (map fst d) /\ forall nf, In nf d -> field_ok (snd nf).

Lemma map_id_in {A} (g : A -> A) l : (forall x, In x l -> g x = x) -> map g l = l.
Proof. induction l as [|x l IH]; intro H; [reflexivity|]. cbn [map]. rewrite H by (left; reflexivity). f_equal. apply IH. intros y Hy. apply H. right. exact Hy. Qed.

Lemma dump_field_keys_nodup (f : @fieldc jv) : NoDup (map fst (dump_field f)).
Proof.
  unfold dump_field. pose proof (@standard_NoDup) as Hn. induction gen_standard_field_constraints as [|k ks IH]; [constructor|].
  inversion Hn as [|? ? Hk Hks]; subst. cbn [flat_map]. destruct (klookup k f) as [v|]; [|apply IH; exact Hks].
  cbn [app map fst]. constructor; [|apply IH; exact Hks].
  intro Hin. apply in_map_iff in Hin as [[k' v'] [E Hin]]. cbn [fst] in E. subst k'.
  apply in_flat_map in Hin as [k2 [Hk2 Hin]]. destruct (klookup k2 f); [|destruct Hin]. destruct Hin as [E|[]].
  injection E as <- _. contradiction.
Qed.

Lemma klookup_In (f : @fieldc jv) k v : klookup k f = Some v -> In (k, v) f.
Proof.
  induction f as [|[k' v'] f IH]; [discriminate|]. cbn [klookup]. destruct (str_eqb k k') eqn:E.
  - apply str_eqb_eq in E. subst. intro H. injection H as ->. left. reflexivity.
  - intro H. right. apply IH. exact H.
Qed.

Lemma dump_field_ok (f : @fieldc jv) : field_ok f -> field_ok (dump_field f).
Proof.
  intros H kv Hin. unfold dump_field in Hin. apply in_flat_map in Hin as [k [_ Hin]].
  destruct (klookup k f) as [v|] eqn:E; [|destruct Hin]. destruct Hin as [<-|[]]. cbn [snd].
  apply (H (k, v)). apply klookup_In. exact E.
Qed.

Lemma fold_wf_fields (l : list (str * jv)) : (forall kv, In kv l -> wf (snd kv)) ->
  fold_right (fun kx P => wf (snd kx) /\ P) True l.
Proof. induction l as [|kv l IH]; intro H; [exact I|]. cbn [fold_right]. split; [apply H; left; reflexivity|apply IH; intros x Hx; apply H; right; exact Hx]. Qed.

Lemma obj_ok (kvs : list (str * jv)) : NoDup (map fst kvs) -> (forall kv, In kv kvs -> val_ok (snd kv)) -> val_ok (JObj kvs).
Proof.
  intros Hn Hv. split.
  - cbn [wf]. apply fold_wf_fields. intros kv Hkv. apply (Hv kv Hkv).
  - cbn [od_norm]. rewrite (map_id_in (fun kv => (fst kv, od_norm (snd kv)))).
    + rewrite od_of_pairs_nodup by exact Hn. reflexivity.
    + intros [k v] Hkv. cbn [fst snd]. f_equal. apply (Hv (k, v) Hkv).
Qed.

Lemma s_meta_fields : str_eqb s_fields s_meta = false.
Proof. reflexivity. Qed.

Lemma json_of_dataset_ok md d : dataset_ok d -> match md with Some m => val_ok m | None => True end ->
  val_ok (json_of_dataset md (dump d)).
Proof.
  intros [Hn Hf] Hm. unfold json_of_dataset.
  assert (Hfields : val_ok (JObj (map (fun nf => (fst nf, JObj (snd nf))) (dump d)))).
  { apply obj_ok.
    - rewrite map_map. cbn [fst]. unfold dump. rewrite map_map. cbn [fst]. exact Hn.
    - intros kv Hkv. apply in_map_iff in Hkv as [[nm f] [<- Hin]]. cbn [snd fst].
      unfold dump in Hin. apply in_map_iff in Hin as [[nm0 f0] [E Hin0]]. cbn [fst snd] in E. injection E as <- <-.
      apply obj_ok; [apply dump_field_keys_nodup|]. apply dump_field_ok. apply (Hf (nm0, f0) Hin0). }
  destruct md as [m|]; cbn [app].
  - apply obj_ok.
    + cbn [map fst]. constructor; [|constructor; [intros []|constructor]]. intros [E|[]].
      assert (H : str_eqb s_fields s_meta = true) by (apply str_eqb_eq; exact E). rewrite s_meta_fields in H. discriminate.
    + intros kv [<-|[<-|[]]]; cbn [snd]; assumption.
  - apply obj_ok.
    + cbn [map fst]. constructor; [intros []|constructor].
    + intros kv [<-|[]]. cbn [snd]. exact Hfields.
Qed.

Lemma dataset_of_json_of md d : dataset_of_json (json_of_dataset md d) = Some d.
Proof.
  unfold dataset_of_json, json_of_dataset.
  assert (E : klookup s_fields ((match md with Some m => [(s_meta, m)] | None => [] end)
                                ++ [(s_fields, JObj (map (fun nf => (fst nf, JObj (snd nf))) d))])
              = Some (JObj (map (fun nf => (fst nf, JObj (snd nf))) d))).
  { destruct md as [m|]; cbn [app klookup]; rewrite ?s_meta_fields, ?str_eqb_refl; reflexivity. }
  rewrite E. rewrite map_map. cbn [fst snd]. apply f_equal. apply map_id_in. intros [nm f] _. reflexivity.
Qed.

(* ------------------------------------------------------------------ a loaded set has no empty and no unknown entries *)
Lemma load_field_nonempty_dump (f : @fieldc jv) : load_field f <> [] -> dump_field (load_field f) <> [].
Proof.
  intro H. destruct (load_field f) as [|[k v] t] eqn:E; [congruence|].
  assert (Hk : known k = true).
  { assert (Hin : In (k, v) (load_field f)) by (rewrite E; left; reflexivity).
    unfold load_field in Hin. apply filter_In in Hin as [_ Hk]. exact Hk. }
  assert (Hl : klookup k ((k, v) :: t) = Some v) by (cbn [klookup]; rewrite str_eqb_refl; reflexivity).
  pose proof (klookup_dump k ((k, v) :: t)) as Hd. rewrite Hk, Hl in Hd.
  intro E0. rewrite E0 in Hd. discriminate.
Qed.

Lemma load_dump_load (d0 : @dataset jv) : load (dump (load d0)) = dump (load d0).
Proof.
  unfold load at 1. unfold dump. rewrite map_map. cbn [fst snd].
  rewrite (map_ext _ (fun nf => (fst nf, dump_field (snd nf)))) by (intros [nm f]; cbn [fst snd]; rewrite load_dump_id; reflexivity).
  apply filter_all_id_local. intros [nm g] Hin. cbn [snd]. apply in_map_iff in Hin as [[nm0 f0] [E Hin]].
  cbn [fst snd] in E. injection E as <- <-.
  unfold load in Hin. apply filter_In in Hin as [Hin Hne]. cbn [snd] in Hne.
  apply in_map_iff in Hin as [[nm1 f1] [E1 _]]. cbn [fst snd] in E1. injection E1 as <- <-.
  destruct (dump_field (load_field f1)) eqn:Ed; [|reflexivity].
  exfalso. apply (load_field_nonempty_dump f1); [|exact Ed]. destruct (load_field f1); [discriminate|discriminate].
Qed.

Lemma dump_dump_load (d0 : @dataset jv) : dump (dump (load d0)) = dump (load d0).
Proof.
  unfold dump. rewrite map_map. cbn [fst snd]. apply map_ext_in. intros [nm f] Hin. cbn [fst snd]. f_equal.
  unfold load in Hin. apply filter_In in Hin as [Hin _]. apply in_map_iff in Hin as [[nm1 f1] [E1 _]].
  cbn [fst snd] in E1. injection E1 as <- <-.
  pose proof (@dump_load_dump_field_proof jv f1) as H. rewrite load_dump_id in H. exact H.
Qed.

(* ------------------------------------------------------------------ the round trip *)
Theorem reread_written md d : dataset_ok d -> match md with Some m => val_ok m | None => True end ->
  reread (written md d) = Some (load (dump d)).
Proof.
  intros Hd Hm. unfold reread, written. destruct (json_of_dataset_ok md d Hd Hm) as [Hw Hn].
  rewrite parse_to_json_text by exact Hw. rewrite Hn. rewrite dataset_of_json_of. reflexivity.
Qed.

(* for a loaded set: what is read back writes the identical text *)
Theorem written_reread_written md (d0 : @dataset jv) :
  dataset_ok (load d0) -> match md with Some m => val_ok m | None => True end ->
  exists d', reread (written md (load d0)) = Some d' /\ written md d' = written md (load d0).
Proof.
  intros Hd Hm. exists (load (dump (load d0))). split; [apply reread_written; assumption|].
  unfold written. rewrite load_dump_load, dump_dump_load. reflexivity.
Qed.
