(* C09: the dictionary level of .tdda serialisation: which keys survive loading and in which
   order a field's constraints are written (base.py initialize_from_dict, to_dict_value,
   to_preferred_order).  Values are opaque here (their text round trip is checked by correspondence). *)
From Coq Require Import ZArith List Bool.
From Tdda Require Import Base.Sexp Base.Str Base.Sort Generated.Consts.
Import ListNotations.
Open Scope Z_scope.

Section Values.
Context {V : Type}.

Definition fieldc := list (str * V).          (* one field: constraint kind -> value, keys distinct *)

Definition known (k : str) : bool := mem_str k gen_standard_field_constraints.

Fixpoint klookup (k : str) (f : fieldc) : option V :=
  match f with
  | [] => None
  | (k', v) :: f' => if str_eqb k k' then Some v else klookup k f'
  end.

(* loading keeps exactly the standard kinds (unknown kinds warn, '#' keys are silent), in file order *)
Definition load_field (f : fieldc) : fieldc := filter (fun kv => known (fst kv)) f.

(* writing: standard kinds in the preferred order (after loading no other key exists) *)
Definition dump_field (f : fieldc) : fieldc :=
  flat_map (fun k => match klookup k f with Some v => [(k, v)] | None => [] end)
           gen_standard_field_constraints.

Definition dataset := list (str * fieldc).
(* a field with no surviving constraint is not added *)
Definition load (d : dataset) : dataset :=
  filter (fun nf => match snd nf with [] => false | _ => true end)
         (map (fun nf => (fst nf, load_field (snd nf))) d).
Definition dump (d : dataset) : dataset := map (fun nf => (fst nf, dump_field (snd nf))) d.

End Values.

(* wire: values travel as opaque sexps *)
Definition sx_fieldc (s : sexp) : @fieldc sexp := map (fun kv => (sx_str (sx_nth 0 kv), sx_nth 1 kv)) (sx_list s).
Definition of_fieldc (f : @fieldc sexp) : sexp := L (map (fun kv => L [of_str (fst kv); snd kv]) f).
Definition serialise_entry (s : sexp) : sexp :=
  let d : @dataset sexp := map (fun nf => (sx_str (sx_nth 0 nf), sx_fieldc (sx_nth 1 nf))) (sx_list s) in
  L (map (fun nf => L [of_str (fst nf); of_fieldc (snd nf)]) (dump (load d))).
