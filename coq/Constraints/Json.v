(* C09: the TEXT of a .tdda file.  DatasetConstraints.to_json is
     strip_lines(json.dumps(d, indent=4, ensure_ascii=False)) + '\n'
   and load is json.loads(text, object_pairs_hook=OrderedDict).  This file models the JSON values that occur,
   the printer (CPython json.encoder, pure-Python path taken when indent is given), strip_lines, and the
   parser (CPython json.decoder / scanner, strict mode): strings with their escapes (incl. \uXXXX and surrogate
   pairs), number tokens with the scanner's grammar, NaN / Infinity / -Infinity, nesting, whitespace.
   Number VALUES stay tokens: int(tok) / float(tok) / repr are CPython's (trusted base). *)
From Coq Require Import ZArith List Bool Lia.
From Tdda Require Import Base.Sexp Base.Str.
Import ListNotations.
Open Scope Z_scope.

Inductive jv :=
| JNull
| JBool (b : bool)
| JNum (tok : str)                      (* the number token as written *)
| JStr (s : str)
| JArr (l : list jv)
| JObj (kvs : list (str * jv)).         (* members in order (an OrderedDict when keys are distinct) *)

(* ------------------------------------------------------------------ printing *)
Definition hexdigit (n : Z) : Z := if n <? 10 then 48 + n else 87 + n.   (* lower case *)

(* json.encoder ESCAPE / ESCAPE_DCT (ensure_ascii = False) *)
Definition esc_char (c : Z) : str :=
  if c =? 34 then [92; 34]
  else if c =? 92 then [92; 92]
  else if c =? 10 then [92; 110]
  else if c =? 13 then [92; 114]
  else if c =? 9 then [92; 116]
  else if c =? 8 then [92; 98]
  else if c =? 12 then [92; 102]
  else if (0 <=? c) && (c <? 32) then [92; 117; 48; 48; hexdigit (c / 16); hexdigit (c mod 16)]
  else [c].

Definition quote (s : str) : str := 34 :: flat_map esc_char s ++ [34].

Definition nl (ind : nat) : str := 10 :: repeat 32 (4 * ind).

Fixpoint print (ind : nat) (v : jv) : str :=
  match v with
  | JNull => [110; 117; 108; 108]
  | JBool true => [116; 114; 117; 101]
  | JBool false => [102; 97; 108; 115; 101]
  | JNum t => t
  | JStr s => quote s
  | JArr [] => [91; 93]
  | JArr (x :: xs) =>
      [91] ++ nl (S ind) ++ print (S ind) x
      ++ (fix items (l : list jv) : str :=
            match l with
            | [] => []
            | y :: ys => [44] ++ nl (S ind) ++ print (S ind) y ++ items ys
            end) xs
      ++ nl ind ++ [93]
  | JObj [] => [123; 125]
  | JObj ((k, x) :: kvs) =>
      [123] ++ nl (S ind) ++ quote k ++ [58; 32] ++ print (S ind) x
      ++ (fix members (l : list (str * jv)) : str :=
            match l with
            | [] => []
            | (k', y) :: ys => [44] ++ nl (S ind) ++ quote k' ++ [58; 32] ++ print (S ind) y ++ members ys
            end) kvs
      ++ nl ind ++ [125]
  end.

(* the same inner loops by name, for the proofs *)
Fixpoint print_items (ind : nat) (l : list jv) : str :=
  match l with
  | [] => []
  | y :: ys => [44] ++ nl ind ++ print ind y ++ print_items ind ys
  end.
Fixpoint print_members (ind : nat) (l : list (str * jv)) : str :=
  match l with
  | [] => []
  | (k, y) :: ys => [44] ++ nl ind ++ quote k ++ [58; 32] ++ print ind y ++ print_members ind ys
  end.

(* base.py strip_lines: '\n'.join(line.rstrip() for line in s.split('\n')); rstrip strips Python whitespace *)
Definition py_space (c : Z) : bool :=
  ((9 <=? c) && (c <=? 13)) || ((28 <=? c) && (c <=? 32)) || (c =? 133) || (c =? 160) || (c =? 5760)
  || ((8192 <=? c) && (c <=? 8202)) || (c =? 8232) || (c =? 8233) || (c =? 8239) || (c =? 8287) || (c =? 12288).

Fixpoint rstrip_rev (r : str) : str :=
  match r with
  | c :: t => if py_space c then rstrip_rev t else r
  | [] => []
  end.
Definition rstrip (s : str) : str := rev (rstrip_rev (rev s)).
Definition strip_lines (s : str) : str := join [10] (map rstrip (split_char 10 s)).

Definition to_json_text (v : jv) : str := strip_lines (print 0 v) ++ [10].

(* ------------------------------------------------------------------ parsing *)
Definition is_ws (c : Z) : bool := (c =? 32) || (c =? 9) || (c =? 10) || (c =? 13).
Fixpoint skip_ws (s : str) : str :=
  match s with
  | c :: t => if is_ws c then skip_ws t else s
  | [] => []
  end.

Definition hexval (c : Z) : option Z :=
  if (48 <=? c) && (c <=? 57) then Some (c - 48)
  else if (97 <=? c) && (c <=? 102) then Some (c - 87)
  else if (65 <=? c) && (c <=? 70) then Some (c - 55)
  else None.

Definition hex4 (a b c d : Z) : option Z :=
  match hexval a, hexval b, hexval c, hexval d with
  | Some x, Some y, Some z, Some w => Some (((x * 16 + y) * 16 + z) * 16 + w)
  | _, _, _, _ => None
  end.

(* json.decoder BACKSLASH *)
Definition unescape (e : Z) : option Z :=
  if e =? 34 then Some 34
  else if e =? 92 then Some 92
  else if e =? 47 then Some 47
  else if e =? 98 then Some 8
  else if e =? 102 then Some 12
  else if e =? 110 then Some 10
  else if e =? 114 then Some 13
  else if e =? 116 then Some 9
  else None.

Definition cons_res (c : Z) (r : option (str * str)) : option (str * str) :=
  match r with Some (x, rest) => Some (c :: x, rest) | None => None end.

(* scanstring, strict: the text after the opening quote; returns the string and the text after the closing quote *)
Fixpoint scan_str (s : str) : option (str * str) :=
  match s with
  | [] => None
  | c :: t =>
    if c =? 34 then Some ([], t)
    else if c =? 92 then
      match t with
      | [] => None
      | e :: t1 =>
        if e =? 117 then
          match t1 with
          | a :: b :: c' :: d :: t2 =>
            match hex4 a b c' d with
            | None => None
            | Some u =>
              if (55296 <=? u) && (u <=? 56319) then
                match t2 with
                | 92 :: 117 :: a2 :: b2 :: c2 :: d2 :: t3 =>
                  match hex4 a2 b2 c2 d2 with
                  | None => None
                  | Some u2 =>
                    if (56320 <=? u2) && (u2 <=? 57343)
                    then cons_res (65536 + ((u - 55296) * 1024 + (u2 - 56320))) (scan_str t3)
                    else cons_res u (scan_str t2)
                  end
                | 92 :: 117 :: _ => None
                | _ => cons_res u (scan_str t2)
                end
              else cons_res u (scan_str t2)
            end
          | _ => None
          end
        else match unescape e with
             | Some ch => cons_res ch (scan_str t1)
             | None => None
             end
      end
    else if (0 <=? c) && (c <? 32) then None
    else cons_res c (scan_str t)
  end.

Definition is_digit (c : Z) : bool := (48 <=? c) && (c <=? 57).
Fixpoint span_digits (s : str) : str * str :=
  match s with
  | c :: t => if is_digit c then let '(a, b) := span_digits t in (c :: a, b) else ([], s)
  | [] => ([], [])
  end.

(* scanner NUMBER_RE: optional minus, then 0 or a digit run without leading zero; optionally . and digits;
   optionally e/E, optional sign, digits - the longest prefix the regular expression matches *)
Definition scan_int (s : str) : option (str * str) :=
  let '(sg, s1) := match s with
                   | c :: t => if c =? 45 then ([45], t) else ([], s)
                   | [] => ([], s)
                   end in
  match s1 with
  | c :: t => if c =? 48 then Some (sg ++ [48], t)
              else let '(ds, r) := span_digits s1 in
                   match ds with [] => None | _ => Some (sg ++ ds, r) end
  | [] => None
  end.
Definition scan_frac (s : str) : str * str :=
  match s with
  | c :: t => if c =? 46 then
                let '(ds, r) := span_digits t in
                match ds with [] => ([], s) | _ => (46 :: ds, r) end
              else ([], s)
  | [] => ([], s)
  end.
Definition scan_exp (s : str) : str * str :=
  match s with
  | e :: t =>
    if (e =? 101) || (e =? 69) then
      let '(sg, t1) := match t with
                       | c :: t' => if (c =? 43) || (c =? 45) then ([c], t') else ([], t)
                       | [] => ([], t)
                       end in
      let '(ds, r) := span_digits t1 in
      match ds with [] => ([], s) | _ => (e :: sg ++ ds, r) end
    else ([], s)
  | [] => ([], s)
  end.
Definition scan_num (s : str) : option (str * str) :=
  match scan_int s with
  | None => None
  | Some (i, r1) => let '(f, r2) := scan_frac r1 in
                    let '(x, r3) := scan_exp r2 in
                    Some (i ++ f ++ x, r3)
  end.

Definition lit_NaN : str := [78; 97; 78].
Definition lit_Inf : str := [73; 110; 102; 105; 110; 105; 116; 121].
Definition lit_null : str := [110; 117; 108; 108].
Definition lit_true : str := [116; 114; 117; 101].
Definition lit_false : str := [102; 97; 108; 115; 101].

Fixpoint drop_prefix (p s : str) : option str :=
  match p, s with
  | [], _ => Some s
  | a :: p', b :: s' => if a =? b then drop_prefix p' s' else None
  | _ :: _, [] => None
  end.

Section Loops.
Variable pv : str -> option (jv * str).
(* after '[' and whitespace, not at ']' *)
Fixpoint parse_elems (n : nat) (s : str) : option (list jv * str) :=
  match n with
  | O => None
  | S n' =>
    match pv s with
    | None => None
    | Some (v, r) =>
      match skip_ws r with
      | 44 :: r2 => match parse_elems n' (skip_ws r2) with
                    | Some (vs, r3) => Some (v :: vs, r3)
                    | None => None
                    end
      | 93 :: r2 => Some ([v], r2)
      | _ => None
      end
    end
  end.
(* after '{' and whitespace, not at '}' *)
Fixpoint parse_members (n : nat) (s : str) : option (list (str * jv) * str) :=
  match n with
  | O => None
  | S n' =>
    match s with
    | 34 :: t =>
      match scan_str t with
      | None => None
      | Some (k, r) =>
        match skip_ws r with
        | 58 :: r1 =>
          match pv (skip_ws r1) with
          | None => None
          | Some (v, r2) =>
            match skip_ws r2 with
            | 44 :: r3 => match parse_members n' (skip_ws r3) with
                          | Some (kvs, r4) => Some ((k, v) :: kvs, r4)
                          | None => None
                          end
            | 125 :: r3 => Some ([(k, v)], r3)
            | _ => None
            end
          end
        | _ => None
        end
      end
    | _ => None
    end
  end.
End Loops.

(* scanner _scan_once, at a non-whitespace position *)
Fixpoint parse_val (fuel : nat) (s : str) : option (jv * str) :=
  match fuel with
  | O => None
  | S f =>
    match s with
    | [] => None
    | c :: t =>
      if c =? 34 then match scan_str t with Some (x, r) => Some (JStr x, r) | None => None end
      else if c =? 123 then
        let t1 := skip_ws t in
        if (match t1 with c1 :: _ => c1 =? 125 | [] => false end) then Some (JObj [], tl t1)
        else match parse_members (parse_val f) (S (List.length t1)) t1 with
             | Some (kvs, r) => Some (JObj kvs, r)
             | None => None
             end
      else if c =? 91 then
        let t1 := skip_ws t in
        if (match t1 with c1 :: _ => c1 =? 93 | [] => false end) then Some (JArr [], tl t1)
        else match parse_elems (parse_val f) (S (List.length t1)) t1 with
             | Some (vs, r) => Some (JArr vs, r)
             | None => None
             end
      else if c =? 110 then match drop_prefix lit_null s with Some r => Some (JNull, r) | None => None end
      else if c =? 116 then match drop_prefix lit_true s with Some r => Some (JBool true, r) | None => None end
      else if c =? 102 then match drop_prefix lit_false s with Some r => Some (JBool false, r) | None => None end
      else match scan_num s with
           | Some (tok, r) => Some (JNum tok, r)
           | None =>
             if c =? 78 then match drop_prefix lit_NaN s with Some r => Some (JNum lit_NaN, r) | None => None end
             else if c =? 73 then match drop_prefix lit_Inf s with Some r => Some (JNum lit_Inf, r) | None => None end
             else if c =? 45 then match drop_prefix (45 :: lit_Inf) s with Some r => Some (JNum (45 :: lit_Inf), r) | None => None end
             else None
           end
    end
  end.

(* JSONDecoder.decode: leading whitespace, one value, trailing whitespace, end *)
Definition parse_json (s : str) : option jv :=
  match parse_val (S (List.length s)) (skip_ws s) with
  | Some (v, r) => match skip_ws r with [] => Some v | _ => None end
  | None => None
  end.

(* ------------------------------------------------------------------ members as an OrderedDict *)
(* object_pairs_hook=OrderedDict: a repeated key keeps its first position and takes the last value *)
Fixpoint od_set (k : str) (v : jv) (d : list (str * jv)) : list (str * jv) :=
  match d with
  | [] => [(k, v)]
  | (k', v') :: d' => if str_eqb k k' then (k', v) :: d' else (k', v') :: od_set k v d'
  end.
Definition od_of_pairs (kvs : list (str * jv)) : list (str * jv) :=
  fold_left (fun d kv => od_set (fst kv) (snd kv) d) kvs [].
Fixpoint od_norm (v : jv) : jv :=
  match v with
  | JArr l => JArr (map od_norm l)
  | JObj kvs => JObj (od_of_pairs (map (fun kv => (fst kv, od_norm (snd kv))) kvs))
  | _ => v
  end.

(* ------------------------------------------------------------------ the hypothesis of the round-trip theorems, decidable *)
Definition num_okb (tok : str) : bool :=
  (match scan_num tok with Some (t, []) => str_eqb t tok | _ => false end)
  || str_eqb tok lit_NaN || str_eqb tok lit_Inf || str_eqb tok (45 :: lit_Inf).
Fixpoint wfb (v : jv) : bool :=
  match v with
  | JNum t => num_okb t
  | JArr l => forallb wfb l
  | JObj kvs => forallb (fun kv => wfb (snd kv)) kvs
  | _ => true
  end.

(* ------------------------------------------------------------------ wire *)
Fixpoint of_jv (v : jv) : sexp :=
  match v with
  | JNull => L [A 0]
  | JBool b => L [A 1; of_bool b]
  | JNum t => L [A 2; of_str t]
  | JStr s => L [A 3; of_str s]
  | JArr l => L [A 4; L (map of_jv l)]
  | JObj kvs => L [A 5; L (map (fun kv => L [of_str (fst kv); of_jv (snd kv)]) kvs)]
  end.

Fixpoint sx_jv (s : sexp) : jv :=
  match s with
  | L [A 1; b] => JBool (sx_bool b)
  | L [A 2; t] => JNum (sx_str t)
  | L [A 3; t] => JStr (sx_str t)
  | L [A 4; L l] => JArr (map sx_jv l)
  | L [A 5; L l] => JObj (map (fun kv => match kv with
                                         | L [k; v] => (sx_str k, sx_jv v)
                                         | _ => ([], JNull)
                                         end) l)
  | _ => JNull
  end.

(* entry 34: is the value well-formed in the sense of the round-trip theorems (wfb)? *)
Definition json_wf_entry (s : sexp) : sexp := of_bool (wfb (sx_jv s)).

(* entry 32: value -> the text of to_json; entry 33: text -> parsed value (as json.loads with OrderedDict) *)
Definition json_print_entry (s : sexp) : sexp := of_str (to_json_text (sx_jv s)).
Definition json_parse_entry (s : sexp) : sexp := of_opt of_jv (option_map od_norm (parse_json (sx_str s))).
