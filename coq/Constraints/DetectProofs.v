From Coq Require Import ZArith List Bool Lia.
From Tdda Require Import Base.Sexp Base.Str Generated.Consts Constraints.Model Constraints.ModelProofs Constraints.Detect.
Import ListNotations.
Open Scope Z_scope.

(* the reported passing and failing record counts partition the rows *)
Theorem partition_proof p fields nrows :
  let d := detect p fields nrows in
  d_passing d + d_failing d = Z.of_nat nrows /\ 0 <= d_failing d /\ d_failing d <= Z.of_nat (length (d_nfailures d)).
Proof.
  unfold detect. cbn [d_passing d_failing d_nfailures]. split; [lia|]. split; [lia|].
  apply inj_le. apply filter_length_le.
Qed.

Lemma row_failures_length cols n : length (row_failures cols n) = n.
Proof. revert cols; induction n as [|n IH]; intro cols; simpl; [reflexivity|]. rewrite IH. reflexivity. Qed.

Theorem nfailures_length_proof p fields nrows : length (d_nfailures (detect p fields nrows)) = nrows.
Proof. unfold detect. cbn [d_nfailures]. apply row_failures_length. Qed.

(* each record's failure count is its number of false flags *)
Definition is_false_at (i : nat) (col : list flag) : bool :=
  match nth_error col i with Some (Some false) => true | _ => false end.

Lemma nth_error_tl {T} (c : list T) i : nth_error (tl c) i = nth_error c (S i).
Proof. destruct c; [destruct i; reflexivity|reflexivity]. Qed.

Lemma filter_tl_count cols i :
  length (filter (is_false_at i) (map (@tl flag) cols)) = length (filter (is_false_at (S i)) cols).
Proof.
  induction cols as [|c cols IH]; [reflexivity|]. cbn [map filter].
  assert (H : is_false_at i (tl c) = is_false_at (S i) c)
    by (unfold is_false_at; rewrite nth_error_tl; reflexivity).
  rewrite H. destruct (is_false_at (S i) c); cbn [length]; rewrite IH; reflexivity.
Qed.

Lemma head_false_count cols :
  length (filter (fun col : list flag => match col with Some false :: _ => true | _ => false end) cols) =
  length (filter (is_false_at 0) cols).
Proof.
  induction cols as [|c cols IH]; [reflexivity|]. cbn [filter].
  assert (H : match c with Some false :: _ => true | _ => false end = is_false_at 0 c)
    by (destruct c as [|[[|]|] c]; reflexivity).
  rewrite H. destruct (is_false_at 0 c); cbn [length]; rewrite IH; reflexivity.
Qed.

Theorem nfail_is_count_false_proof cols n i : (i < n)%nat ->
  nth i (row_failures cols n) 0 = Z.of_nat (length (filter (is_false_at i) cols)).
Proof.
  revert cols i; induction n as [|n IH]; intros cols i Hi; [lia|].
  destruct i as [|i]; cbn [row_failures nth].
  - rewrite head_false_count. reflexivity.
  - rewrite IH by lia. rewrite filter_tl_count. reflexivity.
Qed.

(* per-kind record predicates: a flag is false exactly on the records that violate *)
Theorem min_flag_false_iff_proof c b i :
  coarse_eqb (col_coarse c) (coarse_of (b_value b)) = true ->
  match detect_flags c (CMin (Some b)) with
  | Some fl => nth_error fl i = Some (Some false) <-> exists v, nth_error (c_cells c) i = Some (Some v) /\ sat_min b v = false
  | None => False
  end.
Proof.
  intro Hc. cbn [detect_flags]. rewrite Hc. cbn [negb]. unfold per_cell. rewrite nth_error_map.
  destruct (nth_error (c_cells c) i) as [[v|]|]; cbn [option_map]; split.
  - intro H. inversion H. eauto.
  - intros [w [Hw Hs]]. inversion Hw; subst. rewrite Hs. reflexivity.
  - discriminate.
  - intros [w [Hw _]]. discriminate.
  - discriminate.
  - intros [w [Hw _]]. discriminate.
Qed.

Theorem max_flag_false_iff_proof c b i :
  coarse_eqb (col_coarse c) (coarse_of (b_value b)) = true ->
  match detect_flags c (CMax (Some b)) with
  | Some fl => nth_error fl i = Some (Some false) <-> exists v, nth_error (c_cells c) i = Some (Some v) /\ sat_max b v = false
  | None => False
  end.
Proof.
  intro Hc. cbn [detect_flags]. rewrite Hc. cbn [negb]. unfold per_cell. rewrite nth_error_map.
  destruct (nth_error (c_cells c) i) as [[v|]|]; cbn [option_map]; split.
  - intro H. inversion H. eauto.
  - intros [w [Hw Hs]]. inversion Hw; subst. rewrite Hs. reflexivity.
  - discriminate.
  - intros [w [Hw _]]. discriminate.
  - discriminate.
  - intros [w [Hw _]]. discriminate.
Qed.

(* a type failure flags every record; a null-count failure flags exactly the null records *)
Theorem type_flags_all_proof c ts i : (i < length (c_cells c))%nat ->
  match detect_flags c (CType (Some ts)) with
  | Some fl => nth_error fl i = Some (Some false)
  | None => False
  end.
Proof.
  intro Hi. cbn [detect_flags]. unfold all_false. rewrite nth_error_map.
  destruct (nth_error (c_cells c) i) eqn:E; [reflexivity|]. apply nth_error_None in E. lia.
Qed.

Theorem max_nulls_flags_proof c n i :
  match detect_flags c (CMaxNulls (Some n)) with
  | Some fl => nth_error fl i = Some (Some false) <-> nth_error (c_cells c) i = Some None
  | None => False
  end.
Proof.
  cbn [detect_flags]. rewrite nth_error_map.
  destruct (nth_error (c_cells c) i) as [[v|]|]; cbn [option_map]; split; intro H; try discriminate; reflexivity.
Qed.

(* a null value is flagged false only by the type and null-count rules *)
Theorem null_flag_only_type_or_nulls_proof c k fl i :
  detect_flags c k = Some fl -> nth_error (c_cells c) i = Some None -> nth_error fl i = Some (Some false) ->
  (exists ts, k = CType (Some ts)) \/ (exists n, k = CMaxNulls (Some n)) \/
  (* or the whole column is flagged because the constraint cannot apply to a column of this type *)
  fl = all_false c.
Proof.
  intros Hd Hn Hf.
  destruct k as [[ts|]|[b|]|[b|]|[n|]|[n|]|[s|]|[n|]|[[|]|]|[vs|]|[r|]]; cbn [detect_flags] in Hd; try discriminate;
    eauto.
  - destruct (negb _); inversion Hd; subst; auto.
    unfold per_cell in Hf. rewrite nth_error_map, Hn in Hf. discriminate.
  - destruct (negb _); inversion Hd; subst; auto.
    unfold per_cell in Hf. rewrite nth_error_map, Hn in Hf. discriminate.
  - destruct (ctype_eqb _ _); inversion Hd; subst; auto.
    unfold per_cell in Hf. rewrite nth_error_map, Hn in Hf. discriminate.
  - destruct (ctype_eqb _ _); inversion Hd; subst; auto.
    unfold per_cell in Hf. rewrite nth_error_map, Hn in Hf. discriminate.
  - destruct (col_coarse c); try (inversion Hd; subst; auto; fail). destruct s; inversion Hd; subst; auto;
      unfold per_cell in Hf; rewrite nth_error_map, Hn in Hf; discriminate.
  - inversion Hd; subst. rewrite nth_error_map, Hn in Hf. discriminate.
  - inversion Hd; subst. unfold per_cell in Hf. rewrite nth_error_map, Hn in Hf. discriminate.
Qed.

(* a duplicates failure flags every member of a duplicated group *)
Theorem no_duplicates_flags_proof c i :
  match detect_flags c (CNoDup (Some true)) with
  | Some fl => nth_error fl i = Some (Some false) <->
               exists v, nth_error (c_cells c) i = Some (Some v) /\ duplicated c v = true
  | None => False
  end.
Proof.
  cbn [detect_flags]. rewrite nth_error_map.
  destruct (nth_error (c_cells c) i) as [[v|]|]; cbn [option_map]; split.
  - intro H. inversion H. exists v. split; [reflexivity|]. destruct (duplicated c v); [reflexivity|discriminate].
  - intros [w [Hw Hs]]. inversion Hw; subst. rewrite Hs. reflexivity.
  - discriminate.
  - intros [w [Hw _]]. discriminate.
  - discriminate.
  - intros [w [Hw _]]. discriminate.
Qed.

(* detection judges constraints with the verifiers of plain verification: a flag column exists
   only for a failing constraint *)
Theorem flags_only_for_failures_proof p c k fl : flags_of p c k = Some fl -> verify p (Some c) k = false.
Proof. unfold flags_of. destruct (verify p (Some c) k); [discriminate|reflexivity]. Qed.

(* an output file exists afterwards only if some constraint failed, whatever was there before *)
Theorem outfile_iff_failure_proof before failures : 0 <= failures ->
  (outfile_after before failures = true <-> failures > 0).
Proof. intro H. unfold outfile_after. rewrite Z.ltb_lt. lia. Qed.

(* ... and EVERY failing constraint gets its flag column (since the fix that writes an all-false column for a
   sign constraint on a non-numeric field and for length / rex constraints on a non-string field) *)
Theorem flags_for_every_failure_proof p c k : verify p (Some c) k = false -> flags_of p c k <> None.
Proof.
  intro Hv. unfold flags_of. rewrite Hv.
  destruct k as [[ts|]|[b|]|[b|]|[n|]|[n|]|[s|]|[n|]|[[|]|]|[vs|]|[r|]]; cbn [verify] in Hv; try discriminate;
    cbn [detect_flags]; try discriminate.
  - destruct (negb _); discriminate.
  - destruct (negb _); discriminate.
  - destruct (ctype_eqb _ _); discriminate.
  - destruct (ctype_eqb _ _); discriminate.
  - destruct (col_coarse c); [|discriminate|discriminate]. destruct s; discriminate.
  - unfold detect_rex_flags. destruct (ctype_eqb _ _); discriminate.
Qed.
