(* Proofs about the constraints model: each verifier equals the documented meaning (C02),
   discovery is tight (C07) and closed under verification (C01). *)
From Coq Require Import ZArith List Bool Lia Arith.
From Tdda Require Import Base.Sexp Base.Str Base.Sort Base.SortProofs Generated.Consts Constraints.Model.
Import ListNotations.
Open Scope Z_scope.

(* ---------------------------------------------------------------- the order on values *)

Lemma vleb_refl v : vleb v v = true.
Proof. destruct v; simpl; auto using Z.leb_refl, str_leb_refl. Qed.

Lemma vleb_coarse u v : vleb u v = true -> coarse_of u = coarse_of v.
Proof. destruct u, v; simpl; intro H; try discriminate; reflexivity. Qed.

Lemma vleb_total u v : coarse_of u = coarse_of v -> vleb u v = true \/ vleb v u = true.
Proof.
  destruct u, v; simpl; intro H; try discriminate; auto.
  - destruct (Z.leb_spec k k0); auto. right. apply Z.leb_le. lia.
  - apply str_leb_total.
  - destruct (Z.leb_spec t t0); auto. right. apply Z.leb_le. lia.
Qed.

Lemma vleb_trans u v w : vleb u v = true -> vleb v w = true -> vleb u w = true.
Proof.
  destruct u, v, w; simpl; intros H1 H2; try discriminate; try reflexivity.
  - apply Z.leb_le in H1, H2. apply Z.leb_le. lia.
  - eapply str_leb_trans; eauto.
  - apply Z.leb_le in H1, H2. apply Z.leb_le. lia.
Qed.

Lemma vltb_leb_trans u v w : vltb u v = true -> vleb v w = true -> vltb u w = true.
Proof.
  unfold vltb. intros H1 H2. apply andb_true_iff in H1 as [H1 H3]. apply negb_true_iff in H3.
  apply andb_true_iff. split; [eapply vleb_trans; eauto|]. apply negb_true_iff.
  destruct (vleb w u) eqn:E; [|reflexivity].
  assert (vleb v u = true) by (eapply vleb_trans; eauto). congruence.
Qed.

Lemma vleb_ltb_trans u v w : vleb u v = true -> vltb v w = true -> vltb u w = true.
Proof.
  unfold vltb. intros H1 H2. apply andb_true_iff in H2 as [H2 H3]. apply negb_true_iff in H3.
  apply andb_true_iff. split; [eapply vleb_trans; eauto|]. apply negb_true_iff.
  destruct (vleb w u) eqn:E; [|reflexivity].
  assert (vleb w v = true) by (eapply vleb_trans; eauto). congruence.
Qed.

(* ---------------------------------------------------------------- min / max of a column *)

Definition homogeneous (l : list value) : Prop := forall u v, In u l -> In v l -> coarse_of u = coarse_of v.

Lemma fold_vmin_spec l : forall v0, homogeneous (v0 :: l) ->
  In (fold_left vmin l v0) (v0 :: l) /\ forall v, In v (v0 :: l) -> vleb (fold_left vmin l v0) v = true.
Proof.
  induction l as [|x l IH]; intros v0 Hh; simpl.
  - split; [auto|]. intros v [<-|[]]. apply vleb_refl.
  - assert (Hh' : homogeneous (vmin v0 x :: l)).
    { intros u v Hu Hv. apply Hh.
      - destruct Hu as [<-|Hu]; [unfold vmin; destruct (vleb v0 x); simpl; auto|simpl; auto].
      - destruct Hv as [<-|Hv]; [unfold vmin; destruct (vleb v0 x); simpl; auto|simpl; auto]. }
    destruct (IH (vmin v0 x) Hh') as [Hin Hle]. split.
    + destruct Hin as [Hin|Hin]; [|simpl; auto].
      rewrite <- Hin. unfold vmin. destruct (vleb v0 x); simpl; auto.
    + assert (Hm0 : vleb (vmin v0 x) v0 = true /\ vleb (vmin v0 x) x = true).
      { unfold vmin. destruct (vleb v0 x) eqn:E; [split; [apply vleb_refl|exact E]|].
        split; [|apply vleb_refl].
        destruct (vleb_total v0 x) as [H|H]; [apply Hh; simpl; auto|congruence|exact H]. }
      intros v [<-|[<-|Hv]].
      * eapply vleb_trans; [apply Hle; left; reflexivity|apply Hm0].
      * eapply vleb_trans; [apply Hle; left; reflexivity|apply Hm0].
      * apply Hle. right. exact Hv.
Qed.

Lemma fold_vmax_spec l : forall v0, homogeneous (v0 :: l) ->
  In (fold_left vmax l v0) (v0 :: l) /\ forall v, In v (v0 :: l) -> vleb v (fold_left vmax l v0) = true.
Proof.
  induction l as [|x l IH]; intros v0 Hh; simpl.
  - split; [auto|]. intros v [<-|[]]. apply vleb_refl.
  - assert (Hh' : homogeneous (vmax v0 x :: l)).
    { intros u v Hu Hv. apply Hh.
      - destruct Hu as [<-|Hu]; [unfold vmax; destruct (vleb v0 x); simpl; auto|simpl; auto].
      - destruct Hv as [<-|Hv]; [unfold vmax; destruct (vleb v0 x); simpl; auto|simpl; auto]. }
    destruct (IH (vmax v0 x) Hh') as [Hin Hle]. split.
    + destruct Hin as [Hin|Hin]; [|simpl; auto].
      rewrite <- Hin. unfold vmax. destruct (vleb v0 x); simpl; auto.
    + assert (Hm0 : vleb v0 (vmax v0 x) = true /\ vleb x (vmax v0 x) = true).
      { unfold vmax. destruct (vleb v0 x) eqn:E; [split; [exact E|apply vleb_refl]|].
        split; [apply vleb_refl|].
        destruct (vleb_total v0 x) as [H|H]; [apply Hh; simpl; auto|congruence|exact H]. }
      intros v [<-|[<-|Hv]].
      * eapply vleb_trans; [apply Hm0|apply Hle; left; reflexivity].
      * eapply vleb_trans; [apply Hm0|apply Hle; left; reflexivity].
      * apply Hle. right. exact Hv.
Qed.

Definition well_formed (c : column) : Prop := homogeneous (non_nulls c).

Lemma col_min_spec c : well_formed c ->
  match col_min c with
  | None => non_nulls c = []
  | Some m => In m (non_nulls c) /\ forall v, In v (non_nulls c) -> vleb m v = true
  end.
Proof.
  unfold col_min, well_formed. destruct (non_nulls c) as [|v vs]; [reflexivity|]. apply fold_vmin_spec.
Qed.

Lemma col_max_spec c : well_formed c ->
  match col_max c with
  | None => non_nulls c = []
  | Some m => In m (non_nulls c) /\ forall v, In v (non_nulls c) -> vleb v m = true
  end.
Proof.
  unfold col_max, well_formed. destruct (non_nulls c) as [|v vs]; [reflexivity|]. apply fold_vmax_spec.
Qed.

(* ---------------------------------------------------------------- min / max constraints (C02) *)

(* the documented meaning for one non-null value *)
Definition sat_min (b : bound) (v : value) : bool :=
  match b_value b, b_prec b with
  | VDate _, POpen => vltb (b_value b) v
  | VDate _, _ => vleb (b_value b) v
  | _, PClosed => vleb (b_value b) v
  | _, POpen => vltb (b_value b) v
  | _, PFuzzy => vleb (b_value b) v || vleb (b_fuzzed b) v
  end.
Definition sat_max (b : bound) (v : value) : bool :=
  match b_value b, b_prec b with
  | VDate _, POpen => vltb v (b_value b)
  | VDate _, _ => vleb v (b_value b)
  | _, PClosed => vleb v (b_value b)
  | _, POpen => vltb v (b_value b)
  | _, PFuzzy => vleb v (b_value b) || vleb v (b_fuzzed b)
  end.

Lemma sat_min_mono b m v : sat_min b m = true -> vleb m v = true -> sat_min b v = true.
Proof.
  unfold sat_min. intros H Hle.
  destruct (b_value b) eqn:Ev, (b_prec b);
    try (eapply vleb_trans; eassumption); try (eapply vltb_leb_trans; eassumption);
    apply orb_true_iff in H as [H|H]; apply orb_true_iff; [left|right|left|right|left|right|left|right];
    eapply vleb_trans; eassumption.
Qed.

Lemma sat_max_mono b m v : sat_max b m = true -> vleb v m = true -> sat_max b v = true.
Proof.
  unfold sat_max. intros H Hle.
  destruct (b_value b) eqn:Ev, (b_prec b);
    try (eapply vleb_trans; eassumption); try (eapply vleb_ltb_trans; eassumption);
    apply orb_true_iff in H as [H|H]; apply orb_true_iff; [left|right|left|right|left|right|left|right];
    eapply vleb_trans; eassumption.
Qed.

Lemma verify_min_unfold p c b :
  verify p (Some c) (CMin (Some b)) =
  match col_min c with
  | None => true
  | Some m => coarse_eqb (coarse_of m) (coarse_of (b_value b)) && sat_min b m
  end.
Proof.
  simpl. destruct (col_min c) as [m|]; [|reflexivity].
  destruct (coarse_eqb (coarse_of m) (coarse_of (b_value b))); simpl; [|reflexivity].
  unfold sat_min. destruct (b_value b), (b_prec b); reflexivity.
Qed.

Lemma verify_max_unfold p c b :
  verify p (Some c) (CMax (Some b)) =
  match col_max c with
  | None => true
  | Some m => coarse_eqb (coarse_of m) (coarse_of (b_value b)) && sat_max b m
  end.
Proof.
  simpl. destruct (col_max c) as [m|]; [|reflexivity].
  destruct (coarse_eqb (coarse_of m) (coarse_of (b_value b))); simpl; [|reflexivity].
  unfold sat_max. destruct (b_value b), (b_prec b); reflexivity.
Qed.

Lemma coarse_eqb_eq a b : coarse_eqb a b = true <-> a = b.
Proof. destruct a, b; simpl; split; intro H; try discriminate; reflexivity. Qed.

(* min: satisfied iff every non-null value has the bound's coarse type and meets it *)
Theorem verify_min_spec_proof p c b : well_formed c ->
  (verify p (Some c) (CMin (Some b)) = true <->
   forall v, In v (non_nulls c) -> coarse_of v = coarse_of (b_value b) /\ sat_min b v = true).
Proof.
  intro Hw. rewrite verify_min_unfold. pose proof (col_min_spec c Hw) as Hm.
  destruct (col_min c) as [m|].
  - destruct Hm as [Hin Hle]. rewrite andb_true_iff, coarse_eqb_eq. split.
    + intros [Hc Hs] v Hv. split.
      * rewrite <- Hc. symmetry. apply vleb_coarse. apply Hle. exact Hv.
      * eapply sat_min_mono; [exact Hs|apply Hle; exact Hv].
    + intro H. apply H. exact Hin.
  - rewrite Hm. split; [intros _ v []|reflexivity].
Qed.

Theorem verify_max_spec_proof p c b : well_formed c ->
  (verify p (Some c) (CMax (Some b)) = true <->
   forall v, In v (non_nulls c) -> coarse_of v = coarse_of (b_value b) /\ sat_max b v = true).
Proof.
  intro Hw. rewrite verify_max_unfold. pose proof (col_max_spec c Hw) as Hm.
  destruct (col_max c) as [m|].
  - destruct Hm as [Hin Hle]. rewrite andb_true_iff, coarse_eqb_eq. split.
    + intros [Hc Hs] v Hv. split.
      * rewrite <- Hc. apply vleb_coarse. apply Hle. exact Hv.
      * eapply sat_max_mono; [exact Hs|apply Hle; exact Hv].
    + intro H. apply H. exact Hin.
  - rewrite Hm. split; [intros _ v []|reflexivity].
Qed.

(* a zero bound is never fuzzy when the oracle multiplication is exact at zero *)
Theorem fuzzy_zero_proof b v : b_value b = VNum 0 -> b_fuzzed b = VNum 0 -> b_prec b = PFuzzy ->
  sat_min b v = vleb (VNum 0) v /\ sat_max b v = vleb v (VNum 0).
Proof.
  intros H1 H2 H3. unfold sat_min, sat_max. rewrite H1, H2, H3. split; apply orb_diag.
Qed.

(* ---------------------------------------------------------------- sign (C02) *)

Local Arguments vleb : simpl never.
Local Arguments vltb : simpl never.
Local Arguments veqb : simpl never.

Definition sat_sign (s : sign) (v : value) : bool :=
  match s with
  | SNull => false
  | SPositive => vltb (VNum 0) v
  | SNonNegative => vleb (VNum 0) v
  | SZero => veqb v (VNum 0)
  | SNonPositive => vleb v (VNum 0)
  | SNegative => vltb v (VNum 0)
  end.

Definition numeric (c : column) : Prop := forall v, In v (non_nulls c) -> coarse_of v = KNumber.

Lemma veqb_zero_between m M v :
  veqb m (VNum 0) = true -> veqb M (VNum 0) = true -> vleb m v = true -> vleb v M = true ->
  veqb v (VNum 0) = true.
Proof.
  unfold veqb. intros H1 H2 H3 H4.
  apply andb_true_iff in H1 as [H1a H1b]. apply andb_true_iff in H2 as [H2a H2b].
  apply andb_true_iff. split.
  - exact (vleb_trans _ _ _ H4 H2a).
  - exact (vleb_trans _ _ _ H1b H3).
Qed.

Theorem verify_sign_spec_proof p c s : well_formed c -> numeric c ->
  (verify p (Some c) (CSign (Some s)) = true <-> forall v, In v (non_nulls c) -> sat_sign s v = true).
Proof.
  intros Hw Hn. simpl.
  pose proof (col_min_spec c Hw) as Hm. pose proof (col_max_spec c Hw) as HM.
  destruct (col_min c) as [m|], (col_max c) as [M|].
  - destruct Hm as [Hmin Hmle]. destruct HM as [HMin HMle].
    rewrite (Hn m Hmin).
    destruct s; simpl; split; intro H; try discriminate.
    + intros v Hv. eapply vltb_leb_trans; [exact H|apply Hmle; exact Hv].
    + apply H. exact Hmin.
    + intros v Hv. eapply vleb_trans; [exact H|apply Hmle; exact Hv].
    + apply H. exact Hmin.
    + apply andb_true_iff in H as [H1 H2]. intros v Hv.
      exact (veqb_zero_between m M v H1 H2 (Hmle v Hv) (HMle v Hv)).
    + apply andb_true_iff. split; apply H; assumption.
    + intros v Hv. eapply vleb_trans; [apply HMle; exact Hv|exact H].
    + apply H. exact HMin.
    + intros v Hv. eapply vleb_ltb_trans; [apply HMle; exact Hv|exact H].
    + apply H. exact HMin.
    + specialize (H m Hmin). discriminate.
  - destruct Hm as [Hin _]. rewrite HM in Hin. destruct Hin.
  - destruct HM as [Hin _]. rewrite Hm in Hin. destruct Hin.
  - rewrite Hm. split; [intros _ v []|reflexivity].
Qed.

(* ---------------------------------------------------------------- string lengths (C02) *)

Lemma fold_zmin_spec l : forall x0,
  In (fold_left Z.min l x0) (x0 :: l) /\ forall x, In x (x0 :: l) -> fold_left Z.min l x0 <= x.
Proof.
  induction l as [|y l IH]; intros x0; simpl.
  - split; [auto|]. intros x [<-|[]]. lia.
  - destruct (IH (Z.min x0 y)) as [Hin Hle]. split.
    + destruct Hin as [Hin|Hin]; [|simpl; auto]. rewrite <- Hin.
      destruct (Z.min_spec x0 y) as [[_ ->]|[_ ->]]; simpl; auto.
    + intros x [<-|[<-|Hx]].
      * specialize (Hle (Z.min x0 y) (or_introl eq_refl)). lia.
      * specialize (Hle (Z.min x0 y) (or_introl eq_refl)). lia.
      * apply Hle. right. exact Hx.
Qed.

Lemma fold_zmax_spec l : forall x0,
  In (fold_left Z.max l x0) (x0 :: l) /\ forall x, In x (x0 :: l) -> x <= fold_left Z.max l x0.
Proof.
  induction l as [|y l IH]; intros x0; simpl.
  - split; [auto|]. intros x [<-|[]]. lia.
  - destruct (IH (Z.max x0 y)) as [Hin Hle]. split.
    + destruct Hin as [Hin|Hin]; [|simpl; auto]. rewrite <- Hin.
      destruct (Z.max_spec x0 y) as [[_ ->]|[_ ->]]; simpl; auto.
    + intros x [<-|[<-|Hx]].
      * specialize (Hle (Z.max x0 y) (or_introl eq_refl)). lia.
      * specialize (Hle (Z.max x0 y) (or_introl eq_refl)). lia.
      * apply Hle. right. exact Hx.
Qed.

Theorem verify_min_length_spec_proof p c n : c_type c = TString ->
  (verify p (Some c) (CMinLen (Some n)) = true <-> forall v, In v (non_nulls c) -> n <= str_len v).
Proof.
  intro Ht. simpl. rewrite Ht. simpl. unfold lengths, zmin_list.
  destruct (non_nulls c) as [|v0 vs]; simpl; [split; [intros _ v []|reflexivity]|].
  destruct (fold_zmin_spec (map str_len vs) (str_len v0)) as [Hin Hle]. rewrite Z.leb_le. split.
  - intros H v Hv. assert (In (str_len v) (str_len v0 :: map str_len vs)).
    { destruct Hv as [<-|Hv]; [left; reflexivity|right; apply in_map; exact Hv]. }
    specialize (Hle _ H0). lia.
  - intro H. destruct Hin as [Hin|Hin].
    + rewrite <- Hin. apply H. left; reflexivity.
    + apply in_map_iff in Hin as [v [<- Hv]]. apply H. right; exact Hv.
Qed.

Theorem verify_max_length_spec_proof p c n : c_type c = TString ->
  (verify p (Some c) (CMaxLen (Some n)) = true <-> forall v, In v (non_nulls c) -> str_len v <= n).
Proof.
  intro Ht. simpl. rewrite Ht. simpl. unfold lengths, zmax_list.
  destruct (non_nulls c) as [|v0 vs]; simpl; [split; [intros _ v []|reflexivity]|].
  destruct (fold_zmax_spec (map str_len vs) (str_len v0)) as [Hin Hle]. rewrite Z.leb_le. split.
  - intros H v Hv. assert (In (str_len v) (str_len v0 :: map str_len vs)).
    { destruct Hv as [<-|Hv]; [left; reflexivity|right; apply in_map; exact Hv]. }
    specialize (Hle _ H0). lia.
  - intro H. destruct Hin as [Hin|Hin].
    + rewrite <- Hin. apply H. left; reflexivity.
    + apply in_map_iff in Hin as [v [<- Hv]]. apply H. right; exact Hv.
Qed.

Theorem length_on_non_string_fails_proof p c n : c_type c <> TString ->
  verify p (Some c) (CMinLen (Some n)) = false /\ verify p (Some c) (CMaxLen (Some n)) = false.
Proof. intro H. simpl. destruct (c_type c); try congruence; auto. Qed.

(* ---------------------------------------------------------------- nulls, missing fields, null constraints *)

Theorem verify_max_nulls_spec_proof p c n :
  verify p (Some c) (CMaxNulls (Some n)) = true <-> null_count c <= n.
Proof. simpl. apply Z.leb_le. Qed.

Definition null_valued (k : constr) : bool :=
  match k with
  | CType None | CMin None | CMax None | CMinLen None | CMaxLen None | CSign None | CMaxNulls None
  | CNoDup None | CAllowed None | CRex None => true
  | _ => false
  end.

Theorem missing_field_fails_proof p k : verify p None k = false.
Proof. reflexivity. Qed.

Theorem null_value_passes_proof p c k : null_valued k = true -> verify p (Some c) k = true.
Proof. destruct k as [[?|]|[?|]|[?|]|[?|]|[?|]|[?|]|[?|]|[?|]|[?|]|[?|]]; simpl; intro H; try discriminate; reflexivity. Qed.

(* ---------------------------------------------------------------- totals (C02) *)

Lemma count_true_cons b l : count_true (b :: l) = (if b then 1 else 0) + count_true l.
Proof. unfold count_true. destruct b; cbn [filter length]; lia. Qed.
Lemma count_false_cons b l : count_false (b :: l) = (if b then 0 else 1) + count_false l.
Proof. unfold count_false. destruct b; cbn [filter length negb]; lia. Qed.

Lemma count_true_false_length l : 0 + count_true l + (0 + count_false l) = Z.of_nat (length l).
Proof.
  induction l as [|b l IH]; [reflexivity|].
  rewrite count_true_cons, count_false_cons. cbn [length]. rewrite Nat2Z.inj_succ. destruct b; lia.
Qed.

Lemma verify_field_fold vs : forall acc,
  let r := fold_left (fun acc v => {| fr_verdicts := fr_verdicts acc ++ [v];
                                      fr_passes := if v then fr_passes acc + 1 else fr_passes acc;
                                      fr_failures := if v then fr_failures acc else fr_failures acc + 1 |})
                     vs acc in
  fr_verdicts r = fr_verdicts acc ++ vs /\
  fr_passes r = fr_passes acc + count_true vs /\
  fr_failures r = fr_failures acc + count_false vs.
Proof.
  induction vs as [|v vs IH]; intros acc; cbn [fold_left].
  - rewrite app_nil_r. unfold count_true, count_false. cbn. repeat split; lia.
  - specialize (IH {| fr_verdicts := fr_verdicts acc ++ [v];
                      fr_passes := if v then fr_passes acc + 1 else fr_passes acc;
                      fr_failures := if v then fr_failures acc else fr_failures acc + 1 |}).
    cbn [fr_verdicts fr_passes fr_failures] in IH. destruct IH as (H1 & H2 & H3).
    rewrite H1, H2, H3, <- app_assoc, count_true_cons, count_false_cons.
    destruct v; cbn [app]; repeat split; lia.
Qed.

Theorem field_totals_spec_proof p col ks :
  let r := verify_field p col ks in
  fr_verdicts r = map (verify p col) ks /\
  fr_passes r = count_true (map (verify p col) ks) /\
  fr_failures r = count_false (map (verify p col) ks) /\
  fr_passes r + fr_failures r = Z.of_nat (length ks).
Proof.
  unfold verify_field.
  destruct (verify_field_fold (map (verify p col) ks) {| fr_verdicts := []; fr_passes := 0; fr_failures := 0 |})
    as (H1 & H2 & H3). simpl in *. rewrite H1, H2, H3. repeat split.
  rewrite <- (map_length (verify p col) ks). apply count_true_false_length.
Qed.

Theorem dataset_totals_spec_proof p fields :
  let v := verify_dataset p fields in
  v_fields v = map (fun f => verify_field p (fst f) (snd f)) fields /\
  v_passes v = fold_right Z.add 0 (map fr_passes (v_fields v)) /\
  v_failures v = fold_right Z.add 0 (map fr_failures (v_fields v)).
Proof.
  unfold verify_dataset.
  assert (G : forall fs acc,
    let v := fold_left (fun acc f => let r := verify_field p (fst f) (snd f) in
                          {| v_fields := v_fields acc ++ [r]; v_passes := v_passes acc + fr_passes r;
                             v_failures := v_failures acc + fr_failures r |}) fs acc in
    v_fields v = v_fields acc ++ map (fun f => verify_field p (fst f) (snd f)) fs /\
    v_passes v = v_passes acc + fold_right Z.add 0 (map fr_passes (map (fun f => verify_field p (fst f) (snd f)) fs)) /\
    v_failures v = v_failures acc + fold_right Z.add 0 (map fr_failures (map (fun f => verify_field p (fst f) (snd f)) fs))).
  { induction fs as [|f fs IH]; intros acc; simpl.
    - rewrite app_nil_r. repeat split; lia.
    - specialize (IH {| v_fields := v_fields acc ++ [verify_field p (fst f) (snd f)];
                        v_passes := v_passes acc + fr_passes (verify_field p (fst f) (snd f));
                        v_failures := v_failures acc + fr_failures (verify_field p (fst f) (snd f)) |}).
      simpl in IH. destruct IH as (H1 & H2 & H3). rewrite H1, H2, H3, <- app_assoc. simpl.
      repeat split; lia. }
  destruct (G fields {| v_fields := []; v_passes := 0; v_failures := 0 |}) as (H1 & H2 & H3).
  simpl in *. rewrite H1. repeat split; assumption.
Qed.

(* ---------------------------------------------------------------- type (C02) *)

Definition type_meaning (strict : bool) (c : column) (ts : list ctype) : bool :=
  existsb (ctype_eqb (c_type c)) ts ||
  (negb strict &&
   ((ctype_eqb (c_type c) TReal && (existsb (ctype_eqb TInt) ts || existsb (ctype_eqb TBool) ts) &&
     forallb is_whole (non_nulls c)) ||
    (ctype_eqb (c_type c) TString && existsb (ctype_eqb TBool) ts &&
     match non_nulls c with [] => true | _ => false end))).

Lemma filter_none_forallb {T} (f : T -> bool) l :
  Z.eqb (Z.of_nat (length (filter (fun v => negb (f v)) l))) 0 = forallb f l.
Proof.
  induction l as [|x l IH]; [reflexivity|]. cbn [filter forallb].
  destruct (f x); cbn [negb andb]; [exact IH|]. cbn [length]. rewrite Nat2Z.inj_succ.
  destruct (Z.eqb_spec (Z.succ (Z.of_nat (length (filter (fun v => negb (f v)) l)))) 0); [lia|reflexivity].
Qed.

Theorem verify_type_spec_proof p c ts :
  verify p (Some c) (CType (Some ts)) = type_meaning (p_strict p) c ts.
Proof.
  simpl. unfold type_meaning, non_integer_count. rewrite filter_none_forallb.
  destruct (p_strict p); simpl.
  - rewrite orb_false_r. reflexivity.
  - destruct (existsb (ctype_eqb (c_type c)) ts) eqn:E; simpl; [reflexivity|].
    destruct (c_type c); simpl in *; rewrite ?andb_false_r, ?orb_false_r; simpl; try reflexivity.
    + destruct (existsb (ctype_eqb TInt) ts || existsb (ctype_eqb TBool) ts); simpl;
        rewrite ?orb_false_r; reflexivity.
    + destruct (existsb (ctype_eqb TBool) ts); reflexivity.
Qed.

(* ---------------------------------------------------------------- no duplicates (C02) *)

Inductive NoDupV : list value -> Prop :=
| NDV_nil : NoDupV []
| NDV_cons x l : (forall y, In y l -> veqb x y = false) -> NoDupV l -> NoDupV (x :: l).

Lemma filter_length_le {T} (f : T -> bool) l : (length (filter f l) <= length l)%nat.
Proof. induction l as [|x l IH]; simpl; [lia|]. destruct (f x); simpl; lia. Qed.

Lemma filter_length_eq_all {T} (f : T -> bool) l :
  length (filter f l) = length l -> forall x, In x l -> f x = true.
Proof.
  induction l as [|y l IH]; simpl; intros H x Hx; [destruct Hx|].
  destruct (f y) eqn:E; simpl in H.
  - destruct Hx as [<-|Hx]; [exact E|]. apply IH; [lia|exact Hx].
  - pose proof (filter_length_le f l). lia.
Qed.

Lemma filter_all_id {T} (f : T -> bool) l : (forall x, In x l -> f x = true) -> filter f l = l.
Proof.
  induction l as [|y l IH]; simpl; intro H; [reflexivity|].
  rewrite (H y (or_introl eq_refl)). f_equal. apply IH. intros x Hx. apply H. right; exact Hx.
Qed.

Lemma vdedup_length_le l : (length (vdedup l) <= length l)%nat.
Proof.
  induction l as [|x l IH]; simpl; [lia|].
  pose proof (filter_length_le (fun y => negb (veqb x y)) (vdedup l)). lia.
Qed.

Lemma NoDupV_vdedup l : NoDupV l -> vdedup l = l.
Proof.
  induction 1 as [|x l Hx Hnd IH]; simpl; [reflexivity|]. rewrite IH. f_equal.
  apply filter_all_id. intros y Hy. rewrite (Hx y Hy). reflexivity.
Qed.

Lemma vdedup_length_NoDupV l : length (vdedup l) = length l -> NoDupV l.
Proof.
  induction l as [|x l IH]; simpl; intro H; [constructor|].
  pose proof (filter_length_le (fun y => negb (veqb x y)) (vdedup l)) as H1.
  pose proof (vdedup_length_le l) as H2.
  assert (Hl : length (vdedup l) = length l) by lia.
  specialize (IH Hl). constructor; [|exact IH].
  intros y Hy. rewrite <- (NoDupV_vdedup l IH) in Hy.
  assert (Hf : length (filter (fun y => negb (veqb x y)) (vdedup l)) = length (vdedup l)) by lia.
  pose proof (filter_length_eq_all _ _ Hf y Hy) as Hb. apply negb_true_iff in Hb. exact Hb.
Qed.

Theorem verify_no_duplicates_spec_proof p c :
  verify p (Some c) (CNoDup (Some true)) = true <-> NoDupV (non_nulls c).
Proof.
  simpl. unfold nunique, non_null_count. rewrite Z.eqb_eq, Nat2Z.inj_iff. split.
  - apply vdedup_length_NoDupV.
  - intro H. rewrite (NoDupV_vdedup _ H). reflexivity.
Qed.

(* ---------------------------------------------------------------- rex (oracle) *)

Theorem verify_rex_spec_proof p c oks :
  verify p (Some c) (CRex (Some oks)) = (ctype_eqb (c_type c) TString && forallb (fun b => b) oks).
Proof. simpl. destruct (ctype_eqb (c_type c) TString); reflexivity. Qed.

(* ---------------------------------------------------------------- independence (C02) *)

Theorem null_constraint_irrelevant_proof p col ks1 ks2 k :
  map (verify p col) (ks1 ++ k :: ks2) =
  map (verify p col) ks1 ++ verify p col k :: map (verify p col) ks2.
Proof. rewrite map_app. reflexivity. Qed.


(* ---------------------------------------------------------------- discovery: tightness (C07) *)

(* min: reported iff there are records, the field is not a string and some value is non-null;
   the reported bound is a member of the data and a lower bound of it *)
Theorem disc_min_attained_proof c : well_formed c ->
  match d_min c with
  | [] => has_rows c = false \/ is_str c = true \/ non_nulls c = []
  | [CMin (Some b)] => b_value b = b_fuzzed b /\ In (b_value b) (non_nulls c) /\
                       forall v, In v (non_nulls c) -> vleb (b_value b) v = true
  | _ => False
  end.
Proof.
  intro Hw. unfold d_min. pose proof (col_min_spec c Hw) as Hm.
  destruct (has_rows c); simpl; [|auto]. destruct (is_str c); simpl; [auto|].
  destruct (col_min c) as [m|]; simpl; [|auto]. destruct Hm. auto.
Qed.

Theorem disc_max_attained_proof c : well_formed c ->
  match d_max c with
  | [] => has_rows c = false \/ is_str c = true \/ non_nulls c = []
  | [CMax (Some b)] => b_value b = b_fuzzed b /\ In (b_value b) (non_nulls c) /\
                       forall v, In v (non_nulls c) -> vleb v (b_value b) = true
  | _ => False
  end.
Proof.
  intro Hw. unfold d_max. pose proof (col_max_spec c Hw) as Hm.
  destruct (has_rows c); simpl; [|auto]. destruct (is_str c); simpl; [auto|].
  destruct (col_max c) as [m|]; simpl; [|auto]. destruct Hm. auto.
Qed.

Lemma zmin_list_spec l :
  match zmin_list l with
  | None => l = []
  | Some m => In m l /\ forall x, In x l -> m <= x
  end.
Proof. destruct l as [|x l]; simpl; [reflexivity|]. apply fold_zmin_spec. Qed.
Lemma zmax_list_spec l :
  match zmax_list l with
  | None => l = []
  | Some m => In m l /\ forall x, In x l -> x <= m
  end.
Proof. destruct l as [|x l]; simpl; [reflexivity|]. apply fold_zmax_spec. Qed.

(* lengths: the shortest / longest length in characters, attained by some record *)
Theorem disc_lengths_proof c :
  match d_min_length c with
  | [] => has_rows c = false \/ is_str c = false \/ non_nulls c = []
  | [CMinLen (Some m)] => (exists v, In v (non_nulls c) /\ str_len v = m) /\
                          forall v, In v (non_nulls c) -> m <= str_len v
  | _ => False
  end /\
  match d_max_length c with
  | [] => has_rows c = false \/ is_str c = false \/ non_nulls c = []
  | [CMaxLen (Some m)] => (exists v, In v (non_nulls c) /\ str_len v = m) /\
                          forall v, In v (non_nulls c) -> str_len v <= m
  | _ => False
  end.
Proof.
  unfold d_min_length, d_max_length, lengths.
  destruct (has_rows c); simpl; [|auto]. destruct (is_str c); simpl; [|auto].
  pose proof (zmin_list_spec (map str_len (non_nulls c))) as Hm.
  pose proof (zmax_list_spec (map str_len (non_nulls c))) as HM.
  split.
  - destruct (zmin_list _) as [m|]; simpl.
    + destruct Hm as [Hin Hle]. apply in_map_iff in Hin as [v [Hv Hin]]. split; [eauto|].
      intros w Hw. apply Hle. apply in_map. exact Hw.
    + right. right. destruct (non_nulls c); [reflexivity|discriminate].
  - destruct (zmax_list _) as [m|]; simpl.
    + destruct HM as [Hin Hle]. apply in_map_iff in Hin as [v [Hv Hin]]. split; [eauto|].
      intros w Hw. apply Hle. apply in_map. exact Hw.
    + right. right. destruct (non_nulls c); [reflexivity|discriminate].
Qed.

(* max_nulls: the null count when that is 0 or 1, otherwise absent *)
Theorem disc_max_nulls_proof c :
  d_max_nulls c = if has_rows c && (Z.eqb (null_count c) 0 || Z.eqb (null_count c) 1)
                  then [CMaxNulls (Some (null_count c))] else [].
Proof.
  unfold d_max_nulls. assert (0 <= null_count c) by (unfold null_count; lia).
  destruct (has_rows c); simpl; [|reflexivity].
  destruct (Z.ltb_spec (null_count c) 2), (Z.eqb_spec (null_count c) 0), (Z.eqb_spec (null_count c) 1);
    simpl; try reflexivity; lia.
Qed.

(* no_duplicates: exactly when a non-real field has more than one non-null value, all distinct *)
Lemma nodup_rule_counted c : counts_distinct (c_type c) = true ->
  (d_no_duplicates c = [CNoDup (Some true)] <->
   has_rows c = true /\ (1 < Z.of_nat (length (non_nulls c))) /\ NoDupV (non_nulls c)).
Proof.
  intro Ht. unfold d_no_duplicates, nunique_used, nunique, non_null_count. rewrite Ht.
  assert (Hr : negb (ctype_eqb (c_type c) TReal) = true) by (destruct (c_type c); try reflexivity; discriminate).
  rewrite Hr, andb_true_r.
  destruct (has_rows c); cbn [andb]; [|split; [discriminate|intros [H _]; discriminate]].
  destruct (Z.eqb_spec (Z.of_nat (length (vdedup (non_nulls c)))) (Z.of_nat (length (non_nulls c)))) as [E|E];
    cbn [andb].
  - apply Nat2Z.inj in E. rewrite E.
    destruct (Z.ltb_spec 1 (Z.of_nat (length (non_nulls c)))).
    + split; [intros _|reflexivity]. repeat split; auto. apply vdedup_length_NoDupV. exact E.
    + split; [discriminate|]. intros (_ & H1 & _). lia.
  - split; [discriminate|]. intros (_ & _ & Hnd). rewrite (NoDupV_vdedup _ Hnd) in E. congruence.
Qed.

Lemma nodup_rule_other c : counts_distinct (c_type c) = false -> d_no_duplicates c = [].
Proof.
  intros H. unfold d_no_duplicates, nunique_used. rewrite H. change (1 <? -1) with false. rewrite andb_false_r. reflexivity.
Qed.

Theorem disc_no_duplicates_iff_proof c :
  d_no_duplicates c = [CNoDup (Some true)] <->
  has_rows c = true /\ counts_distinct (c_type c) = true /\
  (1 < Z.of_nat (length (non_nulls c))) /\ NoDupV (non_nulls c).
Proof.
  destruct (counts_distinct (c_type c)) eqn:Et.
  - rewrite nodup_rule_counted by exact Et. split.
    + intros (H1 & H2 & H3). repeat split; auto.
    + intros (H1 & _ & H2 & H3). repeat split; auto.
  - rewrite nodup_rule_other by exact Et. split; [discriminate|]. intros (_ & H & _). discriminate.
Qed.

(* sign: the reported class holds for every value and no stronger class does *)
Definition stronger (a b : sign) : bool :=
  match a, b with
  | SPositive, SNonNegative | SZero, SNonNegative | SZero, SNonPositive | SNegative, SNonPositive => true
  | _, _ => false
  end.

Lemma discover_sign_sound m M s : discover_sign m M = Some s ->
  coarse_of m = KNumber -> vleb m M = true ->
  match s with
  | SZero => veqb m (VNum 0) = true /\ veqb M (VNum 0) = true
  | SPositive => vltb (VNum 0) m = true
  | SNonNegative => vleb (VNum 0) m = true /\ vltb (VNum 0) m = false
  | SNegative => vltb M (VNum 0) = true
  | SNonPositive => vleb M (VNum 0) = true /\ vltb M (VNum 0) = false
  | SNull => False
  end.
Proof.
  unfold discover_sign. intros H Hc Hle.
  destruct (veqb m (VNum 0) && veqb M (VNum 0)) eqn:E0.
  - inversion H; subst. apply andb_true_iff in E0. exact E0.
  - destruct (vleb (VNum 0) m) eqn:E1.
    + destruct (vltb (VNum 0) m) eqn:E2; inversion H; subst; auto.
    + destruct (vleb M (VNum 0)) eqn:E3; [|discriminate].
      destruct (vltb M (VNum 0)) eqn:E4; inversion H; subst; auto.
Qed.

Theorem disc_sign_holds_proof c s : well_formed c -> numeric c ->
  In (CSign (Some s)) (d_sign c) -> forall v, In v (non_nulls c) -> sat_sign s v = true.
Proof.
  intros Hw Hn Hin. unfold d_sign in Hin.
  destruct (has_rows c && negb (is_str c) && negb (ctype_eqb (c_type c) TDate)); [|destruct Hin].
  pose proof (col_min_spec c Hw) as Hm. pose proof (col_max_spec c Hw) as HM.
  destruct (col_min c) as [m|]; [|destruct Hin]. destruct (col_max c) as [M|]; [|destruct Hin].
  destruct Hm as [Hmin Hmle]. destruct HM as [HMin HMle].
  destruct (discover_sign m M) as [s'|] eqn:Es; [|destruct Hin].
  destruct Hin as [Hin|[]]. inversion Hin; subst s'. clear Hin.
  pose proof (discover_sign_sound m M s Es (Hn m Hmin) (Hmle M HMin)) as Hs.
  intros v Hv. destruct s; simpl.
  - eapply vltb_leb_trans; [exact Hs|apply Hmle; exact Hv].
  - destruct Hs as [Hs _]. eapply vleb_trans; [exact Hs|apply Hmle; exact Hv].
  - destruct Hs as [H1 H2]. exact (veqb_zero_between m M v H1 H2 (Hmle v Hv) (HMle v Hv)).
  - destruct Hs as [Hs _]. eapply vleb_trans; [apply HMle; exact Hv|exact Hs].
  - eapply vleb_ltb_trans; [apply HMle; exact Hv|exact Hs].
  - destruct Hs.
Qed.

(* no stronger class holds: the witness is the minimum or the maximum *)
Theorem disc_sign_strongest_proof c s s' : well_formed c -> numeric c ->
  In (CSign (Some s)) (d_sign c) -> stronger s' s = true ->
  exists v, In v (non_nulls c) /\ sat_sign s' v = false.
Proof.
  intros Hw Hn Hin Hst. unfold d_sign in Hin.
  destruct (has_rows c && negb (is_str c) && negb (ctype_eqb (c_type c) TDate)); [|destruct Hin].
  pose proof (col_min_spec c Hw) as Hm. pose proof (col_max_spec c Hw) as HM.
  destruct (col_min c) as [m|]; [|destruct Hin]. destruct (col_max c) as [M|]; [|destruct Hin].
  destruct Hm as [Hmin Hmle]. destruct HM as [HMin HMle].
  destruct (discover_sign m M) as [s0|] eqn:Es; [|destruct Hin].
  destruct Hin as [Hin|[]]. inversion Hin; subst s0. clear Hin.
  pose proof (discover_sign_sound m M s Es (Hn m Hmin) (Hmle M HMin)) as Hs.
  unfold discover_sign in Es.
  destruct s', s; simpl in Hst; try discriminate.
  - (* positive vs non-negative: the minimum is not positive *)
    exists m. split; [exact Hmin|]. simpl. apply Hs.
  - (* zero vs non-negative: were all zero, zero would have been reported *)
    destruct (veqb m (VNum 0) && veqb M (VNum 0)) eqn:E0; [discriminate|].
    apply andb_false_iff in E0 as [E0|E0]; [exists m|exists M]; simpl; auto.
  - destruct (veqb m (VNum 0) && veqb M (VNum 0)) eqn:E0; [discriminate|].
    apply andb_false_iff in E0 as [E0|E0]; [exists m|exists M]; simpl; auto.
  - exists M. split; [exact HMin|]. simpl. apply Hs.
Qed.

(* nothing but the type is discovered for data that is absent *)
Theorem disc_nothing_for_empty_proof c rex : c_cells c = [] -> c_type c <> TOther ->
  exists t, discover c rex = Some ([CType (Some [t])] ++ d_rex c rex) /\ t = c_type c.
Proof.
  intros He Ht. unfold discover, d_min, d_max, d_min_length, d_max_length, d_sign, d_max_nulls,
    d_no_duplicates, d_allowed, has_rows, nrecords. rewrite He. simpl.
  destruct (c_type c) eqn:E; try congruence; eexists; split; reflexivity.
Qed.

(* ---------------------------------------------------------------- closure: discovered constraints hold (C01) *)

Definition well_typed (c : column) : Prop :=
  well_formed c /\
  (c_type c = TBool \/ c_type c = TInt \/ c_type c = TReal -> numeric c).

Lemma ctype_eqb_refl t : ctype_eqb t t = true.
Proof. destruct t; reflexivity. Qed.

Lemma sat_min_exact m : sat_min (exact_bound m) m = true.
Proof. unfold sat_min, exact_bound. simpl. destruct m; rewrite ?vleb_refl; reflexivity. Qed.
Lemma sat_max_exact m : sat_max (exact_bound m) m = true.
Proof. unfold sat_max, exact_bound. simpl. destruct m; rewrite ?vleb_refl; reflexivity. Qed.

Lemma coarse_eqb_refl k : coarse_eqb k k = true.
Proof. destruct k; reflexivity. Qed.

Lemma closure_min p c k : In k (d_min c) -> verify p (Some c) k = true.
Proof.
  unfold d_min. destruct (has_rows c && negb (is_str c)); [|intros []].
  destruct (col_min c) as [m|] eqn:E; [|intros []]. intros [<-|[]].
  rewrite verify_min_unfold, E. cbn [exact_bound b_value]. rewrite coarse_eqb_refl, sat_min_exact. reflexivity.
Qed.

Lemma closure_max p c k : In k (d_max c) -> verify p (Some c) k = true.
Proof.
  unfold d_max. destruct (has_rows c && negb (is_str c)); [|intros []].
  destruct (col_max c) as [m|] eqn:E; [|intros []]. intros [<-|[]].
  rewrite verify_max_unfold, E. cbn [exact_bound b_value]. rewrite coarse_eqb_refl, sat_max_exact. reflexivity.
Qed.

Lemma closure_min_length p c k : In k (d_min_length c) -> verify p (Some c) k = true.
Proof.
  unfold d_min_length, is_str. destruct (has_rows c); cbn [andb]; [|intros []].
  destruct (ctype_eqb (c_type c) TString) eqn:Et; [|intros []].
  destruct (zmin_list (lengths c)) as [m|] eqn:E; [|intros []]. intros [<-|[]].
  cbn [verify]. rewrite Et, E. cbn [negb]. apply Z.leb_refl.
Qed.

Lemma closure_max_length p c k : In k (d_max_length c) -> verify p (Some c) k = true.
Proof.
  unfold d_max_length, is_str. destruct (has_rows c); cbn [andb]; [|intros []].
  destruct (ctype_eqb (c_type c) TString) eqn:Et; [|intros []].
  destruct (zmax_list (lengths c)) as [m|] eqn:E; [|intros []]. intros [<-|[]].
  cbn [verify]. rewrite Et, E. cbn [negb]. apply Z.leb_refl.
Qed.

Lemma closure_sign p c k : well_typed c -> c_type c <> TOther -> In k (d_sign c) -> verify p (Some c) k = true.
Proof.
  intros [Hw Hn] Ho Hin.
  assert (Hnum : numeric c).
  { unfold d_sign, is_str in Hin. apply Hn.
    destruct (c_type c); try congruence; auto; simpl in Hin; rewrite ?andb_false_r in Hin; destruct Hin. }
  assert (exists s, k = CSign (Some s)) as [s ->].
  { unfold d_sign in Hin. destruct (has_rows c && negb (is_str c) && negb (ctype_eqb (c_type c) TDate)); [|destruct Hin].
    destruct (col_min c); [|destruct Hin]. destruct (col_max c); [|destruct Hin].
    destruct (discover_sign v v0); [|destruct Hin]. destruct Hin as [<-|[]]. eauto. }
  apply (verify_sign_spec_proof p c s Hw Hnum). apply (disc_sign_holds_proof c s Hw Hnum Hin).
Qed.

Lemma closure_max_nulls p c k : In k (d_max_nulls c) -> verify p (Some c) k = true.
Proof.
  unfold d_max_nulls. destruct (has_rows c && (null_count c <? 2)); [|intros []].
  intros [<-|[]]. cbn [verify]. apply Z.leb_refl.
Qed.

Lemma closure_no_duplicates p c k : In k (d_no_duplicates c) -> verify p (Some c) k = true.
Proof.
  intro Hin. destruct (counts_distinct (c_type c)) eqn:Et.
  - assert (d_no_duplicates c = [CNoDup (Some true)]) as Hd
      by (destruct (d_no_duplicates c) eqn:E; [destruct Hin|];
          unfold d_no_duplicates in E; destruct (_ && _ && _ && _); inversion E; reflexivity).
    rewrite Hd in Hin. destruct Hin as [<-|[]].
    apply verify_no_duplicates_spec_proof. apply nodup_rule_counted in Hd; [tauto|exact Et].
  - rewrite nodup_rule_other in Hin by exact Et. destruct Hin.
Qed.

Lemma uniques_length c : Z.of_nat (length (uniques c)) = nunique c.
Proof.
  unfold uniques, nunique. f_equal.
  rewrite <- (Permutation.Permutation_length (isort_Permutation _)). apply map_length.
Qed.

Lemma forallb_mem_self l : forallb (fun u => mem_str u l) l = true.
Proof. apply forallb_forall. intros x Hx. apply mem_str_In. exact Hx. Qed.

Lemma closure_allowed p c k : In k (d_allowed c) -> verify p (Some c) k = true.
Proof.
  unfold d_allowed. destruct (_ && _ && _ && _); [|intros []]. intros [<-|[]].
  cbn [verify]. rewrite uniques_length, Z.ltb_irrefl. apply forallb_mem_self.
Qed.

Lemma closure_rex p c rex k : (forall oks, rex = Some oks -> forallb (fun b => b) oks = true) ->
  In k (d_rex c rex) -> verify p (Some c) k = true.
Proof.
  intro Hr. unfold d_rex, is_str. destruct (ctype_eqb (c_type c) TString) eqn:Et; [|intros []].
  destruct rex as [oks|]; [|intros []]. intros [<-|[]]. cbn [verify]. rewrite Et. apply Hr. reflexivity.
Qed.

(* Every constraint discovered from a column is satisfied by that column, under strict and
   sloppy type checking and for any epsilon (discovered bounds are met exactly).  The rex
   hypothesis is C03: every example is matched by one of the discovered expressions. *)
Theorem closure_proof p c rex ks : well_typed c ->
  (forall oks, rex = Some oks -> forallb (fun b => b) oks = true) ->
  discover c rex = Some ks ->
  forall k, In k ks -> verify p (Some c) k = true.
Proof.
  intros Hwt Hr Hd k Hin. unfold discover in Hd.
  assert (Ho : c_type c <> TOther) by (intro E; rewrite E in Hd; discriminate).
  assert (Hks : ks = [CType (Some [c_type c])] ++ d_min c ++ d_max c ++ d_min_length c ++ d_max_length c ++
                     d_sign c ++ d_max_nulls c ++ d_no_duplicates c ++ d_allowed c ++ d_rex c rex).
  { destruct (c_type c); try congruence; inversion Hd; reflexivity. }
  subst ks. clear Hd.
  repeat (apply in_app_or in Hin as [Hin|Hin]).
  - destruct Hin as [<-|[]]. cbn [verify existsb]. rewrite ctype_eqb_refl. cbn [orb].
    destruct (p_strict p); reflexivity.
  - apply closure_min; assumption.
  - apply closure_max; assumption.
  - apply closure_min_length; assumption.
  - apply closure_max_length; assumption.
  - apply closure_sign; assumption.
  - apply closure_max_nulls; assumption.
  - apply closure_no_duplicates; assumption.
  - apply closure_allowed; assumption.
  - eapply closure_rex; eassumption.
Qed.
