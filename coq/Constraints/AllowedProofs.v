(* C02, allowed_values: the verifier's short cut - "more distinct values than allowed values, so fail without looking
   at the values" - is exact (pigeonhole), so the verdict is the documented meaning for every string column:
   every non-null value is one of the allowed values. *)
From Coq Require Import ZArith List Bool Lia Permutation.
From Tdda Require Import Base.Sexp Base.Str Base.Sort Base.SortProofs Generated.Consts Constraints.Model Constraints.ModelProofs.
Import ListNotations.
Open Scope Z_scope.

Definition all_strings (l : list value) : Prop := forall v, In v l -> exists s, v = VStr s.

Lemma veqb_str a b : veqb (VStr a) (VStr b) = str_eqb a b.
Proof.
  unfold veqb. cbn [vleb]. destruct (str_eqb a b) eqn:E.
  - apply str_eqb_eq in E. subst. rewrite str_leb_refl. reflexivity.
  - destruct (str_leb a b) eqn:E1, (str_leb b a) eqn:E2; try reflexivity.
    rewrite (str_leb_antisym a b E1 E2), str_eqb_refl in E. discriminate.
Qed.

Lemma vdedup_In l v : In v (vdedup l) -> In v l.
Proof.
  revert v; induction l as [|x l IH]; intros v; cbn [vdedup]; [intros []|].
  intros [<-|H]; [left; reflexivity|]. apply filter_In in H as [H _]. right. apply IH. exact H.
Qed.

(* every value of a string list is veqb-equal to (so, equal to) one kept by vdedup *)
Lemma vdedup_covers l : all_strings l -> forall v, In v l -> In v (vdedup l).
Proof.
  induction l as [|x l IH]; intros Hs v; [intros []|]. cbn [vdedup].
  assert (Hs' : all_strings l) by (intros u Hu; apply Hs; right; exact Hu).
  intros [<-|Hv]; [left; reflexivity|].
  destruct (Hs x (or_introl eq_refl)) as [sx ->]. destruct (Hs v (or_intror Hv)) as [sv ->].
  destruct (str_eqb sx sv) eqn:E; [apply str_eqb_eq in E; subst; left; reflexivity|].
  right. apply filter_In. split; [apply IH; assumption|]. rewrite veqb_str, E. reflexivity.
Qed.

Lemma vdedup_NoDup_strs l : all_strings l -> NoDup (map str_of (vdedup l)).
Proof.
  induction l as [|x l IH]; intro Hs; cbn [vdedup map]; [constructor|].
  assert (Hs' : all_strings l) by (intros u Hu; apply Hs; right; exact Hu).
  destruct (Hs x (or_introl eq_refl)) as [sx ->]. cbn [str_of]. constructor.
  - intro Hin. apply in_map_iff in Hin as [v [Hv Hin]]. apply filter_In in Hin as [Hin Hn].
    destruct (Hs' v (vdedup_In l v Hin)) as [sv ->]. cbn [str_of] in Hv. subst sv.
    rewrite veqb_str, str_eqb_refl in Hn. discriminate.
  - specialize (IH Hs'). revert IH. generalize (vdedup l). intro d. induction d as [|y d IHd]; cbn [filter map]; [constructor|].
    intro Hnd. inversion Hnd as [|? ? Hny Hnd']; subst. destruct (negb (veqb (VStr sx) y)); [|apply IHd; exact Hnd'].
    cbn [map]. constructor; [|apply IHd; exact Hnd'].
    intro Hc. apply Hny. apply in_map_iff in Hc as [v [Hv Hin]]. apply filter_In in Hin as [Hin _].
    apply in_map_iff. exists v. split; assumption.
Qed.

(* the documented meaning *)
Definition allowed_meaning (c : column) (vs : list str) : bool :=
  forallb (fun v => mem_str (str_of v) vs) (non_nulls c).

Theorem verify_allowed_spec p c vs : all_strings (non_nulls c) ->
  verify p (Some c) (CAllowed (Some vs)) = allowed_meaning c vs.
Proof.
  intro Hs. cbn [verify]. unfold allowed_meaning, nunique, uniques.
  set (d := vdedup (non_nulls c)).
  assert (Hall : forallb (fun u => mem_str u vs) (sort_strs (map str_of d)) =
                 forallb (fun v => mem_str (str_of v) vs) (non_nulls c)).
  { destruct (forallb (fun v => mem_str (str_of v) vs) (non_nulls c)) eqn:E.
    - apply forallb_forall. intros u Hu. apply (Permutation_in _ (Permutation_sym (isort_Permutation _))) in Hu.
      apply in_map_iff in Hu as [v [<- Hv]]. rewrite forallb_forall in E. apply E. apply vdedup_In. exact Hv.
    - destruct (forallb (fun u => mem_str u vs) (sort_strs (map str_of d))) eqn:E2; [|reflexivity].
      rewrite forallb_forall in E2. assert (forallb (fun v => mem_str (str_of v) vs) (non_nulls c) = true); [|congruence].
      apply forallb_forall. intros v Hv. apply E2. apply (Permutation_in _ (isort_Permutation _)).
      apply in_map_iff. exists v. split; [reflexivity|]. apply vdedup_covers; assumption. }
  destruct (Z.ltb_spec (Z.of_nat (length vs)) (Z.of_nat (length d))) as [Hlt|Hge]; [|exact Hall].
  (* pigeonhole: more distinct values than allowed values *)
  rewrite <- Hall. symmetry. destruct (forallb (fun u => mem_str u vs) (sort_strs (map str_of d))) eqn:E; [|reflexivity].
  exfalso. rewrite forallb_forall in E.
  assert (Hincl : incl (map str_of d) vs).
  { intros u Hu. apply mem_str_In. apply E. apply (Permutation_in _ (isort_Permutation _)). exact Hu. }
  pose proof (NoDup_incl_length (vdedup_NoDup_strs (non_nulls c) Hs) Hincl) as Hlen. fold d in Hlen.
  rewrite map_length in Hlen. lia.
Qed.

(* non-vacuity: the short cut fires on this column, and the meaning is false there too *)
Example allowed_shortcut_example :
  let c := {| c_type := TString; c_cells := [Some (VStr [97]); None; Some (VStr [98]); Some (VStr [97]); Some (VStr [99])] |} in
  nunique c = 3 /\ allowed_meaning c [[97]; [97]] = false /\ allowed_meaning c [[99]; [98]; [97]; [100]] = true.
Proof. vm_compute. repeat split. Qed.

(* C07, allowed_values: what discovery lists is exactly the set of distinct non-null strings, each once *)
Theorem uniques_spec c : all_strings (non_nulls c) ->
  (forall s, In s (uniques c) <-> In (VStr s) (non_nulls c)) /\ NoDup (uniques c) /\
  Z.of_nat (length (uniques c)) = nunique c.
Proof.
  intro Hs. unfold uniques, nunique. set (d := vdedup (non_nulls c)).
  pose proof (isort_Permutation (map str_of d)) as Hp. split; [|split].
  - intro s. split.
    + intro H. apply (Permutation_in _ (Permutation_sym Hp)) in H. apply in_map_iff in H as [v [<- Hv]].
      apply vdedup_In in Hv. destruct (Hs v Hv) as [sv ->]. exact Hv.
    + intro H. apply (Permutation_in _ Hp). apply in_map_iff. exists (VStr s). split; [reflexivity|].
      apply vdedup_covers; assumption.
  - eapply Permutation_NoDup; [exact Hp|]. apply vdedup_NoDup_strs. exact Hs.
  - rewrite <- (Permutation_length Hp), map_length. reflexivity.
Qed.

Theorem discovered_allowed_values_tight c k : all_strings (non_nulls c) -> In k (d_allowed c) ->
  exists vs, k = CAllowed (Some vs) /\ (forall s, In s vs <-> In (VStr s) (non_nulls c)) /\ NoDup vs /\
             1 <= Z.of_nat (length vs) <= max_categories.
Proof.
  intros Hs. unfold d_allowed. destruct (has_rows c && is_str c && Z.leb (nunique c) max_categories && Z.ltb 0 (nunique c)) eqn:E; [|intros []].
  intros [<-|[]]. exists (uniques c). destruct (uniques_spec c Hs) as (H1 & H2 & H3).
  split; [reflexivity|]. split; [exact H1|]. split; [exact H2|].
  apply andb_true_iff in E as [E E4]. apply andb_true_iff in E as [E E3]. apply Z.leb_le in E3. apply Z.ltb_lt in E4. lia.
Qed.
