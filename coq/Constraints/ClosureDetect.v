(* Closure, record level: detection with constraints discovered from the same data flags no record. *)
From Coq Require Import ZArith List Bool Lia.
From Tdda Require Import Base.Sexp Base.Str Generated.Consts Constraints.Model Constraints.ModelProofs
  Constraints.Detect Constraints.DetectProofs.
Import ListNotations.
Open Scope Z_scope.

(* a field whose constraints are those discovered from its own column (the rex hypothesis is property C03) *)
Definition self_discovered (f : column * list constr) : Prop :=
  well_typed (fst f) /\
  exists rex, (forall oks, rex = Some oks -> forallb (fun b => b) oks = true) /\
              discover (fst f) rex = Some (snd f).

Lemma flags_of_discovered p c rex ks : well_typed c ->
  (forall oks, rex = Some oks -> forallb (fun b => b) oks = true) ->
  discover c rex = Some ks -> forall k, In k ks -> flags_of p c k = None.
Proof.
  intros Hw Hr Hd k Hin. unfold flags_of.
  rewrite (closure_proof p c rex ks Hw Hr Hd k Hin). reflexivity.
Qed.

Lemma no_flags_list p c ks : (forall k, In k ks -> flags_of p c k = None) ->
  flat_map (fun k => match flags_of p c k with Some l => [l] | None => [] end) ks = [].
Proof.
  induction ks as [|k ks IH]; intros Hall; [reflexivity|].
  cbn [flat_map]. rewrite (Hall k (or_introl eq_refl)). cbn [app].
  apply IH. intros k' Hk'. apply Hall. right. exact Hk'.
Qed.

Lemma no_flag_columns p fields : Forall self_discovered fields ->
  flat_map (fun f : column * list constr =>
              flat_map (fun k => match flags_of p (fst f) k with Some l => [l] | None => [] end) (snd f))
           fields = [].
Proof.
  induction 1 as [|f fs Hf _ IH]; [reflexivity|].
  cbn [flat_map]. rewrite IH, app_nil_r.
  destruct Hf as [Hw [rex [Hr Hd]]].
  apply no_flags_list. apply (flags_of_discovered p (fst f) rex (snd f) Hw Hr Hd).
Qed.

Lemma row_failures_nil n : row_failures [] n = repeat 0 n.
Proof. induction n as [|n IH]; [reflexivity|]. cbn [row_failures map filter length repeat]. rewrite IH. reflexivity. Qed.

Lemma filter_pos_repeat0 n : filter (fun z => Z.ltb 0 z) (repeat 0 n) = [].
Proof. induction n as [|n IH]; [reflexivity|]. cbn [repeat filter]. exact IH. Qed.

Theorem closure_detect_proof p fields nrows : Forall self_discovered fields ->
  let d := detect p fields nrows in
  d_columns d = [] /\ d_nfailures d = repeat 0 nrows /\ d_failing d = 0 /\ d_passing d = Z.of_nat nrows.
Proof.
  intros H. unfold detect. cbn [d_columns d_nfailures d_failing d_passing].
  rewrite (no_flag_columns p fields H), row_failures_nil, filter_pos_repeat0. cbn [length].
  repeat split; lia.
Qed.

(* hence no output file is written by a detect run (it is written iff some record fails) *)
Theorem closure_detect_no_file_proof p fields nrows existed : Forall self_discovered fields ->
  outfile_after existed (d_failing (detect p fields nrows)) = false.
Proof.
  intros H. destruct (closure_detect_proof p fields nrows H) as [_ [_ [Hf _]]].
  rewrite Hf. reflexivity.
Qed.

(* ---- whole-dataset verification: no failure is counted, every constraint is counted as a pass *)

Lemma count_false_all_true l : (forall b, In b l -> b = true) -> count_false l = 0.
Proof.
  induction l as [|b l IH]; intros H; [reflexivity|].
  rewrite count_false_cons, (H b (or_introl eq_refl)), IH; [reflexivity|].
  intros b' Hb'. apply H. right. exact Hb'.
Qed.

Lemma self_discovered_field_result p f : self_discovered f ->
  let r := verify_field p (Some (fst f)) (snd f) in
  fr_failures r = 0 /\ fr_passes r = Z.of_nat (length (snd f)) /\
  forall b, In b (fr_verdicts r) -> b = true.
Proof.
  intros [Hw [rex [Hr Hd]]].
  destruct (field_totals_spec_proof p (Some (fst f)) (snd f)) as (H1 & _ & H3 & H4).
  assert (Hall : forall b, In b (map (verify p (Some (fst f))) (snd f)) -> b = true).
  { intros b Hb. apply in_map_iff in Hb. destruct Hb as [k [<- Hk]].
    exact (closure_proof p (fst f) rex (snd f) Hw Hr Hd k Hk). }
  cbv zeta. rewrite H1. split; [|split; [|exact Hall]].
  - rewrite H3. apply count_false_all_true. exact Hall.
  - rewrite H3, (count_false_all_true _ Hall) in H4. lia.
Qed.

Definition as_fields (fields : list (column * list constr)) : list (option column * list constr) :=
  map (fun f => (Some (fst f), snd f)) fields.

Theorem closure_dataset_proof p fields : Forall self_discovered fields ->
  let v := verify_dataset p (as_fields fields) in
  v_failures v = 0 /\
  v_passes v = Z.of_nat (length (flat_map (@snd column (list constr)) fields)) /\
  forall r, In r (v_fields v) -> fr_failures r = 0.
Proof.
  intros H. destruct (dataset_totals_spec_proof p (as_fields fields)) as (H1 & H2 & H3).
  cbv zeta. rewrite H3, H2, H1. unfold as_fields. rewrite map_map. cbn [fst snd].
  clear H1 H2 H3.
  induction H as [|f fs Hf _ IH]; [repeat split; try reflexivity; intros r []|].
  destruct (self_discovered_field_result p f Hf) as (F1 & F2 & _).
  destruct IH as (I1 & I2 & I3).
  cbn [map fold_right flat_map]. cbn [fst snd]. rewrite app_length, Nat2Z.inj_add, F1, F2, I1, I2.
  repeat split; try lia.
  intros r [<-|Hr]; [exact F1|exact (I3 r Hr)].
Qed.

(* ---- detection agrees with verification at dataset level (C06): no flag column is produced exactly when
   verification of the same fields counts no failure *)

Lemma count_false_nonneg l : 0 <= count_false l.
Proof. unfold count_false. lia. Qed.

Lemma count_false_zero_iff l : count_false l = 0 <-> forall b, In b l -> b = true.
Proof.
  split; [|apply count_false_all_true].
  induction l as [|b l IH]; intros H b' Hb'; [destruct Hb'|].
  rewrite count_false_cons in H. pose proof (count_false_nonneg l) as Hn.
  destruct b; destruct Hb' as [<-|Hb']; try reflexivity; try lia; apply IH; try assumption; lia.
Qed.

Lemma flags_list_nil_iff p c ks :
  flat_map (fun k => match flags_of p c k with Some l => [l] | None => [] end) ks = [] <->
  forall k, In k ks -> verify p (Some c) k = true.
Proof.
  induction ks as [|k ks IH]; cbn [flat_map]; [split; [intros _ k []|reflexivity]|].
  split.
  - intros H. apply app_eq_nil in H. destruct H as [Hk Hks].
    intros k' [<-|Hk'].
    + destruct (verify p (Some c) k) eqn:Ev; [reflexivity|].
      exfalso. apply (flags_for_every_failure_proof p c k Ev).
      destruct (flags_of p c k); [discriminate|reflexivity].
    + exact (proj1 IH Hks k' Hk').
  - intros H. unfold flags_of at 1. rewrite (H k (or_introl eq_refl)). cbn [app].
    apply IH. intros k' Hk'. apply H. right. exact Hk'.
Qed.

Lemma sum_failures_nonneg p (fs : list (option column * list constr)) :
  0 <= fold_right Z.add 0 (map fr_failures (map (fun f => verify_field p (fst f) (snd f)) fs)).
Proof.
  induction fs as [|f fs IH]; cbn [map fold_right]; [lia|].
  destruct (field_totals_spec_proof p (fst f) (snd f)) as (_ & _ & H3 & _). cbv zeta in H3.
  rewrite H3. pose proof (count_false_nonneg (map (verify p (fst f)) (snd f))). lia.
Qed.

Theorem detect_agrees_with_verify_proof p fields nrows :
  d_columns (detect p fields nrows) = [] <-> v_failures (verify_dataset p (as_fields fields)) = 0.
Proof.
  destruct (dataset_totals_spec_proof p (as_fields fields)) as (H1 & _ & H3). cbv zeta in H1, H3.
  rewrite H3, H1. unfold detect, as_fields. cbn [d_columns]. clear H1 H3.
  induction fields as [|f fs IH]; [split; reflexivity|].
  cbn [flat_map map fold_right]. cbn [fst snd].
  destruct (field_totals_spec_proof p (Some (fst f)) (snd f)) as (_ & _ & F3 & _). cbv zeta in F3.
  rewrite F3.
  pose proof (count_false_nonneg (map (verify p (Some (fst f))) (snd f))) as Hn.
  pose proof (sum_failures_nonneg p (map (fun f0 : column * list constr => (Some (fst f0), snd f0)) fs)) as Hs.
  split.
  - intros H. apply app_eq_nil in H. destruct H as [Hf Hfs].
    apply IH in Hfs. rewrite Hfs.
    assert (count_false (map (verify p (Some (fst f))) (snd f)) = 0); [|lia].
    apply count_false_zero_iff. intros b Hb. apply in_map_iff in Hb. destruct Hb as [k [<- Hk]].
    exact (proj1 (flags_list_nil_iff p (fst f) (snd f)) Hf k Hk).
  - intros H.
    assert (Hc : count_false (map (verify p (Some (fst f))) (snd f)) = 0) by lia.
    assert (Hr : fold_right Z.add 0 (map fr_failures (map (fun f0 => verify_field p (fst f0) (snd f0))
                   (map (fun f0 : column * list constr => (Some (fst f0), snd f0)) fs))) = 0) by lia.
    apply IH in Hr. rewrite Hr, app_nil_r.
    apply flags_list_nil_iff. intros k Hk.
    apply (proj1 (count_false_zero_iff _) Hc). apply in_map. exact Hk.
Qed.

(* ---- the overall failure count is 0 exactly when every verdict of every field (present or missing) is a pass;
   so one failing constraint anywhere makes the overall count positive *)

Theorem dataset_failures_zero_iff_proof p (fs : list (option column * list constr)) :
  v_failures (verify_dataset p fs) = 0 <->
  forall f k, In f fs -> In k (snd f) -> verify p (fst f) k = true.
Proof.
  destruct (dataset_totals_spec_proof p fs) as (H1 & _ & H3). cbv zeta in H1, H3.
  rewrite H3, H1. clear H1 H3.
  induction fs as [|f fs IH]; [split; [intros _ f k []|reflexivity]|].
  cbn [map fold_right].
  destruct (field_totals_spec_proof p (fst f) (snd f)) as (_ & _ & F3 & _). cbv zeta in F3.
  rewrite F3.
  pose proof (count_false_nonneg (map (verify p (fst f)) (snd f))) as Hn.
  pose proof (sum_failures_nonneg p fs) as Hs.
  split.
  - intros H f' k [<-|Hf'] Hk.
    + assert (Hc : count_false (map (verify p (fst f)) (snd f)) = 0) by lia.
      apply (proj1 (count_false_zero_iff _) Hc). apply in_map. exact Hk.
    + apply (proj1 IH); [lia|exact Hf'|exact Hk].
  - intros H.
    assert (Hc : count_false (map (verify p (fst f)) (snd f)) = 0).
    { apply count_false_zero_iff. intros b Hb. apply in_map_iff in Hb. destruct Hb as [k [<- Hk]].
      apply (H f k); [left; reflexivity|exact Hk]. }
    assert (Hr : fold_right Z.add 0 (map fr_failures (map (fun f0 => verify_field p (fst f0) (snd f0)) fs)) = 0).
    { apply IH. intros f' k Hf' Hk. apply (H f' k); [right; exact Hf'|exact Hk]. }
    lia.
Qed.

Theorem one_failure_is_counted_proof p (fs : list (option column * list constr)) f k :
  In f fs -> In k (snd f) -> verify p (fst f) k = false -> 0 < v_failures (verify_dataset p fs).
Proof.
  intros Hf Hk Hv.
  assert (Hnz : v_failures (verify_dataset p fs) <> 0).
  { intros Hz. rewrite (proj1 (dataset_failures_zero_iff_proof p fs) Hz f k Hf Hk) in Hv. discriminate. }
  destruct (dataset_totals_spec_proof p fs) as (H1 & _ & H3). cbv zeta in H1, H3.
  pose proof (sum_failures_nonneg p fs) as Hs. rewrite <- H1, <- H3 in Hs. lia.
Qed.
