(* Model of tdda/constraints/baseconstraints.py (verifiers and discovery rules) over abstract
   columns.  Numbers are exact: a finite IEEE double / int / bool x is the integer x * 2^1074. *)
From Coq Require Import ZArith List Bool.
From Tdda Require Import Base.Sexp Base.Str Base.Sort Generated.Consts.
Import ListNotations.
Open Scope Z_scope.

Inductive ctype := TBool | TInt | TReal | TString | TDate | TOther.

Definition ctype_eqb (a b : ctype) : bool :=
  match a, b with
  | TBool, TBool | TInt, TInt | TReal, TReal | TString, TString | TDate, TDate | TOther, TOther => true
  | _, _ => false
  end.

(* scalar values: numbers (incl. booleans), strings, dates (microseconds) *)
Inductive value :=
| VNum (k : Z)          (* x * 2^1074 *)
| VPosInf | VNegInf
| VStr (s : str)
| VDate (t : Z).

Inductive coarse := KNumber | KString | KDateK.
Definition coarse_of (v : value) : coarse :=
  match v with VNum _ | VPosInf | VNegInf => KNumber | VStr _ => KString | VDate _ => KDateK end.
Definition coarse_eqb (a b : coarse) : bool :=
  match a, b with KNumber, KNumber | KString, KString | KDateK, KDateK => true | _, _ => false end.

(* total order within a coarse type (mixed comparisons do not occur: guarded by types_compatible) *)
Definition vleb (a b : value) : bool :=
  match a, b with
  | VNegInf, (VNum _ | VPosInf | VNegInf) => true
  | VNum _, VNegInf => false
  | VNum x, VNum y => Z.leb x y
  | VNum _, VPosInf => true
  | VPosInf, VPosInf => true
  | VPosInf, (VNum _ | VNegInf) => false
  | VStr x, VStr y => str_leb x y
  | VDate x, VDate y => Z.leb x y
  | _, _ => false
  end.
Definition vltb (a b : value) : bool := vleb a b && negb (vleb b a).
Definition veqb (a b : value) : bool := vleb a b && vleb b a.

Record column := { c_type : ctype; c_cells : list (option value) }.

Definition non_nulls (c : column) : list value :=
  flat_map (fun o => match o with Some v => [v] | None => [] end) (c_cells c).

(* ---------------------------------------------------------------- aggregates *)

Definition vmin (a b : value) : value := if vleb a b then a else b.
Definition vmax (a b : value) : value := if vleb a b then b else a.

Definition col_min (c : column) : option value :=
  match non_nulls c with
  | [] => None
  | v :: vs => Some (fold_left vmin vs v)
  end.
Definition col_max (c : column) : option value :=
  match non_nulls c with
  | [] => None
  | v :: vs => Some (fold_left vmax vs v)
  end.

Definition null_count (c : column) : Z :=
  Z.of_nat (length (filter (fun o => match o with None => true | _ => false end) (c_cells c))).
Definition non_null_count (c : column) : Z := Z.of_nat (length (non_nulls c)).
Definition nrecords (c : column) : Z := Z.of_nat (length (c_cells c)).

Fixpoint vdedup (l : list value) : list value :=
  match l with
  | [] => []
  | x :: l' => x :: filter (fun y => negb (veqb x y)) (vdedup l')
  end.
Definition nunique (c : column) : Z := Z.of_nat (length (vdedup (non_nulls c))).

Definition str_of (v : value) : str := match v with VStr s => s | _ => [] end.
Definition uniques (c : column) : list str := sort_strs (map str_of (vdedup (non_nulls c))).

Definition str_len (v : value) : Z := Z.of_nat (length (str_of v)).
Definition lengths (c : column) : list Z := map str_len (non_nulls c).
Definition zmin_list (l : list Z) : option Z :=
  match l with [] => None | x :: xs => Some (fold_left Z.min xs x) end.
Definition zmax_list (l : list Z) : option Z :=
  match l with [] => None | x :: xs => Some (fold_left Z.max xs x) end.

Definition two1074 : Z := 2 ^ 1074.
(* c.astype(int) == c : a whole number that fits a 64-bit integer *)
Definition is_whole (v : value) : bool :=
  match v with
  | VNum k => Z.eqb (k mod two1074) 0 && Z.leb (- 2 ^ 63 * two1074) k && Z.ltb k (2 ^ 63 * two1074)
  | _ => false
  end.
Definition non_integer_count (c : column) : Z :=
  Z.of_nat (length (filter (fun v => negb (is_whole v)) (non_nulls c))).

(* ---------------------------------------------------------------- constraints *)

Inductive precision := PClosed | POpen | PFuzzy.
Inductive sign := SPositive | SNonNegative | SZero | SNonPositive | SNegative | SNull.

(* a bound carries the oracle value of fuzz_down / fuzz_up (IEEE multiplication done by CPython) *)
Record bound := { b_value : value; b_fuzzed : value; b_prec : precision }.

Inductive constr :=
| CType (ts : option (list ctype))
| CMin (b : option bound)
| CMax (b : option bound)
| CMinLen (n : option Z)
| CMaxLen (n : option Z)
| CSign (s : option sign)
| CMaxNulls (n : option Z)
| CNoDup (v : option bool)
| CAllowed (vs : option (list str))
| CRex (r : option (list bool)).   (* oracle: for each distinct non-null string (first-occurrence order),
                                      whether some expression matches it *)

Record params := { p_strict : bool }.

(* object column of booleans-with-nulls: every non-null is a bool - carried by the type tag *)
Definition verify (p : params) (col : option column) (k : constr) : bool :=
  match col with
  | None => false                                   (* the data lacks the field *)
  | Some c =>
    match k with
    | CType None => true
    | CType (Some ts) =>
      let has t := existsb (ctype_eqb t) ts in
      if p_strict p then has (c_type c)
      else if has (c_type c) then true
      else if (has TInt || has TBool) && ctype_eqb (c_type c) TReal then Z.eqb (non_integer_count c) 0
      else if has TBool && ctype_eqb (c_type c) TString
      then match non_nulls c with [] => true | _ => false end     (* every non-null is a Python bool *)
      else false
    | CMin None => true
    | CMin (Some b) =>
      match col_min c with
      | None => true
      | Some m =>
        if negb (coarse_eqb (coarse_of m) (coarse_of (b_value b))) then false
        else match b_value b, b_prec b with
             | VDate _, POpen => vltb (b_value b) m
             | VDate _, _ => vleb (b_value b) m
             | _, PClosed => vleb (b_value b) m
             | _, POpen => vltb (b_value b) m
             | _, PFuzzy => vleb (b_value b) m || vleb (b_fuzzed b) m
             end
      end
    | CMax None => true
    | CMax (Some b) =>
      match col_max c with
      | None => true
      | Some m =>
        if negb (coarse_eqb (coarse_of m) (coarse_of (b_value b))) then false
        else match b_value b, b_prec b with
             | VDate _, POpen => vltb m (b_value b)
             | VDate _, _ => vleb m (b_value b)
             | _, PClosed => vleb m (b_value b)
             | _, POpen => vltb m (b_value b)
             | _, PFuzzy => vleb m (b_value b) || vleb m (b_fuzzed b)
             end
      end
    | CMinLen None => true
    | CMinLen (Some n) =>
      if negb (ctype_eqb (c_type c) TString) then false
      else match zmin_list (lengths c) with None => true | Some m => Z.leb n m end
    | CMaxLen None => true
    | CMaxLen (Some n) =>
      if negb (ctype_eqb (c_type c) TString) then false
      else match zmax_list (lengths c) with None => true | Some m => Z.leb m n end
    | CSign None => true
    | CSign (Some s) =>
      match col_min c, col_max c with
      | Some m, Some M =>
        match coarse_of m with
        | KNumber =>
          match s with
          | SNull => false
          | SPositive => vltb (VNum 0) m
          | SNonNegative => vleb (VNum 0) m
          | SZero => veqb m (VNum 0) && veqb M (VNum 0)
          | SNonPositive => vleb M (VNum 0)
          | SNegative => vltb M (VNum 0)
          end
        | _ => false
        end
      | _, _ => true
      end
    | CMaxNulls None => true
    | CMaxNulls (Some n) => Z.leb (null_count c) n
    | CNoDup None | CNoDup (Some false) => true
    | CNoDup (Some true) => Z.eqb (nunique c) (non_null_count c)
    | CAllowed None => true
    | CAllowed (Some vs) =>
      if Z.ltb (Z.of_nat (length vs)) (nunique c) then false
      else forallb (fun u => mem_str u vs) (uniques c)
    | CRex None => true
    | CRex (Some oks) => if ctype_eqb (c_type c) TString then forallb (fun b => b) oks else false
    end
  end.

(* ---------------------------------------------------------------- discovery *)

Definition max_categories : Z := gen_max_categories.

Definition exact_bound (v : value) : bound := {| b_value := v; b_fuzzed := v; b_prec := PFuzzy |}.

Definition discover_sign (m M : value) : option sign :=
  if veqb m (VNum 0) && veqb M (VNum 0) then Some SZero
  else if vleb (VNum 0) m then Some (if vltb (VNum 0) m then SPositive else SNonNegative)
  else if vleb M (VNum 0) then Some (if vltb M (VNum 0) then SNegative else SNonPositive)
  else None.

(* one rule per constraint kind; every rule is silent when there are no records *)
Definition has_rows (c : column) : bool := Z.ltb 0 (nrecords c).
Definition is_str (c : column) : bool := ctype_eqb (c_type c) TString.
(* the fields whose distinct values are counted: every recognised type but real (since fix in baseconstraints.py:
   before it, date and bool fields were left out and never got no_duplicates) *)
Definition counts_distinct (t : ctype) : bool :=
  match t with TString | TInt | TDate | TBool => true | TReal | TOther => false end.
Definition nunique_used (c : column) : Z :=
  if counts_distinct (c_type c) then nunique c else (-1).

Definition d_min (c : column) : list constr :=
  if has_rows c && negb (is_str c)
  then match col_min c with Some m => [CMin (Some (exact_bound m))] | None => [] end else [].
Definition d_max (c : column) : list constr :=
  if has_rows c && negb (is_str c)
  then match col_max c with Some M => [CMax (Some (exact_bound M))] | None => [] end else [].
Definition d_min_length (c : column) : list constr :=
  if has_rows c && is_str c
  then match zmin_list (lengths c) with Some m => [CMinLen (Some m)] | None => [] end else [].
Definition d_max_length (c : column) : list constr :=
  if has_rows c && is_str c
  then match zmax_list (lengths c) with Some M => [CMaxLen (Some M)] | None => [] end else [].
Definition d_sign (c : column) : list constr :=
  if has_rows c && negb (is_str c) && negb (ctype_eqb (c_type c) TDate)
  then match col_min c, col_max c with
       | Some m, Some M => match discover_sign m M with Some s => [CSign (Some s)] | None => [] end
       | _, _ => []
       end
  else [].
Definition d_max_nulls (c : column) : list constr :=
  if has_rows c && Z.ltb (null_count c) 2 then [CMaxNulls (Some (null_count c))] else [].
Definition d_no_duplicates (c : column) : list constr :=
  if has_rows c && Z.eqb (nunique_used c) (non_null_count c) && Z.ltb 1 (nunique_used c)
     && negb (ctype_eqb (c_type c) TReal)
  then [CNoDup (Some true)] else [].
Definition d_allowed (c : column) : list constr :=
  if has_rows c && is_str c && Z.leb (nunique c) max_categories && Z.ltb 0 (nunique c)
  then [CAllowed (Some (uniques c))] else [].
(* rex: an oracle list (what rexpy returned is outside this model); None = not requested *)
Definition d_rex (c : column) (rex : option (list bool)) : list constr :=
  if is_str c then match rex with Some oks => [CRex (Some oks)] | None => [] end else [].

Definition discover (c : column) (rex : option (list bool)) : option (list constr) :=
  match c_type c with
  | TOther => None
  | t => Some ([CType (Some [t])] ++ d_min c ++ d_max c ++ d_min_length c ++ d_max_length c ++ d_sign c ++
               d_max_nulls c ++ d_no_duplicates c ++ d_allowed c ++ d_rex c rex)
  end.

(* ---------------------------------------------------------------- a whole verification *)

Definition count_true (l : list bool) : Z := Z.of_nat (length (filter (fun b => b) l)).
Definition count_false (l : list bool) : Z := Z.of_nat (length (filter negb l)).

Record field_result := { fr_verdicts : list bool; fr_passes : Z; fr_failures : Z }.

Definition verify_field (p : params) (col : option column) (ks : list constr) : field_result :=
  let vs := map (verify p col) ks in
  fold_left (fun acc v => {| fr_verdicts := fr_verdicts acc ++ [v];
                             fr_passes := if v then fr_passes acc + 1 else fr_passes acc;
                             fr_failures := if v then fr_failures acc else fr_failures acc + 1 |})
            vs {| fr_verdicts := []; fr_passes := 0; fr_failures := 0 |}.

Record verification := { v_fields : list field_result; v_passes : Z; v_failures : Z }.

Definition verify_dataset (p : params) (fields : list (option column * list constr)) : verification :=
  fold_left (fun acc f =>
               let r := verify_field p (fst f) (snd f) in
               {| v_fields := v_fields acc ++ [r];
                  v_passes := v_passes acc + fr_passes r;
                  v_failures := v_failures acc + fr_failures r |})
            fields {| v_fields := []; v_passes := 0; v_failures := 0 |}.

(* ---------------------------------------------------------------- wire format *)

Definition sx_ctype (s : sexp) : ctype :=
  match sx_Z s with 0 => TBool | 1 => TInt | 2 => TReal | 3 => TString | 4 => TDate | _ => TOther end.
Definition of_ctype (t : ctype) : sexp :=
  A (match t with TBool => 0 | TInt => 1 | TReal => 2 | TString => 3 | TDate => 4 | TOther => 5 end).
Definition sx_value (s : sexp) : value :=
  match sx_Z (sx_nth 0 s) with
  | 0 => VNum (sx_Z (sx_nth 1 s)) | 1 => VPosInf | 2 => VNegInf
  | 3 => VStr (sx_str (sx_nth 1 s)) | _ => VDate (sx_Z (sx_nth 1 s))
  end.
Definition of_value (v : value) : sexp :=
  match v with
  | VNum k => L [A 0; A k] | VPosInf => L [A 1] | VNegInf => L [A 2]
  | VStr s => L [A 3; of_str s] | VDate t => L [A 4; A t]
  end.
Definition sx_column (s : sexp) : column :=
  {| c_type := sx_ctype (sx_nth 0 s); c_cells := map (sx_opt sx_value) (sx_list (sx_nth 1 s)) |}.
Definition sx_prec (s : sexp) : precision := match sx_Z s with 0 => PClosed | 1 => POpen | _ => PFuzzy end.
Definition sx_sign (s : sexp) : sign :=
  match sx_Z s with 0 => SPositive | 1 => SNonNegative | 2 => SZero | 3 => SNonPositive | 4 => SNegative | _ => SNull end.
Definition of_sign (x : sign) : sexp :=
  A (match x with SPositive => 0 | SNonNegative => 1 | SZero => 2 | SNonPositive => 3 | SNegative => 4 | SNull => 5 end).
Definition sx_bound (s : sexp) : bound :=
  {| b_value := sx_value (sx_nth 0 s); b_fuzzed := sx_value (sx_nth 1 s); b_prec := sx_prec (sx_nth 2 s) |}.
(* constraint = (tag payload) with payload () for a null value *)
Definition sx_constr (s : sexp) : constr :=
  let pl := sx_nth 1 s in
  match sx_Z (sx_nth 0 s) with
  | 0 => CType (sx_opt (fun x => map sx_ctype (sx_list x)) pl)
  | 1 => CMin (sx_opt sx_bound pl)
  | 2 => CMax (sx_opt sx_bound pl)
  | 3 => CMinLen (sx_opt sx_Z pl)
  | 4 => CMaxLen (sx_opt sx_Z pl)
  | 5 => CSign (sx_opt sx_sign pl)
  | 6 => CMaxNulls (sx_opt sx_Z pl)
  | 7 => CNoDup (sx_opt sx_bool pl)
  | 8 => CAllowed (sx_opt sx_strs pl)
  | _ => CRex (sx_opt (fun x => map sx_bool (sx_list x)) pl)
  end.
Definition of_constr (k : constr) : sexp :=
  match k with
  | CType ts => L [A 0; of_opt (fun l => L (map of_ctype l)) ts]
  | CMin b => L [A 1; of_opt (fun b => of_value (b_value b)) b]
  | CMax b => L [A 2; of_opt (fun b => of_value (b_value b)) b]
  | CMinLen n => L [A 3; of_opt A n]
  | CMaxLen n => L [A 4; of_opt A n]
  | CSign s => L [A 5; of_opt of_sign s]
  | CMaxNulls n => L [A 6; of_opt A n]
  | CNoDup v => L [A 7; of_opt of_bool v]
  | CAllowed vs => L [A 8; of_opt of_strs vs]
  | CRex r => L [A 9; of_opt (fun l => L (map of_bool l)) r]
  end.

(* (strict, fields) with field = (column-or-(), constraints) -> (passes failures ((verdicts p f) ...)) *)
Definition verify_entry (s : sexp) : sexp :=
  let p := {| p_strict := sx_bool (sx_nth 0 s) |} in
  let fields := map (fun f => (sx_opt sx_column (sx_nth 0 f), map sx_constr (sx_list (sx_nth 1 f))))
                    (sx_list (sx_nth 1 s)) in
  let v := verify_dataset p fields in
  L [A (v_passes v); A (v_failures v);
     L (map (fun r => L [L (map of_bool (fr_verdicts r)); A (fr_passes r); A (fr_failures r)]) (v_fields v))].

(* (column, rex-or-()) -> () | (constraints) *)
Definition discover_entry (s : sexp) : sexp :=
  of_opt (fun ks => L (map of_constr ks))
         (discover (sx_column (sx_nth 0 s)) (sx_opt (fun x => map sx_bool (sx_list x)) (sx_nth 1 s))).
