(* Model of tdda/referencetest/checkfiles.py: check_strings, wrong_content, wrong_number,
   can_ignore, check_patterns, reconstruct, diff_marker, check_for_permutation_failures,
   normalisation and the string/file entry points (splitlines, universal newlines). *)
From Coq Require Import ZArith List Bool Arith.
From Tdda Require Import Base.Sexp Base.Str Base.Sort Generated.Consts.
Import ListNotations.
Open Scope Z_scope.

(* ---------------------------------------------------------------- characters, lines *)

Definition in_ranges (rs : list (Z * Z)) (c : Z) : bool :=
  existsb (fun r => Z.leb (fst r) c && Z.leb c (snd r)) rs.
Definition py_isspace (c : Z) : bool := in_ranges py_isspace_ranges c.

Fixpoint lstrip (s : str) : str :=
  match s with
  | c :: s' => if py_isspace c then lstrip s' else s
  | [] => []
  end.
Definition rstrip (s : str) : str := rev (lstrip (rev s)).
Definition strip (s : str) : str := rstrip (lstrip s).

Definition normalize (l r : bool) (s : str) : str :=
  if l then (if r then strip s else lstrip s) else (if r then rstrip s else s).

Definition is_linebreak (c : Z) : bool := existsb (Z.eqb c) py_linebreaks.

(* str.splitlines(): \r\n is one boundary; no trailing empty line *)
Fixpoint splitlines_aux (s : str) (cur : str) (after_cr : bool) : list str :=
  match s with
  | [] => match cur with [] => [] | _ => [rev cur] end
  | c :: s' =>
    if after_cr && Z.eqb c 10 then splitlines_aux s' cur false
    else if is_linebreak c then rev cur :: splitlines_aux s' [] (Z.eqb c 13)
    else splitlines_aux s' (c :: cur) false
  end.
Definition splitlines (s : str) : list str := splitlines_aux s [] false.

(* reading a file in text mode: \r\n and \r become \n *)
Fixpoint univ_nl (s : str) : str :=
  match s with
  | [] => []
  | c :: s' =>
    if Z.eqb c 13 then
      10 :: match s' with
            | d :: s'' => if Z.eqb d 10 then univ_nl s'' else univ_nl s'
            | [] => []
            end
    else c :: univ_nl s'
  end.

(* ---------------------------------------------------------------- options, oracle *)

Record opts := {
  o_lstrip : bool;
  o_rstrip : bool;
  o_isub : list str;           (* ignore_substrings *)
  o_npat : nat;                (* number of ignore_patterns *)
  o_rem : list str;            (* remove_lines *)
  o_maxperm : nat;             (* max_permutation_cases *)
  o_preproc : bool;            (* a preprocess function was given (already applied) *)
  o_apath : bool               (* actual_path is not None *)
}.

(* re.match of anchored pattern i on a line: None = no match;
   Some (groups, group(1), group(groups)) *)
Definition pmatch := option (nat * str * str).
Definition poracle := list (nat * str * pmatch).

Fixpoint plookup (orc : poracle) (i : nat) (s : str) : option pmatch :=
  match orc with
  | [] => None
  | (j, t, r) :: orc' => if Nat.eqb i j && str_eqb s t then Some r else plookup orc' i s
  end.

(* tri-state: the real recursion may not terminate (RecursionError) *)
Inductive tri := TTrue | TFalse | TDiverge.

Fixpoint check_patterns (fuel : nat) (orc : poracle) (npat : nat) (a e : str) : tri :=
  match fuel with
  | O => TDiverge
  | S f =>
    if str_eqb a e then TTrue else
    (fix loop (is : list nat) : tri :=
       match is with
       | [] => TFalse
       | i :: is' =>
         match plookup orc i e with
         | None => TDiverge                      (* oracle table incomplete: treated as an error *)
         | Some None => loop is'
         | Some (Some (g, el, er)) =>
           match plookup orc i a with
           | None => TDiverge
           | Some None => loop is'
           | Some (Some (_, al, ar)) =>
             if Nat.leb g 2 then TTrue
             else match check_patterns f orc npat al el with
                  | TDiverge => TDiverge
                  | TFalse => loop is'
                  | TTrue => match check_patterns f orc npat ar er with
                             | TDiverge => TDiverge
                             | TFalse => loop is'
                             | TTrue => TTrue
                             end
                  end
           end
         end
       end) (seq 0 npat)
  end.

Definition line_fuel (a e : str) : nat := S (S (length a + length e)).

Definition can_ignore (o : opts) (orc : poracle) (a e : str) : tri :=
  if existsb (fun s => contains s e) (o_isub o) then TTrue
  else check_patterns (line_fuel a e) orc (o_npat o) a e.

(* ---------------------------------------------------------------- helpers *)

Definition drop_last_empty (l : list str) : list str :=
  match rev l with
  | [] :: r => rev r
  | _ => l
  end.

Definition removed_mask (rem : list str) (l : list str) : list bool :=
  map (fun a => existsb (fun r => contains r a) rem) l.

Fixpoint kept_idx (mask : list bool) (i : nat) : list nat :=
  match mask with
  | [] => []
  | b :: m => if b then kept_idx m (S i) else i :: kept_idx m (S i)
  end.

Fixpoint keep {T} (mask : list bool) (l : list T) : list T :=
  match mask, l with
  | b :: m, x :: l' => if b then keep m l' else x :: keep m l'
  | _, _ => []
  end.

Definition mem_nat (n : nat) (l : list nat) : bool := existsb (Nat.eqb n) l.
Definition add_nat (n : nat) (l : list nat) : list nat := if mem_nat n l then l else l ++ [n].
Definition nth_mask (m : list bool) (i : nat) : bool := nth i m false.

(* the after-removal -> original index maps: a dict that starts as the identity and is
   overwritten for the kept positions (after the C15 repair each side has its own map) *)
Definition index_map (has_rem : bool) (kept : list nat) (k : nat) : nat :=
  if has_rem then (if Nat.ltb k (length kept) then nth k kept O else k) else k.

(* ---------------------------------------------------------------- diff_marker / reconstruct *)

Fixpoint common_prefix_len (a b : str) : nat :=
  match a, b with
  | x :: a', y :: b' => if Z.eqb x y then S (common_prefix_len a' b') else O
  | _, _ => O
  end.

Definition diff_marker (left right : str) : str :=
  if str_eqb left right then left else
  let p := common_prefix_len left right in
  let lrest := skipn p left in
  let rrest := skipn p right in
  let q := common_prefix_len (rev lrest) (rev rrest) in
  let lmid := firstn (length lrest - q) lrest in
  let rmid := firstn (length rrest - q) rrest in
  firstn p left ++ [40] ++ lmid ++ [124] ++ rmid ++ [41] ++ skipn (length lrest - q) lrest.

Definition fmt_marker (m : str) : str := [42;42;42;32] ++ m.    (* "*** " *)

Fixpoint reconstruct (fuel : nat) (a e : list str) (ia ie : nat)
         (arem erem : list bool) (aign eign : list nat) : list str * list str :=
  match fuel with
  | O => ([], [])
  | S f =>
    let cons2 x y (p : list str * list str) := (x ++ fst p, y ++ snd p) in
    match a, e with
    | [], [] => ([], [])
    | _, _ =>
      let ra := match a with [] => false | _ => nth_mask arem ia end in
      let re := match e with [] => false | _ => nth_mask erem ie end in
      match a, e with
      | x :: a', y :: e' =>
        if ra && re then
          let m := [fmt_marker (diff_marker x y)] in
          cons2 m m (reconstruct f a' e' (S ia) (S ie) arem erem aign eign)
        else if ra then
          let m := [fmt_marker (diff_marker x [])] in
          cons2 m m (reconstruct f a' e (S ia) ie arem erem aign eign)
        else if re then
          let m := [fmt_marker (diff_marker [] y)] in
          cons2 m m (reconstruct f a e' ia (S ie) arem erem aign eign)
        else if str_eqb x y then
          cons2 [x] [y] (reconstruct f a' e' (S ia) (S ie) arem erem aign eign)
        else if mem_nat ia aign || mem_nat ie eign then
          let m := [fmt_marker (diff_marker x y)] in
          cons2 m m (reconstruct f a' e' (S ia) (S ie) arem erem aign eign)
        else
          cons2 [x] [y] (reconstruct f a' e' (S ia) (S ie) arem erem aign eign)
      | x :: a', [] =>
        if ra then
          let m := [fmt_marker (diff_marker x [])] in
          cons2 m m (reconstruct f a' e (S ia) ie arem erem aign eign)
        else cons2 [x] [] (reconstruct f a' e (S ia) ie arem erem aign eign)
      | [], y :: e' =>
        if re then
          let m := [fmt_marker (diff_marker [] y)] in
          cons2 m m (reconstruct f a e' ia (S ie) arem erem aign eign)
        else cons2 [] [y] (reconstruct f a e' ia (S ie) arem erem aign eign)
      | [], [] => ([], [])
      end
    end
  end.

(* ---------------------------------------------------------------- the comparison *)

Inductive verdict := Pass | Fail | Diverge.

Record result := {
  r_verdict : verdict;
  r_ndiffs : nat;
  r_aign : list nat;
  r_eign : list nat;
  r_arem : list bool;
  r_erem : list bool;
  r_recon : option (list str * list str)
}.

(* wrong_content: walk the differing after-removal indices *)
Fixpoint wrong_content (o : opts) (orc : poracle) (amap emap : nat -> nat)
         (diffs : list (nat * str * str)) (nd : nat) (aign eign : list nat)
         (cases : list (str * str)) : option (nat * list nat * list nat * list (str * str)) :=
  match diffs with
  | [] => Some (nd, aign, eign, cases)
  | (i, a, e) :: rest =>
    match can_ignore o orc a e with
    | TDiverge => None
    | TTrue => wrong_content o orc amap emap rest (nd - 1) (add_nat (amap i) aign)
                             (add_nat (emap i) eign) cases
    | TFalse => wrong_content o orc amap emap rest nd aign eign
                              (if Nat.ltb (length cases) (o_maxperm o) then cases ++ [(a, e)] else cases)
    end
  end.

(* wrong_number: only the ignored sets matter afterwards (ndiffs = max of the lengths) *)
Fixpoint wrong_number (o : opts) (orc : poracle) (amap emap : nat -> nat)
         (oa oe : list str) (arem erem : list bool)
         (n i ia ie : nat) (aign eign : list nat) : option (list nat * list nat) :=
  match n with
  | O => Some (aign, eign)
  | S n' =>
    let ra := nth_mask arem ia in
    let re := nth_mask erem ie in
    if ra || re then
      wrong_number o orc amap emap oa oe arem erem n' (S i)
                   (if ra then S ia else ia) (if re then S ie else ie) aign eign
    else
      (* original_actual[iactual] raises IndexError when a pointer has run off the end *)
      match nth_error oa ia, nth_error oe ie with
      | Some al, Some el =>
        if str_eqb (normalize (o_lstrip o) (o_rstrip o) al) (normalize (o_lstrip o) (o_rstrip o) el)
        then wrong_number o orc amap emap oa oe arem erem n' (S i) (S ia) (S ie) aign eign
        else match can_ignore o orc al el with
             | TDiverge => None
             | TTrue => wrong_number o orc amap emap oa oe arem erem n' (S i) (S ia) (S ie)
                                     (add_nat (amap i) aign) (add_nat (emap i) eign)
             | TFalse => wrong_number o orc amap emap oa oe arem erem n' (S i) ia ie aign eign
             end
      | _, _ => None
      end
  end.

Fixpoint strs_eqb (x y : list str) : bool :=
  match x, y with
  | [], [] => true
  | p :: x', q :: y' => str_eqb p q && strs_eqb x' y'
  | _, _ => false
  end.

Definition permutation_ok (cases : list (str * str)) : bool :=
  strs_eqb (sort_strs (map fst cases)) (sort_strs (map snd cases)).

Definition check_strings (o : opts) (orc : poracle) (actual0 expected0 : list str) : result :=
  let oa := drop_last_empty actual0 in
  let oe := drop_last_empty expected0 in
  let has_rem := match o_rem o with [] => false | _ => true end in
  let arem := if has_rem then removed_mask (o_rem o) oa else map (fun _ => false) oa in
  let erem := if has_rem then removed_mask (o_rem o) oe else map (fun _ => false) oe in
  let a := keep arem oa in
  let e := keep erem oe in
  let amap := index_map has_rem (kept_idx arem O) in
  let emap := index_map has_rem (kept_idx erem O) in
  let norm := normalize (o_lstrip o) (o_rstrip o) in
  let any_rem := existsb (fun b => b) arem || existsb (fun b => b) erem in
  let finish (nd : nat) (permutable : bool) (aign eign : list nat) (cases : list (str * str)) :=
      let need_recon := o_preproc o || negb (Nat.eqb (length aign) 0) || negb (Nat.eqb (length eign) 0)
                        || any_rem || (negb (o_apath o) && Nat.ltb 0 nd) in
      let recon := if need_recon
                   then Some (reconstruct (S (length oa + length oe)) (map norm oa) (map norm oe)
                                          O O arem erem aign eign)
                   else None in
      let nd' := if permutable && Nat.ltb 0 nd && Nat.leb nd (o_maxperm o)
                 then (if permutation_ok cases then O else length cases) else nd in
      {| r_verdict := if Nat.ltb 0 nd' then Fail else Pass; r_ndiffs := nd';
         r_aign := aign; r_eign := eign; r_arem := arem; r_erem := erem; r_recon := recon |} in
  let diverged := {| r_verdict := Diverge; r_ndiffs := O; r_aign := []; r_eign := [];
                     r_arem := arem; r_erem := erem; r_recon := None |} in
  if Nat.eqb (length a) (length e) then
    let diffs := filter (fun t => negb (str_eqb (norm (snd (fst t))) (norm (snd t))))
                        (combine (combine (seq 0 (length a)) a) e) in
    match wrong_content o orc amap emap diffs (length diffs) [] [] [] with
    | None => diverged
    | Some (nd, aign, eign, cases) => finish nd true aign eign cases
    end
  else
    match wrong_number o orc amap emap oa oe arem erem (Nat.min (length oa) (length oe)) O O O [] [] with
    | None => diverged
    | Some (aign, eign) => finish (Nat.max (length oa) (length oe)) false aign eign []
    end.

(* entry points: a string against a reference file; a file against a file *)
Definition check_string_against_file (o : opts) (orc : poracle) (actual : str) (ref_content : str) : result :=
  check_strings o orc (splitlines actual) (splitlines (univ_nl ref_content)).
Definition check_file (o : opts) (orc : poracle) (actual_content ref_content : str) : result :=
  check_strings o orc (splitlines (univ_nl actual_content)) (splitlines (univ_nl ref_content)).

(* ---------------------------------------------------------------- wire format *)

Definition sx_opts (s : sexp) : opts :=
  {| o_lstrip := sx_bool (sx_nth 0 s); o_rstrip := sx_bool (sx_nth 1 s);
     o_isub := sx_strs (sx_nth 2 s); o_npat := sx_nat (sx_nth 3 s);
     o_rem := sx_strs (sx_nth 4 s); o_maxperm := sx_nat (sx_nth 5 s);
     o_preproc := sx_bool (sx_nth 6 s); o_apath := sx_bool (sx_nth 7 s) |}.

Definition sx_oracle (s : sexp) : poracle :=
  map (fun t => (sx_nat (sx_nth 0 t), sx_str (sx_nth 1 t),
                 match sx_list (sx_nth 2 t) with
                 | [g; l; r] => Some (sx_nat g, sx_str l, sx_str r)
                 | _ => None
                 end)) (sx_list s).

Definition of_result (r : result) : sexp :=
  L [ A (match r_verdict r with Pass => 0 | Fail => 1 | Diverge => 2 end);
      of_nat (r_ndiffs r);
      L (map of_nat (r_aign r)); L (map of_nat (r_eign r));
      L (map of_bool (r_arem r)); L (map of_bool (r_erem r));
      of_opt (fun p => L [of_strs (fst p); of_strs (snd p)]) (r_recon r) ].

(* mode 0: lists of lines; 1: string vs file content; 2: file vs file content *)
Definition check_strings_entry (s : sexp) : sexp :=
  let o := sx_opts (sx_nth 1 s) in
  let orc := sx_oracle (sx_nth 2 s) in
  of_result
    match sx_Z (sx_nth 0 s) with
    | 0 => check_strings o orc (sx_strs (sx_nth 3 s)) (sx_strs (sx_nth 4 s))
    | 1 => check_string_against_file o orc (sx_str (sx_nth 3 s)) (sx_str (sx_nth 4 s))
    | _ => check_file o orc (sx_str (sx_nth 3 s)) (sx_str (sx_nth 4 s))
    end.

Definition splitlines_entry (s : sexp) : sexp :=
  L [of_strs (splitlines (sx_str s)); of_str (univ_nl (sx_str s));
     of_str (strip (sx_str s)); of_str (lstrip (sx_str s)); of_str (rstrip (sx_str s))].
