(* C05 theorems over the model of check_dataframe. *)
From Coq Require Import ZArith List Bool Lia.
From Tdda Require Import Base.Sexp Base.Str RefTest.FrameCmp.
Import ListNotations.
Open Scope Z_scope.

Lemma is_nil_s_true l : is_nil_s l = true <-> l = [].
Proof. destruct l; simpl; split; congruence. Qed.

Lemma strs_eqb_eq a b : strs_eqb a b = true <-> a = b.
Proof.
  revert b; induction a as [|x a IH]; intros [|y b]; simpl; split; intro H; try reflexivity; try discriminate.
  - apply andb_true_iff in H as [H1 H2]. apply str_eqb_eq in H1. apply IH in H2. congruence.
  - inversion H; subst. rewrite str_eqb_refl. apply IH. reflexivity.
Qed.

Lemma filter_nil_iff {T} (f : T -> bool) l : filter f l = [] <-> forall x, In x l -> f x = false.
Proof.
  induction l as [|x l IH]; simpl; [split; [intros _ y []|reflexivity]|].
  destruct (f x) eqn:E; split.
  - discriminate.
  - intro H. specialize (H x (or_introl eq_refl)). congruence.
  - intros H y [<-|Hy]; [exact E|]. apply IH; assumption.
  - intro H. apply IH. intros y Hy. apply H. right; exact Hy.
Qed.

Lemma count_diffs_nonneg a : forall b, 0 <= count_diffs a b.
Proof. induction a as [|x a IH]; intros [|y b]; simpl; try lia. specialize (IH b). destruct (cell_differs x y); lia. Qed.

(* per-cell agreement: equal tokens or both null, position by position *)
Fixpoint cells_agree (a b : list (option Z)) : Prop :=
  match a, b with
  | x :: a', y :: b' => cell_differs x y = false /\ cells_agree a' b'
  | _, _ => True
  end.

Lemma count_diffs_zero a : forall b, count_diffs a b = 0 <-> cells_agree a b.
Proof.
  induction a as [|x a IH]; intros [|y b]; simpl; try tauto.
  pose proof (count_diffs_nonneg a b). specialize (IH b).
  destruct (cell_differs x y); split.
  - lia.
  - intros [H1 _]. discriminate.
  - intro H0. split; [reflexivity|]. apply IH. lia.
  - intros [_ H1]. apply IH in H1. lia.
Qed.

Lemma sum_zero_iff (l : list Z) : (forall x, In x l -> 0 <= x) -> (fold_right Z.add 0 l = 0 <-> forall x, In x l -> x = 0).
Proof.
  induction l as [|y l IH]; intro Hnn; simpl; [split; [intros _ x []|reflexivity]|].
  assert (Hl : forall x, In x l -> 0 <= x) by (intros x Hx; apply Hnn; right; exact Hx).
  specialize (IH Hl). pose proof (Hnn y (or_introl eq_refl)).
  assert (0 <= fold_right Z.add 0 l).
  { clear -Hl. induction l as [|z l IH]; simpl; [lia|]. pose proof (Hl z (or_introl eq_refl)).
    assert (forall x, In x l -> 0 <= x) by (intros x Hx; apply Hl; right; exact Hx). specialize (IH H0). lia. }
  split.
  - intros Hs x [<-|Hx]; [lia|]. apply IH; [lia|exact Hx].
  - intro Hall. rewrite (Hall y (or_introl eq_refl)). rewrite (proj2 IH); [reflexivity|].
    intros x Hx. apply Hall. right; exact Hx.
Qed.

(* ------------------------------------------------------------------ the specification *)
(* the documented meaning of "compare as correct", on the columns selected for each kind of check *)
Definition structure_ok (isd : Z -> bool) (o : dopts) (df ref : frame) : Prop :=
  (forall c, In c (resolve (d_types o) ref) -> has df c = true) /\
  (forall c a r, In c (resolve (d_types o) ref) -> lookup df c = Some a -> lookup ref c = Some r ->
                 types_match isd (d_level o) (eff_dtype a) (eff_dtype r) = true) /\
  (forall c, In c (resolve (d_extra o) df) -> has df c = true -> has ref c = true) /\
  (match d_order o with
   | FNone => True
   | _ => filter (fun c => mem_str c (resolve (d_order o) ref) && has ref c) (names df) =
          filter (fun c => mem_str c (resolve (d_order o) ref) && has df c) (names ref)
   end).

Definition values_ok (o : dopts) (df ref : frame) : Prop :=
  forall c, In c (resolve (d_data o) ref) ->
    has df c = true /\
    forall a r, lookup df c = Some a -> lookup ref c = Some r -> cells_agree (c_cells a) (c_cells r).

Lemma mem_dedup x l : mem_str x (dedup_strs l) = mem_str x l.
Proof.
  induction l as [|y l IH]; [reflexivity|]. cbn [dedup_strs].
  destruct (mem_str y l) eqn:E; cbn [mem_str].
  - rewrite IH. destruct (str_eqb x y) eqn:Exy; [|reflexivity].
    apply str_eqb_eq in Exy. subst. rewrite E. reflexivity.
  - rewrite IH. reflexivity.
Qed.

Lemma str_eqb_sym a b : str_eqb a b = str_eqb b a.
Proof.
  destruct (str_eqb a b) eqn:E1; destruct (str_eqb b a) eqn:E2; try reflexivity.
  - apply str_eqb_eq in E1. subst. rewrite str_eqb_refl in E2. discriminate.
  - apply str_eqb_eq in E2. subst. rewrite str_eqb_refl in E1. discriminate.
Qed.

Lemma has_lookup f c : has f c = true <-> exists col, lookup f c = Some col.
Proof.
  unfold has, names. induction f as [|x f IH]; cbn [map mem_str lookup].
  - split; [discriminate|intros [col H]; discriminate].
  - rewrite (str_eqb_sym c (c_name x)). destruct (str_eqb (c_name x) c); cbn [orb].
    + split; [intros _; eexists; reflexivity|reflexivity].
    + exact IH.
Qed.

Lemma mem_str_false_filter (missing : list str) l : missing = [] -> filter (fun c => negb (mem_str c missing)) l = l.
Proof. intros ->. induction l as [|x l IH]; [reflexivity|]. cbn [filter mem_str negb]. f_equal. exact IH. Qed.

(* selected columns are reference columns: the calls the real code makes (ref_df[c]) cannot raise *)
Definition selections_in_ref (o : dopts) (ref : frame) : Prop :=
  (forall c, In c (resolve (d_types o) ref) -> has ref c = true) /\
  (forall c, In c (resolve (d_data o) ref) -> has ref c = true).

Lemma existsb_false_iff {T} (f : T -> bool) l : existsb f l = false <-> forall x, In x l -> f x = false.
Proof.
  induction l as [|x l IH]; simpl; [split; [intros _ y []|reflexivity]|].
  rewrite orb_false_iff, IH. split.
  - intros [H1 H2] y [<-|Hy]; [exact H1|apply H2; exact Hy].
  - intro H. split; [apply H; left; reflexivity|intros y Hy; apply H; right; exact Hy].
Qed.

Theorem check_dataframe_spec_proof isd o df ref :
  selections_in_ref o ref ->
  exists v, check_dataframe isd o df ref = Done v /\
    (v_same v = true <-> structure_ok isd o df ref /\ nrows df = nrows ref /\ values_ok o df ref).
Proof.
  intros [Hsel_t Hsel_d]. unfold check_dataframe.
  set (ct := resolve (d_types o) ref) in *. set (cx := resolve (d_extra o) df) in *.
  set (missing := filter (fun c => negb (has df c)) ct).
  assert (Hk1 : existsb (fun c => has df c && negb (has ref c)) ct = false).
  { apply existsb_false_iff. intros c Hc. rewrite (Hsel_t c Hc). apply andb_false_r. }
  rewrite Hk1.
  set (wrong_types := filter _ ct). set (extra := filter _ (dedup_strs cx)).
  set (wrong_order := match d_order o with FNone => false | _ => _ end).
  (* characterise each component *)
  assert (Hmiss : missing = [] <-> forall c, In c ct -> has df c = true).
  { unfold missing. rewrite filter_nil_iff. split; intros H c Hc; specialize (H c Hc); [apply negb_false_iff; exact H|rewrite H; reflexivity]. }
  assert (Hwt : wrong_types = [] <-> forall c a r, In c ct -> lookup df c = Some a -> lookup ref c = Some r ->
                                    types_match isd (d_level o) (eff_dtype a) (eff_dtype r) = true).
  { unfold wrong_types. rewrite filter_nil_iff. split.
    - intros H c a r Hc Ha Hr. specialize (H c Hc). rewrite Ha, Hr in H. apply negb_false_iff. exact H.
    - intros H c Hc. destruct (lookup df c) as [a|] eqn:Ea; [|reflexivity]. destruct (lookup ref c) as [r|] eqn:Er; [|reflexivity].
      rewrite (H c a r Hc Ea Er). reflexivity. }
  assert (Hex : extra = [] <-> forall c, In c cx -> has df c = true -> has ref c = true).
  { unfold extra. rewrite filter_nil_iff. split.
    - intros H c Hc Hd. assert (Hm : In c (dedup_strs cx)) by (apply mem_str_In; rewrite mem_dedup; apply mem_str_In; exact Hc).
      specialize (H c Hm). rewrite Hd in H. cbn [andb] in H. apply negb_false_iff. exact H.
    - intros H c Hc. apply mem_str_In in Hc. rewrite mem_dedup in Hc. apply mem_str_In in Hc.
      destruct (has df c) eqn:Ed; [|reflexivity]. rewrite (H c Hc Ed). reflexivity. }
  assert (Hwo : missing = [] -> (wrong_order = false <->
            match d_order o with
            | FNone => True
            | _ => filter (fun c => mem_str c (resolve (d_order o) ref) && has ref c) (names df) =
                   filter (fun c => mem_str c (resolve (d_order o) ref) && has df c) (names ref)
            end)).
  { intro Hm. unfold wrong_order. rewrite Hm. cbn [is_nil_s].
    destruct (d_order o); try (rewrite negb_false_iff, strs_eqb_eq; tauto). tauto. }
  destruct (is_nil_s missing && is_nil_s extra && is_nil_s wrong_types && negb wrong_order) eqn:Esame.
  - apply andb_true_iff in Esame as [Esame Ewo]. apply andb_true_iff in Esame as [Esame Ewt].
    apply andb_true_iff in Esame as [Em Ee]. apply is_nil_s_true in Em, Ee, Ewt. apply negb_true_iff in Ewo.
    assert (Hstruct : structure_ok isd o df ref).
    { split; [apply Hmiss; exact Em|]. split; [apply Hwt; exact Ewt|]. split; [apply Hex; exact Ee|]. apply (Hwo Em). exact Ewo. }
    cbn [negb orb]. destruct (Nat.eqb_spec (nrows df) (nrows ref)) as [Erows|Erows]; cbn [negb].
    + remember (resolve (d_data o) ref) as cd0 eqn:Ecd. unfold values_ok. rewrite <- Ecd.
      destruct cd0 as [|d0 cd'].
      * eexists. split; [reflexivity|]. cbn [v_same]. split; [intros _|reflexivity].
        split; [exact Hstruct|]. split; [exact Erows|]. intros c [].
      * cbv iota. set (cd := d0 :: cd') in *. rewrite (mem_str_false_filter missing cd Em).
        destruct (filter (fun c => negb (has df c)) cd) as [|a0 absent] eqn:Eabs.
        -- assert (Hk2 : existsb (fun c => negb (has ref c)) cd = false).
           { apply existsb_false_iff. intros c Hc. rewrite (Hsel_d c Hc). reflexivity. }
           rewrite Hk2. eexists. split; [reflexivity|]. cbn [v_same].
           assert (Hall_in : forall c, In c cd -> has df c = true).
           { intros c Hc. apply negb_false_iff. revert c Hc. apply filter_nil_iff. exact Eabs. }
           rewrite Z.eqb_eq. rewrite sum_zero_iff.
           ++ split.
              ** intro Hz. split; [exact Hstruct|]. split; [exact Erows|]. intros c Hc. split; [apply Hall_in; exact Hc|].
                 intros a r Ha Hr. apply count_diffs_zero.
                 specialize (Hz (match lookup df c, lookup ref c with Some a, Some r => count_diffs (c_cells a) (c_cells r) | _, _ => 0 end)).
                 rewrite Ha, Hr in Hz. apply Hz. apply in_map_iff. exists c. rewrite Ha, Hr. split; [reflexivity|exact Hc].
              ** intros (_ & _ & Hv) x Hx. apply in_map_iff in Hx as [c [<- Hc]].
                 destruct (lookup df c) as [a|] eqn:Ea; [|reflexivity]. destruct (lookup ref c) as [r|] eqn:Er; [|reflexivity].
                 apply count_diffs_zero. destruct (Hv c Hc) as [_ Hag]. apply Hag; assumption.
           ++ intros x Hx. apply in_map_iff in Hx as [c [<- _]].
              destruct (lookup df c); [|lia]. destruct (lookup ref c); [|lia]. apply count_diffs_nonneg.
        -- eexists. split; [reflexivity|]. cbn [v_same]. split; [discriminate|].
           intros (_ & _ & Hv). exfalso.
           assert (Hin : In a0 (filter (fun c => negb (has df c)) cd)) by (rewrite Eabs; left; reflexivity).
           apply filter_In in Hin as [Hin Hneg]. destruct (Hv a0 Hin) as [Hh _]. rewrite Hh in Hneg. discriminate.
    + eexists. split; [reflexivity|]. cbn [v_same]. split; [discriminate|]. intros (_ & Hr & _). contradiction.
  - cbn [negb orb]. eexists. split; [reflexivity|]. cbn [v_same]. split; [discriminate|].
    intros [(Hs1 & Hs2 & Hs3 & Hs4) _]. exfalso.
    assert (Em : missing = []) by (apply Hmiss; exact Hs1).
    assert (Ewt : wrong_types = []) by (apply Hwt; exact Hs2).
    assert (Ee : extra = []) by (apply Hex; exact Hs3).
    assert (Ewo : wrong_order = false) by (apply (Hwo Em); exact Hs4).
    rewrite Em, Ee, Ewt, Ewo in Esame. discriminate.
Qed.

(* ------------------------------------------------------------------ corollaries *)
Lemma cell_differs_refl x : cell_differs x x = false.
Proof. destruct x; simpl; [rewrite Z.eqb_refl; reflexivity|reflexivity]. Qed.

Lemma cells_agree_refl a : cells_agree a a.
Proof. induction a as [|x a IH]; simpl; [exact I|]. split; [apply cell_differs_refl|exact IH]. Qed.

Lemma types_match_refl isd level t : types_match isd level t t = true.
Proof. unfold types_match. rewrite str_eqb_refl, orb_true_r. reflexivity. Qed.

Definition flag_in (fl : flag) (f : frame) : Prop :=
  match fl with FList l => forall c, In c l -> has f c = true | _ => True end.

Lemma resolve_in fl f c : flag_in fl f -> In c (resolve fl f) -> has f c = true.
Proof.
  destruct fl; cbn [flag_in resolve]; intros H Hc; [|destruct Hc|apply H; exact Hc].
  unfold has. apply mem_str_In. exact Hc.
Qed.

(* a copy of a frame always passes, for every option setting whose lists name columns of the frame *)
Theorem copy_passes_proof isd o df :
  flag_in (d_types o) df -> flag_in (d_data o) df ->
  exists v, check_dataframe isd o df df = Done v /\ v_same v = true.
Proof.
  intros Ht Hd.
  destruct (check_dataframe_spec_proof isd o df df) as [v [Hv Hiff]].
  { split; intros c Hc; [eapply resolve_in; [exact Ht|exact Hc]|eapply resolve_in; [exact Hd|exact Hc]]. }
  exists v. split; [exact Hv|]. apply Hiff. split; [|split; [reflexivity|]].
  - split; [intros c Hc; eapply resolve_in; [exact Ht|exact Hc]|]. split.
    + intros c a r _ Ha Hr. rewrite Ha in Hr. injection Hr as <-. apply types_match_refl.
    + split; [intros c Hc Hdf; exact Hdf|]. destruct (d_order o); reflexivity || exact I.
  - intros c Hc. split; [eapply resolve_in; [exact Hd|exact Hc]|].
    intros a r Ha Hr. rewrite Ha in Hr. injection Hr as <-. apply cells_agree_refl.
Qed.

(* any difference in what is checked fails the comparison - and it is a verdict, not an internal error *)
Theorem difference_fails_proof isd o df ref :
  selections_in_ref o ref ->
  ( (exists c, In c (resolve (d_types o) ref) /\ has df c = false) \/                                 (* missing / renamed column *)
    (exists c a r, In c (resolve (d_types o) ref) /\ lookup df c = Some a /\ lookup ref c = Some r /\
                   types_match isd (d_level o) (eff_dtype a) (eff_dtype r) = false) \/                (* retyped column *)
    (exists c, In c (resolve (d_extra o) df) /\ has df c = true /\ has ref c = false) \/              (* extra column *)
    (d_order o <> FNone /\
     filter (fun c => mem_str c (resolve (d_order o) ref) && has ref c) (names df) <>
     filter (fun c => mem_str c (resolve (d_order o) ref) && has df c) (names ref)) \/                 (* moved column *)
    nrows df <> nrows ref \/                                                                          (* row count *)
    (exists c a r, In c (resolve (d_data o) ref) /\ lookup df c = Some a /\ lookup ref c = Some r /\
                   ~ cells_agree (c_cells a) (c_cells r)) ) ->                                          (* a checked value *)
  exists v, check_dataframe isd o df ref = Done v /\ v_same v = false.
Proof.
  intros Hsel Hdiff. destruct (check_dataframe_spec_proof isd o df ref Hsel) as [v [Hv Hiff]].
  exists v. split; [exact Hv|]. destruct (v_same v) eqn:E; [|reflexivity]. exfalso.
  destruct (proj1 Hiff eq_refl) as ((Hs1 & Hs2 & Hs3 & Hs4) & Hrows & Hvals).
  destruct Hdiff as [(c & Hc & Hh)|[(c & a & r & Hc & Ha & Hr & Htm)|[(c & Hc & Hd & Hh)|[(Hno & Hord)|[Hr|(c & a & r & Hc & Ha & Hr & Hag)]]]]].
  - rewrite (Hs1 c Hc) in Hh. discriminate.
  - rewrite (Hs2 c a r Hc Ha Hr) in Htm. discriminate.
  - rewrite (Hs3 c Hc Hd) in Hh. discriminate.
  - destruct (d_order o); [apply Hord; exact Hs4|congruence|apply Hord; exact Hs4].
  - contradiction.
  - destruct (Hvals c Hc) as [_ Hall]. apply Hag. apply Hall; assumption.
Qed.

(* the type-matching levels *)
Lemma types_match_strict isd t1 t2 : types_match isd 0 t1 t2 = str_eqb t1 t2.
Proof. unfold types_match. cbn [Z.eqb orb]. reflexivity. Qed.
