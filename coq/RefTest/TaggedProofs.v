(* Proofs about tag-based selection (C19). *)
From Coq Require Import ZArith List Bool Lia.
From Tdda Require Import Base.Sexp Base.Str Base.Sort Generated.Consts
  RefTest.Argv RefTest.ArgvProofs RefTest.Tagged.
Import ListNotations.
Open Scope Z_scope.

(* a test carries the tag itself or through its class *)
Definition eff_tagged (c : tclass) (m : str * bool) : bool := tc_tagged c || snd m.

Lemma tagged_names_spec c n :
  In n (tagged_names c) <-> exists m, In m (tc_methods c) /\ fst m = n /\ eff_tagged c m = true.
Proof.
  unfold tagged_names, eff_tagged. destruct (tc_tagged c); simpl.
  - rewrite in_map_iff. split; intros [m Hm]; exists m; tauto.
  - rewrite in_map_iff. split; intros [m Hm]; exists m; rewrite filter_In in *; tauto.
Qed.

Definition selected_cases (tagged check : bool) (cs : list tclass) : list (str * str) :=
  match select tagged check cs with Ran ex _ => ex | _ => [] end.
Definition listed_classes (tagged check : bool) (cs : list tclass) : list str :=
  match select tagged check cs with Ran _ li => li | _ => [] end.

Lemma select_is_ran t k cs : exists ex li, select t k cs = Ran ex li.
Proof. unfold select. destruct k; [|destruct t]; eauto. Qed.

(* --tagged: exactly the effectively tagged tests of the selected classes *)
Lemma tagged_selection_exact_proof cs cn n :
  In (cn, n) (selected_cases true false cs) <->
  exists c m, In c cs /\ tc_name c = cn /\ In m (tc_methods c) /\ fst m = n /\ eff_tagged c m = true.
Proof.
  unfold selected_cases, select. rewrite in_flat_map. split.
  - intros [c [Hc Hin]]. apply in_map_iff in Hin as [x [Hx Hin]]. inversion Hx; subst.
    apply tagged_names_spec in Hin as [m Hm]. exists c, m. tauto.
  - intros [c [m [Hc [Hn Hm]]]]. exists c. split; [exact Hc|]. apply in_map_iff. exists n.
    split; [congruence|]. apply tagged_names_spec. exists m. tauto.
Qed.

Lemma NoDup_map_pair {T U} (a : T) (l : list U) : NoDup l -> NoDup (map (fun m => (a, m)) l).
Proof.
  induction 1 as [|x l Hx Hnd IH]; simpl; constructor; auto.
  rewrite in_map_iff. intros [y [Hy Hin]]. inversion Hy; subst. contradiction.
Qed.

Lemma NoDup_app_intro {T} (a b : list T) :
  NoDup a -> NoDup b -> (forall x, In x a -> In x b -> False) -> NoDup (a ++ b).
Proof.
  induction a as [|x a IH]; simpl; intros Ha Hb Hd; [exact Hb|].
  inversion Ha; subst. constructor.
  - rewrite in_app_iff. intros [H|H]; [contradiction|]. apply (Hd x); auto.
  - apply IH; auto. intros y Hy1 Hy2. apply (Hd y); auto.
Qed.

Lemma NoDup_map_filter {T U} (g : T -> U) (f : T -> bool) l : NoDup (map g l) -> NoDup (map g (filter f l)).
Proof.
  induction l as [|x l IH]; simpl; [auto|]. intro H. inversion H; subst.
  destruct (f x); simpl; [constructor|]; auto.
  rewrite in_map_iff in *. intros [y [Hy Hin]]. apply H2. exists y. rewrite filter_In in Hin. tauto.
Qed.

Lemma tagged_names_NoDup c : NoDup (map fst (tc_methods c)) -> NoDup (tagged_names c).
Proof.
  unfold tagged_names. destruct (tc_tagged c); [auto|]. apply NoDup_map_filter.
Qed.

(* each selected test appears once, when class names and method names are distinct *)
Lemma selection_once_proof (names : tclass -> list str) cs :
  NoDup (map tc_name cs) ->
  (forall c, In c cs -> NoDup (names c)) ->
  NoDup (flat_map (fun c => map (fun m => (tc_name c, m)) (names c)) cs).
Proof.
  induction cs as [|c cs IH]; simpl; intros Hnd Hm; [constructor|].
  inversion Hnd as [|? ? Hnotin Hnd']; subst.
  apply NoDup_app_intro.
  - apply NoDup_map_pair. apply Hm. left; reflexivity.
  - apply IH; auto.
  - intros [cn n] Ha Hb. apply in_map_iff in Ha as [x [Hx _]]. inversion Hx; subst.
    apply in_flat_map in Hb as [c' [Hc' Hin]]. apply in_map_iff in Hin as [y [Hy _]].
    inversion Hy as [[Hname Hyn]]. apply Hnotin. apply in_map_iff. exists c'. split; assumption.
Qed.

Lemma tagged_selection_once_proof cs :
  NoDup (map tc_name cs) ->
  (forall c, In c cs -> NoDup (map fst (tc_methods c))) ->
  NoDup (selected_cases true false cs).
Proof.
  intros H1 H2. unfold selected_cases, select. apply selection_once_proof; auto.
  intros c Hc. apply tagged_names_NoDup. auto.
Qed.

(* without the option every test runs *)
Lemma untagged_runs_all_proof cs :
  select false false cs = Ran (flat_map (fun c => map (fun m => (tc_name c, fst m)) (tc_methods c)) cs) [].
Proof.
  unfold select, all_names. f_equal. induction cs as [|c cs IH]; simpl; [reflexivity|].
  rewrite IH, map_map. reflexivity.
Qed.

(* list-tagged: nothing runs; exactly the classes that contain a tagged test are named *)
Lemma list_runs_none_proof t cs :
  selected_cases t true cs = [] /\
  forall cn, In cn (listed_classes t true cs) <->
             exists c, In c cs /\ tc_name c = cn /\ exists m, In m (tc_methods c) /\ eff_tagged c m = true.
Proof.
  unfold selected_cases, listed_classes, select. split; [reflexivity|]. intro cn.
  rewrite in_map_iff. split.
  - intros [c [Hn Hin]]. apply filter_In in Hin as [Hc Hne]. exists c. split; [exact Hc|]. split; [exact Hn|].
    destruct (tagged_names c) as [|n ns] eqn:E; [discriminate|].
    assert (Hn' : In n (tagged_names c)) by (rewrite E; left; reflexivity).
    apply tagged_names_spec in Hn' as [m Hm]. exists m. tauto.
  - intros [c [Hc [Hn [m [Hm He]]]]]. exists c. split; [exact Hn|]. apply filter_In. split; [exact Hc|].
    assert (Hin : In (fst m) (tagged_names c)) by (apply tagged_names_spec; exists m; tauto).
    destruct (tagged_names c); [destruct Hin|reflexivity].
Qed.

(* the whole run: scanner + loader *)
Definition run_args (prog : str) (rest : list str) : list str := tl (ar_argv (spec_result prog rest)).

Lemma run_spec_proof rs prog rest :
  in_domain prog rest = true ->
  forallb (fun f => mem_str f unittest_flags) (filter is_dash_arg (run_args prog rest)) = true ->
  names_contiguous (run_args prog rest) = true ->
  run_module rs (prog :: rest) =
  select (ar_tagged (spec_result prog rest)) (ar_check (spec_result prog rest))
    (match filter (fun a => negb (is_dash_arg a)) (run_args prog rest) with
     | [] => isort class_leb (resolve rs)
     | names => lookup_names names (resolve rs)
     end).
Proof.
  intros Hd Hf Hc. unfold run_module. rewrite (strip_spec_proof _ _ Hd).
  fold (run_args prog rest). rewrite Hf, Hc. cbn [andb negb].
  destruct (filter (fun a => negb (is_dash_arg a)) (run_args prog rest)); reflexivity.
Qed.
