From Coq Require Import ZArith List Bool Arith Lia.
From Tdda Require Import Base.Sexp Base.Str RefTest.CheckStrings RefTest.Artefacts.
Import ListNotations.
Open Scope Z_scope.

Lemma cpl_firstn (a b : str) : firstn (common_prefix_len a b) a = firstn (common_prefix_len a b) b.
Proof.
  revert b; induction a as [|x a IH]; intros [|y b]; simpl; try reflexivity.
  destruct (Z.eqb_spec x y); simpl; [subst; f_equal; apply IH | reflexivity].
Qed.

Lemma cpl_le (a b : str) : (common_prefix_len a b <= Nat.min (length a) (length b))%nat.
Proof.
  revert b; induction a as [|x a IH]; intros [|y b]; simpl; try lia.
  destruct (Z.eqb x y); simpl; [specialize (IH b); lia | lia].
Qed.

Lemma cpl_differs (a b : str) d :
  (common_prefix_len a b < length a)%nat -> (common_prefix_len a b < length b)%nat ->
  nth (common_prefix_len a b) a d <> nth (common_prefix_len a b) b d.
Proof.
  revert b; induction a as [|x a IH]; intros [|y b]; simpl; try lia.
  destruct (Z.eqb_spec x y); simpl; [intros; apply IH; lia | intros _ _; exact n].
Qed.

Lemma cpl_sym (a b : str) : common_prefix_len a b = common_prefix_len b a.
Proof.
  revert b; induction a as [|x a IH]; intros [|y b]; simpl; try reflexivity.
  rewrite Z.eqb_sym. destruct (Z.eqb y x); [f_equal; apply IH | reflexivity].
Qed.

Lemma cpl_prefix_full (a b : str) n :
  n = Nat.min (length a) (length b) -> firstn n a = firstn n b -> common_prefix_len a b = n.
Proof.
  revert b n; induction a as [|x a IH]; intros [|y b] n Hn H; simpl in *; subst; try reflexivity.
  simpl in H. inversion H; subst. rewrite Z.eqb_refl. f_equal. apply IH; auto.
Qed.

(* the reported offset is the length of the longest common prefix, in both code paths *)
Lemma binary_offset_is_cpl actual expected b :
  check_binary actual expected = Some b ->
  bi_offset b = common_prefix_len actual expected /\
  bi_actual_len b = length actual /\ bi_expected_len b = length expected.
Proof.
  unfold check_binary. destruct (str_eqb expected actual); [discriminate|].
  intro H. inversion H; subst; clear H. cbn [bi_offset bi_actual_len bi_expected_len].
  split; [|split; reflexivity].
  destruct (str_eqb (firstn _ expected) (firstn _ actual)) eqn:E.
  - apply str_eqb_eq in E. rewrite cpl_sym. symmetry. apply cpl_prefix_full; auto.
  - apply cpl_sym.
Qed.

Theorem binary_offset_exact_proof actual expected :
  match check_binary actual expected with
  | None => actual = expected
  | Some b =>
    actual <> expected /\
    bi_actual_len b = length actual /\ bi_expected_len b = length expected /\
    firstn (bi_offset b) actual = firstn (bi_offset b) expected /\
    (bi_offset b <= Nat.min (length actual) (length expected))%nat /\
    ((bi_offset b < length actual)%nat -> (bi_offset b < length expected)%nat ->
     nth (bi_offset b) actual 0 <> nth (bi_offset b) expected 0)
  end.
Proof.
  destruct (check_binary actual expected) as [b|] eqn:E.
  - destruct (binary_offset_is_cpl _ _ _ E) as (Ho & Ha & He). rewrite Ho.
    repeat split; auto.
    + intro Heq. subst. unfold check_binary in E. rewrite str_eqb_refl in E. discriminate.
    + apply cpl_firstn.
    + apply cpl_le.
    + apply cpl_differs.
  - unfold check_binary in E. destruct (str_eqb expected actual) eqn:Eq; [|discriminate].
    apply str_eqb_eq in Eq. congruence.
Qed.

(* a passing assertion writes nothing and names nothing *)
Theorem pass_writes_nothing_proof c : fc_failed c = false ->
  written c = [] /\ names_raw_pair c = false /\ names_post_pair c = false.
Proof. intro H. unfold written, names_raw_pair, names_post_pair. rewrite H. auto. Qed.

(* every file named in the message is either a given path or one that was written *)
Theorem named_files_exist_proof c :
  (names_raw_pair c = true -> (fc_apath c = true \/ In ActualRaw (written c)) /\
                              (fc_epath c = true \/ In ExpectedRaw (written c))) /\
  (names_post_pair c = true -> In PostActual (written c) /\ In PostExpected (written c)).
Proof.
  unfold names_raw_pair, names_post_pair, written.
  destruct (fc_failed c), (fc_recon c), (fc_apath c), (fc_epath c), (fc_create c); simpl;
    repeat split; intros; try discriminate; auto 10.
Qed.

(* with exclusions in force (a reconstruction exists) a failing assertion writes the pair *)
Theorem postprocessed_written_proof c :
  fc_failed c = true -> fc_recon c = true -> fc_create c = true ->
  In PostActual (written c) /\ In PostExpected (written c) /\ names_post_pair c = true.
Proof.
  intros H1 H2 H3. unfold written, names_post_pair. rewrite H1, H2, H3. simpl.
  repeat split; apply in_or_app; right; simpl; auto.
Qed.

(* a string actual is written raw; a file actual is never copied *)
Theorem raw_actual_written_iff_proof c : fc_failed c = true -> fc_create c = true ->
  (In ActualRaw (written c) <-> fc_apath c = false).
Proof.
  intros H1 H2. unfold written. rewrite H1, H2.
  destruct (fc_apath c), (fc_epath c), (fc_recon c); simpl; intuition congruence.
Qed.
