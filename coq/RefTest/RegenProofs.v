From Coq Require Import ZArith List Bool Lia.
From Tdda Require Import Base.Sexp Base.Str RefTest.Argv RefTest.CheckStrings RefTest.CheckStringsProofs
  RefTest.Artefacts RefTest.ArtefactsProofs RefTest.Regen.
Import ListNotations.
Open Scope Z_scope.

Lemma kind_eqb_eq a b : kind_eqb a b = true <-> a = b.
Proof.
  destruct a as [x|], b as [y|]; simpl; try (split; [discriminate|discriminate]); try tauto.
  rewrite str_eqb_eq. split; congruence.
Qed.
Lemma kind_eqb_refl a : kind_eqb a a = true.
Proof. apply kind_eqb_eq. reflexivity. Qed.

Lemma tlookup_tset_same k b t : tlookup k (tset k b t) = Some b.
Proof.
  induction t as [|[k' b'] t IH]; simpl; [rewrite kind_eqb_refl; reflexivity|].
  destruct (kind_eqb k k') eqn:E; simpl; [rewrite kind_eqb_refl; reflexivity|]. rewrite E. exact IH.
Qed.

Lemma tlookup_tset_other k k' b t : kind_eqb k' k = false -> tlookup k' (tset k b t) = tlookup k' t.
Proof.
  intro H. induction t as [|[k2 b2] t IH]; simpl; [rewrite H; reflexivity|].
  destruct (kind_eqb k k2) eqn:E; simpl.
  - apply kind_eqb_eq in E. subst k2. rewrite H. reflexivity.
  - destruct (kind_eqb k' k2); [reflexivity|exact IH].
Qed.

Lemma fread_fwrite_same p c f : fread p (fwrite p c f) = Some c.
Proof.
  induction f as [|[q c'] f IH]; simpl; [rewrite str_eqb_refl; reflexivity|].
  destruct (str_eqb p q) eqn:E; simpl; [rewrite str_eqb_refl; reflexivity|]. rewrite E. exact IH.
Qed.

Lemma fread_fwrite_other p q c f : str_eqb q p = false -> fread q (fwrite p c f) = fread q f.
Proof.
  intro H. induction f as [|[r c'] f IH]; simpl; [rewrite H; reflexivity|].
  destruct (str_eqb p r) eqn:E; simpl.
  - apply str_eqb_eq in E. subst r. rewrite H. reflexivity.
  - destruct (str_eqb q r); [reflexivity|exact IH].
Qed.

(* ---------------------------------------------------------------- references change only by regeneration *)

Definition op_kind (x : op) : option kind :=
  match x with
  | AssertString k _ _ _ _ | AssertTextFile k _ _ _ _ | AssertBinaryFile k _ _ => Some k
  | _ => None
  end.
Definition op_ref (x : op) : option str :=
  match x with
  | AssertString _ _ _ _ r | AssertTextFile _ _ _ _ r | AssertBinaryFile _ _ r => Some r
  | _ => None
  end.

Theorem normal_mode_preserves_fs_proof s x :
  match op_kind x with Some k => should_regenerate (st_table s) k = false | None => True end ->
  st_fs (fst (step s x)) = st_fs s.
Proof.
  destruct x as [k b|argv|k o orc a r|k o orc ap r|k ap r]; simpl; intro H.
  - reflexivity.
  - destruct (set_flags argv); reflexivity.
  - rewrite H. destruct (fread r (st_fs s)); reflexivity.
  - rewrite H. destruct (fread r (st_fs s)), (fread ap (st_fs s)); reflexivity.
  - rewrite H. destruct (fread r (st_fs s)), (fread ap (st_fs s)); try reflexivity.
Qed.

(* whatever the history, a step whose outcome is not "Regenerated" leaves every file as it was,
   and a regenerating step touches only its own reference file *)
Theorem only_regeneration_writes_proof s x :
  (snd (step s x) <> Regenerated -> st_fs (fst (step s x)) = st_fs s) /\
  (forall p, match op_ref x with Some r => str_eqb p r = false | None => True end ->
             fread p (st_fs (fst (step s x))) = fread p (st_fs s)).
Proof.
  destruct x as [k b|argv|k o orc a r|k o orc ap r|k ap r]; simpl.
  - split; reflexivity.
  - destruct (set_flags argv); split; reflexivity.
  - destruct (should_regenerate (st_table s) k); simpl.
    + split; [congruence|]. intros p Hp. apply fread_fwrite_other. exact Hp.
    + destruct (fread r (st_fs s)); split; reflexivity.
  - destruct (should_regenerate (st_table s) k); simpl.
    + destruct (fread ap (st_fs s)); simpl; split; try reflexivity; try congruence.
      intros p Hp. apply fread_fwrite_other. exact Hp.
    + destruct (fread r (st_fs s)), (fread ap (st_fs s)); split; reflexivity.
  - destruct (should_regenerate (st_table s) k); simpl.
    + destruct (fread ap (st_fs s)); simpl; split; try reflexivity; try congruence.
      intros p Hp. apply fread_fwrite_other. exact Hp.
    + destruct (fread r (st_fs s)), (fread ap (st_fs s)); split; reflexivity.
Qed.

(* assertions never change the regeneration table *)
Theorem assertions_keep_table_proof s x : op_kind x <> None -> st_table (fst (step s x)) = st_table s.
Proof.
  destruct x as [k b|argv|k o orc a r|k o orc ap r|k ap r]; simpl; intro H; try congruence.
  - destruct (should_regenerate (st_table s) k); [reflexivity|]. destruct (fread r (st_fs s)); reflexivity.
  - destruct (should_regenerate (st_table s) k).
    + destruct (fread ap (st_fs s)); reflexivity.
    + destruct (fread r (st_fs s)), (fread ap (st_fs s)); reflexivity.
  - destruct (should_regenerate (st_table s) k).
    + destruct (fread ap (st_fs s)); reflexivity.
    + destruct (fread r (st_fs s)), (fread ap (st_fs s)); reflexivity.
Qed.

(* ---------------------------------------------------------------- a regenerated reference passes *)

Theorem regen_string_then_passes_proof s k o orc a r s2 o2 orc2 :
  should_regenerate (st_table s) k = true ->
  fread r (st_fs s2) = fread r (st_fs (fst (step s (AssertString k o orc a r)))) ->
  should_regenerate (st_table s2) k = false ->
  snd (step s2 (AssertString k o2 orc2 a r)) = Passed.
Proof.
  intros H1 Hf H2. simpl in *. rewrite H1 in Hf. simpl in Hf. rewrite fread_fwrite_same in Hf.
  rewrite H2, Hf. simpl. rewrite string_vs_own_file_passes_proof. reflexivity.
Qed.

Theorem regen_textfile_then_passes_proof s k o orc ap r c s2 o2 orc2 :
  should_regenerate (st_table s) k = true ->
  fread ap (st_fs s) = Some c ->
  fread r (st_fs s2) = fread r (st_fs (fst (step s (AssertTextFile k o orc ap r)))) ->
  fread ap (st_fs s2) = Some c ->
  should_regenerate (st_table s2) k = false ->
  snd (step s2 (AssertTextFile k o2 orc2 ap r)) = Passed.
Proof.
  intros H1 Ha Hf Ha2 H2. simpl in *. rewrite H1, Ha in Hf. simpl in Hf. rewrite fread_fwrite_same in Hf.
  rewrite H2, Hf, Ha2. simpl. unfold check_file. rewrite (splitlines_univ_nl_proof (univ_nl c)).
  rewrite refl_passes_proof. reflexivity.
Qed.

Theorem regen_binary_then_passes_proof s k ap r c s2 :
  should_regenerate (st_table s) k = true ->
  fread ap (st_fs s) = Some c ->
  fread r (st_fs s2) = fread r (st_fs (fst (step s (AssertBinaryFile k ap r)))) ->
  fread ap (st_fs s2) = Some c ->
  should_regenerate (st_table s2) k = false ->
  snd (step s2 (AssertBinaryFile k ap r)) = Passed.
Proof.
  intros H1 Ha Hf Ha2 H2. simpl in *. rewrite H1, Ha in Hf. simpl in Hf. rewrite fread_fwrite_same in Hf.
  rewrite H2, Hf, Ha2. unfold check_binary. rewrite str_eqb_refl. reflexivity.
Qed.

(* ---------------------------------------------------------------- which kinds are regenerated *)

Lemma should_regenerate_tset_true k k' t :
  should_regenerate (tset k true t) k' =
  if kind_eqb k' k then true
  else match tlookup k' t with
       | Some b => b
       | None => if kind_eqb None k then true else should_regenerate t k'
       end.
Proof.
  unfold should_regenerate.
  destruct (kind_eqb k' k) eqn:E.
  - apply kind_eqb_eq in E. subst k'. rewrite tlookup_tset_same. rewrite tlookup_tset_same. reflexivity.
  - rewrite (tlookup_tset_other k k' true t E).
    destruct (tlookup k' t) as [b|] eqn:El.
    + rewrite (tlookup_tset_other k k' true t E), El. reflexivity.
    + destruct (kind_eqb None k) eqn:En.
      * apply kind_eqb_eq in En. subst k. rewrite tlookup_tset_same. reflexivity.
      * rewrite (tlookup_tset_other k None true t En). reflexivity.
Qed.

(* starting from an empty table, after setting the listed kinds to True a kind regenerates
   iff it was listed or the all-kinds key was listed *)
Definition all_true (t : table) : Prop := forall k b, tlookup k t = Some b -> b = true.

Lemma kinds_fold_spec kinds : forall t k,
  all_true t ->
  should_regenerate (fold_left (fun t k => tset k true t) kinds t) k =
  (existsb (kind_eqb k) kinds || existsb (kind_eqb None) kinds || should_regenerate t k).
Proof.
  induction kinds as [|k0 kinds IH]; intros t k Ht; [reflexivity|].
  cbn [fold_left existsb]. rewrite IH.
  - rewrite should_regenerate_tset_true.
    destruct (kind_eqb k k0) eqn:E; cbn [orb]; [rewrite !orb_true_r; reflexivity|].
    destruct (tlookup k t) as [b|] eqn:El.
    + assert (b = true) by (eapply Ht; eassumption). subst b.
      unfold should_regenerate. rewrite El, El. rewrite !orb_true_r. reflexivity.
    + destruct (kind_eqb None k0); cbn [orb]; [rewrite !orb_true_r; reflexivity|]. reflexivity.
  - intros k1 b1 H1. destruct (kind_eqb k1 k0) eqn:E.
    + apply kind_eqb_eq in E. subst k1. rewrite tlookup_tset_same in H1. congruence.
    + rewrite (tlookup_tset_other k0 k1 true t E) in H1. eapply Ht; eassumption.
Qed.

Theorem regen_only_selected_proof argv r k :
  set_flags argv = Some r ->
  should_regenerate (st_table (fst (step {| st_table := []; st_quiet := false; st_fs := [] |} (ParseArgv argv)))) k =
  (existsb (kind_eqb k) (ar_kinds r) || existsb (kind_eqb None) (ar_kinds r)).
Proof.
  intro H. simpl. rewrite H. simpl. rewrite kinds_fold_spec.
  - unfold should_regenerate. simpl. rewrite orb_false_r. reflexivity.
  - intros k1 b1 H1. simpl in H1. discriminate.
Qed.
