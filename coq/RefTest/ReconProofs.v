(* C15: the post-processed pair written after a failed comparison (FilesComparison.reconstruct) differs exactly on
   the lines where unexcused differences were found: removed lines and ignored differences become one marker line
   that is the same on both sides, equal lines are copied, and only a kept, differing, un-ignored pair of lines
   appears differently in the two files. *)
From Coq Require Import ZArith List Bool Lia Arith.
From Tdda Require Import Base.Sexp Base.Str RefTest.CheckStrings.
Import ListNotations.

(* the lines of l that are not removed, with their original indices (the first line of l has index i) *)
Fixpoint kept_lines (mask : list bool) (l : list str) (i : nat) : list (nat * str) :=
  match l with
  | [] => []
  | x :: l' => if nth_mask mask i then kept_lines mask l' (S i) else (i, x) :: kept_lines mask l' (S i)
  end.

(* the places where the two written files differ, in order *)
Definition diffpairs (p : list str * list str) : list (str * str) :=
  filter (fun q => negb (str_eqb (fst q) (snd q))) (combine (fst p) (snd p)).

(* a pair of compared lines that is shown as a difference: the lines differ and neither is marked ignorable *)
Definition shown (aign eign : list nat) (q : (nat * str) * (nat * str)) : bool :=
  negb (str_eqb (snd (fst q)) (snd (snd q))) && negb (mem_nat (fst (fst q)) aign || mem_nat (fst (snd q)) eign).

Lemma str_eqb_refl_local s : str_eqb s s = true. Proof. apply str_eqb_eq. reflexivity. Qed.

Lemma diffpairs_same m ra re : diffpairs ([m] ++ ra, [m] ++ re) = diffpairs (ra, re).
Proof. unfold diffpairs. cbn [fst snd app combine filter]. rewrite str_eqb_refl_local. reflexivity. Qed.

Theorem reconstruct_differs_exactly arem erem aign eign : forall fuel a e ia ie,
  (length a + length e < fuel)%nat ->
  length (kept_lines arem a ia) = length (kept_lines erem e ie) ->
  let r := reconstruct fuel a e ia ie arem erem aign eign in
  length (fst r) = length (snd r) /\
  diffpairs r = map (fun q => (snd (fst q), snd (snd q)))
                    (filter (shown aign eign) (combine (kept_lines arem a ia) (kept_lines erem e ie))).
Proof.
  induction fuel as [|f IH]; intros a e ia ie Hf Hk; [lia|]. cbv zeta.
  destruct a as [|x a'], e as [|y e']; cbn [reconstruct].
  - split; reflexivity.
  - (* only reference lines left: they must all be removed ones *)
    cbn [kept_lines] in Hk |- *. destruct (nth_mask erem ie) eqn:Er; [|discriminate].
    destruct (IH [] e' ia (S ie) ltac:(cbn [length] in *; lia) Hk) as [H1 H2]. cbv zeta in H1, H2.
    cbn [fst snd]. split; [rewrite !app_length, H1; reflexivity|].
    rewrite diffpairs_same. destruct (reconstruct f [] e' ia (S ie) arem erem aign eign); cbn [fst snd] in *; exact H2.
  - cbn [kept_lines] in Hk |- *. destruct (nth_mask arem ia) eqn:Er; [|discriminate].
    destruct (IH a' [] (S ia) ie ltac:(cbn [length] in *; lia) Hk) as [H1 H2]. cbv zeta in H1, H2.
    cbn [fst snd]. split; [rewrite !app_length, H1; reflexivity|].
    rewrite diffpairs_same. destruct (reconstruct f a' [] (S ia) ie arem erem aign eign); cbn [fst snd] in *; exact H2.
  - cbn [kept_lines] in Hk |- *. cbn [length] in Hf.
    destruct (nth_mask arem ia) eqn:Era, (nth_mask erem ie) eqn:Ere; cbn [andb].
    + destruct (IH a' e' (S ia) (S ie) ltac:(lia) Hk) as [H1 H2]. cbv zeta in H1, H2.
      cbn [fst snd]. split; [rewrite !app_length, H1; reflexivity|].
      rewrite diffpairs_same. destruct (reconstruct f a' e' (S ia) (S ie) arem erem aign eign); cbn [fst snd] in *; exact H2.
    + assert (Hk' : length (kept_lines arem a' (S ia)) = length (kept_lines erem (y :: e') ie)) by (cbn [kept_lines]; rewrite Ere; exact Hk).
      destruct (IH a' (y :: e') (S ia) ie ltac:(cbn [length]; lia) Hk') as [H1 H2]. cbv zeta in H1, H2.
      cbn [kept_lines] in H2. rewrite Ere in H2.
      cbn [fst snd]. split; [rewrite !app_length, H1; reflexivity|].
      rewrite diffpairs_same. destruct (reconstruct f a' (y :: e') (S ia) ie arem erem aign eign); cbn [fst snd] in *; exact H2.
    + assert (Hk' : length (kept_lines arem (x :: a') ia) = length (kept_lines erem e' (S ie))) by (cbn [kept_lines]; rewrite Era; exact Hk).
      destruct (IH (x :: a') e' ia (S ie) ltac:(cbn [length]; lia) Hk') as [H1 H2]. cbv zeta in H1, H2.
      cbn [kept_lines] in H2. rewrite Era in H2.
      cbn [fst snd]. split; [rewrite !app_length, H1; reflexivity|].
      rewrite diffpairs_same. destruct (reconstruct f (x :: a') e' ia (S ie) arem erem aign eign); cbn [fst snd] in *; exact H2.
    + cbn [length] in Hk. injection Hk as Hk.
      destruct (IH a' e' (S ia) (S ie) ltac:(lia) Hk) as [H1 H2]. cbv zeta in H1, H2.
      cbn [combine filter]. unfold shown at 1. cbn [fst snd].
      destruct (str_eqb x y) eqn:Exy; cbn [negb andb].
      * cbn [fst snd]. split; [rewrite !app_length, H1; reflexivity|].
        unfold diffpairs. cbn [fst snd app combine filter]. rewrite Exy. cbn [negb].
        destruct (reconstruct f a' e' (S ia) (S ie) arem erem aign eign); cbn [fst snd] in *; exact H2.
      * destruct (mem_nat ia aign || mem_nat ie eign) eqn:Eig; cbn [negb].
        -- cbn [fst snd]. split; [rewrite !app_length, H1; reflexivity|].
           rewrite diffpairs_same. destruct (reconstruct f a' e' (S ia) (S ie) arem erem aign eign); cbn [fst snd] in *; exact H2.
        -- cbn [fst snd]. split; [rewrite !app_length, H1; reflexivity|].
           unfold diffpairs. cbn [fst snd app combine filter map]. rewrite Exy. cbn [negb]. f_equal.
           destruct (reconstruct f a' e' (S ia) (S ie) arem erem aign eign); cbn [fst snd] in *; exact H2.
Qed.

(* ------------------------------------------------------------------ from reconstruct to check_strings *)
From Tdda Require Import Base.Sort Base.SortProofs Generated.Consts RefTest.CheckStringsProofs.

(* lists as functions of the position *)
Lemma combine_seq {A B} (X : list A) (Y : list B) dx dy n : length X = n -> length Y = n ->
  combine X Y = map (fun k => (nth k X dx, nth k Y dy)) (seq 0 n).
Proof.
  revert Y n. induction X as [|x X IH]; intros [|y Y] n Hx Hy; cbn [length] in *; subst n; try discriminate; [reflexivity|].
  cbn [combine seq map nth]. f_equal. rewrite <- seq_shift, map_map. apply IH; [reflexivity|lia].
Qed.

Lemma filter_map_comm {A B} (f : A -> B) (p : B -> bool) l : filter p (map f l) = map f (filter (fun x => p (f x)) l).
Proof. induction l as [|x l IH]; cbn [map filter]; [reflexivity|]. destruct (p (f x)); cbn [map]; rewrite IH; reflexivity. Qed.

Lemma filter_ext_in_local {A} (p q : A -> bool) l : (forall x, In x l -> p x = q x) -> filter p l = filter q l.
Proof.
  induction l as [|x l IH]; intro H; cbn [filter]; [reflexivity|].
  rewrite (H x (or_introl eq_refl)), IH; [reflexivity|]. intros y Hy. apply H. right. exact Hy.
Qed.

(* the original indices of the kept lines *)
Lemma kept_idx_ge mask : forall i x, In x (kept_idx mask i) -> (i <= x)%nat.
Proof.
  induction mask as [|b m IH]; intros i x H; cbn [kept_idx] in H; [destruct H|].
  destruct b; [specialize (IH _ _ H); lia|]. destruct H as [<-|H]; [lia|]. specialize (IH _ _ H). lia.
Qed.

Lemma kept_idx_NoDup mask : forall i, NoDup (kept_idx mask i).
Proof.
  induction mask as [|b m IH]; intro i; cbn [kept_idx]; [constructor|]. destruct b; [apply IH|].
  constructor; [|apply IH]. intro H. apply kept_idx_ge in H. lia.
Qed.

Lemma kept_idx_length {T} mask : forall (l : list T) i, length mask = length l -> length (kept_idx mask i) = length (keep mask l).
Proof.
  induction mask as [|b m IH]; intros [|x l] i H; cbn [length] in H; try discriminate; cbn [kept_idx keep]; [reflexivity|].
  destruct b; cbn [length]; rewrite (IH l); try reflexivity; lia.
Qed.

Lemma kept_idx_all_false {T} (l : list T) : forall i, kept_idx (map (fun _ => false) l) i = seq i (length l).
Proof. induction l as [|x l IH]; intro i; cbn [map kept_idx length seq]; [reflexivity|]. rewrite IH. reflexivity. Qed.

Lemma nth_mask_app m0 mask k : nth_mask (m0 ++ mask) (length m0 + k) = nth_mask mask k.
Proof. unfold nth_mask. rewrite app_nth2 by lia. f_equal. lia. Qed.

Lemma kept_lines_keep mask : forall m0 (l : list str), length mask = length l ->
  kept_lines (m0 ++ mask) l (length m0) = combine (kept_idx mask (length m0)) (keep mask l).
Proof.
  induction mask as [|b m IH]; intros m0 [|x l] H; cbn [length] in H; try discriminate; cbn [kept_lines kept_idx keep]; [reflexivity|].
  pose proof (nth_mask_app m0 (b :: m) 0) as Hn. rewrite Nat.add_0_r in Hn. rewrite Hn. unfold nth_mask at 1. cbn [nth].
  specialize (IH (m0 ++ [b]) l ltac:(lia)). rewrite <- app_assoc, app_length in IH. cbn [app length] in IH.
  replace (length m0 + 1)%nat with (S (length m0)) in IH by lia.
  destruct b; [exact IH|]. cbn [combine]. f_equal. exact IH.
Qed.

Lemma keep_map {A B} (f : A -> B) mask : forall l, keep mask (map f l) = map f (keep mask l).
Proof. induction mask as [|b m IH]; intros [|x l]; cbn [keep map]; try reflexivity. destruct b; cbn [map]; rewrite IH; reflexivity. Qed.

(* which indices wrong_content marks as ignorable *)
Lemma add_nat_In n l i : In i (add_nat n l) <-> i = n \/ In i l.
Proof.
  unfold add_nat. destruct (mem_nat n l) eqn:E.
  - split; [intro H; right; exact H|]. intros [->|H]; [|exact H].
    unfold mem_nat in E. apply existsb_exists in E as [x [Hx Hn]]. apply Nat.eqb_eq in Hn. subst x. exact Hx.
  - rewrite in_app_iff. cbn [In]. split; [intros [H|[<-|[]]]; [right; exact H|left; reflexivity]|intros [->|H]; [right; left; reflexivity|left; exact H]].
Qed.

Lemma wrong_content_ign o orc amap emap : forall D nd aign eign cases nd' aign' eign' cases',
  wrong_content o orc amap emap D nd aign eign cases = Some (nd', aign', eign', cases') ->
  (forall i, In i aign' <-> In i aign \/ exists t, In t D /\ ign3 o orc t = true /\ amap (fst (fst t)) = i) /\
  (forall i, In i eign' <-> In i eign \/ exists t, In t D /\ ign3 o orc t = true /\ emap (fst (fst t)) = i).
Proof.
  induction D as [|[[k a] e] D IH]; intros nd aign eign cases nd' aign' eign' cases' H; cbn [wrong_content] in H.
  - injection H as _ <- <- _. split; intro i; (split; [intro Hi; left; exact Hi|intros [Hi|[t [[] _]]]; exact Hi]).
  - assert (Hi3 : ign3 o orc (k, a, e) = tri_true (can_ignore o orc a e)) by reflexivity.
    destruct (can_ignore o orc a e) eqn:Ec; [| |discriminate].
    + destruct (IH _ _ _ _ _ _ _ _ H) as [Ha He]. split; intro i.
      * rewrite Ha, add_nat_In. split.
        -- intros [[->|Hi]|[t [Ht Hx]]]; [right; exists (k, a, e); split; [left; reflexivity|split; [rewrite Hi3; reflexivity|reflexivity]]
                                        |left; exact Hi|right; exists t; split; [right; exact Ht|exact Hx]].
        -- intros [Hi|[t [[<-|Ht] [Hx1 Hx2]]]]; [left; right; exact Hi|left; left; symmetry; exact Hx2|right; exists t; split; [exact Ht|split; assumption]].
      * rewrite He, add_nat_In. split.
        -- intros [[->|Hi]|[t [Ht Hx]]]; [right; exists (k, a, e); split; [left; reflexivity|split; [rewrite Hi3; reflexivity|reflexivity]]
                                        |left; exact Hi|right; exists t; split; [right; exact Ht|exact Hx]].
        -- intros [Hi|[t [[<-|Ht] [Hx1 Hx2]]]]; [left; right; exact Hi|left; left; symmetry; exact Hx2|right; exists t; split; [exact Ht|split; assumption]].
    + destruct (IH _ _ _ _ _ _ _ _ H) as [Ha He]. split; intro i.
      * rewrite Ha. split; [intros [Hi|[t [Ht Hx]]]; [left; exact Hi|right; exists t; split; [right; exact Ht|exact Hx]]|].
        intros [Hi|[t [[<-|Ht] [Hx1 Hx2]]]]; [left; exact Hi|rewrite Hi3 in Hx1; discriminate|right; exists t; split; [exact Ht|split; assumption]].
      * rewrite He. split; [intros [Hi|[t [Ht Hx]]]; [left; exact Hi|right; exists t; split; [right; exact Ht|exact Hx]]|].
        intros [Hi|[t [[<-|Ht] [Hx1 Hx2]]]]; [left; exact Hi|rewrite Hi3 in Hx1; discriminate|right; exists t; split; [exact Ht|split; assumption]].
Qed.

Lemma triples_seq a e : length a = length e ->
  triples a e = map (fun k => (k, nth k a [], nth k e [])) (seq 0 (length a)).
Proof.
  intro H. unfold triples.
  rewrite (combine_seq (seq 0 (length a)) a O [] (length a) (seq_length _ _) eq_refl).
  rewrite (combine_seq (map (fun k => (nth k (seq 0 (length a)) O, nth k a [])) (seq 0 (length a))) e (O, ([] : str)) ([] : str) (length a))
    by (rewrite ?map_length, ?seq_length; congruence).
  apply map_ext_in. intros k Hk. apply in_seq in Hk. cbn [Nat.add] in Hk. destruct Hk as [_ Hk].
  rewrite (nth_indep _ (O, ([] : str)) ((fun k0 => (nth k0 (seq 0 (length a)) O, nth k0 a [])) O)) by (rewrite map_length, seq_length; exact Hk).
  rewrite (map_nth (fun k0 => (nth k0 (seq 0 (length a)) O, nth k0 a []))).
  rewrite (@seq_nth (length a) 0 k O Hk). cbn [Nat.add]. rewrite (@seq_nth (length a) 0 k O Hk). reflexivity.
Qed.

Lemma index_map_nth (T : Type) (has_rem : bool) (mask : list bool) (l : list T) k :
  length mask = length l -> (has_rem = false -> mask = map (fun _ => false) l) -> (k < length (keep mask l))%nat ->
  index_map has_rem (kept_idx mask 0) k = nth k (kept_idx mask 0) O.
Proof.
  intros Hl Hf Hk. unfold index_map. destruct has_rem.
  - rewrite (kept_idx_length mask l 0 Hl). apply Nat.ltb_lt in Hk. rewrite Hk. reflexivity.
  - rewrite (Hf eq_refl) in *. rewrite kept_idx_all_false. rewrite keep_all_false in Hk. rewrite seq_nth by exact Hk. reflexivity.
Qed.

(* THE POST-PROCESSED PAIR: when a comparison of equally many kept lines produces a reconstruction, the two texts have
   the same number of lines and differ exactly - and in order - at the unexcused differences *)
Theorem recon_shows_unexcused o orc A E r :
  no_divergence o orc A E ->
  length (prep o A) = length (prep o E) ->
  r_recon (check_strings o orc A E) = Some r ->
  length (fst r) = length (snd r) /\
  diffpairs r = map (fun p => (norm o (fst p), norm o (snd p))) (U o orc A E).
Proof.
  intros Hnd Hlen. unfold U. unfold no_divergence in Hnd. unfold check_strings. cbv zeta. fold (has_removals o).
  set (oa := drop_last_empty A). set (oe := drop_last_empty E).
  set (arem := if has_removals o then removed_mask (o_rem o) oa else map (fun _ => false) oa).
  set (erem := if has_removals o then removed_mask (o_rem o) oe else map (fun _ => false) oe).
  assert (Ha : keep arem oa = prep o A) by apply prep_model.
  assert (He : keep erem oe = prep o E) by apply prep_model.
  rewrite Ha, He. set (a := prep o A) in *. set (e := prep o E) in *.
  assert (Hla : length arem = length oa) by (unfold arem, removed_mask; destruct (has_removals o); apply map_length).
  assert (Hle : length erem = length oe) by (unfold erem, removed_mask; destruct (has_removals o); apply map_length).
  assert (Heqb : Nat.eqb (length a) (length e) = true) by (apply Nat.eqb_eq; exact Hlen). rewrite Heqb.
  match goal with
  | |- context [wrong_content o orc ?am ?em ?d ?n [] [] []] =>
    change d with (filter (differs3 o) (triples a e));
    change n with (length (filter (differs3 o) (triples a e)));
    set (D := filter (differs3 o) (triples a e)); set (amap := am); set (emap := em);
    destruct (wrong_content_spec o orc am em D (length D) [] [] []
                (no_div_triples o orc a e Hlen Hnd) (Nat.le_0_l _)) as [aign [eign Hwc]]
  end.
  fold amap emap in Hwc. rewrite Hwc. cbv beta iota delta [r_recon].
  destruct (wrong_content_ign _ _ _ _ _ _ _ _ _ _ _ _ _ Hwc) as [Hia Hie].
  match goal with |- (if ?c then _ else _) = _ -> _ => destruct c; [|discriminate] end.
  intro Hr. assert (Er : r = reconstruct (S (length oa + length oe)) (map (normalize (o_lstrip o) (o_rstrip o)) oa)
                              (map (normalize (o_lstrip o) (o_rstrip o)) oe) 0 0 arem erem aign eign) by congruence.
  clear Hr. subst r.
  set (na := map (normalize (o_lstrip o) (o_rstrip o)) oa). set (ne := map (normalize (o_lstrip o) (o_rstrip o)) oe).
  assert (Hka : kept_lines arem na 0 = combine (kept_idx arem 0) (map (norm o) a)).
  { pose proof (kept_lines_keep arem [] na ltac:(unfold na; rewrite map_length; exact Hla)) as H. cbn [app length] in H.
    rewrite H. unfold na. rewrite keep_map, Ha. reflexivity. }
  assert (Hke : kept_lines erem ne 0 = combine (kept_idx erem 0) (map (norm o) e)).
  { pose proof (kept_lines_keep erem [] ne ltac:(unfold ne; rewrite map_length; exact Hle)) as H. cbn [app length] in H.
    rewrite H. unfold ne. rewrite keep_map, He. reflexivity. }
  set (K := kept_idx arem 0) in *. set (K' := kept_idx erem 0) in *.
  assert (HK : length K = length a) by (unfold K; rewrite (kept_idx_length arem oa 0 Hla), Ha; reflexivity).
  assert (HK' : length K' = length a) by (unfold K'; rewrite (kept_idx_length erem oe 0 Hle), He; symmetry; exact Hlen).
  destruct (reconstruct_differs_exactly arem erem aign eign (S (length oa + length oe)) na ne 0 0
              ltac:(unfold na, ne; rewrite !map_length; lia)
              ltac:(rewrite Hka, Hke, !combine_length, !map_length, HK, HK'; lia)) as [H1 H2].
  cbv zeta in H1, H2. split; [exact H1|]. rewrite H2, Hka, Hke. clear H1 H2.
  set (n := length a) in *.
  (* everything as a function of the position k < n *)
  rewrite (combine_seq K (map (norm o) a) O [] n HK ltac:(rewrite map_length; reflexivity)).
  rewrite (combine_seq K' (map (norm o) e) O [] n HK' ltac:(rewrite map_length; symmetry; exact Hlen)).
  rewrite (combine_seq (map (fun k => (nth k K O, nth k (map (norm o) a) [])) (seq 0 n))
                       (map (fun k => (nth k K' O, nth k (map (norm o) e) [])) (seq 0 n)) (O, ([] : str)) (O, ([] : str)) n)
    by (rewrite map_length, seq_length; reflexivity).
  rewrite (combine_seq a e [] [] n eq_refl (eq_sym Hlen)).
  rewrite !filter_map_comm, !map_map.
  assert (Hnth : forall k, (k < n)%nat ->
            nth k (map (fun k0 => (nth k0 K O, nth k0 (map (norm o) a) [])) (seq 0 n)) (O, ([] : str)) = (nth k K O, norm o (nth k a [])) /\
            nth k (map (fun k0 => (nth k0 K' O, nth k0 (map (norm o) e) [])) (seq 0 n)) (O, ([] : str)) = (nth k K' O, norm o (nth k e []))).
  { intros k Hk. split.
    - rewrite (nth_indep _ (O, ([] : str)) ((fun k0 => (nth k0 K O, nth k0 (map (norm o) a) [])) O)) by (rewrite map_length, seq_length; exact Hk).
      rewrite (map_nth (fun k0 => (nth k0 K O, nth k0 (map (norm o) a) []))), seq_nth by exact Hk. cbn [Nat.add].
      rewrite (nth_indep _ [] (norm o [])) by (rewrite map_length; exact Hk). rewrite map_nth. reflexivity.
    - rewrite (nth_indep _ (O, ([] : str)) ((fun k0 => (nth k0 K' O, nth k0 (map (norm o) e) [])) O)) by (rewrite map_length, seq_length; exact Hk).
      rewrite (map_nth (fun k0 => (nth k0 K' O, nth k0 (map (norm o) e) []))), seq_nth by exact Hk. cbn [Nat.add].
      rewrite (nth_indep _ [] (norm o [])) by (rewrite map_length; unfold n in Hk; lia). rewrite map_nth. reflexivity. }
  (* which positions are marked ignorable *)
  assert (Hmem : forall k, (k < n)%nat ->
            mem_nat (nth k K O) aign = differs3 o (k, nth k a [], nth k e []) && ign3 o orc (k, nth k a [], nth k e []) /\
            mem_nat (nth k K' O) eign = differs3 o (k, nth k a [], nth k e []) && ign3 o orc (k, nth k a [], nth k e [])).
  { intros k Hk.
    assert (HD : forall t, In t D <-> exists k', (k' < n)%nat /\ t = (k', nth k' a [], nth k' e []) /\ differs3 o t = true).
    { intro t. unfold D. rewrite filter_In, (triples_seq a e Hlen), in_map_iff. fold n. split.
      - intros [[k' [<- Hin]] Hd]. apply in_seq in Hin. exists k'. split; [lia|split; [reflexivity|exact Hd]].
      - intros [k' [Hk' [-> Hd]]]. split; [exists k'; split; [reflexivity|apply in_seq; lia]|exact Hd]. }
    assert (Ham : forall k', (k' < n)%nat -> amap k' = nth k' K O).
    { intros k' Hk'. apply (index_map_nth str (has_removals o) arem oa k' Hla); [intro Hf; unfold arem; rewrite Hf; reflexivity|rewrite Ha; exact Hk']. }
    assert (Hem : forall k', (k' < n)%nat -> emap k' = nth k' K' O).
    { intros k' Hk'. apply (index_map_nth str (has_removals o) erem oe k' Hle); [intro Hf; unfold erem; rewrite Hf; reflexivity|rewrite He; unfold n in Hk'; lia]. }
    assert (Hgen : forall (Kx : list nat) (xmap : nat -> nat) (xign : list nat), NoDup Kx -> length Kx = n ->
              (forall k', (k' < n)%nat -> xmap k' = nth k' Kx O) ->
              (forall i, In i xign <-> In i [] \/ exists t, In t D /\ ign3 o orc t = true /\ xmap (fst (fst t)) = i) ->
              mem_nat (nth k Kx O) xign = differs3 o (k, nth k a [], nth k e []) && ign3 o orc (k, nth k a [], nth k e [])).
    { intros Kx xmap xign Hnd' HlK Hxm Hix.
      destruct (differs3 o (k, nth k a [], nth k e []) && ign3 o orc (k, nth k a [], nth k e [])) eqn:Eb.
      - apply andb_true_iff in Eb as [Ed Ei]. unfold mem_nat. apply existsb_exists. exists (nth k Kx O). split; [|apply Nat.eqb_refl].
        apply Hix. right. exists (k, nth k a [], nth k e []). split; [apply HD; exists k; repeat split; assumption|].
        split; [exact Ei|]. cbn [fst]. apply Hxm. exact Hk.
      - destruct (mem_nat (nth k Kx O) xign) eqn:Em; [|reflexivity]. exfalso.
        unfold mem_nat in Em. apply existsb_exists in Em as [i [Hi Hik]]. apply Nat.eqb_eq in Hik. subst i.
        apply Hix in Hi as [[]|[t [Ht [Hti Htm]]]]. apply HD in Ht as [k' [Hk' [-> Hd]]]. cbn [fst] in Htm.
        rewrite (Hxm k' Hk') in Htm. apply (proj1 (NoDup_nth Kx O) Hnd') in Htm; [|lia|lia]. subst k'.
        rewrite Hd, Hti in Eb. discriminate. }
    split; [apply (Hgen K amap aign (kept_idx_NoDup arem 0) HK Ham Hia)|apply (Hgen K' emap eign (kept_idx_NoDup erem 0) HK' Hem Hie)]. }
  (* pointwise *)
  rewrite (filter_ext_in_local _ (fun k => unexcused o orc (nth k a [], nth k e [])) (seq 0 n)).
  - apply map_ext_in. intros k Hk. apply filter_In in Hk as [Hk _]. apply in_seq in Hk.
    destruct (Hnth k ltac:(lia)) as [N1 N2]. rewrite N1, N2. reflexivity.
  - intros k Hk. apply in_seq in Hk. destruct (Hnth k ltac:(lia)) as [N1 N2]. rewrite N1, N2.
    destruct (Hmem k ltac:(lia)) as [M1 M2]. unfold shown. cbn [fst snd]. rewrite M1, M2.
    unfold unexcused, differs, excused, differs3, ign3, norm. cbn [fst snd].
    destruct (str_eqb _ _); cbn [negb andb orb]; [reflexivity|]. destruct (tri_true _); reflexivity.
Qed.

(* ---------------------------------------------------------------- different numbers of kept lines: the statement fails.
   With ignore_substrings ["A"], actual = A old / x / A older / extra, reference = A new / y / A newer: wrong_number
   stops advancing at the unexcused pair (x, y), so the excusable pair (A older, A newer) is never marked and the
   post-processed pair differs on it too.  This is the known finding c15-postprocessed-pair-different-line-counts,
   as a theorem about the model (the correspondence check shows the code does the same). *)
Definition c15_o : opts :=
  {| o_lstrip := false; o_rstrip := false; o_isub := [[65]]; o_npat := 0; o_rem := []; o_maxperm := 0;
     o_preproc := false; o_apath := false |}.
Definition c15_A : list str := [[65;32;111;108;100]; [120]; [65;32;111;108;100;101;114]; [101;120;116;114;97]].
Definition c15_E : list str := [[65;32;110;101;119]; [121]; [65;32;110;101;119;101;114]].

Lemma different_line_counts_refuted_proof :
  exists o orc A E r,
    existsb (diverging o orc) (combine (prep o A) (prep o E)) = false /\
    length (prep o A) <> length (prep o E) /\
    r_verdict (check_strings o orc A E) = Fail /\
    r_recon (check_strings o orc A E) = Some r /\
    exists p, In p (diffpairs r) /\ differs o p = true /\ excused o orc p = true.
Proof.
  eexists c15_o, [], c15_A, c15_E, _.
  split; [vm_compute; reflexivity|]. split; [vm_compute; discriminate|].
  split; [vm_compute; reflexivity|]. split; [vm_compute; reflexivity|].
  exists ([65;32;111;108;100;101;114], [65;32;110;101;119;101;114]).
  split; [vm_compute; right; left; reflexivity|]. split; vm_compute; reflexivity.
Qed.
