(* C15: what a failed/passed text or binary assertion leaves behind.
   Model of check_binary_file's offset scan and of add_failures' file-writing decisions. *)
From Coq Require Import ZArith List Bool Arith Lia.
From Tdda Require Import Base.Sexp Base.Str RefTest.CheckStrings.
Import ListNotations.
Open Scope Z_scope.

(* ---------------------------------------------------------------- binary files *)

Record binary_info := { bi_offset : nat; bi_actual_len : nat; bi_expected_len : nat }.

(* None = the files are equal (assertion passes, nothing reported) *)
Definition check_binary (actual expected : list Z) : option binary_info :=
  if str_eqb expected actual then None else
  let minlen := Nat.min (length expected) (length actual) in
  let boff := if str_eqb (firstn minlen expected) (firstn minlen actual) then minlen
              else common_prefix_len expected actual in
  Some {| bi_offset := boff; bi_actual_len := length actual; bi_expected_len := length expected |}.

(* ---------------------------------------------------------------- files written by add_failures *)

Inductive artefact := ActualRaw | ExpectedRaw | PostActual | PostExpected.

Record fail_ctx := {
  fc_failed : bool;          (* the comparison found unexcused differences *)
  fc_recon : bool;           (* a reconstruction exists (exclusions/preprocess in force, or string actual) *)
  fc_apath : bool;           (* the actual came from a file *)
  fc_epath : bool;           (* a reference path is known (always, for the assertion entry points) *)
  fc_create : bool           (* create_temporaries *)
}.

Definition written (c : fail_ctx) : list artefact :=
  if negb (fc_failed c) then [] else
  (if fc_create c && negb (fc_apath c && fc_epath c)
   then (if negb (fc_epath c) then [ExpectedRaw] else []) ++ (if negb (fc_apath c) then [ActualRaw] else [])
   else []) ++
  (if fc_recon c && fc_create c then [PostActual; PostExpected] else []).

(* the comparison commands named in the message: raw pair, post-processed pair *)
Definition names_raw_pair (c : fail_ctx) : bool :=
  fc_failed c && ((fc_apath c || fc_create c) && (fc_epath c || fc_create c)).
Definition names_post_pair (c : fail_ctx) : bool := fc_failed c && fc_recon c && fc_create c.

(* what check_strings hands to add_failures *)
Definition ctx_of (o : opts) (r : result) (create : bool) : fail_ctx :=
  {| fc_failed := match r_verdict r with Fail => true | _ => false end;
     fc_recon := match r_recon r with Some _ => true | None => false end;
     fc_apath := o_apath o; fc_epath := true; fc_create := create |}.

(* wire *)
Definition of_artefact (a : artefact) : sexp :=
  A (match a with ActualRaw => 0 | ExpectedRaw => 1 | PostActual => 2 | PostExpected => 3 end).

Definition binary_entry (s : sexp) : sexp :=
  match check_binary (sx_str (sx_nth 0 s)) (sx_str (sx_nth 1 s)) with
  | None => L []
  | Some b => L [of_nat (bi_offset b); of_nat (bi_actual_len b); of_nat (bi_expected_len b)]
  end.

(* same payload as check_strings_entry; returns verdict, artefacts, named pairs, reconstruction *)
Definition artefacts_entry (s : sexp) : sexp :=
  let o := sx_opts (sx_nth 1 s) in
  let orc := sx_oracle (sx_nth 2 s) in
  let r := match sx_Z (sx_nth 0 s) with
           | 0 => check_strings o orc (sx_strs (sx_nth 3 s)) (sx_strs (sx_nth 4 s))
           | 1 => check_string_against_file o orc (sx_str (sx_nth 3 s)) (sx_str (sx_nth 4 s))
           | _ => check_file o orc (sx_str (sx_nth 3 s)) (sx_str (sx_nth 4 s))
           end%Z in
  let c := ctx_of o r true in
  L [ A (match r_verdict r with Pass => 0 | Fail => 1 | Diverge => 2 end);
      L (map of_artefact (written c)); of_bool (names_raw_pair c); of_bool (names_post_pair c);
      of_opt (fun p => L [of_strs (fst p); of_strs (snd p)]) (r_recon r) ].
