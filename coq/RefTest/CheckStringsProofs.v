(* Proofs about the text-comparison model (C04, used by C10/C11/C15). *)
From Coq Require Import ZArith List Bool Lia Arith Permutation.
From Tdda Require Import Base.Sexp Base.Str Base.Sort Base.SortProofs Generated.Consts RefTest.CheckStrings.
Import ListNotations.
Open Scope Z_scope.

(* ---------------------------------------------------------------- declarative vocabulary *)

Definition has_removals (o : opts) : bool := match o_rem o with [] => false | _ => true end.
Definition is_removed (o : opts) (a : str) : bool := existsb (fun r => contains r a) (o_rem o).
Definition norm (o : opts) : str -> str := normalize (o_lstrip o) (o_rstrip o).

(* the lines that take part in the comparison *)
Definition prep (o : opts) (l : list str) : list str :=
  filter (fun a => negb (is_removed o a)) (drop_last_empty l).

Definition tri_true (t : tri) : bool := match t with TTrue => true | _ => false end.
Definition tri_div (t : tri) : bool := match t with TDiverge => true | _ => false end.

Definition differs (o : opts) (p : str * str) : bool :=
  negb (str_eqb (norm o (fst p)) (norm o (snd p))).
Definition excused (o : opts) (orc : poracle) (p : str * str) : bool :=
  tri_true (can_ignore o orc (fst p) (snd p)).
Definition unexcused (o : opts) (orc : poracle) (p : str * str) : bool :=
  differs o p && negb (excused o orc p).
Definition diverging (o : opts) (orc : poracle) (p : str * str) : bool :=
  differs o p && tri_div (can_ignore o orc (fst p) (snd p)).

(* ---------------------------------------------------------------- keep / masks *)

Lemma keep_removed_mask rem l :
  keep (removed_mask rem l) l = filter (fun a => negb (existsb (fun r => contains r a) rem)) l.
Proof.
  unfold removed_mask. induction l as [|x l IH]; simpl; [reflexivity|].
  destruct (existsb (fun r => contains r x) rem); simpl; rewrite IH; reflexivity.
Qed.

Lemma keep_all_false {T} (l : list T) : keep (map (fun _ => false) l) l = l.
Proof. induction l as [|x l IH]; simpl; [reflexivity|]. rewrite IH. reflexivity. Qed.

Lemma filter_true_id {T} (l : list T) : filter (fun _ => true) l = l.
Proof. induction l as [|x l IH]; simpl; [reflexivity|]. rewrite IH. reflexivity. Qed.

Lemma prep_model o l :
  keep (if has_removals o then removed_mask (o_rem o) (drop_last_empty l)
        else map (fun _ => false) (drop_last_empty l)) (drop_last_empty l) = prep o l.
Proof.
  unfold prep, has_removals, is_removed. destruct (o_rem o) as [|r rs] eqn:E.
  - rewrite keep_all_false. simpl. symmetry. apply filter_true_id.
  - rewrite <- E. apply keep_removed_mask.
Qed.

(* ---------------------------------------------------------------- triples vs pairs *)

Definition pair_of (t : nat * str * str) : str * str := (snd (fst t), snd t).

Lemma map_pair_combine a : forall e k, length a = length e ->
  map pair_of (combine (combine (seq k (length a)) a) e) = combine a e.
Proof.
  induction a as [|x a IH]; intros [|y e] k H; simpl in *; try reflexivity; try discriminate.
  f_equal. apply IH. lia.
Qed.

Lemma filter_map {A B} (f : A -> B) (g : B -> bool) l :
  filter g (map f l) = map f (filter (fun x => g (f x)) l).
Proof.
  induction l as [|x l IH]; simpl; [reflexivity|].
  destruct (g (f x)); simpl; rewrite IH; reflexivity.
Qed.

(* ---------------------------------------------------------------- wrong_content *)

Definition ign3 o orc (t : nat * str * str) : bool := tri_true (can_ignore o orc (snd (fst t)) (snd t)).
Definition div3 o orc (t : nat * str * str) : bool := tri_div (can_ignore o orc (snd (fst t)) (snd t)).

Lemma firstn_app_full {T} (a b : list T) m : length a = m -> firstn m (a ++ b) = a.
Proof.
  intro H. subst m. rewrite firstn_app, Nat.sub_diag, firstn_all. simpl. apply app_nil_r.
Qed.

Lemma wrong_content_spec o orc amap emap : forall D nd aign eign cases,
  existsb (div3 o orc) D = false ->
  (length cases <= o_maxperm o)%nat ->
  exists aign' eign',
    wrong_content o orc amap emap D nd aign eign cases =
    Some ((nd - length (filter (ign3 o orc) D))%nat, aign', eign',
          firstn (o_maxperm o) (cases ++ map pair_of (filter (fun t => negb (ign3 o orc t)) D))).
Proof.
  induction D as [|[[i a] e] D IH]; intros nd aign eign cases Hdiv Hlen.
  - simpl. exists aign, eign. rewrite Nat.sub_0_r, app_nil_r.
    rewrite firstn_all2 by exact Hlen. reflexivity.
  - cbn [existsb] in Hdiv. apply orb_false_iff in Hdiv as [Hd1 Hd2].
    unfold div3 in Hd1. cbn [fst snd] in Hd1.
    cbn [wrong_content filter].
    assert (Hi : ign3 o orc (i, a, e) = tri_true (can_ignore o orc a e)) by reflexivity.
    rewrite !Hi. clear Hi.
    destruct (can_ignore o orc a e) eqn:Ec; cbn [tri_true negb]; try discriminate.
    + destruct (IH (nd - 1)%nat (add_nat (amap i) aign) (add_nat (emap i) eign) cases Hd2 Hlen)
        as [a' [e' Heq]].
      exists a', e'. rewrite Heq. cbn [length].
      replace (nd - 1 - length (filter (ign3 o orc) D))%nat
        with (nd - S (length (filter (ign3 o orc) D)))%nat by lia. reflexivity.
    + destruct (Nat.ltb (length cases) (o_maxperm o)) eqn:El.
      * apply Nat.ltb_lt in El.
        destruct (IH nd aign eign (cases ++ [(a, e)]) Hd2) as [a' [e' Heq]].
        { rewrite app_length. simpl. lia. }
        exists a', e'. rewrite Heq. cbn [map pair_of fst snd]. rewrite <- app_assoc. reflexivity.
      * apply Nat.ltb_ge in El.
        destruct (IH nd aign eign cases Hd2 Hlen) as [a' [e' Heq]].
        exists a', e'. rewrite Heq. cbn [map]. f_equal. f_equal.
        assert (length cases = o_maxperm o) by lia.
        rewrite !firstn_app_full by assumption. reflexivity.
Qed.

(* ---------------------------------------------------------------- small list facts *)

Lemma filter_filter2 {T} (f g : T -> bool) l :
  filter f (filter g l) = filter (fun x => g x && f x) l.
Proof.
  induction l as [|y l IH]; simpl; [reflexivity|].
  destruct (g y); simpl; [destruct (f y); simpl; [f_equal|]; exact IH | exact IH].
Qed.

Lemma filter_ext2 {T} (f g : T -> bool) l : (forall x, f x = g x) -> filter f l = filter g l.
Proof. intro H. induction l as [|y l IH]; simpl; [reflexivity|]. rewrite H, IH. reflexivity. Qed.

Lemma filter_len_split {T} (f : T -> bool) l :
  (length (filter f l) + length (filter (fun x => negb (f x)) l) = length l)%nat.
Proof. induction l as [|y l IH]; simpl; [reflexivity|]. destruct (f y); simpl; lia. Qed.

Lemma existsb_filter {T} (f g : T -> bool) l :
  existsb f (filter g l) = existsb (fun x => g x && f x) l.
Proof.
  induction l as [|y l IH]; simpl; [reflexivity|].
  destruct (g y); simpl; rewrite IH; reflexivity.
Qed.

Lemma existsb_map {A B} (f : A -> B) (g : B -> bool) l :
  existsb g (map f l) = existsb (fun x => g (f x)) l.
Proof. induction l as [|y l IH]; simpl; [reflexivity|]. rewrite IH. reflexivity. Qed.

Lemma existsb_ext2 {T} (f g : T -> bool) l : (forall x, f x = g x) -> existsb f l = existsb g l.
Proof. intro H. induction l as [|y l IH]; simpl; [reflexivity|]. rewrite H, IH. reflexivity. Qed.

Lemma strs_eqb_eq x y : strs_eqb x y = true <-> x = y.
Proof.
  revert y; induction x as [|p x IH]; intros [|q y]; simpl; split; intro H;
    try reflexivity; try discriminate.
  - apply andb_true_iff in H as [H1 H2]. apply str_eqb_eq in H1. apply IH in H2. congruence.
  - inversion H; subst. rewrite str_eqb_refl. simpl. apply IH. reflexivity.
Qed.

Lemma permutation_ok_iff cases :
  permutation_ok cases = true <-> Permutation (map fst cases) (map snd cases).
Proof. unfold permutation_ok. rewrite strs_eqb_eq. apply sort_strs_eq_iff. Qed.

(* ---------------------------------------------------------------- the specification *)

Definition U (o : opts) (orc : poracle) (A E : list str) : list (str * str) :=
  filter (unexcused o orc) (combine (prep o A) (prep o E)).

Definition Spec (o : opts) (orc : poracle) (A E : list str) : Prop :=
  length (prep o A) = length (prep o E) /\
  (U o orc A E = [] \/
   ((length (U o orc A E) <= o_maxperm o)%nat /\
    Permutation (map fst (U o orc A E)) (map snd (U o orc A E)))).

Definition no_divergence (o : opts) (orc : poracle) (A E : list str) : Prop :=
  existsb (diverging o orc) (combine (prep o A) (prep o E)) = false.

Definition triples (a e : list str) := combine (combine (seq 0 (length a)) a) e.
Definition differs3 (o : opts) (t : nat * str * str) : bool :=
  negb (str_eqb (normalize (o_lstrip o) (o_rstrip o) (snd (fst t)))
                (normalize (o_lstrip o) (o_rstrip o) (snd t))).

Lemma unexcused_triples o orc a e : length a = length e ->
  map pair_of (filter (fun t => negb (ign3 o orc t)) (filter (differs3 o) (triples a e))) =
  filter (unexcused o orc) (combine a e).
Proof.
  intro H. rewrite filter_filter2. rewrite <- (map_pair_combine a e 0%nat H).
  rewrite filter_map. f_equal.
Qed.

Lemma no_div_triples o orc a e : length a = length e ->
  existsb (diverging o orc) (combine a e) = false ->
  existsb (div3 o orc) (filter (differs3 o) (triples a e)) = false.
Proof.
  intros H Hd. rewrite existsb_filter. rewrite <- (map_pair_combine a e 0%nat H) in Hd.
  rewrite existsb_map in Hd. exact Hd.
Qed.

Theorem check_strings_spec_proof o orc A E :
  no_divergence o orc A E ->
  length (prep o A) = length (prep o E) ->
  (r_verdict (check_strings o orc A E) = Pass <-> Spec o orc A E).
Proof.
  intros Hnd Hlen. unfold Spec, U. unfold no_divergence in Hnd.
  unfold check_strings. cbv zeta. fold (has_removals o). rewrite !prep_model.
  set (a := prep o A) in *. set (e := prep o E) in *.
  assert (Heqb : Nat.eqb (length a) (length e) = true) by (apply Nat.eqb_eq; exact Hlen).
  rewrite Heqb.
  match goal with
  | |- context [wrong_content o orc ?am ?em ?d ?n [] [] []] =>
    change d with (filter (differs3 o) (triples a e));
    change n with (length (filter (differs3 o) (triples a e)));
    set (D := filter (differs3 o) (triples a e));
    destruct (wrong_content_spec o orc am em D (length D) [] [] []
                (no_div_triples o orc a e Hlen Hnd) (Nat.le_0_l _)) as [aign [eign Hwc]]
  end.
  rewrite Hwc. clear Hwc. cbn [app].
  pose proof (unexcused_triples o orc a e Hlen) as HU. fold D in HU.
  set (Un := filter (unexcused o orc) (combine a e)) in *.
  rewrite HU.
  assert (Hn : (length D - length (filter (ign3 o orc) D) = length Un)%nat).
  { rewrite <- HU, map_length. pose proof (filter_len_split (ign3 o orc) D). lia. }
  rewrite Hn. cbn [r_verdict andb].
  split; [|intros [_ Hs]].
  - intro Hv. split; [exact Hlen|].
    destruct Un as [|u Un'] eqn:EU; [left; reflexivity|right].
    cbn [length] in Hv. change (0 <? S (length Un'))%nat with true in Hv. cbn [andb] in Hv.
    destruct (Nat.leb (S (length Un')) (o_maxperm o)) eqn:El.
    + apply Nat.leb_le in El. rewrite firstn_all2 in Hv by (simpl; lia).
      destruct (permutation_ok (u :: Un')) eqn:Ep.
      * split; [simpl; lia|]. apply permutation_ok_iff. exact Ep.
      * cbn [length] in Hv. discriminate.
    + discriminate.
  - destruct Hs as [Hs|[Hl Hp]].
    + rewrite Hs. reflexivity.
    + destruct Un as [|u Un'] eqn:EU; [reflexivity|].
      cbn [length]. change (0 <? S (length Un'))%nat with true. cbn [andb].
      apply Nat.leb_le in Hl. cbn [length] in Hl. rewrite Hl.
      apply Nat.leb_le in Hl. rewrite firstn_all2 by (simpl; lia).
      apply permutation_ok_iff in Hp. rewrite Hp. reflexivity.
Qed.

(* ---------------------------------------------------------------- different numbers of lines *)

Lemma keep_length_le {T} mask (l : list T) : (length (keep mask l) <= length l)%nat.
Proof.
  revert l; induction mask as [|b m IH]; intros [|x l]; simpl; try lia.
  destruct b; simpl; specialize (IH l); lia.
Qed.

Theorem length_mismatch_fails_proof o orc A E :
  length (prep o A) <> length (prep o E) ->
  r_verdict (check_strings o orc A E) <> Pass.
Proof.
  intro Hlen. unfold check_strings. cbv zeta. fold (has_removals o).
  assert (Hle : (length (prep o A) <= length (drop_last_empty A))%nat)
    by (rewrite <- prep_model; apply keep_length_le).
  assert (Hle' : (length (prep o E) <= length (drop_last_empty E))%nat)
    by (rewrite <- prep_model; apply keep_length_le).
  rewrite !prep_model.
  assert (Heqb : Nat.eqb (length (prep o A)) (length (prep o E)) = false) by (apply Nat.eqb_neq; exact Hlen).
  rewrite Heqb.
  match goal with |- context [wrong_number ?a1 ?a2 ?a3 ?a4 ?a5 ?a6 ?a7 ?a8 ?a9 ?a10 ?a11 ?a12 ?a13 ?a14] =>
    destruct (wrong_number a1 a2 a3 a4 a5 a6 a7 a8 a9 a10 a11 a12 a13 a14) as [[aign eign]|] end;
    cbn [r_verdict andb]; [|discriminate].
  assert (Hpos : (0 < Nat.max (length (drop_last_empty A)) (length (drop_last_empty E)))%nat) by lia.
  apply Nat.ltb_lt in Hpos. rewrite Hpos. discriminate.
Qed.

(* ---------------------------------------------------------------- identical content passes *)

Lemma combine_same_no_diff o orc a :
  filter (unexcused o orc) (combine a a) = [] /\ existsb (diverging o orc) (combine a a) = false.
Proof.
  induction a as [|x a [IH1 IH2]]; simpl; [split; reflexivity|].
  unfold unexcused at 1, diverging at 1, differs. cbn [fst snd]. rewrite str_eqb_refl. cbn [negb andb orb].
  split; assumption.
Qed.

Theorem refl_passes_proof o orc A : r_verdict (check_strings o orc A A) = Pass.
Proof.
  apply check_strings_spec_proof.
  - unfold no_divergence. apply combine_same_no_diff.
  - reflexivity.
  - split; [reflexivity|]. left. unfold U. apply combine_same_no_diff.
Qed.

(* ---------------------------------------------------------------- an unexcused difference fails *)

Theorem unexcused_fails_proof o orc A E :
  no_divergence o orc A E ->
  o_maxperm o = O ->
  U o orc A E <> [] ->
  r_verdict (check_strings o orc A E) <> Pass.
Proof.
  intros Hnd Hm HU Hv.
  destruct (Nat.eq_dec (length (prep o A)) (length (prep o E))) as [Hlen|Hlen].
  - apply (check_strings_spec_proof o orc A E Hnd Hlen) in Hv. destruct Hv as [_ [H|[H _]]].
    + contradiction.
    + rewrite Hm in H. destruct (U o orc A E); [contradiction|simpl in H; lia].
  - exact (length_mismatch_fails_proof o orc A E Hlen Hv).
Qed.

(* ---------------------------------------------------------------- no options: pass iff equal *)

Definition plain (o : opts) : Prop :=
  o_lstrip o = false /\ o_rstrip o = false /\ o_isub o = [] /\ o_npat o = O /\ o_rem o = [] /\ o_maxperm o = O.

Lemma plain_can_ignore o orc a e : plain o ->
  can_ignore o orc a e = if str_eqb a e then TTrue else TFalse.
Proof.
  intros (_ & _ & Hs & Hp & _). unfold can_ignore, line_fuel. rewrite Hs, Hp. simpl.
  destruct (str_eqb a e); reflexivity.
Qed.

Lemma plain_prep o l : plain o -> prep o l = drop_last_empty l.
Proof.
  intros (_ & _ & _ & _ & Hr & _). unfold prep, is_removed. rewrite Hr. simpl. apply filter_true_id.
Qed.

Lemma plain_unexcused o orc p : plain o -> unexcused o orc p = negb (str_eqb (fst p) (snd p)).
Proof.
  intro Hp. unfold unexcused, excused, differs, norm. rewrite (plain_can_ignore o orc _ _ Hp).
  destruct Hp as (Hl & Hr & _). rewrite Hl, Hr. simpl.
  destruct (str_eqb (fst p) (snd p)); reflexivity.
Qed.

Lemma plain_diverging o orc p : plain o -> diverging o orc p = false.
Proof.
  intro Hp. unfold diverging. rewrite (plain_can_ignore o orc _ _ Hp).
  destruct (str_eqb (fst p) (snd p)); simpl; apply andb_false_r.
Qed.

Lemma filter_neq_nil_iff a : forall e, length a = length e ->
  (filter (fun p : str * str => negb (str_eqb (fst p) (snd p))) (combine a e) = [] <-> a = e).
Proof.
  induction a as [|x a IH]; intros [|y e] H; simpl in *; try discriminate; [tauto|].
  destruct (str_eqb x y) eqn:Exy; simpl.
  - apply str_eqb_eq in Exy. subst y. rewrite IH by lia. split; [congruence|]. intro H'. inversion H'. reflexivity.
  - split; [discriminate|]. intro H'. inversion H'. subst. rewrite str_eqb_refl in Exy. discriminate.
Qed.

Theorem plain_sensitive_proof o orc A E : plain o ->
  (r_verdict (check_strings o orc A E) = Pass <-> drop_last_empty A = drop_last_empty E).
Proof.
  intro Hp.
  assert (Hnd : no_divergence o orc A E).
  { unfold no_divergence. rewrite (existsb_ext2 _ (fun _ => false)) by (intro; apply plain_diverging; exact Hp).
    induction (combine (prep o A) (prep o E)); simpl; auto. }
  assert (HU : U o orc A E = filter (fun p => negb (str_eqb (fst p) (snd p)))
                                   (combine (drop_last_empty A) (drop_last_empty E))).
  { unfold U. rewrite !(plain_prep o _ Hp). apply filter_ext2. intro p. apply plain_unexcused. exact Hp. }
  split.
  - intro Hv.
    destruct (Nat.eq_dec (length (prep o A)) (length (prep o E))) as [Hlen|Hlen].
    + apply (check_strings_spec_proof o orc A E Hnd Hlen) in Hv. destruct Hv as [_ Hs].
      rewrite !(plain_prep o _ Hp) in Hlen.
      apply (filter_neq_nil_iff _ _ Hlen). rewrite <- HU.
      destruct Hs as [Hs|[Hs _]]; [exact Hs|].
      destruct Hp as (_ & _ & _ & _ & _ & Hm). rewrite Hm in Hs.
      destruct (U o orc A E); [reflexivity|simpl in Hs; lia].
    + exfalso. exact (length_mismatch_fails_proof o orc A E Hlen Hv).
  - intro Heq.
    assert (Hlen : length (prep o A) = length (prep o E)) by (rewrite !(plain_prep o _ Hp), Heq; reflexivity).
    apply (check_strings_spec_proof o orc A E Hnd Hlen). split; [exact Hlen|]. left.
    rewrite HU. apply filter_neq_nil_iff; [rewrite Heq; reflexivity|exact Heq].
Qed.

(* ---------------------------------------------------------------- files: universal newlines *)

Lemma lb13 : is_linebreak 13 = true. Proof. reflexivity. Qed.
Lemma lb10 : is_linebreak 10 = true. Proof. reflexivity. Qed.

Lemma splitlines_after_cr s cur :
  match s with c :: _ => Z.eqb c 10 = false | [] => cur = [] end ->
  splitlines_aux s cur true = splitlines_aux s cur false.
Proof.
  destruct s as [|c s]; simpl; [intros ->; reflexivity|]. intros ->. reflexivity.
Qed.

Lemma splitlines_univ_aux n : forall s cur, (length s <= n)%nat ->
  splitlines_aux (univ_nl s) cur false = splitlines_aux s cur false.
Proof.
  induction n as [|n IH]; intros s cur Hn.
  - destruct s; [reflexivity|simpl in Hn; lia].
  - destruct s as [|c s]; [reflexivity|]. simpl in Hn.
    cbn [univ_nl]. destruct (Z.eqb c 13) eqn:E13.
    + apply Z.eqb_eq in E13. subst c.
      destruct s as [|d s'].
      * reflexivity.
      * destruct (Z.eqb d 10) eqn:E10.
        -- apply Z.eqb_eq in E10. subst d.
           cbn [splitlines_aux andb]. rewrite lb10, lb13. cbn [Z.eqb andb].
           change (Z.eqb 10 13) with false. change (Z.eqb 13 13) with true. change (Z.eqb 10 10) with true.
           cbn [andb]. f_equal. apply IH. simpl in Hn. lia.
        -- assert (Hcr : splitlines_aux (d :: s') [] true = splitlines_aux (d :: s') [] false)
             by (apply splitlines_after_cr; exact E10).
           assert (Hlen : (length (d :: s') <= n)%nat) by (simpl in *; lia).
           remember (d :: s') as t eqn:Et.
           cbn [splitlines_aux andb]. rewrite lb10, lb13.
           change (Z.eqb 10 13) with false. change (Z.eqb 13 13) with true.
           f_equal. rewrite Hcr. apply IH. exact Hlen.
    + cbn [splitlines_aux andb]. destruct (is_linebreak c).
      * rewrite E13. f_equal. apply IH. lia.
      * apply IH. lia.
Qed.

Theorem splitlines_univ_nl_proof s : splitlines (univ_nl s) = splitlines s.
Proof. unfold splitlines. apply (splitlines_univ_aux (length s)). lia. Qed.

(* a string checked against a file that holds that string; a file against a copy *)
Theorem string_vs_own_file_passes_proof o orc s :
  r_verdict (check_string_against_file o orc s s) = Pass.
Proof. unfold check_string_against_file. rewrite splitlines_univ_nl_proof. apply refl_passes_proof. Qed.

Theorem file_vs_copy_passes_proof o orc s : r_verdict (check_file o orc s s) = Pass.
Proof. unfold check_file. apply refl_passes_proof. Qed.
