(* C05: model of PandasComparison.check_dataframe (structure, row count, per-cell values).
   A frame is a list of columns (name, dtype name, cells); a cell is None (null) or a token such
   that two cells are equal exactly when pandas' eq says so after rounding to the requested
   precision (the harness assigns the tokens; rounding / sorting / condition are pandas'). *)
From Coq Require Import ZArith List Bool Lia.
From Tdda Require Import Base.Sexp Base.Str.
Import ListNotations.
Open Scope Z_scope.

Record column := { c_name : str; c_dtype : str; c_cells : list (option Z) }.
Definition frame := list column.
Inductive flag := FAll | FNone | FList (l : list str).
Record dopts := { d_data : flag; d_types : flag; d_order : flag; d_extra : flag; d_level : Z }.
   (* d_level: 0 strict, 1 medium, 2 permissive *)

Definition names (f : frame) : list str := map c_name f.
Definition resolve (fl : flag) (f : frame) : list str :=
  match fl with FAll => names f | FNone => [] | FList l => l end.

Fixpoint lookup (f : frame) (n : str) : option column :=
  match f with
  | [] => None
  | c :: f' => if str_eqb (c_name c) n then Some c else lookup f' n
  end.
Definition has (f : frame) (n : str) : bool := mem_str n (names f).

(* replace_cats: categorical columns are compared as strings *)
Definition s_category : str := [99; 97; 116; 101; 103; 111; 114; 121].
Definition s_string : str := [115; 116; 114; 105; 110; 103].
Definition s_object : str := [111; 98; 106; 101; 99; 116].
Definition s_boolean : str := [98; 111; 111; 108; 101; 97; 110].
Definition s_bool : str := [98; 111; 111; 108].
Definition s_datetime : str := [100; 97; 116; 101; 116; 105; 109; 101].
Definition s_int : str := [105; 110; 116].
Definition s_float : str := [102; 108; 111; 97; 116].
Definition eff_dtype (c : column) : str := if str_eqb (c_dtype c) s_category then s_string else c_dtype c.

(* loosen_type: drop digits, lower-case, cut at '[' , boolean -> bool *)
Definition lower (c : Z) : Z := if Z.leb 65 c && Z.leb c 90 then c + 32 else c.
Fixpoint cut_bracket (s : str) : str :=
  match s with [] => [] | c :: s' => if Z.eqb c 91 then [] else c :: cut_bracket s' end.
Definition loosen_type (py_isdigit : Z -> bool) (t : str) : str :=
  let name := cut_bracket (map lower (filter (fun c => negb (py_isdigit c)) t)) in
  if str_eqb name s_boolean then s_bool else name.

Definition types_match (py_isdigit : Z -> bool) (level : Z) (t1 t2 : str) : bool :=
  if Z.eqb level 0 || str_eqb t1 t2 then str_eqb t1 t2 else
  let l1 := loosen_type py_isdigit t1 in let l2 := loosen_type py_isdigit t2 in
  let object_types := [s_string; s_boolean; s_datetime; s_bool] in
  if str_eqb l1 l2 || (str_eqb l1 s_object && mem_str l2 object_types) || (str_eqb l2 s_object && mem_str l1 object_types)
  then true
  else let numeric := [s_bool; s_boolean; s_int; s_float] in
       Z.eqb level 2 && mem_str l1 numeric && mem_str l2 numeric.

(* cells differ unless equal tokens or both null *)
Definition cell_differs (a b : option Z) : bool :=
  match a, b with
  | None, None => false
  | Some x, Some y => negb (Z.eqb x y)
  | _, _ => true
  end.
Fixpoint count_diffs (a b : list (option Z)) : Z :=
  match a, b with
  | x :: a', y :: b' => (if cell_differs x y then 1 else 0) + count_diffs a' b'
  | _, _ => 0
  end.

Definition nrows (f : frame) : nat := match f with [] => O | c :: _ => length (c_cells c) end.

Record verdict := {
  v_same : bool;
  v_missing : list str; v_extra : list str; v_wrong_types : list str; v_wrong_order : bool;
  v_rows_differ : bool; v_absent_data : list str; v_ndiff : Z }.

Inductive outcome := Done (v : verdict) | KeyErr.

Definition is_nil_s (l : list str) : bool := match l with [] => true | _ => false end.

Fixpoint strs_eqb (a b : list str) : bool :=
  match a, b with
  | [], [] => true
  | x :: a', y :: b' => str_eqb x y && strs_eqb a' b'
  | _, _ => false
  end.

Fixpoint dedup_strs (l : list str) : list str :=
  match l with [] => [] | x :: l' => if mem_str x l' then dedup_strs l' else x :: dedup_strs l' end.

Definition check_dataframe (py_isdigit : Z -> bool) (o : dopts) (df ref : frame) : outcome :=
  let check_types := resolve (d_types o) ref in
  let check_extra := resolve (d_extra o) df in
  let missing := filter (fun c => negb (has df c)) check_types in
  (* ref_df[c] for a type-checked column the actual frame has *)
  if existsb (fun c => has df c && negb (has ref c)) check_types then KeyErr else
  let wrong_types := filter (fun c => match lookup df c, lookup ref c with
                                      | Some a, Some r => negb (types_match py_isdigit (d_level o) (eff_dtype a) (eff_dtype r))
                                      | _, _ => false end) check_types in
  let extra := filter (fun c => has df c && negb (has ref c)) (dedup_strs check_extra) in
  let wrong_order :=
    match d_order o with
    | FNone => false
    | _ => if is_nil_s missing then
             let co := resolve (d_order o) ref in
             let order1 := filter (fun c => mem_str c co && has ref c) (names df) in
             let order2 := filter (fun c => mem_str c co && has df c) (names ref) in
             negb (strs_eqb order1 order2)
           else false
    end in
  let same0 := is_nil_s missing && is_nil_s extra && is_nil_s wrong_types && negb wrong_order in
  let rows_differ := negb (Nat.eqb (nrows df) (nrows ref)) in
  let base := {| v_same := false; v_missing := missing; v_extra := extra; v_wrong_types := wrong_types;
                 v_wrong_order := wrong_order; v_rows_differ := rows_differ; v_absent_data := []; v_ndiff := 0 |} in
  if negb same0 || rows_differ then Done base else
  let check_data := resolve (d_data o) ref in
  match check_data with
  | [] => Done {| v_same := true; v_missing := missing; v_extra := extra; v_wrong_types := wrong_types;
                  v_wrong_order := wrong_order; v_rows_differ := false; v_absent_data := []; v_ndiff := 0 |}
  | _ =>
    let cols := filter (fun c => negb (mem_str c missing)) check_data in
    let absent := filter (fun c => negb (has df c)) cols in
    match absent with
    | _ :: _ => Done {| v_same := false; v_missing := missing; v_extra := extra; v_wrong_types := wrong_types;
                        v_wrong_order := wrong_order; v_rows_differ := false; v_absent_data := absent; v_ndiff := 0 |}
    | [] =>
      if existsb (fun c => negb (has ref c)) cols then KeyErr else
      let nd := fold_right Z.add 0
                  (map (fun c => match lookup df c, lookup ref c with
                                 | Some a, Some r => count_diffs (c_cells a) (c_cells r)
                                 | _, _ => 0 end) cols) in
      Done {| v_same := Z.eqb nd 0; v_missing := missing; v_extra := extra; v_wrong_types := wrong_types;
              v_wrong_order := wrong_order; v_rows_differ := false; v_absent_data := []; v_ndiff := nd |}
    end
  end.

(* ---------------------------------------------------------------- wire *)
Definition sx_cell (s : sexp) : option Z := sx_opt sx_Z s.
Definition sx_column (s : sexp) : column :=
  {| c_name := sx_str (sx_nth 0 s); c_dtype := sx_str (sx_nth 1 s); c_cells := map sx_cell (sx_list (sx_nth 2 s)) |}.
Definition sx_flag (s : sexp) : flag :=
  match sx_Z (sx_nth 0 s) with 0 => FAll | 1 => FNone | _ => FList (sx_strs (sx_nth 1 s)) end.
Definition sx_dopts (s : sexp) : dopts :=
  {| d_data := sx_flag (sx_nth 0 s); d_types := sx_flag (sx_nth 1 s); d_order := sx_flag (sx_nth 2 s);
     d_extra := sx_flag (sx_nth 3 s); d_level := sx_Z (sx_nth 4 s) |}.

Definition is_09_ascii (c : Z) : bool := Z.leb 48 c && Z.leb c 57.
(* (opts df ref) -> (0 same missing extra wrong_types wrong_order rows_differ absent ndiff) | (1) *)
Definition framecmp_entry (s : sexp) : sexp :=
  let o := sx_dopts (sx_nth 0 s) in
  let df := map sx_column (sx_list (sx_nth 1 s)) in
  let ref := map sx_column (sx_list (sx_nth 2 s)) in
  match check_dataframe is_09_ascii o df ref with
  | KeyErr => L [A 1]
  | Done v => L [A 0; of_bool (v_same v); of_strs (v_missing v); of_strs (v_extra v); of_strs (v_wrong_types v);
                 of_bool (v_wrong_order v); of_bool (v_rows_differ v); of_strs (v_absent_data v); A (v_ndiff v)]
  end.
(* (level t1 t2) -> types_match *)
Definition typesmatch_entry (s : sexp) : sexp :=
  of_bool (types_match is_09_ascii (sx_Z (sx_nth 0 s)) (sx_str (sx_nth 1 s)) (sx_str (sx_nth 2 s))).
