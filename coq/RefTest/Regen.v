(* C10: regeneration table, reference writers and assertions as a state machine. *)
From Coq Require Import ZArith List Bool.
From Tdda Require Import Base.Sexp Base.Str RefTest.Argv RefTest.CheckStrings RefTest.Artefacts.
Import ListNotations.
Open Scope Z_scope.

Definition kind := option str.                    (* None = the "all kinds" key *)
Definition kind_eqb (a b : kind) : bool :=
  match a, b with
  | None, None => true
  | Some x, Some y => str_eqb x y
  | _, _ => false
  end.

(* the shared class-level dictionary ReferenceTest.regenerate *)
Definition table := list (kind * bool).

Fixpoint tlookup (k : kind) (t : table) : option bool :=
  match t with
  | [] => None
  | (k', b) :: t' => if kind_eqb k k' then Some b else tlookup k t'
  end.

Fixpoint tset (k : kind) (b : bool) (t : table) : table :=
  match t with
  | [] => [(k, b)]
  | (k', b') :: t' => if kind_eqb k k' then (k, b) :: t' else (k', b') :: tset k b t'
  end.

(* _should_regenerate: a kind absent from the table falls back to the None entry *)
Definition should_regenerate (t : table) (k : kind) : bool :=
  let k' := match tlookup k t with Some _ => k | None => None end in
  match tlookup k' t with Some b => b | None => false end.

(* file system: path -> content (text as code points, binary as bytes) *)
Definition fs := list (str * str).
Fixpoint fread (p : str) (f : fs) : option str :=
  match f with
  | [] => None
  | (q, c) :: f' => if str_eqb p q then Some c else fread p f'
  end.
Fixpoint fwrite (p : str) (c : str) (f : fs) : fs :=
  match f with
  | [] => [(p, c)]
  | (q, c') :: f' => if str_eqb p q then (p, c) :: f' else (q, c') :: fwrite p c f'
  end.

Record state := { st_table : table; st_quiet : bool; st_fs : fs }.

Inductive outcome := Passed | Failed | Regenerated | Raised.

Inductive op :=
| SetRegen (k : kind) (b : bool)
| ParseArgv (argv : list str)
| AssertString (k : kind) (o : opts) (orc : poracle) (actual : str) (ref : str)
| AssertTextFile (k : kind) (o : opts) (orc : poracle) (actual_path : str) (ref : str)
| AssertBinaryFile (k : kind) (actual_path : str) (ref : str).

Definition with_table (s : state) (t : table) : state :=
  {| st_table := t; st_quiet := st_quiet s; st_fs := st_fs s |}.
Definition with_fs (s : state) (f : fs) : state :=
  {| st_table := st_table s; st_quiet := st_quiet s; st_fs := f |}.

Definition verdict_outcome (v : verdict) : outcome :=
  match v with Pass => Passed | Fail => Failed | Diverge => Raised end.

Definition step (s : state) (x : op) : state * outcome :=
  match x with
  | SetRegen k b => (with_table s (tset k b (st_table s)), Passed)
  | ParseArgv argv =>
    match set_flags argv with
    | None => (s, Raised)
    | Some r =>
      ({| st_table := fold_left (fun t k => tset k true t) (ar_kinds r) (st_table s);
          st_quiet := st_quiet s || ar_quiet r; st_fs := st_fs s |}, Passed)
    end
  | AssertString k o orc actual ref =>
    if should_regenerate (st_table s) k then (with_fs s (fwrite ref actual (st_fs s)), Regenerated)
    else match fread ref (st_fs s) with
         | None => (s, Failed)
         | Some c => (s, verdict_outcome (r_verdict (check_string_against_file o orc actual c)))
         end
  | AssertTextFile k o orc ap ref =>
    if should_regenerate (st_table s) k then
      match fread ap (st_fs s) with
      | None => (s, Raised)
      | Some c => (with_fs s (fwrite ref (univ_nl c) (st_fs s)), Regenerated)   (* read in text mode, written back *)
      end
    else match fread ref (st_fs s), fread ap (st_fs s) with
         | Some c, Some a => (s, verdict_outcome (r_verdict (check_file o orc a c)))
         | _, _ => (s, Failed)
         end
  | AssertBinaryFile k ap ref =>
    if should_regenerate (st_table s) k then
      match fread ap (st_fs s) with
      | None => (s, Raised)
      | Some c => (with_fs s (fwrite ref c (st_fs s)), Regenerated)
      end
    else match fread ref (st_fs s), fread ap (st_fs s) with
         | Some c, Some a => (s, match check_binary a c with None => Passed | Some _ => Failed end)
         | _, _ => (s, Failed)
         end
  end.

Definition run (s : state) (ops : list op) : state := fold_left (fun st x => fst (step st x)) ops s.

(* wire: ops arrive as tagged lists; oracle-free (no ignore_patterns) for the history layer *)
Definition sx_kind (s : sexp) : kind := sx_opt sx_str s.
Definition plain_opts : opts :=
  {| o_lstrip := false; o_rstrip := false; o_isub := []; o_npat := O; o_rem := [];
     o_maxperm := O; o_preproc := false; o_apath := false |}.
Definition sx_op (s : sexp) : op :=
  match sx_Z (sx_nth 0 s) with
  | 0 => SetRegen (sx_kind (sx_nth 1 s)) (sx_bool (sx_nth 2 s))
  | 1 => ParseArgv (sx_strs (sx_nth 1 s))
  | 2 => AssertString (sx_kind (sx_nth 1 s)) (sx_opts (sx_nth 2 s)) [] (sx_str (sx_nth 3 s)) (sx_str (sx_nth 4 s))
  | 3 => AssertTextFile (sx_kind (sx_nth 1 s)) (sx_opts (sx_nth 2 s)) [] (sx_str (sx_nth 3 s)) (sx_str (sx_nth 4 s))
  | _ => AssertBinaryFile (sx_kind (sx_nth 1 s)) (sx_str (sx_nth 2 s)) (sx_str (sx_nth 3 s))
  end.

Definition of_outcome (x : outcome) : sexp :=
  A (match x with Passed => 0 | Failed => 1 | Regenerated => 2 | Raised => 3 end).

Fixpoint run_trace (s : state) (ops : list op) : list outcome * state :=
  match ops with
  | [] => ([], s)
  | x :: r => let '(s', oc) := step s x in
              let '(ocs, sf) := run_trace s' r in (oc :: ocs, sf)
  end.

(* payload: (initial fs, ops) -> (outcomes, final fs, final table) *)
Definition regen_entry (s : sexp) : sexp :=
  let f0 := map (fun e => (sx_str (sx_nth 0 e), sx_str (sx_nth 1 e))) (sx_list (sx_nth 0 s)) in
  let '(ocs, sf) := run_trace {| st_table := []; st_quiet := false; st_fs := f0 |}
                              (map sx_op (sx_list (sx_nth 1 s))) in
  L [ L (map of_outcome ocs);
      L (map (fun e => L [of_str (fst e); of_str (snd e)]) (st_fs sf));
      L (map (fun e => L [of_opt of_str (fst e); of_bool (snd e)]) (st_table sf));
      of_bool (st_quiet sf) ].
