(* Proofs about the argv scanner model (C19, C10). *)
From Coq Require Import ZArith List Bool Lia Arith.
From Tdda Require Import Base.Sexp Base.Str Generated.Consts RefTest.Argv.
Import ListNotations.
Open Scope Z_scope.

Definition neq_flag (f : str) : str -> bool := fun a => negb (str_eqb f a).
Definition occurrences (f : str) (l : list str) : nat := length (filter (str_eqb f) l).
Definition not_in (flags : list str) : str -> bool := fun a => negb (mem_str a flags).

Lemma mem_str_false_filter f l :
  mem_str f l = false -> filter (neq_flag f) l = l.
Proof.
  induction l as [|y l IH]; simpl; [reflexivity|].
  intro H. apply orb_false_iff in H as [H1 H2]. unfold neq_flag at 1. rewrite H1. simpl.
  f_equal. exact (IH H2).
Qed.

Lemma index_none_mem f l : index_str f l = None <-> mem_str f l = false.
Proof.
  induction l as [|y l IH]; simpl; [tauto|].
  destruct (str_eqb f y); simpl; [split; discriminate|].
  destruct (index_str f l); [split; [discriminate|]|tauto].
  intro H. apply IH in H. discriminate.
Qed.

Lemma index_some_mem f l i : index_str f l = Some i -> mem_str f l = true.
Proof.
  intro H. destruct (mem_str f l) eqn:E; [reflexivity|].
  apply index_none_mem in E. congruence.
Qed.

Lemma occ_zero_mem f l : occurrences f l = O -> mem_str f l = false.
Proof.
  unfold occurrences. induction l as [|y l IH]; simpl; [reflexivity|].
  destruct (str_eqb f y); simpl; [discriminate|]. exact IH.
Qed.

Lemma remove_at_cons {T} n (y : T) l : remove_at (S n) (y :: l) = y :: remove_at n l.
Proof. reflexivity. Qed.

Lemma index_some_filter f l : forall i,
  index_str f l = Some i -> (occurrences f l <= 1)%nat ->
  remove_at i l = filter (neq_flag f) l.
Proof.
  unfold occurrences. induction l as [|y l IH]; simpl; intros i Hi Hocc; [discriminate|].
  unfold neq_flag at 1. destruct (str_eqb f y) eqn:E; simpl in *.
  - inversion Hi; subst. unfold remove_at; simpl.
    symmetry. apply mem_str_false_filter. apply occ_zero_mem. unfold occurrences. lia.
  - destruct (index_str f l) as [n|] eqn:En; [|discriminate]. inversion Hi; subst.
    rewrite remove_at_cons. f_equal. apply IH; auto.
Qed.

Lemma filter_occ_le f g l : (occurrences f (filter g l) <= occurrences f l)%nat.
Proof.
  unfold occurrences. induction l as [|y l IH]; simpl; [lia|].
  destruct (g y); simpl; destruct (str_eqb f y); simpl; lia.
Qed.

Lemma mem_filter_neq f g l : str_eqb f g = false -> mem_str f (filter (neq_flag g) l) = mem_str f l.
Proof.
  intro Hfg. induction l as [|y l IH]; simpl; [reflexivity|].
  unfold neq_flag at 1. destruct (str_eqb g y) eqn:E; simpl.
  - apply str_eqb_eq in E. subst y. rewrite Hfg. simpl. exact IH.
  - rewrite IH. reflexivity.
Qed.

Lemma mem_filter_same f l : mem_str f (filter (neq_flag f) l) = false.
Proof.
  induction l as [|y l IH]; simpl; [reflexivity|].
  unfold neq_flag at 1. destruct (str_eqb f y) eqn:E; simpl; [exact IH|].
  rewrite E. exact IH.
Qed.

Lemma filter_filter {T} (f g : T -> bool) l :
  filter f (filter g l) = filter (fun x => g x && f x) l.
Proof.
  induction l as [|y l IH]; simpl; [reflexivity|].
  destruct (g y); simpl; [destruct (f y); simpl; [f_equal|]; exact IH | exact IH].
Qed.

Lemma filter_ext_all {T} (f g : T -> bool) l : (forall x, f x = g x) -> filter f l = filter g l.
Proof. intro H. induction l as [|y l IH]; simpl; [reflexivity|]. rewrite H, IH. reflexivity. Qed.

Lemma filter_all_true {T} (f : T -> bool) l : (forall x, f x = true) -> filter f l = l.
Proof. intro H. induction l as [|y l IH]; simpl; [reflexivity|]. rewrite H, IH. reflexivity. Qed.

(* removing the unique occurrence (if any) of a flag, found by index, is a filter *)
Lemma drop_by_index f l :
  (occurrences f l <= 1)%nat ->
  match index_str f l with Some i => remove_at i l | None => l end = filter (neq_flag f) l.
Proof.
  intro H. destruct (index_str f l) as [i|] eqn:E.
  - apply index_some_filter; assumption.
  - symmetry. apply mem_str_false_filter. apply index_none_mem. exact E.
Qed.

Lemma index_head_neq f p l :
  str_eqb f p = false ->
  index_str f (p :: l) = match index_str f l with Some n => Some (S n) | None => None end.
Proof. intro H. simpl. rewrite H. reflexivity. Qed.

Lemma str_eqb_sym a b : str_eqb a b = str_eqb b a.
Proof.
  destruct (str_eqb a b) eqn:E.
  - apply str_eqb_eq in E. subst. symmetry. apply str_eqb_refl.
  - symmetry. apply str_eqb_neq. apply str_eqb_neq in E. congruence.
Qed.

Definition any_in (flags : list str) (argv : list str) : bool :=
  existsb (fun a => mem_str a flags) argv.

Lemma any_in_cons f flags argv :
  any_in (f :: flags) argv = mem_str f argv || any_in flags (filter (neq_flag f) argv).
Proof.
  unfold any_in. induction argv as [|a l IH]; [reflexivity|].
  cbn [existsb filter]. rewrite IH.
  change (mem_str a (f :: flags)) with (str_eqb a f || mem_str a flags).
  change (mem_str f (a :: l)) with (str_eqb f a || mem_str f l).
  unfold neq_flag at 2. rewrite (str_eqb_sym a f).
  destruct (str_eqb f a); cbn [negb orb existsb]; [reflexivity|].
  destruct (mem_str a flags), (mem_str f l); reflexivity.
Qed.

Lemma not_in_cons f flags l :
  filter (not_in flags) (filter (neq_flag f) l) = filter (not_in (f :: flags)) l.
Proof.
  rewrite filter_filter. apply filter_ext_all. intro x. unfold neq_flag, not_in. simpl.
  rewrite (str_eqb_sym x f). destruct (str_eqb f x); reflexivity.
Qed.

(* ---------------------------------------------------------------- quiet flags *)

Lemma drop_quiet_spec f argv q :
  (occurrences f argv <= 1)%nat ->
  drop_quiet f (argv, q) = (filter (neq_flag f) argv, q || mem_str f argv).
Proof.
  intro H. unfold drop_quiet. simpl. pose proof (drop_by_index f argv H) as Hd.
  destruct (index_str f argv) as [i|] eqn:Ei.
  - rewrite Hd, (index_some_mem _ _ _ Ei), orb_true_r. reflexivity.
  - apply index_none_mem in Ei. rewrite Ei, orb_false_r, <- Hd. reflexivity.
Qed.

Lemma drop_quiets_spec flags : forall argv q,
  (forall f, In f flags -> (occurrences f argv <= 1)%nat) ->
  fold_left (fun st f => drop_quiet f st) flags (argv, q) =
  (filter (not_in flags) argv, q || any_in flags argv).
Proof.
  induction flags as [|f flags IH]; intros argv q Hocc; simpl.
  - unfold any_in. f_equal.
    + symmetry. apply filter_all_true. reflexivity.
    + clear Hocc. induction argv as [|a l IHl]; simpl; [rewrite orb_false_r; reflexivity | exact IHl].
  - rewrite drop_quiet_spec by (apply Hocc; left; reflexivity).
    rewrite IH.
    + rewrite not_in_cons, any_in_cons, orb_assoc. reflexivity.
    + intros g Hg. eapply Nat.le_trans; [apply filter_occ_le|]. apply Hocc. right; exact Hg.
Qed.

(* ---------------------------------------------------------------- counting *)

Definition count_in (flags : list str) (l : list str) : nat :=
  length (filter (fun a => mem_str a flags) l).

Lemma count_in_cons f flags l :
  count_in (f :: flags) l = (occurrences f l + count_in flags (filter (neq_flag f) l))%nat.
Proof.
  unfold count_in, occurrences. induction l as [|a l IH]; [reflexivity|].
  cbn [filter]. change (mem_str a (f :: flags)) with (str_eqb a f || mem_str a flags).
  rewrite (str_eqb_sym a f).
  assert (Hn : neq_flag f a = negb (str_eqb f a)) by reflexivity. rewrite Hn.
  destruct (str_eqb f a); cbn [orb negb length filter].
  - rewrite IH. reflexivity.
  - destruct (mem_str a flags); cbn [length]; rewrite IH; lia.
Qed.

Lemma mem_occ_pos f l : mem_str f l = true -> (1 <= occurrences f l)%nat.
Proof.
  unfold occurrences. induction l as [|a l IH]; simpl; [discriminate|].
  destruct (str_eqb f a); simpl; [lia|]. exact IH.
Qed.

Lemma count_zero_filter flags l : count_in flags l = O -> filter (not_in flags) l = l.
Proof.
  unfold count_in, not_in. induction l as [|a l IH]; simpl; [reflexivity|].
  destruct (mem_str a flags); simpl; [discriminate|]. intro H. f_equal. exact (IH H).
Qed.

Lemma count_zero_any flags l : count_in flags l = O -> any_in flags l = false.
Proof.
  unfold count_in, any_in. induction l as [|a l IH]; simpl; [reflexivity|].
  destruct (mem_str a flags); simpl; [discriminate|]. exact IH.
Qed.

Lemma any_false_count flags l : any_in flags l = false -> count_in flags l = O.
Proof.
  unfold count_in, any_in. induction l as [|a l IH]; simpl; [reflexivity|].
  destruct (mem_str a flags); simpl; [discriminate|]. exact IH.
Qed.

Lemma count_in_filter_le flags g l : (count_in flags (filter g l) <= count_in flags l)%nat.
Proof.
  unfold count_in. induction l as [|a l IH]; simpl; [lia|].
  destruct (g a); simpl; destruct (mem_str a flags); simpl; lia.
Qed.

Lemma any_in_filter_false flags g l : any_in flags l = false -> any_in flags (filter g l) = false.
Proof.
  intro H. apply count_zero_any. apply any_false_count in H.
  pose proof (count_in_filter_le flags g l). lia.
Qed.

Lemma occ_cons_neq f p l : str_eqb f p = false -> occurrences f (p :: l) = occurrences f l.
Proof. unfold occurrences. simpl. intros ->. reflexivity. Qed.

Lemma not_in_str_eqb f flags p : In f flags -> not_in flags p = true -> str_eqb f p = false.
Proof.
  unfold not_in. intros Hin H. apply negb_true_iff in H.
  apply str_eqb_neq. intro E. subst p. apply mem_str_In in Hin. congruence.
Qed.

(* ---------------------------------------------------------------- --W / --write-all *)

Lemma drop_writeall_spec flags : forall p l,
  not_in flags p = true ->
  (count_in flags l <= 1)%nat ->
  drop_writeall flags (p :: l) = (p :: filter (not_in flags) l, any_in flags l).
Proof.
  induction flags as [|f flags IH]; intros p l Hp Hc.
  - simpl. f_equal; [f_equal; symmetry; apply filter_all_true; reflexivity|].
    unfold any_in. induction l as [|a l IHl]; simpl; auto.
  - assert (Hfp : str_eqb f p = false) by (apply (not_in_str_eqb f (f :: flags) p); [left; reflexivity|exact Hp]).
    assert (Hp' : not_in flags p = true).
    { unfold not_in in *. simpl in Hp. apply negb_true_iff in Hp. apply orb_false_iff in Hp as [_ Hp].
      rewrite Hp. reflexivity. }
    rewrite count_in_cons in Hc.
    cbn [drop_writeall]. rewrite (index_head_neq f p l Hfp).
    destruct (index_str f l) as [i|] eqn:Ei.
    + rewrite remove_at_cons.
      pose proof (index_some_mem _ _ _ Ei) as Hm. pose proof (mem_occ_pos _ _ Hm) as Hpos.
      rewrite (index_some_filter f l i Ei) by lia.
      rewrite <- not_in_cons, any_in_cons, Hm. cbn [orb].
      rewrite count_zero_filter by lia. reflexivity.
    + apply index_none_mem in Ei.
      rewrite IH; [|exact Hp'|].
      * rewrite <- not_in_cons, any_in_cons, Ei, (mem_str_false_filter f l Ei). reflexivity.
      * rewrite (mem_str_false_filter f l Ei) in Hc. lia.
Qed.

(* ---------------------------------------------------------------- -w / --w / --write absent *)

Lemma drop_write_absent flags : forall argv,
  any_in flags argv = false -> drop_write flags argv = WOk argv [].
Proof.
  induction flags as [|f flags IH]; intros argv H; [reflexivity|].
  rewrite any_in_cons in H. apply orb_false_iff in H as [H1 H2].
  cbn [drop_write]. apply index_none_mem in H1. rewrite H1.
  apply IH. apply index_none_mem in H1. rewrite (mem_str_false_filter f argv H1) in H2. exact H2.
Qed.

(* ---------------------------------------------------------------- --tagged / --istagged *)

Lemma drop_tag_spec f p l t c :
  str_eqb f p = false -> (occurrences f l <= 1)%nat ->
  drop_tag (p :: l, t, c) f =
  (p :: filter (neq_flag f) l,
   t || (mem_str f l && negb (mem_str f argv_check_options)),
   c || (mem_str f l && mem_str f argv_check_options)).
Proof.
  intros Hfp Hocc. unfold drop_tag. rewrite (index_head_neq f p l Hfp).
  destruct (index_str f l) as [i|] eqn:Ei.
  - rewrite remove_at_cons, (index_some_filter f l i Ei Hocc), (index_some_mem _ _ _ Ei).
    destruct (mem_str f argv_check_options); cbn [andb negb orb];
      rewrite ?orb_true_r, ?orb_false_r; reflexivity.
  - apply index_none_mem in Ei. rewrite Ei, (mem_str_false_filter f l Ei).
    cbn [andb]. rewrite !orb_false_r. reflexivity.
Qed.

(* ---------------------------------------------------------------- the scanner specification *)

Definition s_tagged : str := [45;45;116;97;103;103;101;100].
Definition s_istagged : str := [45;45;105;115;116;97;103;103;101;100].

Lemma tag_flags_pin : argv_tag_flags = [s_tagged; s_istagged].
Proof. reflexivity. Qed.
Lemma tagged_not_check : mem_str s_tagged argv_check_options = false.
Proof. reflexivity. Qed.
Lemma istagged_check : mem_str s_istagged argv_check_options = true.
Proof. reflexivity. Qed.

Definition scanned (rest : list str) : list str := filter is_nonempty (map scan_arg rest).
Definition long_flags : list str := argv_quiet_flags ++ argv_writeall_flags ++ argv_tag_flags.

(* The command lines the property speaks about: a real program name; each long tdda
   flag at most once (at most one of --W/--write-all); no -w/--w/--write (see write_spec). *)
Definition in_domain (prog : str) (rest : list str) : bool :=
  is_nonempty prog &&
  not_in (long_flags ++ argv_write_flags) prog &&
  forallb (fun f => Nat.leb (occurrences f (scanned rest)) 1) (argv_quiet_flags ++ argv_tag_flags) &&
  Nat.leb (count_in argv_writeall_flags (scanned rest)) 1 &&
  negb (any_in argv_write_flags (scanned rest)).

Definition spec_result (prog : str) (rest : list str) : argv_result :=
  let singles := filter is_single_dash rest in
  {| ar_argv := prog :: filter (not_in long_flags) (scanned rest);
     ar_tagged := existsb (has_char c1) singles || mem_str s_tagged (scanned rest);
     ar_check := existsb (has_char c0) singles || mem_str s_istagged (scanned rest);
     ar_kinds := if existsb (has_char cW) singles || any_in argv_writeall_flags (scanned rest)
                 then [None] else [];
     ar_quiet := any_in argv_quiet_flags (scanned rest) |}.

Lemma mem_str_app x a b : mem_str x (a ++ b) = mem_str x a || mem_str x b.
Proof. induction a as [|y a IH]; simpl; [reflexivity|]. rewrite IH, orb_assoc. reflexivity. Qed.

Lemma not_in_app a b x : not_in (a ++ b) x = not_in a x && not_in b x.
Proof. unfold not_in. rewrite mem_str_app, negb_orb. reflexivity. Qed.

Lemma filter_not_in_app a b l :
  filter (not_in b) (filter (not_in a) l) = filter (not_in (a ++ b)) l.
Proof.
  rewrite filter_filter. apply filter_ext_all. intro x. rewrite not_in_app. reflexivity.
Qed.

Lemma forallb_app_l {T} (f : T -> bool) a b : forallb f (a ++ b) = true -> forallb f a = true.
Proof. rewrite forallb_app. intro H. apply andb_true_iff in H. tauto. Qed.
Lemma forallb_app_r {T} (f : T -> bool) a b : forallb f (a ++ b) = true -> forallb f b = true.
Proof. rewrite forallb_app. intro H. apply andb_true_iff in H. tauto. Qed.

Lemma mem_filter_not_in f flags l :
  mem_str f flags = false -> mem_str f (filter (not_in flags) l) = mem_str f l.
Proof.
  intro H. induction l as [|a l IH]; [reflexivity|]. cbn [filter].
  destruct (not_in flags a) eqn:E; cbn [mem_str]; rewrite IH; [reflexivity|].
  destruct (str_eqb f a) eqn:Efa; [|reflexivity].
  apply str_eqb_eq in Efa. subst a. unfold not_in in E. rewrite H in E. discriminate.
Qed.

Lemma any_in_filter_disjoint A B l :
  forallb (fun a => negb (mem_str a B)) A = true ->
  any_in A (filter (not_in B) l) = any_in A l.
Proof.
  intro H. rewrite forallb_forall in H. unfold any_in.
  induction l as [|a l IH]; [reflexivity|]. cbn [filter existsb].
  destruct (not_in B a) eqn:E; cbn [existsb]; rewrite IH; [reflexivity|].
  destruct (mem_str a A) eqn:EA; [|reflexivity].
  apply mem_str_In in EA. apply H in EA. unfold not_in in E. rewrite EA in E. discriminate.
Qed.

Lemma neq_flag_not_in f l : filter (neq_flag f) l = filter (not_in [f]) l.
Proof.
  apply filter_ext_all. intro x. unfold neq_flag, not_in. cbn [mem_str].
  rewrite orb_false_r, str_eqb_sym. reflexivity.
Qed.

Theorem strip_spec_proof prog rest :
  in_domain prog rest = true ->
  set_flags (prog :: rest) = Some (spec_result prog rest).
Proof.
  intro H. unfold in_domain in H.
  apply andb_true_iff in H as [H Hw]. apply andb_true_iff in H as [H Hcnt].
  apply andb_true_iff in H as [H Hocc]. apply andb_true_iff in H as [Hne Hprog].
  apply negb_true_iff in Hw. apply Nat.leb_le in Hcnt.
  rewrite not_in_app in Hprog. apply andb_true_iff in Hprog as [Hlong Hpw].
  unfold long_flags in Hlong. rewrite !not_in_app in Hlong.
  apply andb_true_iff in Hlong as [Hpq Hlong]. apply andb_true_iff in Hlong as [Hpwa Hpt].
  pose proof (forallb_app_l _ _ _ Hocc) as Hoq. pose proof (forallb_app_r _ _ _ Hocc) as Hot.
  rewrite forallb_forall in Hoq, Hot.
  unfold set_flags. cbn [tl filter]. rewrite Hne. fold (scanned rest).
  (* quiet flags *)
  rewrite drop_quiets_spec.
  2:{ intros f Hf. rewrite occ_cons_neq by (eapply not_in_str_eqb; eauto).
      apply Nat.leb_le. apply Hoq. exact Hf. }
  cbn [filter any_in existsb]. rewrite Hpq.
  assert (Hq0 : mem_str prog argv_quiet_flags = false)
    by (unfold not_in in Hpq; apply negb_true_iff in Hpq; exact Hpq).
  rewrite Hq0. cbn [orb].
  (* --W / --write-all *)
  rewrite drop_writeall_spec; [|exact Hpwa|].
  2:{ eapply Nat.le_trans; [apply count_in_filter_le|exact Hcnt]. }
  (* -w absent *)
  rewrite drop_write_absent.
  2:{ unfold any_in. cbn [existsb].
      assert (mem_str prog argv_write_flags = false) as ->
        by (unfold not_in in Hpw; apply negb_true_iff in Hpw; exact Hpw).
      cbn [orb]. apply any_in_filter_false. apply any_in_filter_false. exact Hw. }
  (* tag flags *)
  rewrite tag_flags_pin. cbn [fold_left].
  assert (Hts : In s_tagged argv_tag_flags) by (rewrite tag_flags_pin; left; reflexivity).
  assert (Hti : In s_istagged argv_tag_flags) by (rewrite tag_flags_pin; right; left; reflexivity).
  rewrite drop_tag_spec.
  2:{ eapply not_in_str_eqb; eauto. }
  2:{ eapply Nat.le_trans; [apply filter_occ_le|].
      eapply Nat.le_trans; [apply filter_occ_le|]. apply Nat.leb_le. apply Hot. exact Hts. }
  rewrite drop_tag_spec.
  2:{ eapply not_in_str_eqb; eauto. }
  2:{ eapply Nat.le_trans; [apply filter_occ_le|].
      eapply Nat.le_trans; [apply filter_occ_le|].
      eapply Nat.le_trans; [apply filter_occ_le|]. apply Nat.leb_le. apply Hot. exact Hti. }
  rewrite tagged_not_check, istagged_check. cbn [negb andb orb].
  rewrite !andb_true_r, !andb_false_r, !orb_false_r.
  unfold spec_result. f_equal. f_equal.
  - (* argv *)
    f_equal. unfold long_flags. rewrite <- !filter_not_in_app.
    rewrite tag_flags_pin.
    change [s_tagged; s_istagged] with ([s_tagged] ++ [s_istagged]).
    rewrite <- filter_not_in_app.
    rewrite !neq_flag_not_in. reflexivity.
  - (* tagged *)
    f_equal. rewrite !mem_filter_not_in by reflexivity. reflexivity.
  - (* check *)
    f_equal. rewrite mem_filter_neq by reflexivity.
    rewrite !mem_filter_not_in by reflexivity. reflexivity.
  - (* kinds *)
    rewrite (any_in_filter_disjoint argv_writeall_flags argv_quiet_flags) by reflexivity.
    reflexivity.
Qed.
