(* Model of tdda/referencetest/referencetestcase.py:_set_flags_from_argv
   (after the two C19 repairs: result stored at argv[i+1]; scan does not stop
   at the first non single-dash argument). *)
From Coq Require Import ZArith List Bool.
From Tdda Require Import Base.Sexp Base.Str Generated.Consts.
Import ListNotations.
Open Scope Z_scope.

Definition cW := argv_char_regen.  Definition c1 := argv_char_tagged.
Definition c0 := argv_char_check.
Definition cdash := 45.  Definition ccomma := 44.
Definition s_dash : str := [45].

Definition is_single_dash (a : str) : bool :=
  startswith [cdash] a && negb (startswith [cdash; cdash] a).

Definition has_char (c : Z) (a : str) : bool := existsb (Z.eqb c) a.

Definition is_tdda_char (c : Z) : bool := Z.eqb c cW || Z.eqb c c1 || Z.eqb c c0.

(* the argument after removing W, 1 and 0; "-" becomes "" *)
Definition strip_arg (a : str) : str :=
  let s := filter (fun c => negb (is_tdda_char c)) a in
  if str_eqb s s_dash then [] else s.

Definition scan_arg (a : str) : str := if is_single_dash a then strip_arg a else a.

Definition is_nonempty (a : str) : bool := match a with [] => false | _ => true end.

Definition remove_at {T} (idx : nat) (l : list T) : list T := firstn idx l ++ skipn (S idx) l.

Record argv_result := {
  ar_argv : list str;
  ar_tagged : bool;
  ar_check : bool;
  ar_kinds : list (option str);   (* set_regeneration calls, in order *)
  ar_quiet : bool
}.

(* for quietflag in (...): if quietflag in argv: remove at index *)
Definition drop_quiet (flag : str) (st : list str * bool) : list str * bool :=
  match index_str flag (fst st) with
  | Some idx => (remove_at idx (fst st), true)
  | None => st
  end.

(* for writeflag in ('--W','--write-all'): if in argv: idx; if idx: regen; remove; break *)
Fixpoint drop_writeall (flags : list str) (argv : list str) : list str * bool :=
  match flags with
  | [] => (argv, false)
  | f :: rest =>
    match index_str f argv with
    | Some (S i) => (remove_at (S i) argv, true)
    | _ => drop_writeall rest argv
    end
  end.

Inductive wres := WOk (argv : list str) (kinds : list str) | WRaise.

Fixpoint drop_write (flags : list str) (argv : list str) : wres :=
  match flags with
  | [] => WOk argv []
  | f :: rest =>
    match index_str f argv with
    | Some O => WOk [] []
    | Some (S i) =>
      if Nat.ltb (S i) (length argv - 1)
      then WOk (firstn (S i) argv)
               (flat_map (split_char ccomma) (skipn (S (S i)) argv))
      else WRaise
    | None => drop_write rest argv
    end
  end.

(* for option in ('--tagged','--istagged'): if in argv: idx; if idx: remove; set flag *)
Definition drop_tag (st : list str * bool * bool) (flag : str) : list str * bool * bool :=
  let '(argv, tagged, check) := st in
  match index_str flag argv with
  | Some (S i) =>
    if mem_str flag argv_check_options then (remove_at (S i) argv, tagged, true)
    else (remove_at (S i) argv, true, check)
  | _ => st
  end.

Definition set_flags (argv : list str) : option argv_result :=
  let rest := tl argv in
  let singles := filter is_single_dash rest in
  let regen1 := existsb (has_char cW) singles in
  let tagged1 := existsb (has_char c1) singles in
  let check1 := existsb (has_char c0) singles in
  let argv1 := match argv with
               | [] => []
               | p :: r => p :: map scan_arg r
               end in
  let argv2 := filter is_nonempty argv1 in
  let '(argv3, quiet) := fold_left (fun st f => drop_quiet f st) argv_quiet_flags (argv2, false) in
  let '(argv4, regen2) := drop_writeall argv_writeall_flags argv3 in
  match drop_write argv_write_flags argv4 with
  | WRaise => None
  | WOk argv5 kinds =>
    let '(argv7, tagged2, check2) := fold_left drop_tag argv_tag_flags (argv5, false, false) in
    Some {| ar_argv := argv7;
            ar_tagged := tagged1 || tagged2;
            ar_check := check1 || check2;
            ar_kinds := map Some kinds ++ (if regen1 || regen2 then [None] else []);
            ar_quiet := quiet |}
  end.

(* wire format *)
Definition argv_entry (s : sexp) : sexp :=
  match set_flags (sx_strs s) with
  | None => L []
  | Some r => L [ of_strs (ar_argv r); of_bool (ar_tagged r); of_bool (ar_check r);
                  L (map (of_opt of_str) (ar_kinds r)); of_bool (ar_quiet r) ]
  end.
